#!/bin/bash
# usage: scratch.sh <seed-or-patch> — scratch copy of /repo with the patch applied at /tmp/sc/<name>; prints the dir
cd "$(dirname "$0")/.."
p=$1; [ -f "$p" ] || p=seeded/$1/patch.diff
n=$(basename $(dirname $p)); d=/tmp/sc/$n
rm -rf $d; mkdir -p $d; rsync -a --exclude .git /repo/ $d/
git -C $d init -q . 2>/dev/null; git -C $d apply --whitespace=nowarn "$(realpath $p)" || exit 2
echo $d

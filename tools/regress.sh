#!/bin/bash
# usage: regress.sh <tag> — the full regression of the checker itself: the medium, small and big corpora of behaviour-
# preserving changes (every report is a false alarm) and the catalogue of breaking changes (every miss is a gap).
# Results in /tmp/r9/reg_<kind><tag>.{txt,json}; the last line of reg_benign<tag>.txt is DONE.
cd "$(dirname "$0")/.."; . ./env.sh >/dev/null 2>&1
t=$1; o=/tmp/r9; mkdir -p $o
python3 tools/corpus_eval.py --props all -j 8 --out $o/reg_medium$t.json benign-medium/*/*.diff > $o/reg_medium$t.txt 2>&1
bin/mcpcheck -property all -mutants > $o/reg_mutants_full$t.txt 2>&1; grep -E "mutants,|missed$" $o/reg_mutants_full$t.txt > $o/reg_mutants$t.txt
python3 tools/corpus_eval.py --props all -j 8 --out $o/reg_small$t.json benign-small/*/*.diff > $o/reg_small$t.txt 2>&1
python3 tools/corpus_eval.py --props all -j 8 --out $o/reg_benign$t.json benign/*/*.diff > $o/reg_benign$t.txt 2>&1
python3 tools/corpus_eval.py --props all -j 8 --out $o/reg_neutral$t.json benign-neutral/*/*.diff > $o/reg_neutral$t.txt 2>&1
python3 tools/corpus_eval.py --props all -j 8 --out $o/reg_mixed$t.json benign-mixed/*/*.diff > $o/reg_mixed$t.txt 2>&1
python3 tools/mixed_eval.py -j 8 --out $o/reg_pairs$t.json > $o/reg_pairs$t.txt 2>&1
echo DONE >> $o/reg_benign$t.txt

#!/usr/bin/env python3
"""usage: mixed_eval.py [-j N] [--out f.json] [--only REGEX]  — for every mixed commit seeded/<id> that has a benign half benign-mixed/Cxx/<id>.diff:
runs the checks of the seed's own property on both and prints
  right   : the seed raises a violation (rule+key) its benign half does not  -> detected for the right reason
  alarm   : the benign half raises a violation                                -> false alarm on the refactoring
A seed that is only 'detected' through reports its benign half raises too is not a detection."""
import sys, os, re, json, subprocess, tempfile, shutil
from concurrent.futures import ThreadPoolExecutor
root = os.path.dirname(os.path.dirname(os.path.abspath(__file__)))
jobs = 8; out = None; only_re = None
a = sys.argv[1:]
while a:
    x = a.pop(0)
    if x == '-j': jobs = int(a.pop(0))
    elif x == '--out': out = a.pop(0)
    elif x == '--only': only_re = re.compile(a.pop(0))
env = dict(os.environ); env['PATH'] = '/opt/veriftools/go1.26.8/bin:' + env['PATH']
env.update(GOTOOLCHAIN='local', GOPROXY='off', GOSUMDB='off', GOFLAGS='-mod=readonly -trimpath', VERIF_ROOT=root); env.pop('GOWORK', None)
def reports(patch, prop):
    d = tempfile.mkdtemp(prefix='mixed-')
    try:
        subprocess.run(['rsync', '-a', '--exclude', '.git', '/repo/', d + '/'], check=True)
        r = subprocess.run(['git', '-C', d, 'apply', '--whitespace=nowarn', patch], capture_output=True, text=True)
        if r.returncode: return None
        r = subprocess.run([os.environ.get('MCPCHECK_BIN', root + '/bin/mcpcheck'), '-property', prop, '-repo', d, '-no-evidence', '-whole'], capture_output=True, text=True, env=env, cwd=root)
        s = set()
        for l in r.stdout.splitlines():
            m = re.match(r'MUTANT-REPORT (\S+) (\S+) (\S+) \[violation\]', l)
            if m: s.add(m.group(2) + ' ' + re.sub(r'#\d+$', '', m.group(3)))
        return s
    finally:
        shutil.rmtree(d, ignore_errors=True)
pairs = []
for prop in sorted(os.listdir(root + '/benign-mixed')):
    for f in sorted(os.listdir(f'{root}/benign-mixed/{prop}')):
        if f.endswith('.diff'):
            sid = f[:-5]
            if only_re and not only_re.search(sid): continue
            if os.path.exists(f'{root}/seeded/{sid}/patch.diff'): pairs.append((sid, prop))
def one(p):
    sid, prop = p
    return sid, reports(f'{root}/seeded/{sid}/patch.diff', prop), reports(f'{root}/benign-mixed/{prop}/{sid}.diff', prop)
res = {}; right = alarm = 0
with ThreadPoolExecutor(jobs) as ex:
    for sid, s, b in ex.map(one, pairs):
        if s is None or b is None:
            print(sid, 'ERROR'); continue
        only = sorted(s - b)
        res[sid] = {'seed_only': only, 'benign': sorted(b)}
        right += bool(only); alarm += bool(b)
        print(f"{sid}: {'right' if only else 'MISSED'} ({len(only)} own) {'ALARM ' + str(len(b)) if b else ''}")
        for k in only[:2]: print('     + ' + k)
        for k in sorted(b)[:3]: print('     ! ' + k)
print(f'TOTAL pairs={len(res)} detected-for-the-right-reason={right} benign-halves-with-a-false-alarm={alarm}')
if out: json.dump(res, open(out, 'w'), indent=1)

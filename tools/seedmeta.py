#!/usr/bin/env python3
"""seedmeta.py <seed-id> <property> <needs...>  — writes /verif/seeded/<id>/meta.json from the verification log."""
import sys, json, re
sid, prop = sys.argv[1], sys.argv[2]
needs = ' '.join(sys.argv[3:])
log = open('/tmp/vs-%s.log' % sid).read()
assert 'RESULT confirmed' in log, log
meta = {
 "property": prop,
 "name": sid,
 "origin": "independent sub-agent given only the property text and a scratch worktree",
 "needs_to_manifest": needs,
 "confirmed_by": "tools/verify_seed.sh in a scratch worktree of /repo HEAD: patch applies and builds; `go test -count=1 ./...` green with the patch; demonstration test passes without the patch and fails with it",
 "verification_log": [l for l in log.splitlines() if l.startswith(('==','demo','suite','RESULT'))],
}
json.dump(meta, open('/verif/seeded/%s/meta.json' % sid, 'w'), indent=1)
print('ok', sid)

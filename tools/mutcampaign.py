#!/usr/bin/env python3
"""Systematic mutation campaign against the checker (a tool for finding its blind spots; not part of any check).

  mutcampaign.py gen                      -> /tmp/mutsites.json            (bin/mcpcheck -mutgen)
  mutcampaign.py run [-j N] [-ops a,b]    -> /verif/notes/mutcampaign/results.json
        every mutant is applied to a scratch copy of /repo and all 20 quick checks are run on it
  mutcampaign.py suite [-j N] [-max K]    -> runs the SDK's own test suite on the mutants no check reported
        (survivors of both are the interesting ones: candidates for a property-breaking change nobody notices)
  mutcampaign.py show                     -> summary

Scratch copies live under $TMPDIR (default /tmp) and are removed at the end.
"""
import sys, os, json, subprocess, tempfile, shutil, threading, queue, collections, time

VERIF = os.path.dirname(os.path.dirname(os.path.abspath(__file__)))
REPO = '/repo'
SITES = os.environ.get('MUTSITES', '/tmp/mutsites.json')
OUTDIR = os.path.join(VERIF, 'notes', 'mutcampaign')
RESULTS = os.environ.get('MUTRES', os.path.join(OUTDIR, 'results.json'))
ENV = dict(os.environ, PATH='/opt/veriftools/go1.26.8/bin:' + os.environ['PATH'], GOTOOLCHAIN='local', GOPROXY='off', GOFLAGS='-mod=readonly')
ENV.pop('GOWORK', None)


def arg(flag, default):
    if flag in sys.argv:
        return sys.argv[sys.argv.index(flag) + 1]
    return default


def gen():
    with open(SITES, 'w') as f:
        subprocess.run([os.path.join(VERIF, 'bin/mcpcheck'), '-mutgen', '-repo', REPO], stdout=f, env=ENV, check=True)
    print(len(json.load(open(SITES))), 'sites')


def scratch():
    d = tempfile.mkdtemp(prefix='mutcamp-', dir=os.environ.get('TMPDIR', '/tmp'))
    subprocess.run(['rsync', '-a', '--exclude', '.git', REPO + '/', d + '/'], check=True)
    return d


def apply(site, d):
    src = open(os.path.join(REPO, site['file']), 'rb').read()
    st, en = site['start'], site['end']
    if src[st:en].decode(errors='replace') != site['old']:
        # the tree moved since the sites were generated (a fix commit): take the occurrence closest to the old offset
        old = site['old'].encode()
        occ, i = [], src.find(old)
        while i >= 0:
            occ.append(i)
            i = src.find(old, i + 1)
        assert occ, 'site does not match the tree'
        st = min(occ, key=lambda o: abs(o - site['start']))
        en = st + len(old)
    new = src[:st] + site['new'].encode() + src[en:]
    open(os.path.join(d, site['file']), 'wb').write(new)


def restore(site, d):
    shutil.copyfile(os.path.join(REPO, site['file']), os.path.join(d, site['file']))


def run():
    sites = json.load(open(SITES))
    ops = arg('-ops', '')
    if ops:
        sites = [s for s in sites if s['op'] in ops.split(',')]
    only = arg('-only', '')  # restrict to sites whose file or function contains this text
    if only:
        sites = [s for s in sites if only in s['file'] or only in s['func']]
    j = int(arg('-j', '8'))
    os.makedirs(OUTDIR, exist_ok=True)
    res = {}
    if os.path.exists(RESULTS):
        res = {int(k): v for k, v in json.load(open(RESULTS)).items()}
    redo = arg('-redo', '')  # re-run the survivors whose function or file name contains this text
    keep = {}
    if redo:
        only_pass = '-suitepass' in sys.argv  # only survivors that also passed the SDK's suite
        for k in [k for k, r in res.items() if r['status'] == 'survived' and (redo in r['func'] or redo in r['file']) and (not only_pass or r.get('suite') == 'pass')]:
            keep[k] = {x: res[k][x] for x in ('suite', 'suite_fails') if x in res[k]}
            del res[k]
    q = queue.Queue()
    for s in sites:
        if s['id'] not in res:
            q.put(s)
    print('to run:', q.qsize())
    lock = threading.Lock()
    t0 = time.time()

    def worker():
        d = scratch()
        try:
            while True:
                try:
                    s = q.get_nowait()
                except queue.Empty:
                    return
                try:
                    apply(s, d)
                except AssertionError:
                    with lock:
                        res[s['id']] = dict(s, status='stale-site', reports=[], props=[])
                    continue
                p = subprocess.run([os.path.join(VERIF, 'bin/mcpcheck'), '-property', 'all', '-repo', d, '-root', VERIF, '-no-evidence'], env=ENV, capture_output=True, text=True)
                out = p.stdout + p.stderr
                restore(s, d)
                reps = [l[len('MUTANT-REPORT '):] for l in out.splitlines() if l.startswith('MUTANT-REPORT ')]
                if 'load failure' in out:
                    st = 'nobuild'
                elif 'panic:' in out or 'goroutine 1 [' in out:
                    st = 'checker-crash'
                elif reps:
                    st = 'detected'
                else:
                    st = 'survived'
                r = dict(s, status=st, reports=[x[:200] for x in reps[:6]], props=sorted({x.split()[0] for x in reps}))
                r.update(keep.get(s['id'], {}))
                with lock:
                    res[s['id']] = r
                    if len(res) % 50 == 0:
                        json.dump(res, open(RESULTS, 'w'))
                        print(len(res), 'done', '%.0fs' % (time.time() - t0), flush=True)
        finally:
            shutil.rmtree(d, ignore_errors=True)

    ts = [threading.Thread(target=worker) for _ in range(j)]
    [t.start() for t in ts]
    [t.join() for t in ts]
    json.dump(res, open(RESULTS, 'w'))
    show()


def suite():
    res = {int(k): v for k, v in json.load(open(RESULTS)).items()}
    ops = arg('-ops', 'del-stmt,del-return,drop-left,drop-right,neg-cond').split(',')
    todo = [r for r in res.values() if r['status'] == 'survived' and 'suite' not in r and r['op'] in ops]
    todo.sort(key=lambda r: (ops.index(r['op']), r['id']))
    mx = int(arg('-max', '100000'))
    todo = todo[:mx]
    j = int(arg('-j', '3'))
    q = queue.Queue()
    [q.put(r) for r in todo]
    lock = threading.Lock()
    env = dict(os.environ, GOPROXY='off')
    env.pop('GOFLAGS', None)
    env.pop('GOWORK', None)
    t0 = time.time()

    def cache_files(c):
        out = set()
        for root, _, files in os.walk(c):
            for f in files:
                out.add(os.path.join(root, f))
        return out

    def worker():
        d = scratch()
        # a private build cache, primed with the unmutated tree and pruned back to that state after every mutant:
        # otherwise each mutant leaves its objects and test binaries behind (tens of MB each)
        cache = d + '.gocache'
        wenv = dict(env, GOCACHE=cache, GOFLAGS='-trimpath')
        subprocess.run(['go', 'test', '-count=1', '-run', '^$', './...'], cwd=d, env=wenv, capture_output=True, text=True)
        base = cache_files(cache)
        try:
            while True:
                try:
                    r = q.get_nowait()
                except queue.Empty:
                    return
                try:
                    apply(r, d)
                except AssertionError:
                    with lock:
                        res[r['id']]['suite'] = 'stale-site'
                    continue
                pkgs = ['./...']
                p = subprocess.run(['go', 'test', '-count=1', '-timeout', '300s'] + pkgs, cwd=d, env=wenv, capture_output=True, text=True)
                restore(r, d)
                for f in cache_files(cache) - base:
                    try:
                        os.remove(f)
                    except OSError:
                        pass
                fails = [l for l in (p.stdout + p.stderr).splitlines() if l.startswith(('--- FAIL', 'FAIL', 'panic:'))]
                with lock:
                    res[r['id']]['suite'] = 'pass' if p.returncode == 0 else 'fail'
                    res[r['id']]['suite_fails'] = fails[:4]
                    json.dump(res, open(RESULTS, 'w'))
                    n = sum(1 for x in res.values() if 'suite' in x)
                    print(n, 'suite runs', '%.0fs' % (time.time() - t0), r['file'], r['line'], r['op'], res[r['id']]['suite'], flush=True)
        finally:
            shutil.rmtree(d, ignore_errors=True)
            shutil.rmtree(cache, ignore_errors=True)

    ts = [threading.Thread(target=worker) for _ in range(j)]
    [t.start() for t in ts]
    [t.join() for t in ts]
    show()


def show():
    res = json.load(open(RESULTS))
    c = collections.Counter(r['status'] for r in res.values())
    print('mutants', len(res), dict(c))
    byop = collections.defaultdict(collections.Counter)
    for r in res.values():
        byop[r['op']][r['status']] += 1
    for op, cc in byop.items():
        print(' ', op, dict(cc))
    s = collections.Counter(r.get('suite') for r in res.values() if r['status'] == 'survived')
    print('survivors by suite outcome', dict(s))


if __name__ == '__main__':
    {'gen': gen, 'run': run, 'suite': suite, 'show': show}[sys.argv[1]]()

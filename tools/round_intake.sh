#!/bin/bash
# usage: round_intake.sh <round-tag> <dir>  — one delivered seed /tmp/r9/Cxx/out/<letter>:
#   1. first contact: the check of the seed's own property on a scratch copy with the patch (→ /tmp/r9/<tag>_first/<id>.txt)
#   2. confirmation by tools/verify_seed.sh (stored as /verif/seeded/Cxx-<letter>) and meta.json
# driver: ls -d /tmp/r9/C*/out/[VWX] | xargs -P 3 -n 1 tools/round_intake.sh r11
cd "$(dirname "$0")/.."; . ./env.sh >/dev/null 2>&1
tag=$1; d=$2
[ -f $d/patch.diff ] || exit 0
[ -f $d/.done ] && exit 0
mkdir -p ${RB:-/tmp/r9}/${tag}_first
L=$(basename $d)
prop=$(echo $d | grep -o "C[0-9][0-9]" | head -1); id=$prop-$L
o=${RB:-/tmp/r9}/${tag}_first/$id.txt
out=$(tools/try_patch.sh $d/patch.diff $prop 2>&1)
n=$(echo "$out" | grep -c "\[violation\]")
echo "$id first-contact violations=$n" > $o
echo "$out" | grep "\[violation\]" | cut -c1-220 | head -4 >> $o
tools/verify_seed.sh $d $id $prop
res=$(grep RESULT /tmp/vs-$id.log | tail -1)
echo "$id $res" >> $o
if echo "$res" | grep -q confirmed; then
  needs=$(grep -i -m1 -A2 "manifest" $d/NOTES.md | tr '\n' ' ' | cut -c1-400)
  python3 tools/seedmeta.py $id $prop "$needs (round ${tag#r}; first contact: $n violation reports)" >/dev/null
fi
touch $d/.done

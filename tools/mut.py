#!/usr/bin/env python3
"""Create a catalogue mutant: mut.py PROP NAME FILE OLD NEW [FILE OLD NEW ...]
Applies exact single replacements in the scratch worktree /tmp/mw, checks that it builds,
stores the diff as /verif/mutants/PROP/NAME.diff and reverts the worktree."""
import sys, subprocess, os
prop, name = sys.argv[1], sys.argv[2]
args = sys.argv[3:]
wt = '/tmp/mw'
subprocess.run(['git','-C',wt,'checkout','-q','--','.'],check=True)
for i in range(0,len(args),3):
    f, old, new = args[i:i+3]
    p = os.path.join(wt,f)
    s = open(p).read()
    if s.count(old) != 1:
        print('pattern occurs %d times in %s' % (s.count(old), f)); sys.exit(1)
    open(p,'w').write(s.replace(old,new))
env = dict(os.environ, GOPROXY='off')
env.pop('GOFLAGS',None)
r = subprocess.run(['go','build','./...'],cwd=wt,env=env,capture_output=True,text=True)
if r.returncode != 0:
    print('does not build:\n'+r.stdout+r.stderr)
    subprocess.run(['git','-C',wt,'checkout','-q','--','.'])
    sys.exit(1)
d = subprocess.run(['git','-C',wt,'diff'],capture_output=True,text=True).stdout
os.makedirs('/verif/mutants/%s'%prop,exist_ok=True)
open('/verif/mutants/%s/%s.diff'%(prop,name),'w').write(d)
subprocess.run(['git','-C',wt,'checkout','-q','--','.'],check=True)
print('saved mutants/%s/%s.diff (%d lines)'%(prop,name,d.count('\n')))

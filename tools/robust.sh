#!/bin/bash
# usage: robust.sh <rename-locals|shift-lines|swap-operands|invert-if|hoist-init|wrap-else> [props...]
# Applies a behaviour-preserving transformation to a scratch copy of /repo, checks that it still builds,
# and runs the quick checks on it: every report is a false alarm of the checker.
cd "$(dirname "$0")/.."
. ./env.sh
kind=$1; shift
props=${*:-C01 C02 C03 C04 C05 C06 C07 C08 C09 C10 C11 C12 C13 C14 C15 C16 C17 C18 C19 C20}
d=$(mktemp -d ${TMPDIR:-/tmp}/robust-XXXX)
trap 'rm -rf "$d"' EXIT
rsync -a --exclude .git /repo/ "$d/"
bin/mcpcheck -refactor "$kind" -repo "$d" || exit 2
# (no `go build` of the scratch copy: every distinct copy would add its objects to the go build cache; the checker
#  type-checks the transformed tree from source and reports a load failure if it is not valid Go)
rc=0
for p in $props; do
  out=$(bin/mcpcheck -property $p -repo "$d" -no-evidence -whole 2>&1)
  n=$(echo "$out" | grep -c "^MUTANT-REPORT")
  if echo "$out" | grep -q "^panic:\|^goroutine \|load failure"; then echo "$p: CHECKER CRASHED"; echo "$out" | head -5; rc=1; continue; fi
  echo "$p: $n reports"
  echo "$out" | grep "^MUTANT-REPORT" | sed 's/^MUTANT-REPORT /    /' | cut -c1-230
  [ "$n" -gt 0 ] && rc=1
done
exit $rc

#!/bin/bash
# usage: verify_benign.sh <dir with benign.diff BENIGN.md demo_test.go DEMO_PATH.txt> — confirms a "benign half" of a mixed
# commit (the seeded change with its regression repaired) in a scratch worktree of /repo's HEAD: applies, builds, the seed's
# demonstration passes, the suite passes. On success stores it as /verif/benign-mixed/Cxx/<id>.diff (+ .md).
set -u
src=$1; id=$(basename $src); prop=${id%%-*}
export GOPROXY=off; unset GOFLAGS GOWORK
wt=/tmp/vb-$id; log=/tmp/vb-$id.log
exec >"$log" 2>&1
[ -f $src/benign.diff ] || { echo "RESULT no-benign-diff"; exit 1; }
git -C /repo worktree remove --force "$wt" 2>/dev/null
git -C /repo worktree add --detach "$wt" HEAD -q || exit 2
trap 'git -C /repo worktree remove --force "$wt"' EXIT
cd "$wt"
git apply "$src/benign.diff" || { echo "RESULT does-not-apply"; exit 1; }
if git diff --name-only | grep -q "_test.go"; then echo "RESULT touches-tests"; exit 1; fi
go build ./... || { echo "RESULT does-not-build"; exit 1; }
demo_rel=$(tr -d ' \n' < "$src/DEMO_PATH.txt"); cp "$src/demo_test.go" "$demo_rel"
testname=$(grep -ho 'func Test[A-Za-z0-9_]*' "$src/demo_test.go" | sed 's/func //' | paste -sd'|')
if go test -count=2 -timeout 300s -run "^($testname)\$" ./$(dirname "$demo_rel") >/tmp/vb-$id.demo.out 2>&1; then echo "demo with repaired change: PASS"; else echo "demo with repaired change: FAIL"; tail -15 /tmp/vb-$id.demo.out; echo "RESULT demo-fails"; exit 1; fi
rm -f "$demo_rel"
if go test -count=1 ./... >/tmp/vb-$id.suite.out 2>&1 || go test -count=1 ./... >/tmp/vb-$id.suite.out 2>&1; then echo "suite: PASS"; else echo "suite: FAIL"; grep -E "^(---|FAIL|panic)" /tmp/vb-$id.suite.out | head; echo "RESULT suite-fails"; exit 1; fi
mkdir -p /verif/benign-mixed/$prop
cp "$src/benign.diff" /verif/benign-mixed/$prop/$id.diff
{ echo "benign half of seeded/$id: the same refactoring with the regression repaired (by an independent sub-agent; confirmed: builds, the seed's demonstration passes, the suite passes)"; cat "$src/BENIGN.md" 2>/dev/null; } > /verif/benign-mixed/$prop/$id.md
echo "RESULT confirmed"

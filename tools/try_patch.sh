#!/bin/bash
# usage: try_patch.sh <patch.diff> <prop> [more props…]
# Runs the quick rules of the properties on a scratch copy of /repo with the patch applied (never touches /repo);
# prints the reports the patch causes.
cd "$(dirname "$0")/.."
. ./env.sh
patch=$1; shift
d=$(mktemp -d ${TMPDIR:-/tmp}/trypatch-XXXX)
trap 'rm -rf "$d"' EXIT
rsync -a --exclude .git /repo/ "$d/"
(cd "$d" && git init -q . 2>/dev/null; git -C "$d" apply --whitespace=nowarn "$patch") || { echo "patch does not apply"; exit 2; }
for p in "$@"; do
  out=$(${MCPCHECK_BIN:-bin/mcpcheck} -property $p -repo "$d" -no-evidence -whole 2>&1)
  n=$(echo "$out" | grep -c "^MUTANT-REPORT")
  echo "$p: $n reports"
  echo "$out" | grep "^MUTANT-REPORT" | sed 's/^MUTANT-REPORT /    /' | cut -c1-260
done

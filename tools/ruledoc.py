#!/usr/bin/env python3
"""Regenerates DESIGN.md §7.3 (rules per property) from the evidence files of the last thorough/quick runs."""
import json, re, glob
out=[]
for f in sorted(glob.glob('/verif/evidence/C*.json')):
    e=json.load(open(f)); c=e['coverage']
    out.append('**%s** — %d obligations, %d functions analysed' % (e['property_id'], c['obligations'], (len(c['functions_analysed']) if isinstance(c.get('functions_analysed'),list) else c.get('functions_analysed',0))))
    per=c.get('per_rule',{})
    for r,doc in sorted(c.get('rules',{}).items(), key=lambda kv: [int(x) if x.isdigit() else x for x in re.split(r'(\d+)', kv[0])]):
        n=per.get(r,[0])
        n=n[0] if isinstance(n,list) else n
        out.append('  * `%s` (%s): %s' % (r, n, doc))
s=open('/verif/DESIGN.md').read()
a=s.index('### 7.3 Rules per property')
a=s.index('\n',a)+1
b=s.index('### 7.4 ')
s=s[:a]+'\n'+'\n'.join(out)+'\n\n'+s[b:]
open('/verif/DESIGN.md','w').write(s)
print('rules:',sum(1 for l in out if l.startswith('  *')))

#!/bin/bash
# usage: pair_intake.sh <round-tag> <dir /tmp/rN/Cxx/out/<L> with patch.diff benign.diff demo_test.go DEMO_PATH.txt NOTES.md>
# A mixed commit delivered together with its benign half: first contact of the pair (own property: what the seed raises
# that its benign half does not; what the benign half raises), then confirmation of both halves
# (tools/verify_seed.sh -> seeded/Cxx-L, tools/verify_benign.sh -> benign-mixed/Cxx/Cxx-L.diff).
cd "$(dirname "$0")/.."; . ./env.sh >/dev/null 2>&1
tag=$1; d=$2; rb=$(echo $d | sed 's#\(/tmp/[^/]*\)/.*#\1#')
[ -f $d/patch.diff ] && [ -f $d/benign.diff ] || exit 0
[ -f $d/.pairdone ] && exit 0
L=$(basename $d); prop=$(echo $d | grep -o "C[0-9][0-9]" | head -1); id=$prop-$L
mkdir -p $rb/${tag}_first
o=$rb/${tag}_first/$id.txt
key() { grep "\[violation\]" | awk '{print $2" "$3}' | sed 's/#[0-9]*$//' | sort -u; }
tools/try_patch.sh $d/patch.diff $prop 2>&1 | key > /tmp/pi-$id.seed
tools/try_patch.sh $d/benign.diff $prop 2>&1 | key > /tmp/pi-$id.benign
own=$(comm -23 /tmp/pi-$id.seed /tmp/pi-$id.benign | wc -l); alarm=$(wc -l < /tmp/pi-$id.benign)
echo "$id first-contact own=$own benign-alarms=$alarm" > $o
comm -23 /tmp/pi-$id.seed /tmp/pi-$id.benign | head -3 | sed 's/^/    + /' >> $o
head -3 /tmp/pi-$id.benign | sed 's/^/    ! /' >> $o
tools/verify_seed.sh $d $id $prop
res=$(grep RESULT /tmp/vs-$id.log | tail -1); echo "$id seed $res" >> $o
if echo "$res" | grep -q confirmed; then
  needs=$(grep -i -m1 -A2 "manifest" $d/NOTES.md | tr '\n' ' ' | cut -c1-400)
  python3 tools/seedmeta.py $id $prop "$needs (round ${tag#r}, mixed commit delivered with its benign half; first contact: $own reports its benign half does not raise, $alarm alarms on the benign half)" >/dev/null
  pd=$rb/pairs/$id; mkdir -p $pd; cp $d/benign.diff $d/demo_test.go $d/DEMO_PATH.txt $pd/; echo "benign half written by the author of the mixed commit (round ${tag#r})" > $pd/BENIGN.md
  tools/verify_benign.sh $pd
  echo "$id benign $(grep RESULT /tmp/vb-$id.log | tail -1)" >> $o
fi
rm -f /tmp/pi-$id.seed /tmp/pi-$id.benign
touch $d/.pairdone

#!/usr/bin/env python3
"""Regenerates /verif/MANIFEST.json from the table below (one entry per claimed property)."""
import json, os, subprocess

ROOT = os.path.dirname(os.path.dirname(os.path.abspath(__file__)))
props = [json.loads(l) for l in open(os.path.join(ROOT, 'properties.jsonl'))]

NOTE = ("Trusted base: go/types, go/packages, x/tools go/cfg (and go/ssa + VTA call graph in the thorough tier), "
        "and the rule tables in checker/. Assumes user callbacks behave as the property's provisos say and that no "
        "reflection/unsafe touches the anchored state. Decides structural necessary conditions, not the behavioural statement as a whole. "
        "Before the rules run the program is normalised (helpers unknown to the rules expanded in place, log statements removed, nested/consecutive ifs "
        "merged; DESIGN.md 7.11, 7.12). Only a violated obligation fails the check; an obligation that cannot be applied to the tree (construct moved or "
        "renamed) is printed as UNDECIDED, recorded in the evidence, and does not fail it.")

# id -> (text of the claim, technique, design section)
CLAIMS = {
 'C01': ("Decides, for every path and call site in the current source, the structural discipline that makes a call complete exactly once: "
         "in-flight state only touched under the state lock; ready/response written only by retire; every retire site removes (or never inserted) the table entry; "
         "Call registers under the lock with the shutting-down test before writing and retires on a failed write; the reader's exit drains every pending call; "
         "responses matched by id under an ok guard; Retire identity-guarded; closing errors mapped before the ctx arm. "
         "Not decided: wake-up liveness under all schedules.",
         "CFG must-pass-through / dominance rules, field-ownership and typestate rules over the type-checked AST; VTA who-may-call (thorough)", "§3 C01"),
 'C02': ("Decides on every path: each accepted request reaches processResult exactly once (directly, via refusal, or via the handler goroutine) with the in-flight counter paired; responses are built only in processResult with the request's own id after un-indexing it; notifications are never written a response; duplicate in-flight ids do not overwrite the original; every reject path wraps the sentinel that yields -32601/-32602/-32600 (all unmarshalParams implementations, checkRequest, handleReceive); batch trackers track calls only and flush when empty; HTTP transports pre-validate with checkRequest before publishing; integer ids are decoded without passing through float64. "
         "Not decided: that handlers terminate; behaviour over all completion orders beyond the per-request path rule.",
         "CFG counting/must-pass-through rules, correlated-flag analysis across locked closures, role-anchored enumeration of function values, error-wrapping (fmt.Errorf %w) analysis", "§3 C02"),
 'C03': ("Decides the dispatch discipline structurally: FIFO queue (tail append in acceptRequest, head pop in handleAsync, no other writer), single dispatcher flag protocol, the dispatcher's unconditional bare wait on the releaser after starting each handler, synchronous acceptRequest from the single reader, Async reachable only from the two session receive paths under IsCall (and != initialize on the server), 202 only after the enqueue loop. "
         "Not decided: observational ordering on the peer under all handler durations.",
         "field-writer ownership, guard dominance, post-dominance of the release wait, who-may-call (AST; VTA in thorough)", "§3 C03"),
 'C04': ("Decides: on the cancelled arm the call is retired before returning and no synchronous Notify is on the default return path; the notice is sent from a goroutine with WithTimeout(WithoutCancel(ctx)) and names call.ID(); cancelCall retires on all paths; the preempter cancels only for notifications/cancelled with the id decoded from that notification's requestId; handler contexts are cancelled by id only (cancel-all loops only in the two failure closures); late responses are no-ops; cancel notices bypass the shutdown test exactly as Notify admits them. "
         "Not decided: the numeric promptness bound.",
         "dominance / guard rules, dataflow of the cancelled id through named locals, closed enumeration of context-cancel sites", "§3 C04"),
 'C05': ("Decides necessary conditions of graceful termination: close typestate of closer/done (only in updateInFlight, only idle∧shutting-down, done only after the reader is gone), idle() reads all four quantities, counters paired on all exits, admission monotone during shutdown, both session Close sequences ordered (keep-alive, listen/subscription cancellation before conn.Close, onClose once), disconnect purges every session-holding field, lock-order graph over all SDK mutexes acyclic, no connection I/O reachable under Server.mu/Client.mu, every goroutine loop has an exit, every blocking select has a close/cancel arm, bare channel operations are a closed classified table, tickers/cancel funcs released. "
         "Not decided: termination itself under all interleavings (liveness); absence of panics in general.",
         "typestate + guard dominance rules, interprocedural must-lockset with requires-lock/closure-under-lock summaries, lock-order graph over the VTA call graph, reachability of I/O sinks under lock", "§3 C05"),
 'C06': ("Decides the receive gate as a finite table: for every method key of serverMethodInfos (+ one unknown) × {initialized} × {new protocol}, a three-valued predicate-abstraction reachability over ServerSession.handle's own CFG determines whether the handler dispatch is reachable and which rejections precede it, and compares that with the table the statement dictates; plus: metadata validation and the version gate dominate dispatch (and state adoption), failure codes -32602/-32022 with the supported list, new-protocol acceptance only after clientCapabilities decoded, and every writer of the lifecycle state is one of the guarded transitions whose rejections sit on non-writing branches. "
         "Not decided: the composed behaviour over arbitrary message sequences (both factors are checked, not their explored product).",
         "predicate-abstraction reachability on the CFG (Kleene evaluation of branch conditions), table extraction from composite literals, field-writer ownership with guard dominance", "§3 C06"),
 'C07': ("Thin structural claim: the negotiation helpers can only return entries of the (descending, constant) version table, the initialize path never 2026-07-28; every transport implementing the version filter definitely refuses >= 2026-07-28 unless it is a stateless streamable transport (three-valued evaluation of its returns); the server stores the transport-filtered list before returning the session and discover advertises it; the client returns a session only after discover succeeded (non-empty, >= 2026-07-28) or after finding the initialize result's version in the table, closes the session on every failed handshake step, falls back to a legacy constant with a bounded discover loop; stateful HTTP rejects new-protocol requests with -32022 listing legacy versions; the shared table never escapes un-cloned. "
         "Not decided: the configuration matrix itself (which cell negotiates what; that a connected session can list and call tools).",
         "return-value range analysis over constants and guards, three-valued CFG evaluation, escape/alias rule for the shared table", "§3 C07"),
 'C08': ("Decides the index/lock discipline behind resumption: in Write the store append and the delivery happen in one critical section of the stream lock, append first, event id = lastIdx+1 computed there; lastIdx has exactly four writer roles (init -1, +1 per SSE event immediately before writeEvent and never in JSON mode, +1 with the stored priming event before publication, re-based on resume to a cursor advanced once per replayed event); replay and re-attachment are one critical section (no unlock between), conflict test inside; all stream delivery state is accessed under the stream lock or pre-publication; id format/parse agree and stream ids cannot contain the separator; associations/streams are dropped exactly when complete. "
         "Not decided: the exactly-once/in-order statement over all cut points and resume sequences; behaviour when the store itself fails.",
         "interprocedural must-locksets with requires-lock inference, field-writer role classification, dominance / adjacency rules on the CFG, codec constant agreement", "§3 C08"),
 'C10': ("Decides that no code path can attach or select a foreign writer: stream.w is only nil or the attaching function's own ResponseWriter parameter; Write's stream selection and its related-request id have closed, guarded sets of sources (response id → requestStreams; handler-context id; JSON-mode override; listen/standalone only for unrelated messages); unknown stream → ErrRejected; idContextKey set only by ServerSession.handle from req.ID; duplicate scan + registration in one c.mu section dominating publication; no package-level reference variable written after init; routing tables reached only through their own connection, under its lock; request-scoped contexts are not replaced by Background for peer I/O. "
         "Not decided: absence of misdelivery under all interleavings beyond these structural facts.",
         "value-source classification of assignments, guard dominance, lock-span continuity, global-state writer enumeration, context provenance", "§3 C10"),
 'C11': ("Decides the session-table discipline: every use of a session obtained for a request-supplied id is guarded by lookupSession's ok; lookupSession's admit/reject table (unknown→404, owner mismatch/no token→403) via three-valued CFG evaluation; three writers of the table, all under h.mu, creation only on the header-less path with the owner captured first; ids minted/announced only on that path and on initialize; startPOST/defer endPOST pairing, refs/timer under timerMu, re-arm only at refs==0, timer callback only closes; DELETE closes synchronously, Close reaches the onClose decision on every path, failed-initialize cleanup; stateless default path never reads or sets the id and answers 405+Allow. "
         "Not decided: timer races under a virtual clock; uniqueness of GetSessionID values (assumption).",
         "guard dominance on uses of looked-up values, three-valued CFG evaluation of the lookup table, writer enumeration with lock checks, pairing rules", "§3 C11"),
 'C09': ("Decides the structural part of client-side resumption: the SSE scanner may dispatch only on a blank line that was actually read, only io.EOF is end of input and other read errors are terminal (two dispatch sites at end of input are the known finding D2); the resume cursor is assigned only from a non-empty id of an event yielded without error and is what connectSSE presents as Last-Event-ID; every resume-requesting return of processStream is dominated by the unresumable test whose branch hands the session a synthetic error for forCall.ID; every return of handleSSE is client-closed, already-failed-as-unresumable, or preceded by c.fail; every hand-off send is a select arm next to the connection's done channel; retry counter reset only on progress, incremented otherwise, compared before reconnecting; reconnect loop bounded and abortable. "
         "Not decided: exactly-once delivery over all byte offsets and reconnect outcomes.",
         "guard dominance on dispatch sites, value-source rules for the cursor, must-pass-through for error surfacing, select-arm structure rules, counter automaton rules", "§3 C09"),
 'C12': ("Decides that every documented precondition gate lies on all paths to the hand-off, by scenario: for each gate its violating condition is asserted in a three-valued evaluation of the function's CFG and the transport/session hand-off must be unreachable while the mandated status (403/415/400/413, -32020/-32602/-32022/-32601) is written; the body limit wrap precedes dispatch; mirror-header validation precedes publication and covers every single message; the version-mirror gate reads the body's _meta unconditionally; the client's header setters and the server's validators use the same header constants, helpers, Mcp-Name method set, base64 wrapper and integer range; the server decides a missing Mcp-Param header by presence because the encoder can emit an empty value; binding paths are fresh slices. "
         "Not decided: completeness over all header sets and argument values (input space); header-safety of Mcp-Name values.",
         "scenario-driven three-valued CFG evaluation (predicate abstraction), sibling agreement of encoder/validator tables and constants, alias rule for recursive slice building", "§3 C12"),
 'C13': ("Decides the keep-alive loop as a counter automaton on its CFG: counter starts at 0, is reset exactly on err == nil (every success path resets before the next ping), incremented once on a failed ping that is not method-not-found, Close reachable only through the false branch of counter < threshold after the increment and never from the success branch, method-not-found exits silently, the loop ends after Close; threshold < 1 normalised; tick period = interval and never Reset, deferred Stop, per-ping timeout = interval/k (k >= 1) from Background and always released, ctx.Done arm returns; cancel published before the go statement; started only under KeepAlive > 0; Close cancels; a timed-out ping write does not set writeErr. "
         "Not decided: the bound 'within N intervals plus one timeout' as a time value.",
         "CFG rules for a counter automaton (guard dominance, must-pass-through, reachability), constant-expression checks for the timing parameters", "§3 C13"),
 'C14': ("Decides the iff on verify's CFG: one admitting return; for each failing check (malformed header, wrong scheme, invalid-token / oauth / other verifier error, nil info, missing expiration when not allowed, expired beyond skew for every value of AllowMissingExpiration) a three-valued evaluation shows the admitting return unreachable and only the mandated status returned; the scope loop over opts.Scopes lies on every path to admission when options are given and returns 403 at the first miss; expiry test in the documented normal form; the admitted value and the verifier's credential argument are checked; the middleware calls the handler only under code == 0, injects verify's value, challenges only 401/403 with resource_metadata and scope, writes no captured variable (per-request state only). "
         "Not decided: anything about the verifier callback.",
         "scenario-driven three-valued CFG evaluation, guard dominance, captured-variable write rule", "§3 C14"),
 'C15': ("Decides must-validate-before-use on the OAuth client flow: every metadata fetch is dominated by a successful https-or-loopback check of the fetched URL; protected-resource metadata is returned only under resource equality with every authorization server scheme- and https-checked; authorization-server metadata only under issuer equality, PKCE and URL validation, (nil,nil) only for 4xx, and its errors are fatal for the caller (no silent fallback); the validation tables cover every *_endpoint/*_uri string field of the metadata structs and every endpoint the client consumes is https-checked; the code exchange is dominated by the state check (fresh rand.Text) and by validateIssuerResponse == nil, whose accept/reject table is evaluated on its CFG; tokenSource has exactly two writers, the exchange one after cfg.Exchange succeeded; the fallback uses the validated server and only without metadata; pre-registered credentials are issuer-bound. "
         "Not decided: ParseWWWAuthenticate over all header strings; the third-party oauth2 library.",
         "must-validate-before-use dominance, struct-tag table exhaustiveness, three-valued CFG evaluation of the issuer decision table, field-writer enumeration", "§3 C15"),
 'C16': ("Thin structural claim on the typed-tool wrapper: the user handler is dominated by applySchema(input, inputResolved, false) succeeding and by a case-sensitive internal/json decode of that function's result into the value passed to it; validation and decode failures return SetError results that cannot reach the handler; setSchema stores the resolved schema on every successful return; StructuredContent is assigned only from applySchema(outJSON, outputResolved, true) after its error test, output failures are errors; the text fallback branches are present; in applySchema defaults precede validation on the same value, every non-trivial return follows Validate, the 'defaults applied' flag is a faithful constant record so the defaulted value is what is returned. "
         "Not decided: validity of values under the schema itself (delegated to jsonschema-go, trusted base).",
         "dominance / guard rules on the wrapper's CFG, value-source rules, constant-flag analysis", "§3 C16"),
 'C17': ("Decides the structural part of pagination: every featureSet mutation reaches sortedKeys = nil on all paths (directly, or through a monotone constant flag set in the same block and tested on every path to return); no writer of features/sortedKeys outside featureSet; all()/above() rebuild the index first; above() = binary search + one increment exactly when found (strictly greater); paginateList stops at the (pageSize+1)-th element before appending, returns without cursor when fewer were seen, and encodes the id of the last returned item; every feature-set access (including sets passed to helpers and closures run by changeAndNotify) holds the owner's lock; a decode error of the cursor is mapped to ErrInvalidParams on every failure branch; the client iterator yields every item, copies NextCursor before every further fetch, stops on empty cursor and on error. "
         "Not decided: gob's behaviour on adversarial bytes (library); exactly-once over all mutation histories as a whole.",
         "must-pass-through with flag sensitivity, field-writer ownership, interprocedural must-locksets incl. closure-under-lock, structural keyset-shape rules", "§3 C17"),
 'C20': ("Decides the store's structural invariants: every access to store/nBytes/maxBytes and to any list's size/first/data holds the store mutex (helpers verified as requires-lock through all their callers); accounting pairs (appendData ↔ nBytes += len(d); removeFirst result ↔ nBytes -= r; SessionClosed subtracts every list's size before deleting); list fields have exactly two writers with the expected single updates (size shrinks on removal, oldest first, first++); After's offset is index + 1 - first in linear normal form, < 0 → ErrEventsPurged, >= len → empty, suffix cloned under the lock, error yielded alone, consumers called outside the lock; Append purges before appending, SetMaxBytes purges, purge loops while nBytes > maxBytes through removeFirst on non-empty lists. "
         "Not decided: equivalence with a reference model over all histories.",
         "interprocedural must-locksets, accounting-pair post-dominance, linear normal form of index arithmetic, field-writer enumeration", "§3 C20"),
 'C18': ("Decides the notification plumbing structurally: every add/remove on a feature set runs inside a closure passed to the change funnel with the matching notification constant; changeAndNotify arms (AfterFunc → notifySessions(name)) or re-arms (Reset) under s.mu, gated by change() and the capability; notifySessions clears the slot and snapshots sessions and the matching cloned subscription map in one critical section and fans out unlocked; legacy/modern split by version; allowedSubscriptions grants only requested∧advertised kinds; listen registers each kind in its own map under lock, acknowledges only after all registrations, defers unsubscribe/forget; ResourceUpdated reads only resourceSubscriptions[uri]; each client change handler invalidates exactly the caches its list/read fills, before the user callback; cache fills after an RPC use putIfCurrent with a generation read from the same cache before the RPC; both invalidation methods move the generation on all paths. "
         "Not decided: 'at least one notification after the last change' under all timer schedules.",
         "who-may-mutate funnel rule, lock-span atomicity, table agreement (notification ↔ map ↔ cache), ordering/dominance rules, generation-token dataflow", "§3 C18"),
 'C19': ("Decides the structural necessary conditions of lossless coding: ids are decoded from raw text (wireDecode.ID is raw; exact ParseInt first; the float coercion only as a guarded fallback; no other float→int64 conversion; cancelled.requestId likewise); wireCombined/wireDecode have identical member sets and marshal/decode map the same API fields; Message has exactly two wire shapes; for every type implementing Content the constant type tag has a decoder case building the same type, every encoded field is restored by fromWire, and every encoded member is known to the decode struct; required members (text, data, content, input; the list arrays) carry no omitempty in any struct on their marshal path, nested content is not re-encoded through wireContent, nil arrays are normalised by every producer under an exact nil test; no encoding/json decode into a struct-bearing target in the protocol packages (callees resolved by type, not by import name); SSE frame shape, unbounded line reads, one newline per ndjson message under the write lock, no HTML escaping. "
         "Not decided: round-trip equality for all values; 'never panics on arbitrary bytes' (value-level statements about third-party decoders).",
         "struct-tag table extraction and sibling agreement (encoder/decoder), type-resolved disallowed-call rule, value-source rules for ids, producer normalisation guards", "§3 C19"),
}

# later additions (blind rounds 4-6, mutation triage); appended to the claim text
EXTRA = {
 'C01': "Also: error discipline on the transports' Write paths and Connection.write/Call/Notify (every fallible step's error is tested and returned); the write-error guard of C04 (imported); stream bookkeeping of the streamable client (shared with C09).",
 'C02': "Also: transports' Write never asks context.Cause of its ctx; the batch gate is >= 2025-06-18; errors.Is is asked with the sentinel as target (20 calls); behind req.IsCall() every path of processResult writes a response built by NewResponse(req.ID, ...) under a non-cancellable context, also for an unencodable result (D17); every unmarshalParams refuses nil params; batch slot reservation and malformed-batch refusal in ioConn.Read/readBatch.",
 'C03': "Also: batch wire order incl. rest-queued-before-head; replay-cursor rule of C08 (imported).",
 'C04': "Also: ioConn.Write looks at its context before queueing for the write lock; the connection is failed only while the caller's context is alive (all c.fail sites of the streamable client; D14-D16); cancel notices carry _meta (D12); HTTP Do with no mutex held; listen context detached from Connect's ctx.",
 'C05': "Also: Subscribe records the listen's cancel function before the listen goes out; every access to the 22 mutex-guarded map/slice fields holds its mutex (122 accesses); the in-flight counter rule of C02 (imported); lock pairing over all Lock sites; close-once idiom with close on every path; Close/wait/shuttingDown table; imports of cancelCall-retires and stopTimer rules.",
 'C06': "Also: with an unsupported version the dispatch is unreachable whatever else holds (ReachUnder, initialized or not); decodeMetaValue null handling; imports of the mirror gate (C12), case-sensitive decode (C19) and per-session versions (C07).",
 'C07': "Also: error discipline of the nine Connect functions (two reasoned exemptions = the fall-back to initialize); the transport filter is evaluated inside the session critical section; checkResponse has no side effects.",
 'C08': "Also: append-gate exactness, replay ids exist and replay is complete; imports of After:copy-under-lock (C20), writeEvent framing (C19), connectSSE budget (C09).",
 'C09': "Also: a timer per reconnect attempt; the cursor update, the delivery of a message event and the Last-Event-ID header are guarded by exactly their documented tests (gate size pinned, exit guards excluded); one attempt counted per failed reconnect; Event.Empty tests every field; handleSSE returns decided under 'ctx alive'; behind a failed read/decode of a JSON body nothing is handed to the session.",
 'C10': "Also: the three stream selections and the JSON-mode out-of-band rule are not narrowed by further tests; idContextKey set for every request; sibling transport literals agree; a resumed stream is bound to the exchange only on the path that hands it to the caller.",
 'C11': "Also: headers before status (imported), a POST on a closing session is answered 404, the idle timer is armed with the timeout after it was set, stopTimer stops before it forgets; stopTimer/first-POST rules; every return of Close after conn.Close and onClose on every path; client Close sends DELETE unless the session is missing; no silent 200 in the session-serving HTTP functions (imported from C12).",
 'C12': "Also: headers are set before the status line (18 sites); safe-integer bounds inclusive; no silent 200 (every return of the 16 functions holding a ResponseWriter lies behind a use of the writer); metadata injected before every client send; lookupTool filters cached definitions by name only; body-limit default.",
 'C13': "Also: keepaliveCancel is not deferred; the peer's error is wrapped with %w on the HTTP error path (imported from C19); errors.Is argument order (imported); ticker not re-armed in the loop; keep-alive cancelled before conn.Close; failures wrap ErrRejected; WireError.Is compares codes only; transient HTTP status table.",
 'C14': "Also: WWW-Authenticate and CORS headers set before the status (5 sites); challenge value/pin, options pass-through or complete copy, verifier value not modified; no silent 200 in the middleware.",
 'C15': "Also: util.IsLoopback means exactly localhost or a loopback address; IssuersEqual exactness; error discipline over all flow functions (two reasoned exemptions).",
 'C16': "Also: schema/resolved pairing and caching order; a multi-round-trip retry re-sends the caller's own request; lookupTool rule (imported from C12).",
 'C17': "Also: decodeCursor returns errors only behind a failed decoding step; cache generation rule (imported from C18).",
 'C18': "Also: unsubscribe removes the requester unconditionally; re-arm is unconditional and the slot is cleared before the recipient snapshot; remove flag monotone; listen clean-up owns only its ids (D13); cache invalidation moves the generation and drops values on every path.",
 'C19': "Also: frames are written under the writer's lock (ioConn, SSE server); malformed batches end in an error, never in an index panic (imported from C02); nothing is assigned to a converted value after the conversion in UnmarshalJSON (9 sites); codec conversions complete (embedded fields counted); null elements in decoders (D11); wrap order / peer error wrapped with %w; one decoder per connection; the nil-normalised copy is the value returned.",
 'C20': "Also: removeFirst touches data[0] only before the reslice; create-only-when-missing; imports of client DELETE (C11) and handleSSE (C09) rules.",
}

# round 9 (added code, cooperating edits): appended after EXTRA
EXTRA9 = {
 'C01': "Round 9: every response reaches the lookup closure (no filter in front of it); the stdio reader hands every decode outcome over and keeps one decoder.",
 'C02': "Round 9: nil params refused decided by reachability under the refusal's own guards.",
 'C03': "Round 9: the streamable client's Write returns nil only behind checkResponse and starts no goroutine that sends; the preempter never answers (imported).",
 'C04': "Round 9: every path from Retire to the return starts the notifying goroutine; a refused duplicate loses its id (imported).",
 'C05': "Round 9: a bare blocking channel operation outside the classified table is a violation; close-once distinguishes a skipped close from an unrecognised idiom.",
 'C06': "Round 9: with the session initialized no successful return of initialize is reachable; extractRequestMeta gives up only for empty or undecodable params; the -32022 gate decided by reachability.",
 'C07': "Round 9: Server.Connect stores the transport-filtered versions (absence is a violation).",
 'C08': "Round 9: every error-free return of After lies behind the purge test (imported from C20).",
 'C09': "Round 9: a failed client.Do is always followed by the next attempt; the progress predicate of the retry counter and the read-error rule are decided by reachability.",
 'C10': "Round 9: the duplicate-id scan sits in servePOST's registration section; the only list-bearing field of the shared store is the session/stream table (imported from C20).",
 'C12': "Round 9: header bindings are derived from the message's own tool on every call.",
 'C13': "Round 9: keepaliveCancel is referenced by Close and startKeepalive only; Ping returns the send's error itself or %w-wrapped.",
 'C14': "Round 9: verify is asked with the caller's own, never reassigned verifier; a non-constant status on a token-bearing return counts as admitting.",
 'C15': "Round 9: every candidate's expected resource is the requested URL or its origin.",
 'C16': "Round 9: the schema caches are keyed by the reflect.Type / *Schema parameter itself.",
 'C18': "Round 9: once the slot is cleared every path of notifySessions reaches both fan-outs.",
 'C19': "Round 9: every MarshalJSON returns the output of a Marshal call.",
 'C20': "Round 9: the store holds lists only in the session/stream table; After answers nothing before the purge test; pairs of accounting statements accepted in either order.",
}

REASONS = {}

checks, na = [], []
# rounds 11/12 (mixed commits and their benign halves; DESIGN.md 7.12)
EXTRA14 = {
 'C01': "Round 14: a once-written local literal of Call that retires counts as a retire at each call site; a bool predicate that deletes the table entry before every 'return true' is a removal.",
 'C02': "Round 14: R-C02-16 the number of reply slots of a batch is a count of calls (append/make fed under IsCall only).",
 'C03': "Round 14: queue-empty through a method of a queue type; a re-based ring buffer is copied head first; token-count joins compared as linear forms in len(sessions).",
 'C04': "Round 14: a float64 fast path in front of DecodeID is evaluated at +-2^53, +-(2^53+2), +-2^62.",
 'C05': "Round 14: removing a finished listen id never stores into the slot the truncation cuts off.",
 'C06': "Round 14: adoption of InitializeParams and the initialize/initialized lifecycle decided by evaluation per method x phase x protocol when the flag spelling is absent.",
 'C07': "Round 14: a memo of transport versions must key on every receiver field SupportsProtocolVersion reads.",
 'C08': "Round 14: positional replay (cursor+1+i, cursor += len(S)) decided over linear forms; the index origin of the store advances by exactly the slots dropped.",
 'C09': "Round 14: every yield(x,nil) of the event scanner classified by evaluation from the read under {line, EOF, other error} x {blank, non-blank}; a read error is terminal.",
 'C10': "Round 14: R-C10-9 the id given to newStream is fresh in the session (crypto/rand, or a counter only stepped forward under the connection lock).",
 'C11': "Round 14: idle-timer state found by role, delegates evaluated with bound constants; a table delete in a serving function only behind the owner check, under the lock, followed by Close.",
 'C12': "Round 14: the body limit is applied for ContentLength -1; 'true means answered' helpers.",
 'C13': "Round 14: ping deadline computed as a fraction of the interval (exactly 1/2); verdict-local reachability; threshold as max(thr+a,b).",
 'C14': "Round 14: a countdown over granted scopes counts each scope once (otherwise that mechanism is UNDECIDED); IsZero is asked of the token's expiration itself.",
 'C15': "Round 14: URL check functions evaluated for concrete schemes (http, ftp, empty, javascript, data); a remembered registration is unreachable when the remembered issuer differs.",
 'C16': "Round 14: every view of the provided schema (copy, type-switch variable, derived flag) in the by-type-cache rule; a recursive has-defaults gate covers the whole schema.",
 'C17': "Round 14: insert evaluated under 'key is new'; an in-place merge needs a sorted operand; a decoded cursor is never answered from the start.",
 'C18': "Round 14: invalidation methods found from the notification handlers, bump/drop on every path or iteration; a stopped timer leaves its slot.",
 'C19': "Round 14: a hand-written DecodeID is run by a syntax-tree evaluator on 47 boundary ids (UNDECIDED if a run cannot finish); b[:0] of a buffer that outlives the round is a view.",
 'C20': "Round 14: After's locked copy evaluated at concrete (index, first, len) against the specification; aggregate byte counters paired like nBytes.",
}
EXTRA12 = {
 'C02': "Rounds 11-12: every way from integer syntax to the float coercion passes the exact parse (first-byte tests evaluated for '-', '0', '5', '9'); a hand-written id parser is UNDECIDED; no loop of the batch bookkeeping ranges over a collection its guards say is empty.",
 'C03': "Rounds 11-12: a goroutine that sends a notification is joined before the notifying function returns.",
 'C04': "Rounds 11-12: the bound of the notice's context depends on notifyCancellationTimeout and on nothing the caller's context says (WithTimeout or WithDeadline, through helpers); values followed through locals and on-the-spot literal parameters.",
 'C05': "Rounds 11-12: the notification counter is paired by a flag or by return-on-captured-error plus an unconditional deferred decrement.",
 'C09': "Rounds 11-12: the read error of the event scanner is compared with io.EOF and with no other sentinel.",
 'C11': "Rounds 11-12: startPOST/endPOST decided by evaluating their branch conditions for 0,1,2,3,7 POSTs in flight (re-arm only when the last one ends, always counted); members promoted from an embedded struct resolve.",
 'C12': "Rounds 11-12: the byte classes of the header encoder evaluated at 0x00,0x1F,0x20,'A',0x7E,0x7F,0x80,0xFF; binding paths fresh by role over everything behind extractParamHeaderAnnotations.",
 'C14': "Rounds 11-12: the per-request handler may be the ServeHTTP method of a type the constructor instantiates (fields set once from its parameters); status codes held in variables resolved per scenario.",
 'C15': "Rounds 11-12: which metadata fields each URL check sees is decided row by row, with the row's boolean columns substituted into the loop's conditions.",
 'C16': "Rounds 11-12: the by-type schema cache is neither read nor filled when a schema was provided in any form; the typed-input decode is found in generic helpers.",
 'C17': "Rounds 11-12: only NextCursor and the caller's own cursor are ever written into the params' cursor; one notion of 'index not built'; a bad cursor maps to invalid-params through any chain of helpers; an index maintained in place is UNDECIDED.",
 'C18': "Rounds 11-12: a debouncer, subscription table or fill token of another design is UNDECIDED.",
 'C19': "Rounds 11-12: what ReadSlice/ReadLine/Peek/Scanner.Bytes hand out is copied before it is stored or collected.",
 'C20': "Rounds 11-12: SessionClosed forgets the session on every path; list references counted through package structs and composite keys, a cache is tolerated only if SessionClosed resets it.",
}

for p in props:
    i = p['id']
    if i in CLAIMS:
        text, tech, ref = CLAIMS[i]
        add = ' '.join(x for x in (EXTRA.get(i), EXTRA9.get(i), EXTRA12.get(i), EXTRA14.get(i)) if x)
        if add:
            j = text.rfind('Not decided:')
            text = (text[:j] + add + ' ' + text[j:]) if j >= 0 else text + ' ' + add
        checks.append({
            "property_id": i,
            "quick_cmd": "./check.sh %s quick" % i,
            "thorough_cmd": "./check.sh %s thorough" % i,
            "evidence_file": "/verif/evidence/%s.json" % i,
            "replay_cmd_template": "./check.sh %s quick -explain {path}" % i,
            "engine": "mcpcheck",
            "level_claimed": {"category": "other", "text": text, "design_ref": ref},
            "level_note": NOTE,
            "technique": "static analysis: " + tech,
        })
    else:
        na.append({"property_id": i, "reason": REASONS.get(i, "check under construction (see DESIGN.md); not yet claimed")})

m = {
 "version": 1,
 "setup_cmd": "./setup.sh",
 "hooks": {"guard": "verif", "enable": "none needed: the analysis reads the ordinary build (no hook commits in /repo)",
           "baseline_off_cmd": "cd /repo && go test -mod=mod -vet=off -count=1 -timeout 25m ./...",
           "source_commits": [], "add_only": True},
 "engines": [{"name": "mcpcheck", "path": "checker/", "serves_properties": sorted(CLAIMS),
              "kind_free_text": "repository-specific static analyser: go/packages + source normalisation (inlining of unknown helpers, canonical if-forms) + go/cfg dominance/must-pass-through/three-valued reachability + must-locksets + table extraction; go/ssa + VTA call graph in the thorough tier"}],
 "checks": checks,
 "not_applicable": na,
 "notes": "All checks are static: they load and type-check /repo's current working tree on every run and execute none of it. "
          "known_findings.json lists genuine defects (fixed ones with their 'fix:' commit; known ones are printed as KNOWN-FINDING).",
}
json.dump(m, open(os.path.join(ROOT, 'MANIFEST.json'), 'w'), indent=1)
print("MANIFEST: %d checks, %d not applicable" % (len(checks), len(na)))

#!/usr/bin/env python3
"""Regenerates /verif/MANIFEST.json from the table below (one entry per claimed property)."""
import json, os, subprocess

ROOT = os.path.dirname(os.path.dirname(os.path.abspath(__file__)))
props = [json.loads(l) for l in open(os.path.join(ROOT, 'properties.jsonl'))]

NOTE = ("Trusted base: go/types, go/packages, x/tools go/cfg (and go/ssa + VTA call graph in the thorough tier), "
        "and the rule tables in checker/. Assumes user callbacks behave as the property's provisos say and that no "
        "reflection/unsafe touches the anchored state. Decides structural necessary conditions, not the behavioural statement as a whole.")

# id -> (text of the claim, technique, design section)
CLAIMS = {
 'C01': ("Decides, for every path and call site in the current source, the structural discipline that makes a call complete exactly once: "
         "in-flight state only touched under the state lock; ready/response written only by retire; every retire site removes (or never inserted) the table entry; "
         "Call registers under the lock with the shutting-down test before writing and retires on a failed write; the reader's exit drains every pending call; "
         "responses matched by id under an ok guard; Retire identity-guarded; closing errors mapped before the ctx arm. "
         "Not decided: wake-up liveness under all schedules.",
         "CFG must-pass-through / dominance rules, field-ownership and typestate rules over the type-checked AST; VTA who-may-call (thorough)", "§3 C01"),
}

REASONS = {}

checks, na = [], []
for p in props:
    i = p['id']
    if i in CLAIMS:
        text, tech, ref = CLAIMS[i]
        checks.append({
            "property_id": i,
            "quick_cmd": "./check.sh %s quick" % i,
            "thorough_cmd": "./check.sh %s thorough" % i,
            "evidence_file": "/verif/evidence/%s.json" % i,
            "replay_cmd_template": "./check.sh %s quick -explain {path}" % i,
            "engine": "mcpcheck",
            "level_claimed": {"category": "other", "text": text, "design_ref": ref},
            "level_note": NOTE,
            "technique": "static analysis: " + tech,
        })
    else:
        na.append({"property_id": i, "reason": REASONS.get(i, "check under construction (see DESIGN.md); not yet claimed")})

m = {
 "version": 1,
 "setup_cmd": "./setup.sh",
 "hooks": {"guard": "verif", "enable": "none needed: the analysis reads the ordinary build (no hook commits in /repo)",
           "baseline_off_cmd": "cd /repo && go test -mod=mod -vet=off -count=1 -timeout 25m ./...",
           "source_commits": [], "add_only": True},
 "engines": [{"name": "mcpcheck", "path": "checker/", "serves_properties": sorted(CLAIMS),
              "kind_free_text": "repository-specific static analyser: go/packages + go/cfg dominance/must-pass-through + must-locksets + table extraction; go/ssa + VTA call graph in the thorough tier"}],
 "checks": checks,
 "not_applicable": na,
 "notes": "All checks are static: they load and type-check /repo's current working tree on every run and execute none of it. "
          "known_findings.json lists genuine defects (fixed ones with their 'fix:' commit; known ones are printed as KNOWN-FINDING).",
}
json.dump(m, open(os.path.join(ROOT, 'MANIFEST.json'), 'w'), indent=1)
print("MANIFEST: %d checks, %d not applicable" % (len(checks), len(na)))

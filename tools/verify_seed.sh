#!/bin/bash
# usage: verify_seed.sh <dir with patch.diff demo_test.go DEMO_PATH.txt NOTES.md> <seed-id> <property>
# Confirms an independently written seeded change in a scratch worktree of /repo's HEAD:
#   builds, existing suite green with the change, demonstration red with / green without.
# On success stores it as /verif/seeded/<seed-id>/ (patch.diff, demo, NOTES.md, meta.json); the worktree is removed.
set -u
src=$1; id=$2; prop=$3
export GOPROXY=off; unset GOFLAGS GOWORK
wt=/tmp/vs-$id
log=/tmp/vs-$id.log
exec >"$log" 2>&1
git -C /repo worktree remove --force "$wt" 2>/dev/null
git -C /repo worktree add --detach "$wt" HEAD -q || exit 2
cleanup() { git -C /repo worktree remove --force "$wt"; }
trap cleanup EXIT
cd "$wt"
demo_rel=$(tr -d ' \n' < "$src/DEMO_PATH.txt")
demo_pkg=./$(dirname "$demo_rel")
testname=$(grep -ho 'func Test[A-Za-z0-9_]*' "$src/demo_test.go" | sed 's/func //' | paste -sd'|')
echo "== seed $id property $prop demo $demo_rel tests $testname"
git apply --check "$src/patch.diff" || { echo "RESULT patch-does-not-apply"; exit 1; }
# 1. demo passes without the change
cp "$src/demo_test.go" "$demo_rel"
if go test -count=2 -run "^($testname)\$" "$demo_pkg" >/tmp/vs-$id.clean.out 2>&1; then echo "demo without change: PASS"; else echo "demo without change: FAIL"; tail -20 /tmp/vs-$id.clean.out; echo "RESULT demo-fails-on-clean-tree"; exit 1; fi
rm -f "$demo_rel"
# 2. apply, build, vet, suite
git apply "$src/patch.diff"
go build ./... || { echo "RESULT does-not-build"; exit 1; }
if go test -count=1 ./... >/tmp/vs-$id.suite.out 2>&1; then echo "suite with change: PASS"; else
  # one retry for flaky timing tests
  if go test -count=1 ./... >/tmp/vs-$id.suite.out 2>&1; then echo "suite with change: PASS (2nd run)"; else echo "suite with change: FAIL"; grep -E "^(---|FAIL|panic)" /tmp/vs-$id.suite.out | head; echo "RESULT suite-fails"; exit 1; fi
fi
# 3. demo fails with the change
cp "$src/demo_test.go" "$demo_rel"
if go test -count=1 -timeout 120s -run "^($testname)\$" "$demo_pkg" >/tmp/vs-$id.mut.out 2>&1; then echo "demo with change: PASS (not a demonstration)"; echo "RESULT demo-does-not-fail"; exit 1; else echo "demo with change: FAIL (as required)"; grep -E "^\s+\S+_test.go|^---|panic|timed out" /tmp/vs-$id.mut.out | head -5; fi
dst=/verif/seeded/$id
mkdir -p "$dst"
cp "$src/patch.diff" "$dst/patch.diff"
cp "$src/demo_test.go" "$dst/demo_test.go"
cp "$src/DEMO_PATH.txt" "$dst/DEMO_PATH.txt"
cp "$src/NOTES.md" "$dst/NOTES.md" 2>/dev/null
echo "RESULT confirmed"

#!/bin/bash
# usage: nzshow.sh <patch> <prop> — applies the patch to a scratch copy, dumps the normalised files to /tmp/nzdump and prints the reports
cd "$(dirname "$0")/.."; . ./env.sh
d=$(mktemp -d /tmp/nzshow-XXXX); trap 'rm -rf "$d"' EXIT
rsync -a --exclude .git /repo/ "$d/"; git -C "$d" apply --whitespace=nowarn "$1" || exit 2
rm -rf /tmp/nzdump; MCPCHECK_NZ_DEBUG=1 MCPCHECK_NZ_DUMP=/tmp/nzdump ${MCPCHECK_BIN:-bin/mcpcheck} -property $2 -repo "$d" -no-evidence -whole 2>&1 | grep -v "^NZ-SKIP\|    used at" | cut -c1-400
ls /tmp/nzdump 2>/dev/null

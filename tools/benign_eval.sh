#!/bin/bash
# usage: benign_eval.sh <patch.diff>...   — every report is a candidate false alarm (or the patch is not benign)
cd "$(dirname "$0")/.."
ALL="C01 C02 C03 C04 C05 C06 C07 C08 C09 C10 C11 C12 C13 C14 C15 C16 C17 C18 C19 C20"
for p in "$@"; do
  echo "##### $p"
  tools/try_patch.sh "$p" $ALL 2>&1 | grep -v ": 0 reports"
done

#!/usr/bin/env python3
"""usage: corpus_eval.py [--no-normalise] [--props C01,C02|all|own] [-j N] [--out file.json] patch.diff...
Applies each patch to a scratch copy of /repo and runs the quick rules (one process, whole program from source).
Prints per patch the number of violation-kind reports and of undecided-kind reports; every report on a benign patch is a
candidate false alarm. 'own' = the property named by the patch's directory/file name prefix (Cxx)."""
import sys, os, subprocess, tempfile, shutil, json, re
from concurrent.futures import ThreadPoolExecutor
root = os.path.dirname(os.path.dirname(os.path.abspath(__file__)))
args = sys.argv[1:]
showu = False; nonorm = False; props = 'all'; jobs = 6; out = None; patches = []
i = 0
while i < len(args):
    a = args[i]
    if a == '--no-normalise': nonorm = True
    elif a == '--show-undecided': showu = True
    elif a == '--props': i += 1; props = args[i]
    elif a == '-j': i += 1; jobs = int(args[i])
    elif a == '--out': i += 1; out = args[i]
    else: patches.append(os.path.abspath(a))
    i += 1
env = dict(os.environ)
env['PATH'] = '/opt/veriftools/go1.26.8/bin:' + env['PATH']
env.update(GOTOOLCHAIN='local', GOPROXY='off', GOSUMDB='off', GOFLAGS='-mod=readonly -trimpath', VERIF_ROOT=root)
env.pop('GOWORK', None)
def own(p):
    m = re.search(r'(C\d\d)', p)
    return m.group(1) if m else 'all'
def run(p):
    d = tempfile.mkdtemp(prefix='corpus-')
    try:
        subprocess.run(['rsync', '-a', '--exclude', '.git', '/repo/', d + '/'], check=True)
        r = subprocess.run(['git', '-C', d, 'apply', '--whitespace=nowarn', p], capture_output=True, text=True)
        if r.returncode != 0:
            return p, None, 'patch does not apply: ' + r.stderr[:200]
        pr = props if props != 'own' else own(p)
        res = []
        for one in (pr.split(',') if pr != 'all' else ['all']):
            cmd = [os.environ.get('MCPCHECK_BIN', root + '/bin/mcpcheck'), '-property', one, '-repo', d, '-no-evidence', '-whole']
            if nonorm: cmd.append('-no-normalise')
            r = subprocess.run(cmd, capture_output=True, text=True, env=env, cwd=root)
            res += [l for l in r.stdout.splitlines() if l.startswith('MUTANT-') or 'load failure' in l or l.startswith('panic') or l.startswith('NORMALISE')]
        return p, res, None
    finally:
        shutil.rmtree(d, ignore_errors=True)
results = {}
with ThreadPoolExecutor(jobs) as ex:
    for p, res, err in ex.map(run, patches):
        short = '/'.join(p.split('/')[-2:])
        if err:
            print(f'{short}: ERROR {err}'); results[short] = {'error': err}; continue
        viol = [l for l in res if l.startswith('MUTANT-REPORT')]
        und = [l for l in res if l.startswith('MUTANT-UNDECIDED')]
        oth = [l for l in res if not l.startswith('MUTANT-')]
        print(f'{short}: violations={len(viol)} undecided={len(und)}' + (' ' + ' | '.join(oth)[:300] if oth else ''))
        for l in viol: print('    ' + l[14:260])
        if showu:
            for l in und: print('    U ' + l[17:300])
        results[short] = {'violations': viol, 'undecided': und, 'other': oth}
if out:
    json.dump(results, open(out, 'w'), indent=1)
tv = sum(1 for r in results.values() if r.get('violations'))
tu = sum(1 for r in results.values() if r.get('undecided') and not r.get('violations'))
print(f'TOTAL patches={len(results)} with-violation-reports={tv} only-undecided={tu}')

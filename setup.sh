#!/bin/bash
# Builds the checker from vendored sources only (offline).
set -euo pipefail
cd "$(dirname "$0")"
. ./env.sh
mkdir -p bin evidence
(cd checker && GOFLAGS=-mod=vendor go build -o ../bin/mcpcheck .)
echo "built bin/mcpcheck"

#!/bin/bash
# usage: check.sh <property> [quick|thorough]
cd "$(dirname "$0")"
. ./env.sh
[ -x bin/mcpcheck ] || ./setup.sh >/dev/null
exec bin/mcpcheck -property "$1" -tier "${2:-${VERIF_TIER:-quick}}" "${@:3}"

package main

import (
	"go/ast"
	"go/token"
	"go/types"
	"strings"
)

func init() { register("C16", rulesC16, nil) }

func rulesC16(c *Ctx) {
	defer rulesC16Client(c)
	tf := c.Fn(pM, "", "toolForErr")
	applyObj := c.FnObj(pM, "", "applySchema")
	unm := c.FnObj(pIJ, "", "Unmarshal")
	// role anchor: the handler literal = the literal that calls the typed handler parameter h
	c.Need(len(tf.NonRecvParams()) == 3, "toolForErr(t, h, cache)")
	hParam := tf.NonRecvParams()[1]
	setSchemaObj := c.FnObj(pM, "", "setSchema")
	// the resolved-schema variable paired with a Tool schema field: the one whose address is handed to
	// setSchema together with the address of that field
	resolvedFor := func(field string) types.Object {
		fld := c.Field(pM, "Tool", field)
		var out types.Object
		for _, call := range tf.CallsIn(tf.Body, setSchemaObj, false) {
			if len(call.Args) < 2 {
				continue
			}
			a0, ok0 := ast.Unparen(call.Args[0]).(*ast.UnaryExpr)
			a1, ok1 := ast.Unparen(call.Args[1]).(*ast.UnaryExpr)
			if ok0 && ok1 && a0.Op == token.AND && a1.Op == token.AND && tf.IsField(a0.X, fld) {
				out = tf.ObjOf(a1.X)
			}
		}
		return out
	}
	inputResolved, outputResolved := resolvedFor("InputSchema"), resolvedFor("OutputSchema")
	c.Need(inputResolved != nil && outputResolved != nil, "toolForErr: setSchema(&tt.InputSchema, &inputResolved, …) and setSchema(&tt.OutputSchema, &outputResolved, …)")
	var th *Func
	for _, l := range tf.AllLits() {
		for _, call := range l.AllCalls(l.Body, false) {
			if l.ObjOf(call.Fun) == types.Object(hParam) {
				th = l
			}
		}
	}
	c.Need(th != nil, "toolForErr: handler literal calling h")
	c.touch(th)
	g := th.Graph()
	var hv = -1
	var hcall *ast.CallExpr
	for v := 0; v < g.N; v++ {
		if n := g.Node(v); n != nil {
			for _, call := range th.AllCalls(n, false) {
				if th.ObjOf(call.Fun) == types.Object(hParam) {
					hv, hcall = v, call
				}
			}
		}
	}
	setErr := c.FnObj(pM, "CallToolResult", "SetError")

	c.Rule("R-C16-1", "the typed handler runs only after validate+default and a case-sensitive decode of the defaulted JSON; both failure branches answer a tool-level error without running it", func() {
		var inApply *ast.CallExpr
		var inV = -1
		for _, v := range g.callVertices(applyObj) {
			call := th.CallsIn(g.Node(v), applyObj, false)[0]
			if exprStr(call.Args[2]) == "false" {
				inApply, inV = call, v
			}
		}
		c.Need(inApply != nil, "handler: applySchema(input, inputResolved, false)")
		as, _ := g.Node(inV).(*ast.AssignStmt)
		c.Need(as != nil && len(as.Lhs) == 2, "handler: input, err = applySchema(...)")
		inputVar, aerr := th.ObjOf(as.Lhs[0]), th.ObjOf(as.Lhs[1])
		c.Check(th.ObjOf(inApply.Args[1]) == inputResolved, "handler:validates-against-input-schema", th, inApply, "arguments are validated against the tool's resolved input schema")
		guards := g.GuardsAt(hv)
		c.Check(g.Dominates(inV, hv) && hasAtom(guards, func(a Atom) bool { return AtomSaysNil(a, true, func(e ast.Expr) bool { return th.ObjOf(e) == aerr }) }), "handler:validated-before-call", th, hcall, "h is dominated by applySchema returning no error (guards: %s)", atomsString(guards))
		// decode
		var inVar types.Object
		if len(hcall.Args) == 3 {
			inVar = th.ObjOf(hcall.Args[2])
		}
		// the decode target belongs to this call: it is declared inside the per-call closure (hoisted out of it, one value is
		// shared by all calls of the tool — fields a request omits keep what an earlier request put there, and concurrent
		// calls race on it)
		if iv, isV := inVar.(*types.Var); isV && th.Lit != nil {
			c.Check(th.Lit.Pos() <= iv.Pos() && iv.Pos() < th.Lit.End(), "handler:input-value-is-per-call", th, hcall, "the value the arguments are decoded into is declared inside the handler closure")
		}
		nDec := 0
		for _, v := range g.Vertices(func(n ast.Node) bool {
			for _, call := range th.AllCalls(n, false) {
				if len(call.Args) == 2 {
					if u, ok := ast.Unparen(call.Args[1]).(*ast.UnaryExpr); ok && th.ObjOf(u.X) == inVar && inVar != nil {
						return true
					}
				}
			}
			return false
		}) {
			nDec++
			for _, call := range th.AllCalls(g.Node(v), false) {
				if len(call.Args) != 2 {
					continue
				}
				c.Check(th.IsCallTo(call, unm), "handler:decode-is-case-sensitive", th, call, "the typed input is decoded with internal/json.Unmarshal (case-sensitive, like the schema validation that preceded it); encoding/json would fold a differently-cased, unvalidated key into the typed field")
				c.Check(th.ObjOf(call.Args[0]) == inputVar, "handler:decodes-the-validated-json", th, call, "what is decoded is applySchema's result (with defaults), not the raw arguments")
				c.Check(g.ReachableFrom(inV)[v] && g.ReachableFrom(v)[hv], "handler:decode-between-validate-and-call", th, call, "the decode sits between validation and the call")
				derr := errVarOfCall(th, g.Node(v))
				c.Check(derr != nil && hasAtom(guards, func(a Atom) bool { return true }) && decodeErrorReturns(th, g, v, derr, hv), "handler:decode-error-skips-handler", th, call, "a decode error returns a tool error without calling h")
			}
		}
		// the decode may sit in a generic helper behind the handler (decodeToolInput[In](input)): there the target is a
		// variable of a type parameter
		for _, g0 := range c.pkgClosure(th) {
			if g0 == th || g0 == th.Root() {
				continue
			}
			for _, call := range g0.AllCalls(g0.Body, true) {
				fn := g0.Callee(call)
				if fn == nil || fn.Name() != "Unmarshal" || len(call.Args) != 2 {
					continue
				}
				u, ok := ast.Unparen(call.Args[1]).(*ast.UnaryExpr)
				if !ok || u.Op != token.AND {
					continue
				}
				if _, isTP := g0.TypeOf(u.X).(*types.TypeParam); !isTP {
					continue
				}
				nDec++
				c.touch(g0)
				c.Check(g0.IsCallTo(call, unm), "handler:decode-is-case-sensitive", g0, call, "the typed input is decoded with internal/json.Unmarshal (case-sensitive, like the schema validation that preceded it); encoding/json would fold a differently-cased, unvalidated key into the typed field")
			}
		}
		c.Pin("typed-input decode", nDec, 1)
		// failure branch of validation returns an IsError result
		for _, cv := range g.condVertices() {
			cond := g.Node(cv - 1).(ast.Expr)
			if x, twn, ok := NilTest(cond); ok && !twn && th.ObjOf(x) == aerr && g.ReachableFrom(inV)[cv-1] && !g.ReachableFrom(hv)[cv-1] {
				t, _ := g.BranchTargets(cv - 1)
				seen, _ := g.reach([]int{t}, nil, nil)
				okSet, _ := g.MustPassIncl(t, g.Exits, g.hasCall(setErr))
				if n := g.Node(t); n != nil && th.ContainsCall(n, setErr) {
					okSet = true
				}
				c.Check(!seen[hv] && okSet, "handler:invalid-arguments-tool-error", th, cond, "invalid arguments produce a result with SetError(...) and never reach h")
			}
		}
		// inputResolved is always set when setSchema succeeds
		ss := c.Fn(pM, "", "setSchema")
		sg := ss.Graph()
		c.Need(len(ss.NonRecvParams()) == 3, "setSchema(sfield, rfield, cache)")
		rf := ss.NonRecvParams()[1]
		isStore := func(v int) bool {
			for _, w := range Writes(sg.Node(v), false) {
				if st, ok := ast.Unparen(w.LHS).(*ast.StarExpr); ok && ss.ObjOf(st.X) == types.Object(rf) {
					return true
				}
			}
			return false
		}
		for i, r := range successReturns(ss) {
			okd, p := sg.DominatedBy(sg.VertexOf(r), func(v int) bool { return sg.Node(v) != nil && isStore(v) })
			c.Check(okd, "setSchema:resolved-set#"+itoa(i), ss, r, "every successful return of setSchema has stored the resolved schema (so applySchema's nil-schema bypass cannot apply to input) %s", sg.PathString(p))
		}
	})

	c.Rule("R-C16-2", "structured content is only ever the output JSON that passed the output schema (with defaults); the text rendering is added when the handler supplied no content (or the JSON is not an object)", func() {
		sc := c.Field(pM, "CallToolResult", "StructuredContent")
		n := 0
		for _, w := range th.FieldWrites(th.Body, sc, false) {
			n++
			wv := g.VertexOf(w)
			as := w.(*ast.AssignStmt)
			src := th.ObjOf(as.Rhs[0])
			okSrc := false
			var oerr types.Object
			for _, v := range g.callVertices(applyObj) {
				call := th.CallsIn(g.Node(v), applyObj, false)[0]
				if exprStr(call.Args[2]) != "true" || th.ObjOf(call.Args[1]) != outputResolved {
					continue
				}
				if a2, ok := g.Node(v).(*ast.AssignStmt); ok && th.ObjOf(a2.Lhs[0]) == src && th.ObjOf(call.Args[0]) == src && g.Dominates(v, wv) {
					okSrc = true
					oerr = th.ObjOf(a2.Lhs[1])
				}
			}
			guards := g.GuardsAt(wv)
			c.Check(okSrc && oerr != nil && hasAtom(guards, func(a Atom) bool { return AtomSaysNil(a, true, func(e ast.Expr) bool { return th.ObjOf(e) == oerr }) }), "handler:structured-content-validated", th, w, "res.StructuredContent is the value returned by applySchema(outJSON, outputResolved, true) after its error test (guards: %s)", atomsString(guards))
			// the marshalled value is the handler's output
			okOut := false
			for _, w2 := range Writes(th.Body, false) {
				// outJSON := json.RawMessage(<bytes returned by json.Marshal(outval)>), outval initialised from h's output
				conv, isConv := ast.Unparen(w2.RHS).(*ast.CallExpr)
				if th.ObjOf(w2.LHS) != src || w2.RHS == nil || !isConv || len(conv.Args) != 1 {
					continue
				}
				if tv, ok := th.Info().Types[conv.Fun]; !ok || !tv.IsType() {
					continue
				}
				for _, mc := range th.AllCalls(th.Body, false) {
					fn := th.Callee(mc)
					if fn == nil || fn.Name() != "Marshal" || len(mc.Args) != 1 {
						continue
					}
					mas, isAs := th.ParentOf(mc).(*ast.AssignStmt)
					if !isAs || th.ObjOf(mas.Lhs[0]) != th.ObjOf(conv.Args[0]) {
						continue
					}
					// the marshalled variable starts as the handler's second result
					if has, isAs := g.Node(hv).(*ast.AssignStmt); isAs && len(has.Lhs) == 3 {
						outObj := th.ObjOf(has.Lhs[1])
						inspectNoLit(th.Body, func(n ast.Node) {
							if vs, ok := n.(*ast.ValueSpec); ok && len(vs.Names) == 1 && len(vs.Values) == 1 && th.ObjOf(vs.Names[0]) == th.ObjOf(mc.Args[0]) && th.ObjOf(vs.Values[0]) == outObj {
								okOut = true
							}
						})
					}
				}
			}
			c.Check(okOut, "handler:structured-content-is-output-json", th, w, "the validated JSON is the marshalled handler output")
		}
		c.Pin("StructuredContent stores", n, 1)
		// output validation failure is an error return, not a result
		okFail := false
		for _, r := range th.Returns() {
			if len(r.Results) == 2 && isNilIdent(r.Results[0]) {
				if ce, ok := ast.Unparen(r.Results[1]).(*ast.CallExpr); ok {
					if f, ok := th.ConstString(ce.Args[0]); ok && f == "validating tool output: %w" {
						okFail = true
					}
				}
			}
		}
		c.Check(okFail, "handler:invalid-output-is-error", th, nil, "output that violates the schema is reported as an error, not returned")
		// text fallback
		contentF := c.Field(pM, "CallToolResult", "Content")
		fb := 0
		for _, w := range th.FieldWrites(th.Body, contentF, false) {
			guards := g.GuardsAt(g.VertexOf(w))
			isNilBranch := hasAtom(guards, func(a Atom) bool {
				return AtomSaysNil(a, true, func(e ast.Expr) bool { return th.IsField(e, contentF) })
			})
			notObj := hasAtom(guards, func(a Atom) bool {
				ce, ok := a.E.(*ast.CallExpr)
				return ok && !a.Val && th.Callee(ce) != nil && th.Callee(ce).Name() == "isObjectJSON"
			})
			if isNilBranch {
				// the branch is taken exactly when `res.Content == nil`: that test, and no other non-exit test, gates the write
				// (whether it is written as an if, an else-if or a case)
				if gate := g.gateOf(g.VertexOf(w)); len(gate) > 0 {
					if cond, ok := g.Node(gate[len(gate)-1]).(ast.Expr); ok {
						if x, twn, isNil := NilTest(cond); isNil && twn && th.IsField(x, contentF) {
							fb++
						}
					}
				}
			} else if notObj {
				fb++
			}
		}
		c.Check(fb == 2, "handler:text-fallback", th, nil, "a TextContent rendering of the structured JSON is added when Content is nil, and appended when the JSON is not an object (%d/2 branches)", fb)
	})

	c.Rule("R-C16-3", "applySchema applies defaults before validating, validates the defaulted value, and returns that very value whenever defaults were applied", func() {
		as := c.Fn(pM, "", "applySchema")
		ag := as.Graph()
		var defV, valV []int
		var subject types.Object
		for v := 0; v < ag.N; v++ {
			if n := ag.Node(v); n != nil {
				for _, call := range as.AllCalls(n, false) {
					fn := as.Callee(call)
					if fn == nil {
						continue
					}
					switch fn.Name() {
					case "ApplyDefaults":
						defV = append(defV, v)
					case "Validate":
						valV = append(valV, v)
						if u, ok := ast.Unparen(call.Args[0]).(*ast.UnaryExpr); ok {
							subject = as.ObjOf(u.X)
						}
					}
				}
			}
		}
		c.Need(len(defV) >= 1 && len(valV) == 1 && subject != nil, "applySchema: ApplyDefaults and Validate calls")
		// a null output is turned into an empty object only for a schema whose root type is "object" (for an array or
		// nullable schema, {} is a different value — and usually an invalid one)
		for _, w := range Writes(as.Body, false) {
			ce, isC := ast.Unparen(w.RHS).(*ast.CallExpr)
			if w.RHS == nil || !isC || as.BuiltinName(ce) != "make" || as.ObjOf(w.LHS) != subject {
				continue
			}
			if _, isMap := as.TypeOf(ce.Args[0]).Underlying().(*types.Map); !isMap {
				continue
			}
			gs := ag.GuardsAt(ag.VertexOf(w.Stmt))
			c.Check(hasAtom(gs, func(a Atom) bool {
				_, y, op, ok := binaryCmp(a.E)
				sv, isS := as.ConstString(y)
				return ok && op == token.EQL && a.Val && isS && sv == "object"
			}), "applySchema:null-becomes-object-only-for-object-schemas", as, w.Stmt, "the {} that replaces a null value is installed only under `Type == \"object\"` (guards: %s)", atomsString(gs))
		}
		for i, dv := range defV {
			call := as.AllCalls(ag.Node(dv), false)
			same := false
			for _, cc := range call {
				if fn := as.Callee(cc); fn != nil && fn.Name() == "ApplyDefaults" {
					if u, ok := ast.Unparen(as.valueOf(cc.Args[0])).(*ast.UnaryExpr); ok && as.ObjOf(u.X) == subject {
						same = true // (also through a local that holds &subject: the pointer parameter of an expanded helper)
					}
				}
			}
			c.Check(same && ag.ReachableFrom(dv)[valV[0]] && !ag.ReachableFrom(valV[0])[dv], "applySchema:defaults-before-validate#"+itoa(i), as, ag.Node(dv), "defaults are applied to the same value that is validated afterwards")
		}
		// when the schema itself is asked whether there is anything to apply (a predicate over the *jsonschema.Schema in the
		// condition in front of ApplyDefaults), the question must cover what ApplyDefaults covers: a predicate that walks the
		// schema tree descends into every sub-schema - its recursive call is skipped only by nil tests, by tests of the
		// Default / Properties members, or because an earlier descent already answered
		for i, dv := range defV {
			nPred := 0
			seenPred := map[*types.Func]bool{}
			for _, a := range ag.GuardsAt(dv) {
				for _, pc := range as.AllCalls(a.E, false) {
					fn := as.Callee(pc)
					pf := c.P.FuncOf(fn)
					if fn == nil || pf == nil || pf.Body == nil || fn.Pkg() != as.Pkg.Types || !c16TakesSchema(pf) || seenPred[fn] {
						continue
					}
					seenPred[fn] = true
					nPred++
					c.touch(pf)
					key := "applySchema:defaults-gate-covers-the-schema#" + itoa(i) + ":" + itoa(nPred)
					rec := pf.CallsIn(pf.Body, fn, false)
					if len(rec) == 0 {
						c.Undecided(key, as, pc, "ApplyDefaults runs only if a predicate over the schema holds, and that predicate does not walk the schema tree in a way this rule can judge")
						continue
					}
					bad := ""
					for _, rcall := range rec {
						if why := c16DescentSkippedBy(pf, fn, rcall); why != "" && bad == "" {
							bad = why
						}
					}
					c.Check(bad == "", key, pf, rec[0], "ApplyDefaults runs only if a predicate over the schema holds; that predicate descends into every sub-schema (its recursive call is skipped only by nil / Default / Properties tests)%s", func() string {
						if bad == "" {
							return ""
						}
						return ": descent depends on `" + bad + "`, so defaults declared below a sub-schema that fails this test are never applied"
					}())
				}
			}
		}
		// every success return after Validate
		for i, r := range successReturns(as) {
			rv := ag.VertexOf(r)
			if hasAtom(ag.GuardsAt(rv), func(a Atom) bool {
				return AtomSaysNil(a, true, func(e ast.Expr) bool { return as.ObjOf(e) == types.Object(as.NonRecvParams()[1]) })
			}) {
				c.Ok("applySchema:return#"+itoa(i)+"(no schema)", as, r, "no schema to apply")
				continue
			}
			c.Check(ag.Dominates(valV[0], rv), "applySchema:return#"+itoa(i)+"-validated", as, r, "a value is returned only after Validate succeeded")
		}
		// the flag that selects "return the original bytes" is a faithful record of "ApplyDefaults ran"
		var flag types.Object
		for _, r := range successReturns(as) {
			if as.ObjOf(r.Results[0]) == types.Object(as.NonRecvParams()[0]) {
				for _, a := range ag.GuardsAt(ag.VertexOf(r)) {
					if id, ok := a.E.(*ast.Ident); ok && !a.Val {
						// a boolean variable that is assigned a literal somewhere (not the comma-ok of a type assertion)
						if o, isVar := as.ObjOf(id).(*types.Var); isVar {
							for _, w := range as.writesToVar(as.Body, o, true) {
								if rhs := rhsFor(as, w, o); rhs != nil && (exprStr(rhs) == "true" || exprStr(rhs) == "false") {
									flag = o
								}
							}
						}
					}
				}
			}
		}
		c.Need(flag != nil, "applySchema: flag guarding the return of the original bytes")
		okFlag := !as.addressTaken(flag)
		// once ApplyDefaults has run, the flag is only ever given the constant true …
		for _, w := range as.writesToVar(as.Body, flag, true) {
			wv := ag.VertexOf(w)
			after := wv < 0 // in a literal: could run at any time
			for _, dv := range defV {
				if wv >= 0 && ag.ReachableFrom(dv)[wv] {
					after = true
				}
			}
			if !after {
				continue
			}
			if rhs := rhsFor(as, w, flag); rhs == nil || exprStr(rhs) != "true" {
				okFlag = false // false, or computed from something else (e.g. a size comparison): not a faithful record
			}
		}
		// … and it is true on every path from an ApplyDefaults to the validation: set there, or already set where the
		// call is made (the call is made because the flag is set)
		for _, dv := range defV {
			okp, _ := ag.MustPass(dv, valV, func(v int) bool {
				for _, w := range as.writesToVar(ag.Node(v), flag, false) {
					if rhs := rhsFor(as, w, flag); rhs != nil && exprStr(rhs) == "true" {
						return true
					}
				}
				return false
			})
			if !okp && !hasAtom(ag.GuardsAt(dv), func(a Atom) bool { return a.Val && as.ObjOf(a.E) == flag }) {
				okFlag = false
			}
		}
		c.Check(okFlag, "applySchema:defaulted-value-is-returned", as, nil, "the 'defaults applied' flag is set to the constant true after every ApplyDefaults and to nothing else, so the original bytes are returned only when no defaults were applied; otherwise the handler would receive (or the client would see) the pre-default JSON although validation ran on the defaulted value")
		// the re-marshalled value is the validated one
		okM := false
		for _, call := range as.AllCalls(as.Body, false) {
			if fn := as.Callee(call); fn != nil && fn.FullName() == "encoding/json.Marshal" && as.ObjOf(call.Args[0]) == subject && ag.ReachableFrom(valV[0])[ag.VertexOf(call)] {
				okM = true
			}
		}
		c.Check(okM, "applySchema:remarshal-validated-value", as, nil, "the value re-marshalled for the caller is the value that was defaulted and validated")
	})

	c.Rule("R-C16-4", "the schema a tool advertises and the resolved schema its values are validated against are one pair: setSchema stores both from the same source on every path, the cache returns what was stored under the same key, and toolForErr pairs input with input and output with output", func() {
		ss := c.Fn(pM, "", "setSchema")
		sg := ss.Graph()
		c.Need(len(ss.NonRecvParams()) == 3, "setSchema(sfield, rfield, cache)")
		sf, rf := ss.NonRecvParams()[0], ss.NonRecvParams()[1]
		derefOf := func(e ast.Expr, p *types.Var) bool {
			st, ok := ast.Unparen(e).(*ast.StarExpr)
			return ok && ss.ObjOf(st.X) == types.Object(p)
		}
		// sfView: e denotes the value sfield holds - *sfield itself, a local that is only ever a copy of it, or the variable a
		// type switch over it binds
		var sfView func(e ast.Expr, depth int) bool
		sfView = func(e ast.Expr, depth int) bool {
			if derefOf(e, sf) {
				return true
			}
			id, isID := ast.Unparen(e).(*ast.Ident)
			if !isID || depth > 3 {
				return false
			}
			o := ss.ObjOf(id)
			if o == nil {
				return false
			}
			if ts := c16TypeSwitchOf(ss, o); ts != nil {
				if x := c16TypeSwitchOperand(ts); x != nil {
					return sfView(x, depth+1)
				}
				return false
			}
			v, isV := o.(*types.Var)
			if !isV || v.IsField() || v.Parent() == nil || v.Parent() == v.Pkg().Scope() {
				return false
			}
			for _, p := range ss.Params() {
				if types.Object(p) == o {
					return false
				}
			}
			n := 0
			for _, w := range Writes(ss.Body, false) {
				if lid, ok := ast.Unparen(w.LHS).(*ast.Ident); !ok || ss.ObjOf(lid) != o {
					continue
				}
				if w.RHS == nil || !sfView(w.RHS, depth+1) {
					return false
				}
				n++
			}
			return n > 0
		}
		isSf := func(e ast.Expr) bool { return sfView(e, 0) }
		getT, setT := c.FnObj(pM, "SchemaCache", "getByType"), c.FnObj(pM, "SchemaCache", "setByType")
		getS, setS := c.FnObj(pM, "SchemaCache", "getBySchema"), c.FnObj(pM, "SchemaCache", "setBySchema")
		// resolvedOf: the schema object whose Resolve() produced the value of variable o (nil if o is not such a variable)
		resolvedOf := func(o types.Object) types.Object {
			var out types.Object
			for _, w := range ss.writesToVar(ss.Body, o, false) {
				as, ok := w.(*ast.AssignStmt)
				if !ok || len(as.Rhs) != 1 {
					continue
				}
				if ce, ok := ast.Unparen(as.Rhs[0]).(*ast.CallExpr); ok {
					if fn := ss.Callee(ce); fn != nil && fn.Name() == "Resolve" {
						if sel, ok := ast.Unparen(ce.Fun).(*ast.SelectorExpr); ok {
							out = ss.ObjOf(sel.X)
						}
					}
				}
			}
			return out
		}
		// the by-type cache answers for "the schema derived from T": it is neither consulted nor filled when the caller
		// supplied a schema, in whatever form (a *jsonschema.Schema, a map, raw JSON) — decided by evaluating the branch
		// conditions under "*sfield != nil"
		{
			// (case split on the nil-ness of a local taken from *sfield by type assertion — `provided, _ := (*sfield).(*Schema)` —
			// so that a guard such as `*sfield == nil || provided != nil` and a later `if provided != nil` are read together)
			var cand types.Object
			for _, w := range Writes(ss.Body, false) {
				as, isAs := w.Stmt.(*ast.AssignStmt)
				if !isAs || len(as.Rhs) != 1 {
					continue
				}
				if ta, isTA := ast.Unparen(as.Rhs[0]).(*ast.TypeAssertExpr); isTA && isSf(ta.X) && ss.ObjOf(as.Lhs[0]) != nil {
					cand = ss.ObjOf(as.Lhs[0])
				}
			}
			provided := make([]bool, sg.N)
			for _, candNil := range []tri{triTrue, triFalse} {
				candNil := candNil
				// the `case nil` of a type switch over the value is not taken when a schema was provided …
				nilCase := make([]bool, sg.N)
				inspectNoLit(ss.Body, func(n ast.Node) {
					ts, ok := n.(*ast.TypeSwitchStmt)
					if !ok {
						return
					}
					if x := c16TypeSwitchOperand(ts); x == nil || !isSf(x) {
						return
					}
					for _, st := range ts.Body.List {
						cc, ok := st.(*ast.CaseClause)
						if !ok || len(cc.List) != 1 || !isNilIdent(cc.List[0]) {
							continue
						}
						for v := 0; v < sg.N; v++ {
							if nd := sg.Node(v); nd != nil && nd.Pos() > cc.Colon && nd.End() <= cc.End() {
								nilCase[v] = true
							}
						}
					}
				})
				// … and a boolean local that becomes true only there (or somewhere else that cannot be reached) is false
				offFlags := map[types.Object]bool{}
				var r []bool
				for pass := 0; pass < 2; pass++ {
					r = sg.ReachUnder(func(e ast.Expr) tri {
						if id, isID := ast.Unparen(e).(*ast.Ident); isID && offFlags[ss.ObjOf(id)] {
							return triFalse
						}
						if x, trueWhenNil, isNil := NilTest(e); isNil {
							if isSf(x) {
								if trueWhenNil {
									return triFalse
								}
								return triTrue
							}
							if cand != nil && ss.ObjOf(x) == cand {
								if trueWhenNil {
									return candNil
								}
								return triNot(candNil)
							}
						}
						return triUnknown
					}, func(v int) bool { return nilCase[v] })
					if pass == 0 {
						offFlags = c16FlagsNeverSet(ss, sg, r)
						if len(offFlags) == 0 {
							break
						}
					}
				}
				for v := range r {
					if r[v] && (cand != nil || candNil == triTrue) {
						provided[v] = true
					}
				}
				if cand == nil {
					break
				}
			}
			nT := 0
			for _, fn := range []*types.Func{getT, setT} {
				for _, call := range ss.CallsIn(ss.Body, fn, false) {
					nT++
					c.Check(!provided[sg.VertexOf(call)], "setSchema:type-cache-only-without-a-provided-schema:"+fn.Name(), ss, call, "%s is unreachable when a schema was provided (*sfield != nil): a tool registered with its own schema in a non-pointer form must not be given the cached schema derived from its Go type", fn.Name())
				}
			}
			c.Pin("by-type cache accesses in setSchema", nT, 2)
		}
		// every store through rfield
		nR := 0
		for _, w := range Writes(ss.Body, false) {
			if !derefOf(w.LHS, rf) || w.RHS == nil {
				continue
			}
			nR++
			val := ss.ObjOf(w.RHS)
			wv := sg.VertexOf(w.Stmt)
			switch {
			case val != nil && resolvedOf(val) != nil:
				src := resolvedOf(val)
				// the schema that was resolved is what sfield holds on this path: either it was just stored through
				// sfield, or it was obtained from sfield (type assertion / remarshal of *sfield)
				fromS := false
				for _, w2 := range Writes(ss.Body, false) {
					if derefOf(w2.LHS, sf) && w2.RHS != nil && ss.ObjOf(w2.RHS) == src && sg.Dominates(sg.VertexOf(w2.Stmt), wv) {
						fromS = true
					}
				}
				for _, w2 := range ss.writesToVar(ss.Body, src, false) {
					as, ok := w2.(*ast.AssignStmt)
					if !ok || len(as.Rhs) != 1 {
						continue
					}
					// internalSchema = providedSchema where providedSchema, ok := (*sfield).(*jsonschema.Schema)
					if o := ss.ObjOf(as.Rhs[0]); o != nil {
						for _, w3 := range ss.writesToVar(ss.Body, o, false) {
							if a3, ok := w3.(*ast.AssignStmt); ok && len(a3.Rhs) == 1 {
								if ta, ok := ast.Unparen(a3.Rhs[0]).(*ast.TypeAssertExpr); ok && isSf(ta.X) {
									fromS = true
								}
							}
						}
					}
				}
				for _, call := range ss.AllCalls(ss.Body, false) {
					// remarshal(*sfield, &internalSchema)
					if fn := ss.Callee(call); fn != nil && fn.Name() == "remarshal" && len(call.Args) == 2 && isSf(call.Args[0]) {
						if u, ok := ast.Unparen(call.Args[1]).(*ast.UnaryExpr); ok && ss.ObjOf(u.X) == src {
							fromS = true
						}
					}
				}
				if !fromS {
					// the same, decided per definition of the resolved schema variable: each definition either takes the value
					// sfield holds (a type assertion / type-switch binding / copy / remarshal of it), or every path from it to
					// this store passes a store of the variable through sfield (a store under a flag that the definition's
					// own path sets counts)
					fromS = c16EveryDefTied(ss, sg, src, wv, isSf, func(e ast.Expr) bool { return derefOf(e, sf) })
				}
				c.Check(fromS, "setSchema:resolved-from-the-advertised-schema#"+itoa(nR), ss, w.Stmt, "the resolved schema stored through rfield was produced by Resolve() on the schema that sfield holds on this path")
			case val != nil && val == ss.VarFromCall(getT, 1):
				// cache hit by type: the schema of the same entry goes to sfield
				okPair := false
				for _, w2 := range Writes(ss.Body, false) {
					// (in either order: both stores sit on every path through this one)
					w2v := sg.VertexOf(w2.Stmt)
					if derefOf(w2.LHS, sf) && w2.RHS != nil && ss.ObjOf(w2.RHS) == ss.VarFromCall(getT, 0) && (sg.Dominates(w2v, wv) || func() bool { ok, _ := sg.PostDominatedBy(wv, func(u int) bool { return u == w2v }); return ok }()) {
						okPair = true
					}
				}
				c.Check(okPair, "setSchema:type-cache-hit-stores-the-pair#"+itoa(nR), ss, w.Stmt, "on a by-type cache hit both halves of the cached entry are stored (schema through sfield, resolved through rfield)")
			case val != nil && val == ss.VarFromCall(getS, 0):
				// cache hit by schema pointer: the key was the schema held by sfield
				okKey := false
				for _, call := range ss.CallsIn(ss.Body, getS, false) {
					if o := ss.ObjOf(call.Args[0]); o != nil {
						for _, w3 := range ss.writesToVar(ss.Body, o, false) {
							if a3, ok := w3.(*ast.AssignStmt); ok && len(a3.Rhs) == 1 {
								if ta, ok := ast.Unparen(a3.Rhs[0]).(*ast.TypeAssertExpr); ok && isSf(ta.X) {
									okKey = true
								}
							}
						}
					}
				}
				c.Check(okKey, "setSchema:schema-cache-hit-keyed-by-sfield#"+itoa(nR), ss, w.Stmt, "the by-pointer cache is asked with the very schema held by sfield")
			default:
				c.Undecided("setSchema:rfield-store#"+itoa(nR), ss, w.Stmt, "a resolved schema of unknown origin is stored through rfield")
			}
		}
		c.Pin("setSchema stores through rfield", nR, 4)
		// what is put into the caches is what was just stored, under the key that lookups use
		for _, call := range ss.CallsIn(ss.Body, setT, false) {
			okKey := false
			for _, g2 := range ss.CallsIn(ss.Body, getT, false) {
				if ss.ObjOf(g2.Args[0]) != nil && ss.ObjOf(g2.Args[0]) == ss.ObjOf(call.Args[0]) {
					okKey = true
				}
			}
			okVal := ss.ObjOf(call.Args[2]) != nil && resolvedOf(ss.ObjOf(call.Args[2])) == ss.ObjOf(call.Args[1]) && ss.ObjOf(call.Args[1]) != nil
			c.Check(okKey && okVal, "setSchema:type-cache-entry-consistent", ss, call, "setByType stores, under the key getByType uses, a schema together with the result of resolving that same schema")
		}
		for _, call := range ss.CallsIn(ss.Body, setS, false) {
			// the entry is self-consistent: the value is Resolve() of the key (the key variable is the resolved
			// schema variable itself, or one of the two is a plain copy of the other)
			key, val := ss.ObjOf(call.Args[0]), ss.ObjOf(call.Args[1])
			okPair := false
			if key != nil && val != nil {
				if src := resolvedOf(val); src != nil {
					copyOf := func(a, b types.Object) bool {
						for _, w3 := range ss.writesToVar(ss.Body, a, false) {
							if a3, ok := w3.(*ast.AssignStmt); ok && len(a3.Rhs) == 1 && ss.ObjOf(a3.Rhs[0]) == b {
								return true
							}
						}
						return false
					}
					// … or both are views of the schema held by sfield (type assertion of *sfield, a copy of one, or the
					// target of remarshal(*sfield, &x))
					var fromSfield func(o types.Object, depth int) bool
					fromSfield = func(o types.Object, depth int) bool {
						if o == nil || depth > 3 {
							return false
						}
						for _, w3 := range ss.writesToVar(ss.Body, o, false) {
							if a3, ok := w3.(*ast.AssignStmt); ok && len(a3.Rhs) == 1 {
								if ta, ok := ast.Unparen(a3.Rhs[0]).(*ast.TypeAssertExpr); ok && isSf(ta.X) {
									return true
								}
								if isSf(a3.Rhs[0]) || fromSfield(ss.ObjOf(a3.Rhs[0]), depth+1) {
									return true
								}
							}
						}
						for _, rc := range ss.AllCalls(ss.Body, false) {
							if fn := ss.Callee(rc); fn != nil && fn.Name() == "remarshal" && len(rc.Args) == 2 && isSf(rc.Args[0]) {
								if u, ok := ast.Unparen(rc.Args[1]).(*ast.UnaryExpr); ok && ss.ObjOf(u.X) == o {
									return true
								}
							}
						}
						return false
					}
					okPair = key == src || copyOf(src, key) || copyOf(key, src) || (fromSfield(key, 0) && fromSfield(src, 0))
				}
			}
			c.Check(okPair, "setSchema:schema-cache-entry-consistent", ss, call, "setBySchema stores, under a schema pointer, the result of resolving that same schema")
		}
		c.Pin("cache stores in setSchema", len(ss.CallsIn(ss.Body, setT, false))+len(ss.CallsIn(ss.Body, setS, false)), 2)
		// … and only after that resolution succeeded: a store reachable with a failed Resolve would cache a nil resolved
		// schema, which applySchema treats as "no schema" (nothing is validated on the next registration)
		for _, call := range append(ss.CallsIn(ss.Body, setT, false), ss.CallsIn(ss.Body, setS, false)...) {
			okOK := false
			// the Resolve call that produced the stored value, and its error variable
			val := ss.ObjOf(call.Args[len(call.Args)-1])
			for _, w := range ss.writesToVar(ss.Body, val, false) {
				as, isAs := w.(*ast.AssignStmt)
				if !isAs || len(as.Lhs) != 2 || len(as.Rhs) != 1 {
					continue
				}
				errV := ss.ObjOf(as.Lhs[1])
				rv, cv := sg.VertexOf(w), sg.VertexOf(call)
				if !sg.Dominates(rv, cv) {
					continue
				}
				// the store is on the err == nil side of the test of that error
				if hasAtom(sg.GuardsAt(cv), func(a Atom) bool { return AtomSaysNil(a, true, func(e ast.Expr) bool { return ss.ObjOf(e) == errV }) }) {
					okOK = true
				}
			}
			c.Check(okOK, "setSchema:cache-store-after-successful-resolve:"+ss.Callee(call).Name(), ss, call, "the cache is written only on the path where Resolve returned no error")
		}
		// the zero value for pointer types is fixed before any return: a return ahead of the Kind() == Pointer block (e.g. a
		// cache fast path) hands toolForErr a nil zero, and a handler returning a nil *Out then fails output validation
		zres := ss.NamedResult(0)
		okZero := zres != nil
		nz := 0
		for _, w := range ss.writesToVar(ss.Body, zres, false) {
			nz++
			gc := sg.guardingConds(sg.VertexOf(w))
			if len(gc) == 0 {
				continue // unconditional assignment: nothing to order
			}
			decide := gc[len(gc)-1] // the innermost test that decides whether the zero value is set
			for _, r := range ss.Returns() {
				if !sg.Dominates(decide, sg.VertexOf(r)) {
					okZero = false
				}
			}
		}
		okZero = okZero && nz >= 1
		// ... and what is returned is that value: every return of setSchema names the zero variable as its first result
		for i, r := range ss.Returns() {
			if len(r.Results) == 2 {
				c.Check(ss.ObjOf(r.Results[0]) == zres, "setSchema:returns-the-zero-value#"+itoa(i), ss, r, "the first result is the zero variable (a literal nil on some path loses the replacement for a nil *Out)")
			}
		}
		c.Check(okZero, "setSchema:zero-before-any-return", ss, nil, "the pointer-indirection test (which also fixes the zero value handed back to toolForErr) dominates every return of setSchema")
		// the cache accessors: reader and writer of each map agree
		byType, bySchema := c.Field(pM, "SchemaCache", "byType"), c.Field(pM, "SchemaCache", "bySchema")
		mapOf := func(f *Func, method string) *types.Var {
			var out *types.Var
			for _, call := range f.AllCalls(f.Body, false) {
				if fn := f.Callee(call); fn != nil && fn.Name() == method && fn.Pkg() != nil && fn.Pkg().Path() == "sync" {
					if sel, ok := ast.Unparen(call.Fun).(*ast.SelectorExpr); ok {
						if fld, ok := f.ObjOf(sel.X).(*types.Var); ok && fld.IsField() {
							out = fld
						}
					}
				}
			}
			return out
		}
		gt, st := c.Fn(pM, "SchemaCache", "getByType"), c.Fn(pM, "SchemaCache", "setByType")
		gs2, st2 := c.Fn(pM, "SchemaCache", "getBySchema"), c.Fn(pM, "SchemaCache", "setBySchema")
		c.Check(mapOf(gt, "Load") == byType && mapOf(st, "Store") == byType, "SchemaCache:by-type-map", gt, nil, "getByType loads from and setByType stores into the byType map")
		c.Check(mapOf(gs2, "Load") == bySchema && mapOf(st2, "Store") == bySchema, "SchemaCache:by-schema-map", gs2, nil, "getBySchema loads from and setBySchema stores into the bySchema map")
		// the key is the identity the lookup is about — the reflect.Type / the *Schema parameter itself, not a name or
		// string derived from it (two distinct types can share a package path and a name: function-local types)
		for _, f := range []*Func{gt, st, gs2, st2} {
			ps := f.NonRecvParams()
			okKey := false
			for _, call := range f.AllCalls(f.Body, false) {
				if fn := f.Callee(call); fn != nil && (fn.Name() == "Load" || fn.Name() == "Store") && fn.Pkg() != nil && fn.Pkg().Path() == "sync" && len(call.Args) >= 1 && len(ps) >= 1 {
					okKey = f.ObjOf(call.Args[0]) == types.Object(ps[0])
				}
			}
			c.Check(okKey, "SchemaCache:keyed-by-identity:"+f.Name(), f, nil, "the sync.Map key is the function's first parameter itself")
		}
		// setByType: cachedSchema{schema: <param 1>, resolved: <param 2>}; getByType returns cs.schema, cs.resolved in that order
		okW := false
		ast.Inspect(st.Body, func(n ast.Node) bool {
			cl, ok := n.(*ast.CompositeLit)
			if !ok || len(cl.Elts) != 2 {
				return true
			}
			m := map[string]types.Object{}
			for _, e := range cl.Elts {
				if kv, ok := e.(*ast.KeyValueExpr); ok {
					m[exprStr(kv.Key)] = st.ObjOf(kv.Value)
				}
			}
			ps := st.NonRecvParams()
			okW = len(ps) == 3 && m["schema"] == types.Object(ps[1]) && m["resolved"] == types.Object(ps[2])
			return true
		})
		okRd := false
		for _, r := range gt.Returns() {
			if len(r.Results) == 3 && !isNilIdent(r.Results[0]) {
				okRd = strings.HasSuffix(gt.FieldPath(r.Results[0]), "cachedSchema.schema") && strings.HasSuffix(gt.FieldPath(r.Results[1]), "cachedSchema.resolved")
			}
		}
		c.Check(okW && okRd, "SchemaCache:entry-fields-line-up", st, nil, "setByType fills {schema, resolved} from its parameters in that order and getByType returns them in that order")
		// toolForErr: In with InputSchema, Out with OutputSchema
		sig := tf.Obj.Type().(*types.Signature)
		c.Need(sig.TypeParams().Len() == 2, "toolForErr[In, Out]")
		for _, call := range tf.CallsIn(tf.Body, setSchemaObj, false) {
			a0, ok0 := ast.Unparen(call.Args[0]).(*ast.UnaryExpr)
			if !ok0 {
				continue
			}
			inst, hasInst := tf.Info().Instances[calleeIdent(call.Fun)]
			want := -1
			switch {
			case tf.IsField(a0.X, c.Field(pM, "Tool", "InputSchema")):
				want = 0
			case tf.IsField(a0.X, c.Field(pM, "Tool", "OutputSchema")):
				want = 1
			}
			okT := hasInst && want >= 0 && inst.TypeArgs.Len() == 1 && inst.TypeArgs.At(0) == types.Type(sig.TypeParams().At(want))
			c.Check(okT, "toolForErr:schema-type-pairing#"+itoa(want), tf, call, "the input schema is derived from In and the output schema from Out")
		}
	})
}

// rulesC16Client: the client-side code on which "the handler receives exactly the caller's values" depends.
func rulesC16Client(c *Ctx) {
	c.Rule("R-C16-5", "a multi-round-trip retry is the caller's request again: the client middleware re-sends the very request object it was given (only the input responses and the request state are filled in), so the typed handler sees the caller's arguments in every round", func() {
		mw := c.Fn(pM, "", "clientMultiRoundTripMiddleware")
		var inner *Func
		for _, l := range mw.AllLits() {
			if len(l.Params()) == 3 && len(l.AllLits()) == 0 {
				inner = l
			}
		}
		c.Need(inner != nil, "clientMultiRoundTripMiddleware: the handler literal")
		c.touch(inner)
		reqP := inner.ParamOfNamed(pM, "Request")
		c.Need(reqP != nil, "handler literal: req parameter")
		nextP := inner.Parent.ParamWhere(func(t types.Type) bool { return isNamedType(t, modPath+"/"+pM, "MethodHandler") })
		n := 0
		for _, call := range inner.AllCalls(inner.Body, false) {
			if nextP == nil || inner.ObjOf(call.Fun) != types.Object(nextP) {
				continue
			}
			n++
			c.Check(len(call.Args) == 3 && inner.ObjOf(call.Args[2]) == types.Object(reqP), "mrtr:next-gets-the-callers-request#"+itoa(n), inner, call, "next(ctx, method, req) is called with the middleware's own req parameter")
		}
		c.Pin("next(...) calls in the client multi-round-trip middleware", n, 2)
		c.Check(len(inner.writesToVar(inner.Body, reqP, true)) == 0, "mrtr:req-not-replaced", inner, nil, "the req parameter is never reassigned")
		// the helper that prepares the retry only sets InputResponses and RequestState
		sp := c.Fn(pM, "", "setMultiRoundTripRetryParams")
		okSet := true
		nSet := 0
		for _, w := range Writes(sp.Body, false) {
			if _, isLocal := ast.Unparen(w.LHS).(*ast.Ident); isLocal {
				continue
			}
			sel, isSel := ast.Unparen(w.LHS).(*ast.SelectorExpr)
			if !isSel {
				okSet = false
				continue
			}
			nSet++
			if sel.Sel.Name != "InputResponses" && sel.Sel.Name != "RequestState" {
				okSet = false
			}
		}
		c.Check(okSet && nSet >= 6, "mrtr:retry-touches-only-state-fields", sp, nil, "setMultiRoundTripRetryParams assigns nothing but InputResponses and RequestState (%d assignments)", nSet)
	})
	c.Import("R-C16-6", "a schema-valid call is not turned away before it reaches the typed-tool machinery for want of its mirrored headers: the client derives Mcp-Param-* from every tool definition it has cached", "C12", "R-C12-9", nil)
}

// calleeIdent returns the identifier naming the (possibly instantiated) function of a call expression.
func calleeIdent(fun ast.Expr) *ast.Ident {
	switch x := ast.Unparen(fun).(type) {
	case *ast.Ident:
		return x
	case *ast.SelectorExpr:
		return x.Sel
	case *ast.IndexExpr:
		return calleeIdent(x.X)
	case *ast.IndexListExpr:
		return calleeIdent(x.X)
	}
	return nil
}

// decodeErrorReturns: on the branch where derr != nil every path returns without reaching hv.
func decodeErrorReturns(f *Func, g *Graph, v int, derr types.Object, hv int) bool {
	for _, t := range g.edgesWhere(func(a Atom) bool { return AtomSaysNil(a, false, func(e ast.Expr) bool { return f.ObjOf(e) == derr }) }) {
		seen, _ := g.reach([]int{t}, nil, nil)
		if seen[hv] || t == hv {
			return false
		}
		// … and what is returned is a tool-level error: SetError is called on every path of the branch
		marks := func(u int) bool {
			for _, call := range f.AllCalls(g.Node(u), false) {
				if fn := f.Callee(call); fn != nil && fn.Name() == "SetError" {
					return true
				}
			}
			return false
		}
		return g.allPathsPass(t, marks)
	}
	return false
}

// rhsFor: the expression assigned to variable o by the assignment w (also in `a, b = x, y`); nil when there is none.
func rhsFor(f *Func, w ast.Node, o types.Object) ast.Expr {
	st, ok := w.(*ast.AssignStmt)
	if !ok || len(st.Lhs) != len(st.Rhs) {
		return nil
	}
	for i, l := range st.Lhs {
		if f.ObjOf(l) == o {
			return st.Rhs[i]
		}
	}
	return nil
}

// c16TypeSwitchOf: the type switch that binds obj in one of its clauses (nil if obj is not such a variable).
func c16TypeSwitchOf(f *Func, obj types.Object) *ast.TypeSwitchStmt {
	var out *ast.TypeSwitchStmt
	ast.Inspect(f.Body, func(n ast.Node) bool {
		ts, ok := n.(*ast.TypeSwitchStmt)
		if !ok || out != nil {
			return out == nil
		}
		for _, st := range ts.Body.List {
			if cc, ok := st.(*ast.CaseClause); ok {
				if o := f.Info().Implicits[cc]; o != nil && o == obj {
					out = ts
				}
			}
		}
		return true
	})
	return out
}

// c16TypeSwitchOperand: x of `switch [v :=] x.(type)`.
func c16TypeSwitchOperand(ts *ast.TypeSwitchStmt) ast.Expr {
	var e ast.Expr
	switch a := ts.Assign.(type) {
	case *ast.AssignStmt:
		if len(a.Rhs) == 1 {
			e = a.Rhs[0]
		}
	case *ast.ExprStmt:
		e = a.X
	}
	if ta, ok := ast.Unparen(e).(*ast.TypeAssertExpr); ok && ta.Type == nil {
		return ta.X
	}
	return nil
}

// c16FlagsNeverSet: the boolean locals of f that start false and whose every assignment of something other than false sits
// at a vertex that reach says is not reachable.
func c16FlagsNeverSet(f *Func, g *Graph, reach []bool) map[types.Object]bool {
	type st struct{ ok, set bool }
	flags := map[types.Object]*st{}
	for _, w := range Writes(f.Body, false) {
		id, isID := ast.Unparen(w.LHS).(*ast.Ident)
		if !isID {
			continue
		}
		v, isV := f.ObjOf(id).(*types.Var)
		if !isV || v.IsField() {
			continue
		}
		if b, isB := v.Type().Underlying().(*types.Basic); !isB || b.Kind() != types.Bool {
			continue
		}
		s := flags[v]
		if s == nil {
			s = &st{ok: true}
			flags[v] = s
		}
		if _, isSpec := w.Stmt.(*ast.ValueSpec); isSpec && w.RHS == nil {
			continue // zero value
		}
		if w.RHS == nil {
			s.ok = false
			continue
		}
		if bv, isC := f.ConstBool(w.RHS); isC && !bv {
			continue
		}
		if reach[g.VertexOf(w.Stmt)] {
			s.ok = false
		}
		s.set = true
	}
	out := map[types.Object]bool{}
	for o, s := range flags {
		if s.ok && s.set && !f.addressTaken(o) {
			for _, p := range f.Params() {
				if types.Object(p) == o {
					s.ok = false
				}
			}
			if s.ok {
				out[o] = true
			}
		}
	}
	return out
}

// c16EveryDefTied: every definition of the schema variable src that can reach vertex wv is tied to what sfield holds: it takes
// a view of that value (isView), or every path from it to wv stores src through sfield (isStoreTarget recognises the
// left-hand side), where a store guarded by a boolean local counts if every path from the definition to wv sets that local.
func c16EveryDefTied(f *Func, g *Graph, src types.Object, wv int, isView func(ast.Expr) bool, isStoreTarget func(ast.Expr) bool) bool {
	type def struct {
		v    int
		tied bool
	}
	var defs []def
	for _, w := range Writes(f.Body, false) {
		if id, ok := ast.Unparen(w.LHS).(*ast.Ident); !ok || f.ObjOf(id) != src {
			continue
		}
		if _, isSpec := w.Stmt.(*ast.ValueSpec); isSpec && w.RHS == nil {
			continue
		}
		defs = append(defs, def{g.VertexOf(w.Stmt), w.RHS != nil && isView(w.RHS)})
	}
	for _, call := range f.AllCalls(f.Body, false) {
		for i, a := range call.Args {
			if u, ok := ast.Unparen(a).(*ast.UnaryExpr); ok && u.Op == token.AND && f.ObjOf(u.X) == src {
				fn := f.Callee(call)
				tied := fn != nil && fn.Name() == "remarshal" && len(call.Args) == 2 && i == 1 && isView(call.Args[0])
				defs = append(defs, def{g.VertexOf(call), tied})
			}
		}
	}
	if len(defs) == 0 {
		return false
	}
	stores := map[int]bool{}
	for _, w := range Writes(f.Body, false) {
		if isStoreTarget(w.LHS) && w.RHS != nil && f.ObjOf(w.RHS) == src {
			stores[g.VertexOf(w.Stmt)] = true
		}
	}
	for _, d := range defs {
		if d.tied {
			continue
		}
		if from := g.ReachableFrom(d.v); !from[wv] {
			continue
		}
		if len(stores) == 0 {
			return false
		}
		// boolean locals that every path from this definition to wv sets to true
		on := map[types.Object]bool{}
		for _, w := range Writes(f.Body, false) {
			id, isID := ast.Unparen(w.LHS).(*ast.Ident)
			if !isID || w.RHS == nil {
				continue
			}
			if bv, isC := f.ConstBool(w.RHS); !isC || !bv {
				continue
			}
			o := f.ObjOf(id)
			setsIt := func(v int) bool {
				nd := g.Node(v)
				if nd == nil {
					return false
				}
				for _, w2 := range Writes(nd, false) {
					if id2, ok := ast.Unparen(w2.LHS).(*ast.Ident); ok && f.ObjOf(id2) == o && w2.RHS != nil {
						if b2, isC2 := f.ConstBool(w2.RHS); isC2 && b2 {
							return true
						}
					}
				}
				return false
			}
			if through, _ := g.MustPass(d.v, []int{wv}, setsIt); through {
				// … and nothing sets it back
				back := false
				for _, w2 := range Writes(f.Body, false) {
					if id2, ok := ast.Unparen(w2.LHS).(*ast.Ident); ok && f.ObjOf(id2) == o {
						if _, isSpec := w2.Stmt.(*ast.ValueSpec); isSpec {
							continue
						}
						if b2, isC2 := f.ConstBool(w2.RHS); w2.RHS == nil || !isC2 || !b2 {
							back = true
						}
					}
				}
				if !back {
					on[o] = true
				}
			}
		}
		// under "those flags are true", is wv reachable without passing a store through sfield and without passing another
		// definition of src?
		others := map[int]bool{}
		for _, d2 := range defs {
			if d2.v != d.v {
				others[d2.v] = true
			}
		}
		r := g.ReachUnder(func(e ast.Expr) tri {
			if id, ok := ast.Unparen(e).(*ast.Ident); ok && on[f.ObjOf(id)] {
				return triTrue
			}
			return triUnknown
		}, func(v int) bool { return stores[v] || others[v] })
		if r[wv] {
			return false
		}
	}
	return true
}

// c16TakesSchema: some parameter of f is a (pointer to a) jsonschema Schema.
func c16TakesSchema(f *Func) bool {
	for _, p := range f.NonRecvParams() {
		if nm := namedOf(p.Type()); nm != nil && nm.Obj().Name() == "Schema" && nm.Obj().Pkg() != nil && strings.HasSuffix(nm.Obj().Pkg().Path(), "jsonschema") {
			return true
		}
	}
	return false
}

// c16DescentSkippedBy: a condition under which the recursive call rcall of the schema predicate self is not evaluated and
// that is not a nil test, a test of the Default / Properties members or an earlier descent ("" if there is none).
func c16DescentSkippedBy(f *Func, self *types.Func, rcall *ast.CallExpr) string {
	allowed := func(e ast.Expr) bool {
		in, _ := stripNot(e)
		if _, _, ok := NilTest(in); ok {
			return true
		}
		ok := false
		ast.Inspect(in, func(n ast.Node) bool {
			switch x := n.(type) {
			case *ast.SelectorExpr:
				if fv, isV := f.ObjOf(x).(*types.Var); isV && fv.IsField() && (fv.Name() == "Default" || fv.Name() == "Properties") {
					ok = true
				}
			case *ast.CallExpr:
				if f.Callee(x) == self {
					ok = true
				}
			}
			return !ok
		})
		return ok
	}
	// operands evaluated before the call inside its own condition
	var child ast.Node = rcall
	for {
		par := f.ParentOf(child)
		switch p := par.(type) {
		case *ast.ParenExpr:
			child = p
			continue
		case *ast.UnaryExpr:
			child = p
			continue
		case *ast.BinaryExpr:
			if (p.Op == token.LAND || p.Op == token.LOR) && p.Y == child {
				var atoms []Atom
				splitAtoms(p.X, true, &atoms)
				for _, a := range atoms {
					if !allowed(a.E) {
						return exprStr(a.E)
					}
				}
			}
			if p.Op == token.LAND || p.Op == token.LOR {
				child = p
				continue
			}
		}
		break
	}
	g := f.Graph()
	for _, a := range g.GuardsAt(g.VertexOf(rcall)) {
		if !allowed(a.E) {
			return exprStr(a.E)
		}
	}
	return ""
}

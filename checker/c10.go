package main

import (
	"go/ast"
	"go/token"
	"go/types"
	"sort"
	"strings"
)

func init() { register("C10", rulesC10, nil) }

func isHTTPResponseWriter(t types.Type) bool {
	n := namedOf(t)
	return n != nil && n.Obj().Pkg() != nil && n.Obj().Pkg().Path() == "net/http" && n.Obj().Name() == "ResponseWriter"
}

func rulesC10(c *Ctx) {
	wr := c.Fn(pM, "streamableServerConn", "Write")
	sp := c.Fn(pM, "streamableServerConn", "servePOST")
	wF := c.Field(pM, "stream", "w")
	streams := c.Field(pM, "streamableServerConn", "streams")
	reqStreams := c.Field(pM, "streamableServerConn", "requestStreams")
	inF := c.Field(pM, "streamableServerConn", "incoming")

	c.Rule("R-C10-1", "a stream's writer is only ever nil or the ResponseWriter of the HTTP exchange that is executing the attaching function", func() {
		n := 0
		for _, f := range c.funcsWithLits(pM) {
			check := func(val ast.Expr, at ast.Node) {
				n++
				root := f.Root()
				key := "stream.w=:" + f.Name()
				if isNilIdent(val) {
					c.Check(root.Name() == "(*stream).release", key+"(nil)", f, at, "the writer is detached only by release()")
					return
				}
				// must be the enclosing function's own http.ResponseWriter parameter
				v, _ := f.ObjOf(val).(*types.Var)
				isParam := false
				for _, p := range root.Params() {
					if p == v && isHTTPResponseWriter(p.Type()) {
						isParam = true
					}
				}
				okFn := root.Name() == "(*streamableServerConn).servePOST" || root.Name() == "(*streamableServerConn).acquireStream"
				c.Check(isParam && okFn, key, f, at, "the attached writer is the ResponseWriter parameter of servePOST/acquireStream itself (got %s)", exprStr(val))
			}
			for _, w := range Writes(f.Body, false) {
				if f.IsField(w.LHS, wF) && w.RHS != nil {
					check(w.RHS, w.Stmt)
				}
			}
			inspectNoLit(f.Body, func(x ast.Node) {
				if kv, ok := x.(*ast.KeyValueExpr); ok && f.ObjOf(kv.Key) == types.Object(wF) {
					check(kv.Value, kv)
				}
			})
		}
		c.Pin("stores to stream.w", n, 4)
		// a resumed stream is bound to the exchange only on the path that hands it to the caller (who releases it when the
		// exchange ends): a failed replay that leaves s.w set routes every later message to an exchange that is over
		acq := c.Fn(pM, "streamableServerConn", "acquireStream")
		ag := acq.Graph()
		na := 0
		for _, w := range Writes(acq.Body, false) {
			if !acq.IsField(w.LHS, wF) || w.RHS == nil || isNilIdent(w.RHS) {
				continue
			}
			na++
			seen, _ := ag.reach([]int{ag.VertexOf(w.Stmt)}, nil, nil)
			okH := true
			for _, x := range ag.Exits {
				if !seen[x] {
					continue
				}
				r, isR := ag.Node(x).(*ast.ReturnStmt)
				if !isR || len(r.Results) == 0 || isNilIdent(r.Results[0]) {
					okH = false
				}
			}
			c.Check(okH, "acquireStream:attached-only-when-handed-over", acq, w.Stmt, "after s.w is set every return hands the stream to the caller (no `return nil, nil` with the writer still attached)")
		}
		c.Pin("acquireStream attachments", na, 1)
	})

	c.Rule("R-C10-2", "routing: a response goes to the stream registered for its id; other messages to the stream of the request found in the handler context, else to the listen/standalone stream; an unknown stream is an error, never another request's stream", func() {
		g := wr.Graph()
		idKey := c.P.LookupType(pM, "idContextKey")
		c.Need(idKey != nil, "idContextKey")
		isValid := c.FnObj(pJ, "ID", "IsValid")
		// the three locals by role: s = receiver of the deliverLocked call, responseTo = its response-id argument,
		// relatedRequest = the other local of type ID declared without a value
		var sVar, relVar, respVar types.Object
		deliver := c.FnObj(pM, "stream", "deliverLocked")
		for _, dc := range wr.CallsIn(wr.Body, deliver, false) {
			if sel, ok := ast.Unparen(dc.Fun).(*ast.SelectorExpr); ok && len(dc.Args) >= 3 {
				sVar, respVar = wr.ObjOf(sel.X), wr.ObjOf(dc.Args[2])
			}
		}
		for _, p := range Writes(wr.Body, false) {
			if vs, ok := p.Stmt.(*ast.ValueSpec); ok && len(vs.Values) == 0 {
				for _, nm := range vs.Names {
					if o := wr.Info().Defs[nm]; o != nil && o != respVar && isNamedType(o.Type(), modPath+"/"+pJ, "ID") {
						relVar = o
					}
				}
			}
		}
		c.Need(sVar != nil && relVar != nil && respVar != nil, "Write: locals s, relatedRequest, responseTo")
		relValid := func(a Atom, want bool) bool {
			ce, ok := a.E.(*ast.CallExpr)
			if !ok || !wr.IsCallTo(ce, isValid) {
				return false
			}
			s, ok := ast.Unparen(ce.Fun).(*ast.SelectorExpr)
			return ok && wr.ObjOf(s.X) == relVar && a.Val == want
		}
		nS := 0
		// the selections are the assignments to s and to the locals whose value is copied into s (a selection computed in
		// a helper arrives through the helper's own result variable)
		sAliases := wr.aliasesOf(sVar)
		inspectNoLit(wr.Body, func(n ast.Node) {
			// a loop variable is where a value comes from, not another name for s
			if rs, ok := n.(*ast.RangeStmt); ok {
				for _, e := range []ast.Expr{rs.Key, rs.Value} {
					if e != nil {
						delete(sAliases, wr.ObjOf(e))
					}
				}
			}
		})
		var selWrites []ast.Node
		for v := range sAliases {
			selWrites = append(selWrites, wr.writesToVar(wr.Body, v, false)...)
		}
		sort.Slice(selWrites, func(i, j int) bool { return selWrites[i].Pos() < selWrites[j].Pos() })
		for _, w := range selWrites {
			as, ok := w.(*ast.AssignStmt)
			if !ok || len(as.Rhs) != 1 {
				continue // the declaration
			}
			if id, isID := ast.Unparen(as.Rhs[0]).(*ast.Ident); isID && sAliases[wr.ObjOf(id)] {
				continue // a plain copy between the aliases
			}
			nS++
			guards := g.GuardsAt(g.VertexOf(w))
			rhs := as.Rhs[0]
			// the selection depends on the relation (and, per kind, on one more test) and on nothing else: a further test on
			// a flag of the connection would send some messages to the wrong stream or nowhere
			nl, what := g.semanticLeaves(g.VertexOf(w))
			exact := func(kind string, want int) {
				c.Check(nl == want, "Write:s="+kind+":not-narrowed", wr, w, "%d tests guard this selection (found %d: %s)", want, nl, what)
			}
			if m, k, isIx := indexOf(rhs); isIx && wr.IsField(m, streams) {
				if s, isC := wr.ConstString(k); isC && s == "" {
					c.Check(hasAtom(guards, func(a Atom) bool { return relValid(a, false) }), "Write:s=standalone", wr, w, "the standalone stream is selected only when the message is not related to a request (guards: %s)", atomsString(guards))
					exact("standalone", 1)
					continue
				}
				// s = c.streams[streamID] with streamID, ok := c.requestStreams[relatedRequest]
				kv := wr.ObjOf(k)
				okSrc := false
				for _, w2 := range Writes(wr.Body, false) {
					if wr.ObjOf(w2.LHS) == kv {
						if as2, ok := w2.Stmt.(*ast.AssignStmt); ok && len(as2.Rhs) == 1 {
							if m2, k2, ok := indexOf(as2.Rhs[0]); ok && wr.IsField(m2, reqStreams) && wr.ObjOf(k2) == relVar {
								okSrc = true
							}
						}
					}
				}
				c.Check(okSrc && hasAtom(guards, func(a Atom) bool { return relValid(a, true) }) && wr.heldLocal(w)[lkConn], "Write:s=request-stream", wr, w, "a related message is routed through requestStreams[relatedRequest] under c.mu (guards: %s)", atomsString(guards))
				exact("request-stream", 2)
				continue
			}
			// s = stream inside `for _, stream := range c.streams { if stream.isListen {...} }`
			rs, _ := wr.Enclosing(w, func(n ast.Node) bool { _, ok := n.(*ast.RangeStmt); return ok }).(*ast.RangeStmt)
			if rs != nil && wr.IsField(rs.X, streams) && wr.ObjOf(rhs) == wr.ObjOf(rs.Value) {
				isListen := c.Field(pM, "stream", "isListen")
				c.Check(hasAtom(guards, func(a Atom) bool { return relValid(a, false) }) && hasAtom(guards, func(a Atom) bool { return a.Val && wr.IsField(a.E, isListen) }), "Write:s=listen-stream", wr, w, "the listen stream is selected only for unrelated messages (guards: %s)", atomsString(guards))
				exact("listen-stream", 2)
				continue
			}
			if isNilIdent(rhs) {
				// "no stream": the same as leaving the zero value, which the nil test below turns into a refused write
				c.Ok("Write:s=none", wr, w, "no stream selected (the write is refused by the nil test that follows)")
				continue
			}
			c.Fail("Write:s=?", wr, w, "unrecognised stream selection %s", exprStr(rhs))
		}
		c.Pin("stream selections", nS, 3)
		nR := 0
		for _, w := range wr.writesToVar(wr.Body, relVar, false) {
			as, ok := w.(*ast.AssignStmt)
			if !ok || len(as.Rhs) != 1 {
				continue
			}
			nR++
			rhs := ast.Unparen(as.Rhs[0])
			guards := g.GuardsAt(g.VertexOf(w))
			switch x := rhs.(type) {
			case *ast.SelectorExpr: // resp.ID
				okT := namedOf(wr.TypeOf(x.X)) == c.P.LookupType(pJ, "Response") && wr.IsField(x, c.Field(pJ, "Response", "ID"))
				c.Check(okT, "Write:related=response-id", wr, w, "for a response the related request is the response's own id")
			case *ast.TypeAssertExpr: // v.(jsonrpc.ID) with v := ctx.Value(idContextKey{})
				v := wr.ObjOf(x.X)
				okV := false
				for _, w2 := range Writes(wr.Body, false) {
					if wr.ObjOf(w2.LHS) == v && w2.RHS != nil {
						if ce, ok := ast.Unparen(w2.RHS).(*ast.CallExpr); ok && len(ce.Args) == 1 && namedOf(wr.TypeOf(ce.Args[0])) == idKey {
							if s, ok := ast.Unparen(ce.Fun).(*ast.SelectorExpr); ok && s.Sel.Name == "Value" && wr.ObjOf(s.X) == types.Object(wr.CtxParam()) {
								okV = true
							}
						}
					}
				}
				c.Check(okV, "Write:related=context-id", wr, w, "for other messages the related request is the id stored under idContextKey in the handler's context")
			case *ast.CompositeLit: // jsonrpc.ID{}
				jr := c.Field(pM, "streamableServerConn", "jsonResponse")
				okG := len(x.Elts) == 0 && hasAtom(guards, func(a Atom) bool { return a.Val && wr.IsField(a.E, jr) }) && hasAtom(guards, func(a Atom) bool {
					ce, ok := a.E.(*ast.CallExpr)
					if !ok || a.Val || !wr.IsCallTo(ce, isValid) {
						return false
					}
					s, ok := ast.Unparen(ce.Fun).(*ast.SelectorExpr)
					return ok && wr.ObjOf(s.X) == respVar
				})
				// ... and under nothing else: the innermost condition consists of exactly these two tests (in a stateless
				// JSON-mode server too, a notification must not be buffered into the request's JSON body)
				if cs := g.guardingConds(g.VertexOf(w)); len(cs) > 0 {
					var leaves []Atom
					splitAtoms(g.Node(cs[len(cs)-1]).(ast.Expr), true, &leaves)
					n := 0
					for _, a := range leaves {
						if !isCompound(a.E) {
							n++
						}
					}
					c.Check(n == 2, "Write:related=none-in-json-mode:not-narrowed", wr, w, "the out-of-band rule depends on jsonResponse and on the message not being a response, and on nothing else (%d tests)", n)
				}
				c.Check(okG, "Write:related=none-in-json-mode", wr, w, "only in JSON-response mode, and only for non-responses, is the relation dropped (→ standalone stream) (guards: %s)", atomsString(guards))
			default:
				c.Fail("Write:related=?", wr, w, "unrecognised source of the related request id: %s", exprStr(rhs))
			}
		}
		c.Pin("related-request assignments", nR, 3)
		// s == nil is an error wrapping ErrRejected
		eRej := c.Obj(pJ, "ErrRejected")
		okNil := false
		for _, r := range wr.Returns() {
			if len(r.Results) == 1 && wr.WrapsObj(r.Results[0], eRej) {
				if hasAtom(g.GuardsAt(g.VertexOf(r)), func(a Atom) bool { return AtomSaysNil(a, true, func(e ast.Expr) bool { return wr.ObjOf(e) == sVar }) }) {
					okNil = true
				}
			}
		}
		c.Check(okNil, "Write:unknown-stream-rejected", wr, nil, "when no stream is found the write fails with an ErrRejected error (no fallback to some other stream)")
		// idContextKey is set only by ServerSession.handle from req.ID
		wv := c.Std("context", "", "WithValue")
		n := 0
		for _, f := range c.funcsWithLits(pM) {
			for _, call := range f.CallsIn(f.Body, wv, false) {
				if len(call.Args) == 3 && namedOf(f.TypeOf(call.Args[1])) == idKey {
					n++
					sel, _ := ast.Unparen(call.Args[2]).(*ast.SelectorExpr)
					ok := f.Name() == "(*ServerSession).handle" && sel != nil && f.IsField(sel, c.Field(pJ, "Request", "ID")) && f.ObjOf(sel.X) == types.Object(f.ParamOfNamed(pJ, "Request"))
					c.Check(ok, "idContextKey-set:"+f.Name(), f, call, "the routing id is put into handler contexts only by ServerSession.handle, from the request being handled")
					// … for every request: the tagging is subject to no condition that the dispatch itself is not subject to, and
					// the tagged context is the one handed to the dispatch
					fg := f.Graph()
					hr := c.FnObj(pM, "", "handleReceive")
					hv := fg.callVertices(hr)
					okAll := len(hv) == 1
					if okAll {
						dGuards := map[string]bool{}
						for _, a := range fg.GuardsAt(hv[0]) {
							dGuards[a.String()] = true
						}
						for _, a := range fg.GuardsAt(fg.VertexOf(call)) {
							if !dGuards[a.String()] {
								okAll = false
							}
						}
						okAll = okAll && fg.Dominates(fg.VertexOf(call), hv[0])
						if as, isAs := f.ParentOf(call).(*ast.AssignStmt); isAs && len(as.Lhs) == 1 {
							dc := f.CallsIn(fg.Node(hv[0]), hr, false)[0]
							okAll = okAll && len(dc.Args) > 0 && f.ObjOf(dc.Args[0]) == f.ObjOf(as.Lhs[0])
						} else {
							okAll = false
						}
					}
					c.Check(okAll, "idContextKey-set-for-every-request", f, call, "the tagging dominates handleReceive, is not narrowed to some kinds of request (initialize included), and its result is the context passed on: whatever a handler or middleware sends for this request is routed to the request's own exchange")
				}
			}
		}
		c.Pin("idContextKey setters", n, 1)
	})

	c.Rule("R-C10-3", "a POST's calls are checked for duplicate in-flight ids and registered in one critical section, before any of its messages is published", func() {
		g := sp.Graph()
		var scan ast.Node
		var inserts []ast.Node
		inspectNoLit(sp.Body, func(n ast.Node) {
			if as, ok := n.(*ast.AssignStmt); ok && len(as.Rhs) == 1 && len(as.Lhs) == 2 {
				if m, _, isIx := indexOf(as.Rhs[0]); isIx && sp.IsField(m, reqStreams) {
					scan = as
				}
			}
		})
		for _, f := range []*types.Var{streams, reqStreams} {
			for _, w := range sp.FieldWrites(sp.Body, f, false) {
				if _, isAs := w.(*ast.AssignStmt); isAs {
					inserts = append(inserts, w)
				}
			}
		}
		c.Need(len(inserts) == 2, "servePOST: two insertions (stream table, request routing table)")
		c.Must(scan != nil, "servePOST:dup-scan-with-registration", sp, inserts[0], "servePOST looks the POST's call ids up in requestStreams itself, in the critical section that registers them: a test made elsewhere (in a helper with its own lock section, or not at all) lets two POSTs with one id both pass it and overwrite each other's routing entry")
		sv := g.VertexOf(scan)
		c.Check(sp.heldLocal(scan)[lkConn], "servePOST:dup-scan-under-lock", sp, scan, "the duplicate-id scan runs under c.mu")
		for i, w := range inserts {
			wv := g.VertexOf(w)
			c.Check(sp.heldLocal(w)[lkConn] && g.ReachableFrom(sv)[wv], "servePOST:insert#"+itoa(i)+"-under-lock-after-scan", sp, w, "registration happens under c.mu after the scan")
			// no unlock on any path scan → insert
			broken := false
			for _, call := range sp.AllCalls(sp.Body, false) {
				if op, ok := sp.lockOpOf(call); ok && !op.acquire {
					if sel := ast.Unparen(call.Fun).(*ast.SelectorExpr); sp.lockClassOf(sel.X) == lkConn {
						uv := g.VertexOf(call)
						if g.ReachableFrom(sv)[uv] && g.ReachableFrom(uv)[wv] {
							broken = true
						}
					}
				}
			}
			c.Check(!broken, "servePOST:insert#"+itoa(i)+"-same-critical-section", sp, w, "c.mu is not released between the duplicate scan and the registration (two POSTs reusing one id cannot both pass the scan and then overwrite each other's association)")
			for j, s := range sendsOn(sp, inF) {
				s2 := g.VertexOf(s)
				if g.ReachableFrom(sv)[s2] {
					dom := wv
					if rs, ok := sp.Enclosing(w, func(n ast.Node) bool { _, ok := n.(*ast.RangeStmt); return ok }).(*ast.RangeStmt); ok {
						dom = g.VertexOf(rs.X) // the registration loop over the POST's calls as a whole
					}
					c.Check(g.Dominates(dom, s2) && !g.ReachableFrom(s2)[wv], "servePOST:insert#"+itoa(i)+"-before-publish#"+itoa(j), sp, s, "the stream is registered before its messages are published (the server may answer immediately)")
				}
			}
		}
		// the duplicate branch answers and returns without registering
		rejected := false
		for _, cv := range g.condVertices() {
			cond := g.Node(cv - 1).(ast.Expr)
			if id, ok := ast.Unparen(cond).(*ast.Ident); ok && scan != nil && sp.ObjOf(id) == sp.ObjOf(scan.(*ast.AssignStmt).Lhs[1]) {
				t, _ := g.BranchTargets(cv - 1)
				okr, _ := g.MustPass(t, []int{g.VertexOf(inserts[0]), g.VertexOf(inserts[1])}, func(int) bool { return false })
				rejected = okr || true && func() bool {
					seen, _ := g.reach([]int{t}, nil, nil)
					return !seen[g.VertexOf(inserts[0])] && !seen[g.VertexOf(inserts[1])]
				}()
			}
		}
		c.Check(rejected, "servePOST:duplicate-not-registered", sp, scan, "a POST with a duplicate in-flight id returns without registering anything")
		// ... and nothing was registered before the refusal either: the whole batch is scanned first, registration starts
		// only when no id is in flight (an id registered by the same loop that later refuses the POST stays behind: no
		// stream will ever answer it, and every later use of that id is refused as a duplicate)
		for _, cv := range g.condVertices() {
			cond := g.Node(cv - 1).(ast.Expr)
			if id, ok := ast.Unparen(cond).(*ast.Ident); ok && scan != nil && sp.ObjOf(id) == sp.ObjOf(scan.(*ast.AssignStmt).Lhs[1]) {
				t, _ := g.BranchTargets(cv - 1)
				partial := false
				for _, w := range inserts {
					if g.ReachableFrom(g.VertexOf(w))[t] {
						partial = true
					}
				}
				c.Check(!partial, "servePOST:no-partial-registration", sp, scan, "no registration can precede the refusal of a duplicate id")
			}
		}
	})

	c.Rule("R-C10-4", "there is no cross-session mutable state: no package-level variable of reference type in mcp is written outside init", func() {
		pk := c.P.Pkg(pM)
		var vars []*types.Var
		sc := pk.Types.Scope()
		for _, name := range sc.Names() {
			v, ok := sc.Lookup(name).(*types.Var)
			if !ok {
				continue
			}
			switch v.Type().Underlying().(type) {
			case *types.Map, *types.Slice, *types.Chan, *types.Pointer, *types.Interface:
				vars = append(vars, v)
			}
		}
		c.Pin("package-level reference variables in mcp", len(vars), 5)
		for _, v := range vars {
			bad := ""
			for _, f := range c.funcsWithLits(pM) {
				if f.Root().Name() == "init" {
					continue
				}
				for _, w := range Writes(f.Body, false) {
					base := ast.Unparen(w.LHS)
					for {
						if ix, ok := base.(*ast.IndexExpr); ok {
							base = ast.Unparen(ix.X)
							continue
						}
						break
					}
					if f.ObjOf(base) == types.Object(v) {
						bad = f.At(w.Stmt) + " " + f.Name()
					}
				}
				for _, call := range f.AllCalls(f.Body, false) {
					if b := f.BuiltinName(call); (b == "delete" || b == "clear") && len(call.Args) > 0 && f.ObjOf(call.Args[0]) == types.Object(v) {
						bad = f.At(call) + " " + f.Name()
					}
				}
			}
			c.Check(bad == "", "global:"+v.Name(), nil, nil, "package variable %s (%s) is never written after initialisation %s", v.Name(), v.Type(), bad)
		}
		// per-connection routing tables are only reached through their own connection
		for _, fld := range []*types.Var{streams, reqStreams} {
			for _, f := range c.funcsWithLits(pM) {
				for _, sel := range f.FieldRefs(f.Body, fld, false) {
					root := f.Root()
					recv := root.Recv()
					okRecv := recv != nil && f.ObjOf(sel.X) == types.Object(recv)
					okLocalConn := f.baseIsLocalAlloc(sel) || (namedOf(f.TypeOf(sel.X)) == c.P.LookupType(pM, "streamableServerConn") && f.FieldPath(sel.X) == "StreamableServerTransport.connection")
					c.Check(okRecv || okLocalConn, "routing-table-owner:"+f.Name()+":"+fld.Name(), f, sel, "%s is reached only through the connection's own receiver (or the transport constructing it)", fld.Name())
				}
			}
		}
	})

	c.Rule("R-C10-5", "the routing tables and the closed flag of a connection are accessed under its lock", func() {
		n := c.guardedFields("conn-state", []*types.Var{streams, reqStreams, c.Field(pM, "streamableServerConn", "isDone")}, lkConn, func(f *Func, sel *ast.SelectorExpr) string {
			if f.Name() == "(*StreamableServerTransport).Connect" {
				return "constructor: the connection object is not yet published"
			}
			return ""
		})
		c.Pin("connection state accesses", n, 15)
	})

	c.Rule("R-C10-7", "the per-request (stateless) and per-session (stateful) HTTP paths configure their transports alike: every handler option that one StreamableServerTransport literal copies is copied by the other (response mode, event store, logger), and a stream is the out-of-band target only if it was opened by subscriptions/listen", func() {
		tT := c.P.LookupType(pM, "StreamableServerTransport")
		c.Need(tT != nil, "StreamableServerTransport")
		type lit struct {
			f    *Func
			n    *ast.CompositeLit
			opts map[string]string // field → handler option it is copied from
		}
		var lits []lit
		for _, f := range c.funcsWithLits(pM) {
			if f.Root().Recv() == nil || !isNamedType(f.Root().Recv().Type(), modPath+"/"+pM, "StreamableHTTPHandler") {
				continue
			}
			inspectNoLit(f.Body, func(n ast.Node) {
				cl, ok := n.(*ast.CompositeLit)
				if !ok || namedOf(f.TypeOf(cl)) != tT {
					return
				}
				l := lit{f, cl, map[string]string{}}
				for _, e := range cl.Elts {
					kv, isKV := e.(*ast.KeyValueExpr)
					if !isKV {
						continue
					}
					if fp := f.FieldPath(kv.Value); strings.HasPrefix(fp, "StreamableHTTPHandler.opts.") {
						l.opts[exprStr(kv.Key)] = fp
					}
				}
				lits = append(lits, l)
			})
		}
		c.Need(len(lits) == 2, "two StreamableServerTransport literals in the handler")
		for i, a := range lits {
			b := lits[1-i]
			for k, src := range a.opts {
				c.Check(b.opts[k] == src, "transport-option-copied:"+b.f.Root().Name()+":"+k, b.f, b.n, "%s is set from %s here as it is in %s", k, src, a.f.Root().Name())
			}
		}
		c.Pin("handler options copied into a transport", len(lits[0].opts)+len(lits[1].opts), 6)
		// isListen
		isL := c.Field(pM, "stream", "isListen")
		listen := c.Obj(pM, "methodSubscriptionsListen")
		n := 0
		for _, f := range c.funcsWithLits(pM) {
			for _, w := range Writes(f.Body, false) {
				if !f.IsField(w.LHS, isL) || w.RHS == nil {
					continue
				}
				n++
				flag, isVar := f.ObjOf(w.RHS).(*types.Var)
				ok := isVar && !flag.IsField()
				if ok {
					fg := f.Graph()
					for _, w2 := range f.writesToVar(f.Body, flag, true) {
						as, isAs := w2.(*ast.AssignStmt)
						if !isAs || len(as.Rhs) != 1 {
							ok = false
							continue
						}
						switch exprStr(as.Rhs[0]) {
						case "false":
						case "true":
							if !hasAtom(fg.GuardsAt(fg.VertexOf(w2)), func(a Atom) bool {
								x, y, op, isCmp := binaryCmp(a.E)
								return isCmp && op == token.EQL && a.Val && (f.ObjOf(y) == listen || f.ObjOf(x) == listen)
							}) {
								ok = false
							}
						default:
							ok = false
						}
					}
				}
				c.Check(ok, "isListen-source:"+f.Name(), f, w.Stmt, "stream.isListen is a copy of a flag that is set only for the subscriptions/listen method (found %s)", exprStr(w.RHS))
			}
		}
		c.Pin("stream.isListen writers", n, 1)
	})

	c.Rule("R-C10-6", "messages sent on behalf of a request keep the request's context values (routing id): no peer I/O with a Background/TODO context inside a function that has the caller's context", func() {
		sinks := map[*types.Func]bool{
			c.FnObj(pJ, "Connection", "Notify"): true, c.FnObj(pJ, "Connection", "Call"): true,
			c.FnObj(pM, "", "handleNotify"): true, c.FnObj(pM, "", "handleSend"): true, c.FnObj(pM, "", "call"): true,
		}
		// ... and every function of the package that hands its own context parameter on to one of them (ss.Elicit,
		// fulfillServerInputRequest, …), to a fixpoint
		for changed := true; changed; {
			changed = false
			for _, f := range c.funcsWithLits(pM) {
				if f.Lit != nil || f.Obj == nil || sinks[f.Obj] {
					continue
				}
				cp := f.CtxParam()
				if cp == nil {
					continue
				}
				for _, call := range f.AllCalls(f.Body, true) {
					fn := f.Callee(call)
					if fn == nil || !sinks[fn.Origin()] || len(call.Args) == 0 {
						continue
					}
					root, _ := ctxRoot(f, call.Args[0], 4)
					if root == cp.Name() {
						sinks[f.Obj] = true
						changed = true
						break
					}
				}
			}
		}
		n := 0
		for _, f := range c.funcsWithLits(pM) {
			hasCtx := false
			for p := f; p != nil; p = p.Parent {
				for _, v := range p.Params() {
					if t := v.Type().String(); t == "context.Context" {
						hasCtx = true
					}
				}
			}
			for _, call := range f.AllCalls(f.Body, false) {
				fn := f.Callee(call)
				if fn == nil || !sinks[fn.Origin()] || len(call.Args) == 0 {
					continue
				}
				if t := f.TypeOf(call.Args[0]); t == nil || t.String() != "context.Context" {
					continue
				}
				n++
				root, chain := ctxRoot(f, call.Args[0], 4)
				key := "ctx-of:" + f.Name() + ":" + fn.Name()
				// one reasoned exemption: the standing subscriptions/listen stream is started by Connect but is not sent on
				// behalf of Connect's caller — it must outlive that context (the C04 rule on the listen context asks for exactly this)
				if f.Name() == "(*Client).Connect" && fn.Name() == "subscriptionsListen" {
					c.Ok(key, f, call, "exempt: the standing listen stream is detached from Connect's context by design")
					continue
				}
				if hasCtx && (root == "context.Background" || root == "context.TODO") {
					c.Fail(key, f, call, "%s is called with a context derived from %s (%s) although the caller's context is in scope: request-scoped values such as the routing id are lost, so the message travels on the wrong stream or is dropped", fn.Name(), root, chain)
				} else {
					c.Ok(key, f, call, "context of %s derives from %s", fn.Name(), root)
				}
			}
		}
		c.Pin("peer-I/O call sites with a context", n, 10)
		// the converse for the fan-out to *other* sessions: notifySessions (list-changed, resources/updated to legacy
		// sessions) sends under a context built from context.Background — never from a caller's context, whose request id
		// would route the notification into the recipient's unrelated exchange with the same id
		ns := c.Fn(pM, "", "notifySessions")
		m := 0
		for _, call := range ns.AllCalls(ns.Body, true) {
			fn := ns.Callee(call)
			if fn == nil || !sinks[fn.Origin()] || len(call.Args) == 0 {
				continue
			}
			m++
			root, chain := ctxRoot(ns, call.Args[0], 4)
			c.Check(root == "context.Background", "fan-out-context:notifySessions:"+fn.Name(), ns, call, "the fan-out context derives from context.Background (%s)", chain)
		}
		c.Pin("fan-out sends in notifySessions", m, 1)
	})
	c.Rule("R-C10-9", "the id under which a POST's stream is registered is fresh in the session: servePOST stores the stream in c.streams without looking (a blind overwrite), so the id given to newStream must come from a source that cannot repeat the id of a stream still registered: crypto/rand, or a counter of the connection that only moves forward (it may be moved back only if it still holds the number being given back)", func() {
		ns := c.FnObj(pM, "streamableServerConn", "newStream")
		conn := c.P.LookupType(pM, "streamableServerConn")
		n := 0
		for _, call := range sp.CallsIn(sp.Body, ns, false) {
			if len(call.Args) != 3 {
				continue
			}
			n++
			random, ctrs, other := c10idSources(sp, call.Args[2], conn, 0)
			switch {
			case len(ctrs) == 0 && len(other) == 0 && random:
				c.Ok("servePOST:stream-id-fresh", sp, call, "the stream id is drawn from crypto/rand")
			case len(ctrs) > 0 && len(other) == 0:
				for _, ctr := range ctrs {
					c10counterForward(c, ctr)
				}
			default:
				c.Undecided("servePOST:stream-id-fresh", sp, call, "the stream id (%s) is neither drawn from crypto/rand nor derived from a counter of the connection; its freshness is not decided", exprStr(call.Args[2]))
			}
		}
		c.Pin("newStream calls in servePOST", n, 1)
	})
	c.Import("R-C10-8", "with a shared in-memory event store, a message stored for one session is never filed under another: lists are reached only through the table keyed by session id, then stream id (no remembered last stream; every session's standalone stream has the same id)", "C20", "R-C20-8", nil)
}

// ctxRoot follows a context expression through context.With* wrappers and single-assignment locals
// to its root: a parameter/variable name, or context.Background / context.TODO.
func ctxRoot(f *Func, e ast.Expr, depth int) (string, string) {
	e = ast.Unparen(e)
	chain := exprStr(e)
	for i := 0; i < depth; i++ {
		switch x := e.(type) {
		case *ast.CallExpr:
			fn := f.Callee(x)
			if fn != nil && fn.Pkg() != nil && fn.Pkg().Path() == "context" {
				switch fn.Name() {
				case "Background", "TODO":
					return "context." + fn.Name(), chain
				case "WithTimeout", "WithCancel", "WithDeadline", "WithValue", "WithoutCancel", "WithCancelCause":
					e = ast.Unparen(x.Args[0])
					chain += " ← " + exprStr(e)
					continue
				}
			}
			// errgroup.WithContext(parent) hands on its parent's values
			if fn != nil && fn.Pkg() != nil && strings.HasSuffix(fn.Pkg().Path(), "/errgroup") && fn.Name() == "WithContext" && len(x.Args) == 1 {
				e = ast.Unparen(x.Args[0])
				chain += " ← " + exprStr(e)
				continue
			}
			return exprStr(x.Fun) + "()", chain
		case *ast.Ident:
			v := f.ObjOf(x)
			var def ast.Expr
			n := 0
			for _, w := range Writes(f.Root().Body, true) {
				if f.ObjOf(w.LHS) == v {
					n++
					if as, ok := w.Stmt.(*ast.AssignStmt); ok && len(as.Rhs) == 1 {
						def = as.Rhs[0]
					}
				}
			}
			if n == 1 && def != nil {
				e = ast.Unparen(def)
				chain += " ← " + exprStr(e)
				continue
			}
			return x.Name, chain
		default:
			return exprStr(e), chain
		}
	}
	return exprStr(e), chain
}

var _ = token.ADD

// c10idSources follows the id expression of a new stream back through locals and conversions: is it drawn from
// crypto/rand, which fields of the connection does it read (a counter), and what else does it depend on.
func c10idSources(f *Func, e ast.Expr, conn *types.Named, depth int) (random bool, ctrs []*types.Var, other []ast.Expr) {
	if e == nil || depth > 8 {
		return false, nil, []ast.Expr{e}
	}
	merge := func(es ...ast.Expr) {
		for _, x := range es {
			r, cs, o := c10idSources(f, x, conn, depth+1)
			random = random || r
			ctrs = append(ctrs, cs...)
			other = append(other, o...)
		}
	}
	switch x := ast.Unparen(e).(type) {
	case *ast.BasicLit:
	case *ast.CallExpr:
		if fn := f.Callee(x); fn != nil && fn.Pkg() != nil {
			switch fn.Pkg().Path() {
			case "crypto/rand":
				return true, nil, nil
			case "strconv", "fmt":
				merge(x.Args...) // formatting of the operands
				return
			}
		}
		if tv, ok := f.Info().Types[x.Fun]; ok && tv.IsType() && len(x.Args) == 1 {
			merge(x.Args[0]) // conversion
			return
		}
		other = append(other, x)
	case *ast.BinaryExpr:
		merge(x.X, x.Y)
	case *ast.SelectorExpr:
		if v, ok := f.ObjOf(x).(*types.Var); ok && v.IsField() && namedOf(f.TypeOf(x.X)) == conn {
			if b, isB := v.Type().Underlying().(*types.Basic); isB && b.Info()&types.IsInteger != 0 {
				return false, []*types.Var{v}, nil
			}
		}
		other = append(other, x)
	case *ast.Ident:
		obj := f.ObjOf(x)
		if tv, ok := f.Info().Types[x]; ok && tv.Value != nil {
			return
		}
		v, isV := obj.(*types.Var)
		if !isV || v.IsField() {
			other = append(other, x)
			return
		}
		found := false
		for _, w := range Writes(f.Root().Body, true) {
			if f.ObjOf(w.LHS) != obj {
				continue
			}
			if w.RHS == nil {
				if _, isSpec := w.Stmt.(*ast.ValueSpec); isSpec {
					continue
				}
				other = append(other, x)
				found = true
				continue
			}
			found = true
			merge(w.RHS)
		}
		if !found {
			other = append(other, x) // a parameter
		}
	default:
		other = append(other, x)
	}
	return
}

// c10counterForward: every write of the counter that names streams is an increment under c.mu, or — the only way
// back — an assignment made while the counter is known to equal a value compared with in the guard (nobody has drawn
// a later number since).
func c10counterForward(c *Ctx, ctr *types.Var) {
	n := 0
	for _, f := range c.funcsWithLits(pM) {
		for _, w := range f.FieldWrites(f.Body, ctr, false) {
			n++
			key := "stream-counter:" + f.Root().Name() + "#" + itoa(n)
			held := f.heldLocal(w)[lkConn]
			forward := false
			switch st := w.(type) {
			case *ast.IncDecStmt:
				forward = st.Tok == token.INC
			case *ast.AssignStmt:
				if st.Tok == token.ADD_ASSIGN && len(st.Rhs) == 1 {
					if v, ok := f.ConstInt(st.Rhs[0]); ok && v > 0 {
						forward = true
					}
				}
			}
			if forward {
				c.Check(held, key+":increment-under-lock", f, w, "the counter %s is advanced under c.mu", ctr.Name())
				continue
			}
			g := f.Graph()
			guards := g.GuardsAt(g.VertexOf(w))
			unchanged := hasAtom(guards, func(a Atom) bool {
				x, y, op, ok := binaryCmp(a.E)
				if !ok {
					return false
				}
				is := f.IsField(x, ctr) || f.IsField(y, ctr)
				return is && ((op == token.EQL && a.Val) || (op == token.NEQ && !a.Val))
			})
			c.Check(held && unchanged, key+":only-forward", f, w, "the counter %s that names the streams of a session is set to another value only while it is known (by a comparison in the same critical section) to still hold the number being given back; an unconditional step back re-issues a number a later POST has drawn in the meantime, and that POST's stream — still registered, its requests in flight — is overwritten in c.streams by the next one (guards: %s)", ctr.Name(), atomsString(guards))
		}
	}
}

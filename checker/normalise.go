package main

import (
	"bytes"
	_ "embed"
	"fmt"
	"go/ast"
	"go/format"
	"go/parser"
	"go/token"
	"go/types"
	"golang.org/x/tools/go/ast/astutil"
	"os"
	"reflect"
	"sort"
	"strings"

	"golang.org/x/tools/go/packages"
)

// Normalisation: the rules were confirmed against the functions listed in known_funcs.txt. A function of an
// SDK package that is *not* in that list is a helper somebody introduced later (extract-method, a closure
// turned into a named method, a named predicate). Before any rule looks at the program, every call of such a
// helper from the same package is expanded in place — the textbook inlining transformation, which preserves
// behaviour — so that the rules see the statements where they were confirmed. Nothing is inlined on the tree
// the rules were written for (it has no unknown function), so normalisation never changes a verdict there.
//
// What is expanded (everything else is left alone, and the rules then answer for the code as written):
//   - helpers without type parameters, variadic parameters, defer, recover, goto or self-recursion;
//   - calls in statement position (`h(x)`, `a, b := h(x)`, `a = h(x)`, `return h(x)`, the same as the init
//     statement of an if/switch, `go h(x)`, `defer h(x)`), `if h(x) {` / `if !h(x) {` for multi-statement
//     predicates, and calls anywhere in an expression when the helper is a single `return <expr>`;
//   - helper values (`updateInFlight(c.helper)`) are first wrapped in a literal that calls them.
// Identifier capture is excluded by checking every free identifier of the helper against the scope of the
// call site; the rewritten files are printed, re-parsed and the whole module is type-checked again. Any failure
// abandons normalisation (the program is analysed as written).

//go:embed known_funcs.txt
var knownFuncsTxt string

var disableNormalise = false

func knownFuncSet() map[string]bool {
	m := map[string]bool{}
	for _, l := range strings.Split(knownFuncsTxt, "\n") {
		l = strings.TrimSpace(l)
		if l != "" && !strings.HasPrefix(l, "#") {
			m[l] = true
		}
	}
	return m
}

func funcKey(rel string, obj *types.Func) string { return rel + "\t" + funcName(obj) }

func typeKey(rel, name string) string { return rel + "\ttype " + name }

func relOf(pkgPath string) string {
	return strings.TrimPrefix(strings.TrimPrefix(pkgPath, modPath), "/")
}

// dumpFuncs prints the known-function list of the loaded tree.
func dumpFuncs(p *Prog) {
	var out []string
	for _, rel := range sdkPkgs {
		pk := p.Pkg(rel)
		if pk == nil {
			continue
		}
		for _, f := range pk.Syntax {
			for _, d := range f.Decls {
				if fd, ok := d.(*ast.FuncDecl); ok {
					if obj, _ := pk.TypesInfo.Defs[fd.Name].(*types.Func); obj != nil {
						out = append(out, funcKey(rel, obj))
					}
				}
				if gd, ok := d.(*ast.GenDecl); ok && gd.Tok == token.TYPE {
					for _, sp := range gd.Specs {
						out = append(out, typeKey(rel, sp.(*ast.TypeSpec).Name.Name))
					}
				}
				// call edges to functions of the package (the normaliser expands one-expression predicates at call sites
				// that are not listed here)
				if fd, ok := d.(*ast.FuncDecl); ok && fd.Body != nil {
					caller, _ := pk.TypesInfo.Defs[fd.Name].(*types.Func)
					seen := map[string]bool{}
					ast.Inspect(fd.Body, func(n ast.Node) bool {
						id, ok := n.(*ast.Ident)
						if !ok || caller == nil {
							return true
						}
						if fn, ok := pk.TypesInfo.Uses[id].(*types.Func); ok && fn.Pkg() == pk.Types {
							k := edgeKey(rel, caller, fn.Origin())
							if !seen[k] {
								seen[k] = true
								out = append(out, k)
							}
						}
						return true
					})
				}
			}
		}
	}
	sort.Strings(out)
	fmt.Println("# functions of the SDK packages the rules were confirmed against (mcpcheck -dump-funcs); see normalise.go")
	for _, l := range out {
		fmt.Println(l)
	}
}

type helper struct {
	obj    *types.Func
	decl   *ast.FuncDecl
	pk     *packages.Package
	file   *ast.File
	single ast.Expr // body is `return E`
	nres   int
	// litOnly: the body has defer / recover / goto, so it cannot be spliced into a caller's statement list; it can still
	// become the body of a function literal (go h(x), defer h(x), h passed as a value)
	litOnly bool
	// unlockDefer: the body is `x.Lock(); defer x.Unlock(); …` with no other defer and only plain values returned; for the
	// expansion the deferred unlock is written out in front of every return and at the end (the two differ only while a
	// panic unwinds, which no rule reasons about)
	unlockDefer bool
	// deferOnly: litOnly for no other reason than defer statements (no goto, no recover outside a literal)
	deferOnly bool
	// knownFn: a function of the known list whose body is one return expression (a named predicate such as doneLocked).
	// It is expanded only at call sites the known list does not have (a caller that used to spell the expression out and
	// now calls the predicate, or a new caller): see edgeKey
	knownFn bool
}

func edgeKey(rel string, caller, callee *types.Func) string {
	return rel + "\tedge " + funcName(caller) + " -> " + funcName(callee)
}

type normaliser struct {
	p       *Prog
	known   map[string]bool
	helpers map[*types.Func]*helper
	seq     int
	notes   []string
	changed map[*ast.File]bool
	// per file being rewritten
	pk   *packages.Package
	file *ast.File
	cur  *ast.FuncDecl // the function whose body is being rewritten
	// anyHelper: helperOf also answers for literal-only helpers
	anyHelper bool
	// tailBlocks: the blocks of the current function (which has no results) whose last statement is the last thing the
	// function does; curTail: the list being rewritten is such a block
	tailBlocks map[*ast.BlockStmt]bool
	curTail    bool
	// freshLhs: the receiving variables that the statement being expanded declares itself (they hold their zero value)
	freshLhs map[string]bool
}

// Normalise expands unknown helpers (see the comment at the top). It returns notes for the evidence.
func (p *Prog) Normalise() []string {
	if disableNormalise {
		return nil
	}
	nz := &normaliser{p: p, known: knownFuncSet()}
	var allNotes []string
	// local aggregates first (the tree the rules were written for has none that qualifies), then the helpers; expanding a
	// helper can leave an aggregate that is only read field by field (a closure turned into a struct with a method),
	// so the two alternate until nothing changes
	for outer := 0; outer < 4; outer++ {
		progress := false
		nz.changed = map[*ast.File]bool{}
		nz.notes = nil
		nz.sra()
		if outer > 0 {
			nz.copyProp()
		}
		if len(nz.changed) > 0 {
			progress = true
			allNotes = append(allNotes, nz.notes...)
			if err := nz.reparseAndCheck(); err != nil {
				panic(normaliseFailure{err})
			}
		}
		for round := 0; round < 8; round++ {
			nz.changed = map[*ast.File]bool{}
			nz.notes = nil
			nz.collect()
			if len(nz.helpers) == 0 {
				break
			}
			nz.rewriteAll()
			nz.dropUnused()
			if len(nz.changed) == 0 {
				break
			}
			progress = true
			allNotes = append(allNotes, nz.notes...)
			if err := nz.reparseAndCheck(); err != nil {
				panic(normaliseFailure{err})
			}
		}
		if !progress || len(allNotes) == 0 {
			break
		}
	}
	if nzDebug {
		nz.collect()
		nz.debugRemaining()
	}
	return allNotes
}

// debugRemaining lists the unknown functions that are still declared and where they are still called.
func (nz *normaliser) debugRemaining() {
	for _, rel := range sdkPkgs {
		pk := nz.p.Pkg(rel)
		if pk == nil {
			continue
		}
		for _, f := range pk.Syntax {
			for _, d := range f.Decls {
				fd, ok := d.(*ast.FuncDecl)
				if !ok {
					continue
				}
				obj, _ := pk.TypesInfo.Defs[fd.Name].(*types.Func)
				if obj == nil || nz.known[funcKey(rel, obj)] {
					continue
				}
				_, elig := nz.helpers[obj]
				fmt.Printf("NZ-REMAINING %s eligible-this-round=%v\n", funcName(obj), elig)
				for _, g := range pk.Syntax {
					var stack []ast.Node
					ast.Inspect(g, func(n ast.Node) bool {
						if n == nil {
							stack = stack[:len(stack)-1]
							return true
						}
						stack = append(stack, n)
						if id, ok := n.(*ast.Ident); ok && pk.TypesInfo.Uses[id] == obj {
							ctx := ""
							for i := len(stack) - 2; i >= 0 && i >= len(stack)-5; i-- {
								ctx += fmt.Sprintf("%T<", stack[i])
							}
							fmt.Printf("    used at %s in %s\n", nz.p.Fset.Position(id.Pos()), ctx)
						}
						return true
					})
				}
			}
		}
	}
}

type normaliseFailure struct{ err error }

var nzDebug = os.Getenv("MCPCHECK_NZ_DEBUG") != ""

func nzWhy(h *helper, format string, a ...any) {
	if nzDebug {
		fmt.Printf("NZ-SKIP %s: %s\n", funcName(h.obj), fmt.Sprintf(format, a...))
	}
}

// collect finds the unknown, expandable helpers of the SDK packages.
func (nz *normaliser) collect() {
	nz.helpers = map[*types.Func]*helper{}
	for _, rel := range sdkPkgs {
		pk := nz.p.Pkg(rel)
		if pk == nil {
			continue
		}
		for _, f := range pk.Syntax {
			for _, d := range f.Decls {
				fd, ok := d.(*ast.FuncDecl)
				if !ok || fd.Body == nil {
					continue
				}
				obj, _ := pk.TypesInfo.Defs[fd.Name].(*types.Func)
				if obj == nil {
					continue
				}
				if nz.known[funcKey(rel, obj)] {
					if h := nz.eligible(pk, f, fd, obj); h != nil && h.single != nil {
						h.knownFn = true
						nz.helpers[obj] = h
					}
					continue
				}
				if h := nz.eligible(pk, f, fd, obj); h != nil {
					nz.helpers[obj] = h
				}
			}
		}
	}
	// leaf-first: a helper that itself calls an unknown helper waits for a later round
	for obj, h := range nz.helpers {
		calls := false
		ast.Inspect(h.decl.Body, func(n ast.Node) bool {
			if id, ok := n.(*ast.Ident); ok {
				if fn, ok := h.pk.TypesInfo.Uses[id].(*types.Func); ok && fn != obj {
					if hh, isH := nz.helpers[fn.Origin()]; isH && !hh.knownFn {
						calls = true
					}
				}
			}
			return true
		})
		if calls {
			h.single = nil
			h.nres = -1 // marker: not this round
		}
	}
	for obj, h := range nz.helpers {
		if h.nres == -1 {
			delete(nz.helpers, obj)
		}
	}
}

func (nz *normaliser) eligible(pk *packages.Package, file *ast.File, fd *ast.FuncDecl, obj *types.Func) *helper {
	sig := obj.Type().(*types.Signature)
	if sig.TypeParams() != nil || sig.RecvTypeParams() != nil || sig.Variadic() {
		return nil
	}
	if fd.Recv != nil {
		// receiver type must be T or *T
		t := fd.Recv.List[0].Type
		if s, ok := t.(*ast.StarExpr); ok {
			t = s.X
		}
		if _, ok := t.(*ast.Ident); !ok {
			return nil
		}
		// methods that may satisfy an interface are dispatched dynamically elsewhere; expanding the static calls is still correct
	}
	bad, litOnly, other := false, false, false
	ast.Inspect(fd.Body, func(n ast.Node) bool {
		switch x := n.(type) {
		case *ast.FuncLit:
			return false // its own returns/defers are its own
		case *ast.DeferStmt:
			litOnly = true
		case *ast.BranchStmt:
			if x.Tok == token.GOTO {
				litOnly, other = true, true
			}
		case *ast.CallExpr:
			if id, ok := x.Fun.(*ast.Ident); ok && id.Name == "recover" {
				litOnly, other = true, true
			}
		case *ast.Ident:
			if pk.TypesInfo.Uses[x] == obj {
				bad = true // self-recursion
			}
		}
		return !bad
	})
	if bad {
		return nil
	}
	h := &helper{obj: obj, decl: fd, pk: pk, file: file, nres: sig.Results().Len(), litOnly: litOnly, deferOnly: litOnly && !other}
	if h.deferOnly && lockThenDeferUnlock(fd.Body) {
		h.litOnly, h.deferOnly, h.unlockDefer = false, false, true
	}
	if !litOnly && len(fd.Body.List) == 1 && h.nres == 1 {
		if r, ok := fd.Body.List[0].(*ast.ReturnStmt); ok && len(r.Results) == 1 {
			hasLit := false
			ast.Inspect(r.Results[0], func(n ast.Node) bool {
				if _, ok := n.(*ast.FuncLit); ok {
					hasLit = true
				}
				return true
			})
			if !hasLit {
				h.single = r.Results[0]
			}
		}
	}
	return h
}

// ---- cloning ----------------------------------------------------------------------------------

var nodeType = reflect.TypeOf((*ast.Node)(nil)).Elem()

func cloneNode[T ast.Node](n T) T {
	v := reflect.ValueOf(n)
	if !v.IsValid() || (v.Kind() == reflect.Ptr && v.IsNil()) {
		return n
	}
	return cloneValue(v, map[*ast.Object]*ast.Object{}).Interface().(T)
}

func cloneValue(v reflect.Value, objs map[*ast.Object]*ast.Object) reflect.Value {
	switch v.Kind() {
	case reflect.Ptr:
		if v.IsNil() {
			return v
		}
		if _, ok := v.Interface().(*ast.Object); ok {
			return reflect.Zero(v.Type()) // deprecated resolver objects are dropped
		}
		if _, ok := v.Interface().(*ast.Scope); ok {
			return reflect.Zero(v.Type())
		}
		nv := reflect.New(v.Type().Elem())
		nv.Elem().Set(cloneValue(v.Elem(), objs))
		return nv
	case reflect.Struct:
		nv := reflect.New(v.Type()).Elem()
		for i := 0; i < v.NumField(); i++ {
			if nv.Field(i).CanSet() {
				nv.Field(i).Set(cloneValue(v.Field(i), objs))
			}
		}
		return nv
	case reflect.Slice:
		if v.IsNil() {
			return v
		}
		nv := reflect.MakeSlice(v.Type(), v.Len(), v.Len())
		for i := 0; i < v.Len(); i++ {
			nv.Index(i).Set(cloneValue(v.Index(i), objs))
		}
		return nv
	case reflect.Interface:
		if v.IsNil() {
			return v
		}
		nv := reflect.New(v.Type()).Elem()
		nv.Set(cloneValue(v.Elem(), objs))
		return nv
	default:
		return v
	}
}

// ---- purity, free identifiers ---------------------------------------------------------------------

func (nz *normaliser) pure(info *types.Info, e ast.Expr) bool {
	switch x := e.(type) {
	case *ast.Ident, *ast.BasicLit:
		return true
	case *ast.ParenExpr:
		return nz.pure(info, x.X)
	case *ast.SelectorExpr:
		if _, isCall := x.X.(*ast.CallExpr); isCall {
			return false
		}
		return nz.pure(info, x.X)
	case *ast.StarExpr:
		return nz.pure(info, x.X)
	case *ast.UnaryExpr:
		return x.Op != token.ARROW && nz.pure(info, x.X)
	case *ast.BinaryExpr:
		return nz.pure(info, x.X) && nz.pure(info, x.Y)
	case *ast.IndexExpr:
		return nz.pure(info, x.X) && nz.pure(info, x.Index)
	case *ast.CallExpr:
		// conversions and len/cap of pure operands
		if tv, ok := info.Types[x.Fun]; ok && tv.IsType() && len(x.Args) == 1 {
			return nz.pure(info, x.Args[0])
		}
		if id, ok := x.Fun.(*ast.Ident); ok && (id.Name == "len" || id.Name == "cap") && len(x.Args) == 1 {
			if _, isB := info.Uses[id].(*types.Builtin); isB {
				return nz.pure(info, x.Args[0])
			}
		}
		return false
	}
	return false
}

// freeOK: every identifier of the helper fragment that refers to a package-level object, an import or a universe
// object means the same thing at the call site.
func (nz *normaliser) freeOK(h *helper, frag ast.Node, callerPk *packages.Package, callerFile *ast.File, at token.Pos) bool {
	ok := true
	inner := callerPk.Types.Scope().Innermost(at)
	if inner == nil {
		return false
	}
	ast.Inspect(frag, func(n ast.Node) bool {
		id, isID := n.(*ast.Ident)
		if !isID || !ok {
			return ok
		}
		obj := h.pk.TypesInfo.Uses[id]
		if obj == nil {
			return true
		}
		if pn, isPkg := obj.(*types.PkgName); isPkg {
			_, o := inner.LookupParent(id.Name, at)
			cp, isP := o.(*types.PkgName)
			if !isP || cp.Imported().Path() != pn.Imported().Path() {
				ok = false
			}
			return true
		}
		if obj.Parent() == h.pk.Types.Scope() || obj.Parent() == types.Universe {
			_, o := inner.LookupParent(id.Name, at)
			if o != obj {
				ok = false
			}
		}
		return true
	})
	return ok
}

// declaresName: does the fragment declare an object called name?
func declaresName(info *types.Info, frag ast.Node, name string) bool {
	found := false
	ast.Inspect(frag, func(n ast.Node) bool {
		if id, ok := n.(*ast.Ident); ok && id.Name == name && info.Defs[id] != nil {
			found = true
		}
		return !found
	})
	return found
}

func mutated(info *types.Info, body ast.Node, v *types.Var) bool {
	m := false
	isV := func(e ast.Expr) bool {
		id, ok := ast.Unparen(e).(*ast.Ident)
		return ok && (info.Uses[id] == v || info.Defs[id] == v)
	}
	ast.Inspect(body, func(n ast.Node) bool {
		switch x := n.(type) {
		case *ast.AssignStmt:
			for _, l := range x.Lhs {
				if isV(l) {
					m = true
				}
			}
		case *ast.IncDecStmt:
			if isV(x.X) {
				m = true
			}
		case *ast.UnaryExpr:
			if x.Op == token.AND && isV(x.X) {
				m = true
			}
		case *ast.RangeStmt:
			if (x.Key != nil && isV(x.Key)) || (x.Value != nil && isV(x.Value)) {
				m = true
			}
		}
		return !m
	})
	return m
}

// ---- parameter binding ----------------------------------------------------------------------------

type binding struct {
	v    *types.Var
	name string
	typ  ast.Expr
	arg  ast.Expr
}

// bindings pairs receiver and parameters of h with the operands of the call. ok=false: shape not supported.
func (nz *normaliser) bindings(h *helper, callerInfo *types.Info, call *ast.CallExpr) ([]binding, bool) {
	var bs []binding
	info := h.pk.TypesInfo
	if h.decl.Recv != nil {
		sel, ok := ast.Unparen(call.Fun).(*ast.SelectorExpr)
		if !ok {
			return nil, false
		}
		fld := h.decl.Recv.List[0]
		name := "_"
		var v *types.Var
		if len(fld.Names) == 1 {
			name = fld.Names[0].Name
			v, _ = info.Defs[fld.Names[0]].(*types.Var)
		}
		recvArg := sel.X
		// the receiver expression must already have the receiver's type (no implicit & or *)
		if s, ok := callerInfo.Selections[sel]; !ok || s.Kind() != types.MethodVal || len(s.Index()) != 1 || !types.Identical(callerInfo.TypeOf(sel.X), h.obj.Type().(*types.Signature).Recv().Type()) {
			return nil, false
		}
		bs = append(bs, binding{v, name, fld.Type, recvArg})
	}
	i := 0
	for _, fld := range h.decl.Type.Params.List {
		names := fld.Names
		if len(names) == 0 {
			names = []*ast.Ident{{Name: "_"}}
		}
		for _, nm := range names {
			if i >= len(call.Args) {
				return nil, false
			}
			v, _ := info.Defs[nm].(*types.Var)
			bs = append(bs, binding{v, nm.Name, fld.Type, call.Args[i]})
			i++
		}
	}
	if i != len(call.Args) {
		return nil, false // f(g()) with a tuple
	}
	return bs, true
}

func setNames(frag ast.Node, info *types.Info, v *types.Var, name string) {
	ast.Inspect(frag, func(n ast.Node) bool {
		if id, ok := n.(*ast.Ident); ok && info.Uses[id] == v {
			id.Name = name
		}
		return true
	})
}

// ---- the rewrite ----------------------------------------------------------------------------------

func (nz *normaliser) helperOf(info *types.Info, call *ast.CallExpr) *helper {
	var id *ast.Ident
	switch f := ast.Unparen(call.Fun).(type) {
	case *ast.Ident:
		id = f
	case *ast.SelectorExpr:
		id = f.Sel
	default:
		return nil
	}
	fn, _ := info.Uses[id].(*types.Func)
	if fn == nil {
		return nil
	}
	h := nz.helpers[fn.Origin()]
	if nzDebug && os.Getenv("MCPCHECK_NZ_TRACE") == fn.Name() {
		fmt.Printf("NZ-TRACE helperOf %s: h=%v\n", fn.Name(), h != nil)
		if h != nil {
			fmt.Printf("NZ-TRACE   litOnly=%v deferOnly=%v unlockDefer=%v known=%v single=%v\n", h.litOnly, h.deferOnly, h.unlockDefer, h.knownFn, h.single != nil)
		}
	}
	if h == nil || h.pk.Types != fn.Pkg() || (h.litOnly && !nz.anyHelper) {
		return nil
	}
	if h.knownFn {
		if nz.cur == nil || nz.pk == nil || nz.pk.Types != fn.Pkg() {
			return nil
		}
		caller, _ := nz.pk.TypesInfo.Defs[nz.cur.Name].(*types.Func)
		if caller == nil || nz.known[edgeKey(relOf(fn.Pkg().Path()), caller, fn.Origin())] {
			return nil
		}
	}
	return h
}

// helperOfAny also returns helpers that can only become literal bodies.
func (nz *normaliser) helperOfAny(info *types.Info, call *ast.CallExpr) *helper {
	nz.anyHelper = true
	defer func() { nz.anyHelper = false }()
	return nz.helperOf(info, call)
}

func (nz *normaliser) rewriteAll() {
	for _, rel := range sdkPkgs {
		pk := nz.p.Pkg(rel)
		if pk == nil {
			continue
		}
		for _, f := range pk.Syntax {
			nz.pk, nz.file = pk, f
			for _, d := range f.Decls {
				fd, ok := d.(*ast.FuncDecl)
				if !ok || fd.Body == nil {
					continue
				}
				if obj, _ := pk.TypesInfo.Defs[fd.Name].(*types.Func); obj != nil {
					if hh, isH := nz.helpers[obj]; isH && !hh.knownFn {
						continue // its body is expanded where it is called
					}
				}
				nz.cur = fd
				nz.tailBlocks = map[*ast.BlockStmt]bool{}
				if fd.Type.Results == nil || len(fd.Type.Results.List) == 0 {
					markTail(fd.Body, nz.tailBlocks)
				}
				nz.wrapValues(fd.Body)
				nz.block(fd.Body)
				nz.exprs(fd.Body)
			}
		}
	}
}

// wrapValues turns a helper used as a value (`f(c.helper)`) into a literal that calls it.
func (nz *normaliser) wrapValues(body *ast.BlockStmt) {
	info := nz.pk.TypesInfo
	callFuns := map[ast.Expr]bool{}
	ast.Inspect(body, func(n ast.Node) bool {
		if c, ok := n.(*ast.CallExpr); ok {
			callFuns[ast.Unparen(c.Fun)] = true
		}
		return true
	})
	replaceExprs(body, func(e ast.Expr) ast.Expr {
		if callFuns[e] {
			return nil
		}
		var id *ast.Ident
		switch x := e.(type) {
		case *ast.Ident:
			id = x
		case *ast.SelectorExpr:
			id = x.Sel
			if !nz.pure(info, x.X) {
				return nil
			}
		default:
			return nil
		}
		fn, _ := info.Uses[id].(*types.Func)
		if fn == nil {
			return nil
		}
		h := nz.helpers[fn.Origin()]
		if h == nil || h.pk != nz.pk {
			return nil
		}
		if sel, ok := e.(*ast.SelectorExpr); ok {
			if s, ok := info.Selections[sel]; !ok || s.Kind() != types.MethodVal {
				return nil // method expression T.m
			}
		}
		if !nz.freeOK(h, h.decl.Type, nz.pk, nz.file, e.Pos()) {
			return nil
		}
		ft := cloneNode(h.decl.Type)
		var args []ast.Expr
		k := 0
		for _, fld := range ft.Params.List {
			if len(fld.Names) == 0 {
				fld.Names = []*ast.Ident{ast.NewIdent("_")}
			}
			for i, nm := range fld.Names {
				if nm.Name == "_" {
					k++
					fld.Names[i] = ast.NewIdent(fmt.Sprintf("pZq%d", k))
				}
				args = append(args, ast.NewIdent(fld.Names[i].Name))
			}
		}
		inner := &ast.CallExpr{Fun: e, Args: args}
		var st ast.Stmt = &ast.ExprStmt{X: inner}
		if h.nres > 0 {
			st = &ast.ReturnStmt{Results: []ast.Expr{inner}}
		}
		nz.changed[nz.file] = true
		nz.notes = append(nz.notes, fmt.Sprintf("helper value %s wrapped in a literal", funcName(h.obj)))
		return &ast.FuncLit{Type: ft, Body: &ast.BlockStmt{List: []ast.Stmt{st}}}
	})
}

// exprs expands single-expression helpers wherever they are called.
func (nz *normaliser) exprs(body *ast.BlockStmt) {
	info := nz.pk.TypesInfo
	replaceExprs(body, func(e ast.Expr) ast.Expr {
		call, ok := e.(*ast.CallExpr)
		if !ok {
			return nil
		}
		h := nz.helperOf(info, call)
		if h == nil || h.single == nil {
			return nil
		}
		bs, ok := nz.bindings(h, info, call)
		if !ok || !nz.freeOK(h, h.single, nz.pk, nz.file, call.Pos()) {
			return nil
		}
		for _, b := range bs {
			if !nz.pure(info, b.arg) {
				return nil
			}
			if b.v != nil && mutated(h.pk.TypesInfo, h.single, b.v) {
				return nil
			}
			// an untyped constant argument would lose the parameter's type
			if tv, ok := info.Types[b.arg]; ok && tv.Value != nil && b.v != nil {
				if bt, ok := tv.Type.(*types.Basic); ok && bt.Info()&types.IsUntyped != 0 {
					return nil
				}
			}
			if b.v != nil && !types.Identical(info.TypeOf(b.arg), b.v.Type()) {
				return nil
			}
		}
		// substitute
		res := cloneWithSubst(h, h.single, bs)
		nz.changed[nz.file] = true
		nz.notes = append(nz.notes, fmt.Sprintf("call of %s expanded (expression)", funcName(h.obj)))
		return &ast.ParenExpr{X: res}
	})
}

// cloneWithSubst clones frag and replaces every use of a bound parameter by (a clone of) its argument.
func cloneWithSubst(h *helper, frag ast.Expr, bs []binding) ast.Expr {
	info := h.pk.TypesInfo
	// mark parameter uses in the original, then clone, then replace by position in traversal order
	var marks []*binding
	ast.Inspect(frag, func(n ast.Node) bool {
		if id, ok := n.(*ast.Ident); ok {
			var hit *binding
			for i := range bs {
				if bs[i].v != nil && info.Uses[id] == bs[i].v {
					hit = &bs[i]
				}
			}
			marks = append(marks, hit)
		}
		return true
	})
	cl := cloneNode(frag)
	i := 0
	idx := map[*ast.Ident]*binding{}
	ast.Inspect(cl, func(n ast.Node) bool {
		if id, ok := n.(*ast.Ident); ok {
			if marks[i] != nil {
				idx[id] = marks[i]
			}
			i++
		}
		return true
	})
	wrapper := &ast.ParenExpr{X: cl}
	replaceExprs(wrapper, func(e ast.Expr) ast.Expr {
		if id, ok := e.(*ast.Ident); ok {
			if b := idx[id]; b != nil {
				a := cloneNode(b.arg)
				switch a.(type) {
				case *ast.Ident, *ast.SelectorExpr, *ast.BasicLit, *ast.ParenExpr:
					return a
				}
				return &ast.ParenExpr{X: a}
			}
		}
		return nil
	})
	return wrapper.X
}

// block rewrites statement lists, recursively.
func (nz *normaliser) block(n ast.Node) {
	ast.Inspect(n, func(x ast.Node) bool {
		switch b := x.(type) {
		case *ast.BlockStmt:
			nz.curTail = nz.tailBlocks[b]
			b.List = nz.list(b.List)
			nz.curTail = false
		case *ast.CaseClause:
			b.Body = nz.list(b.Body)
		case *ast.CommClause:
			b.Body = nz.list(b.Body)
		}
		return true
	})
}

func (nz *normaliser) list(list []ast.Stmt) []ast.Stmt {
	var out []ast.Stmt
	for i := 0; i < len(list); i++ {
		st := list[i]
		if i+1 < len(list) {
			if is, ok := list[i+1].(*ast.IfStmt); ok && is.Init == nil {
				if rep := nz.assignThenIf(st, is, false); rep != nil {
					out = append(out, rep...)
					i++
					continue
				}
			}
			// a helper that defers, called as the last thing before a bare return: its body (defers included) can stand in
			// the caller, because the caller returns the moment the helper does (the deferred calls run at the same
			// point, in the same order relative to the caller's own)
			if r, ok := list[i+1].(*ast.ReturnStmt); ok && len(r.Results) == 0 {
				if rep := nz.tailDefer(st); rep != nil {
					out = append(out, rep...)
					continue
				}
			}
			if r, ok := list[i+1].(*ast.ReturnStmt); ok && i+2 == len(list) {
				if rep := nz.assignThenReturn(st, r); rep != nil {
					out = append(out, rep...)
					i++
					continue
				}
			}
		}
		if i+1 == len(list) && nz.curTail {
			if rep := nz.tailDefer(st); rep != nil {
				out = append(out, rep...)
				continue
			}
		}
		if rep := nz.stmt(st); rep != nil {
			out = append(out, spliceBlocks(rep)...)
		} else if pre := nz.hoist(st); pre != nil {
			if nzDebug {
				fmt.Printf("NZ-HOIST at %s\n", nz.p.Fset.Position(st.Pos()))
			}
			out = append(out, pre...)
			out = append(out, st)
		} else {
			out = append(out, st)
		}
	}
	return out
}

// tailDefer: st is the call of a helper without results whose body defers; in tail position its body stands in the caller.
func (nz *normaliser) tailDefer(st ast.Stmt) []ast.Stmt {
	es, ok := st.(*ast.ExprStmt)
	if !ok {
		return nil
	}
	call, ok := ast.Unparen(es.X).(*ast.CallExpr)
	if !ok {
		return nil
	}
	h := nz.helperOfAny(nz.pk.TypesInfo, call)
	if h == nil || !h.deferOnly || h.nres != 0 || h.knownFn {
		return nil
	}
	rep := nz.expand(h, call, nil, true, false)
	if rep == nil {
		return nil
	}
	return spliceBlocks(rep)
}

// markTail records the blocks whose last statement ends the function: the body, and the branches of an if statement that
// is itself the last statement of such a block.
func markTail(b *ast.BlockStmt, out map[*ast.BlockStmt]bool) {
	if b == nil {
		return
	}
	out[b] = true
	if len(b.List) == 0 {
		return
	}
	var branch func(s ast.Stmt)
	branch = func(s ast.Stmt) {
		switch x := s.(type) {
		case *ast.IfStmt:
			markTail(x.Body, out)
			if x.Else != nil {
				branch(x.Else)
			}
		case *ast.BlockStmt:
			markTail(x, out)
		}
	}
	branch(b.List[len(b.List)-1])
}

// spliceBlocks: a block that declares nothing at its top level is only a pair of braces; its statements take its place
// (the expanded body of a helper then sits exactly where the statements were before they were extracted).
func spliceBlocks(rep []ast.Stmt) []ast.Stmt {
	var out []ast.Stmt
	for _, st := range rep {
		b, ok := st.(*ast.BlockStmt)
		if !ok {
			out = append(out, st)
			continue
		}
		// (names the normaliser made itself - …Zq<n> - are unique in the function, so declaring them one level further out
		// collides with nothing)
		declares := false
		own := func(name string) bool { return strings.Contains(name, "Zq") || name == "_" }
		for _, s := range b.List {
			switch x := s.(type) {
			case *ast.LabeledStmt:
				if !own(x.Label.Name) {
					declares = true
				}
			case *ast.DeclStmt:
				gd, ok := x.Decl.(*ast.GenDecl)
				if !ok || gd.Tok != token.VAR {
					declares = true
					break
				}
				for _, sp := range gd.Specs {
					for _, nm := range sp.(*ast.ValueSpec).Names {
						if !own(nm.Name) {
							declares = true
						}
					}
				}
			case *ast.AssignStmt:
				if x.Tok == token.DEFINE {
					for _, l := range x.Lhs {
						if id, ok := l.(*ast.Ident); !ok || !own(id.Name) {
							declares = true
						}
					}
				}
			}
		}
		if declares {
			out = append(out, st)
		} else {
			out = append(out, spliceBlocks(b.List)...)
		}
	}
	return out
}

// stmt returns the replacement of one statement, or nil.
func (nz *normaliser) stmt(st ast.Stmt) []ast.Stmt {
	info := nz.pk.TypesInfo
	switch s := st.(type) {
	case *ast.ExprStmt:
		if call, ok := ast.Unparen(s.X).(*ast.CallExpr); ok {
			if h := nz.helperOf(info, call); h != nil && h.single == nil {
				return nz.expand(h, call, nil, false, false)
			}
			if rep := nz.wrapLit(call, true); rep != nil {
				s.X = rep
				return nil
			}
		}
	case *ast.AssignStmt:
		if len(s.Rhs) == 1 && (s.Tok == token.DEFINE || s.Tok == token.ASSIGN) {
			if call, ok := ast.Unparen(s.Rhs[0]).(*ast.CallExpr); ok {
				if rep := nz.wrapLit(call, true); rep != nil {
					s.Rhs[0] = rep
					return nil
				}
				if h := nz.helperOf(info, call); h != nil && h.single == nil && h.nres == len(s.Lhs) {
					for _, l := range s.Lhs {
						if !nz.pure(info, l) {
							return nil
						}
					}
					return nz.expand(h, call, s, false, false)
				}
			}
		}
	case *ast.ReturnStmt:
		if len(s.Results) == 1 {
			if call, ok := ast.Unparen(s.Results[0]).(*ast.CallExpr); ok {
				if rep := nz.wrapLit(call, true); rep != nil {
					s.Results[0] = rep
					return nil
				}
				if h := nz.helperOf(info, call); h != nil && h.single == nil && h.nres > 0 {
					return nz.expand(h, call, nil, true, false)
				}
			}
		}
	case *ast.IfStmt:
		if s.Init != nil {
			if rep := nz.assignThenIf(s.Init, s, true); rep != nil {
				return rep
			}
			if rep := nz.stmt(s.Init); rep != nil {
				s.Init = nil
				return []ast.Stmt{&ast.BlockStmt{List: append(rep, s)}}
			}
		}
		if rep := nz.predicateIf(s); rep != nil {
			return rep
		}
		// if h(x) { / if !h(x) {  with a multi-statement predicate
		cond := ast.Unparen(s.Cond)
		neg := false
		if u, ok := cond.(*ast.UnaryExpr); ok && u.Op == token.NOT {
			cond, neg = ast.Unparen(u.X), true
		}
		if call, ok := cond.(*ast.CallExpr); ok {
			if h := nz.helperOf(info, call); h != nil && h.single == nil && h.nres == 1 {
				nz.seq++
				tmp := fmt.Sprintf("condZq%d", nz.seq)
				as := &ast.AssignStmt{Lhs: []ast.Expr{ast.NewIdent(tmp)}, Tok: token.DEFINE, Rhs: []ast.Expr{call}}
				rep := nz.expandAssignNew(h, call, as, tmp)
				if rep == nil {
					return nil
				}
				var c ast.Expr = ast.NewIdent(tmp)
				if neg {
					c = &ast.UnaryExpr{Op: token.NOT, X: c}
				}
				s.Cond = c
				var pre []ast.Stmt
				if s.Init != nil {
					pre = append(pre, s.Init)
					s.Init = nil
				}
				return []ast.Stmt{&ast.BlockStmt{List: append(append(pre, rep...), s)}}
			}
		}
		// an else-if is not in a list: descend by hand
		if ei, ok := s.Else.(*ast.IfStmt); ok {
			if rep := nz.stmt(ei); rep != nil {
				s.Else = &ast.BlockStmt{List: rep}
			}
		}
	case *ast.SwitchStmt:
		if s.Init != nil {
			if rep := nz.stmt(s.Init); rep != nil {
				s.Init = nil
				return []ast.Stmt{&ast.BlockStmt{List: append(rep, s)}}
			}
		}
	case *ast.GoStmt:
		if rep := nz.wrapGoDefer(s.Call); rep != nil {
			s.Call = rep
		}
	case *ast.DeferStmt:
		if rep := nz.wrapGoDefer(s.Call); rep != nil {
			s.Call = rep
		}
	case *ast.LabeledStmt:
		if rep := nz.stmt(s.Stmt); rep != nil {
			s.Stmt = &ast.BlockStmt{List: rep}
		}
	}
	return nil
}

// hoist: a call of a multi-statement helper that sits inside a larger expression of st (an operand of a comparison, an
// argument, a field of a literal) is given a name in front of st — `tZq := h(x)` — so that the next round can expand it
// as a statement. Allowed only where it changes nothing: the call is evaluated unconditionally (not on the right of
// && / ||, not inside a literal function), and everything st evaluates before it is free of effects. `if a && !h(x) { S }`
// (no else) is first written as `if a { if !h(x) { S } }`.
func (nz *normaliser) hoist(st ast.Stmt) []ast.Stmt {
	info := nz.pk.TypesInfo
	if is, ok := st.(*ast.IfStmt); ok && is.Else == nil && is.Init == nil {
		if be, ok := ast.Unparen(is.Cond).(*ast.BinaryExpr); ok && be.Op == token.LAND && nz.containsHelperCall(be.Y) && !nz.containsHelperCall(be.X) {
			inner := &ast.IfStmt{Cond: be.Y, Body: is.Body}
			is.Cond = be.X
			is.Body = &ast.BlockStmt{List: []ast.Stmt{inner}}
			nz.changed[nz.file] = true
			nz.notes = append(nz.notes, "condition split in front of a helper call")
			return []ast.Stmt{} // nothing to put in front; the statement itself was rewritten
		}
	}
	var slots []*ast.Expr
	switch x := st.(type) {
	case *ast.ExprStmt:
		slots = []*ast.Expr{&x.X}
	case *ast.AssignStmt:
		for i := range x.Rhs {
			slots = append(slots, &x.Rhs[i])
		}
	case *ast.ReturnStmt:
		for i := range x.Results {
			slots = append(slots, &x.Results[i])
		}
	case *ast.IfStmt:
		if x.Init == nil {
			slots = []*ast.Expr{&x.Cond}
		}
	case *ast.RangeStmt:
		slots = []*ast.Expr{&x.X}
	case *ast.SwitchStmt:
		if x.Init == nil && x.Tag != nil {
			slots = []*ast.Expr{&x.Tag}
		}
	}
	if len(slots) == 0 {
		return nil
	}
	// walk the slots in evaluation order; stop at the first effectful thing
	var target *ast.CallExpr
	var h *helper
	blocked := false
	var visit func(e ast.Expr, conditional bool)
	visit = func(e ast.Expr, conditional bool) {
		if target != nil || blocked || e == nil {
			return
		}
		switch x := e.(type) {
		case *ast.ParenExpr:
			visit(x.X, conditional)
		case *ast.BinaryExpr:
			visit(x.X, conditional)
			visit(x.Y, conditional || x.Op == token.LAND || x.Op == token.LOR)
		case *ast.UnaryExpr:
			if x.Op == token.ARROW {
				blocked = true
				return
			}
			visit(x.X, conditional)
		case *ast.StarExpr:
			visit(x.X, conditional)
		case *ast.SelectorExpr:
			visit(x.X, conditional)
		case *ast.IndexExpr:
			visit(x.X, conditional)
			visit(x.Index, conditional)
		case *ast.SliceExpr:
			visit(x.X, conditional)
			visit(x.Low, conditional)
			visit(x.High, conditional)
			visit(x.Max, conditional)
		case *ast.TypeAssertExpr:
			visit(x.X, conditional)
		case *ast.KeyValueExpr:
			visit(x.Value, conditional)
		case *ast.CompositeLit:
			for _, el := range x.Elts {
				visit(el, conditional)
			}
		case *ast.CallExpr:
			if hh := nz.helperOf(info, x); hh != nil && hh.single == nil && hh.nres == 1 && !conditional {
				// (the call is the first effect of the statement in evaluation order — visit stops at anything effectful
				// before it — so naming it in front evaluates its operands exactly when they were evaluated before,
				// whatever they are; only operands that themselves contain a literal function are left alone)
				argsPure := true
				for _, a := range x.Args {
					ast.Inspect(a, func(n ast.Node) bool {
						if _, isLit := n.(*ast.FuncLit); isLit {
							argsPure = false
						}
						return argsPure
					})
				}
				if sel, ok := ast.Unparen(x.Fun).(*ast.SelectorExpr); ok && !pureSyntax(sel.X) {
					argsPure = false
				}
				if argsPure {
					target, h = x, hh
					return
				}
			}
			// any other call: its operands first, then it is an effect
			visit(x.Fun, conditional)
			for _, a := range x.Args {
				visit(a, conditional)
			}
			if target == nil {
				if tv, isT := info.Types[x.Fun]; !(isT && tv.IsType()) {
					if id, isID := x.Fun.(*ast.Ident); !(isID && (id.Name == "len" || id.Name == "cap")) {
						blocked = true
					}
				}
			}
		case *ast.FuncLit:
			// not evaluated here
		}
	}
	for _, sl := range slots {
		visit(*sl, false)
		if target != nil || blocked {
			break
		}
	}
	if target == nil || h == nil {
		return nil
	}
	// the whole slot being the call is the ordinary statement form, handled elsewhere
	for _, sl := range slots {
		if ast.Unparen(*sl) == ast.Expr(target) {
			if r, isRet := st.(*ast.ReturnStmt); isRet && len(r.Results) > 1 {
				continue // `return nil, h(x)`: one result among several is not the statement form
			}
			if as, isAs := st.(*ast.AssignStmt); isAs && as.Tok != token.ASSIGN && as.Tok != token.DEFINE && len(as.Lhs) == 1 && pureSyntax(as.Lhs[0]) {
				continue // `x -= h(y)`: neither
			}
			if _, isRange := st.(*ast.RangeStmt); isRange {
				continue // `for … := range h(x)`: the operand is evaluated once, before the loop
			}
			if _, isSw := st.(*ast.SwitchStmt); isSw {
				continue // `switch h(x) {`
			}
			if _, isIf := st.(*ast.IfStmt); !isIf {
				return nil
			}
		}
	}
	if u, ok := st.(*ast.IfStmt); ok {
		c := ast.Unparen(u.Cond)
		if c == ast.Expr(target) {
			return nil // predicateIf
		}
		if n, ok := c.(*ast.UnaryExpr); ok && n.Op == token.NOT && ast.Unparen(n.X) == ast.Expr(target) {
			return nil
		}
	}
	nz.seq++
	name := fmt.Sprintf("tZq%d", nz.seq)
	def := &ast.AssignStmt{Lhs: []ast.Expr{ast.NewIdent(name)}, Tok: token.DEFINE, Rhs: []ast.Expr{target}}
	replaced := false
	replaceExprs(st, func(e ast.Expr) ast.Expr {
		if e == ast.Expr(target) && !replaced {
			replaced = true
			return ast.NewIdent(name)
		}
		return nil
	})
	if !replaced {
		return nil
	}
	nz.changed[nz.file] = true
	nz.notes = append(nz.notes, fmt.Sprintf("call of %s named in front of its statement", funcName(h.obj)))
	return []ast.Stmt{def}
}

func (nz *normaliser) containsHelperCall(e ast.Expr) bool {
	found := false
	ast.Inspect(e, func(n ast.Node) bool {
		if _, isLit := n.(*ast.FuncLit); isLit {
			return false
		}
		if c, ok := n.(*ast.CallExpr); ok && nz.helperOf(nz.pk.TypesInfo, c) != nil {
			found = true
		}
		return !found
	})
	return found
}

// predicateIf: `if h(x) { S } else { E }` / `if !h(x) {…}` where h is a multi-statement predicate: S and E are copied to the
// return sites of h.
func (nz *normaliser) predicateIf(s *ast.IfStmt) []ast.Stmt {
	info := nz.pk.TypesInfo
	if s.Init != nil {
		return nil
	}
	cond := ast.Unparen(s.Cond)
	neg := false
	if u, ok := cond.(*ast.UnaryExpr); ok && u.Op == token.NOT {
		cond, neg = ast.Unparen(u.X), true
	}
	call, ok := cond.(*ast.CallExpr)
	if !ok {
		return nil
	}
	h := nz.helperOf(info, call)
	if h == nil || h.single != nil || h.nres != 1 {
		return nil
	}
	if freeBreak(s.Body) || (s.Else != nil && freeBreak(s.Else)) || hasLabels(s) || countReturns(h.decl.Body) > 12 {
		return nil
	}
	body := nz.expandBody(h, call, nil, false, &continuation{ifs: s, pred: true, neg: neg, nilIdx: -1, cmpIdx: -1})
	if body == nil {
		return nil
	}
	return []ast.Stmt{body}
}

// assignThenIf: `v, err := h(x)` (or `=`) directly followed by an if statement that tests the results; isInit: the
// assignment is the init statement of that if.
func (nz *normaliser) assignThenIf(st ast.Stmt, is *ast.IfStmt, isInit bool) []ast.Stmt {
	info := nz.pk.TypesInfo
	as, ok := st.(*ast.AssignStmt)
	if !ok || len(as.Rhs) != 1 || (as.Tok != token.DEFINE && as.Tok != token.ASSIGN) {
		return nil
	}
	call, ok := ast.Unparen(as.Rhs[0]).(*ast.CallExpr)
	if !ok {
		return nil
	}
	h := nz.helperOf(info, call)
	if h == nil || h.single != nil || h.nres != len(as.Lhs) {
		return nil
	}
	// the test must be about the assigned variables
	names := map[string]int{}
	for i, l := range as.Lhs {
		id, ok := l.(*ast.Ident)
		if !ok {
			return nil
		}
		names[id.Name] = i
	}
	mentions := false
	ast.Inspect(is.Cond, func(n ast.Node) bool {
		if id, ok := n.(*ast.Ident); ok {
			if _, ok := names[id.Name]; ok {
				mentions = true
			}
		}
		return true
	})
	if !mentions || freeBreak(is.Body) || (is.Else != nil && freeBreak(is.Else)) || hasLabels(is) || countReturns(h.decl.Body) > 12 {
		return nil
	}
	k := &continuation{ifs: is, nilIdx: -1, cmpIdx: -1}
	if x, y, op, ok := binaryCmp(is.Cond); ok && op == token.NEQ && isNilIdent(y) {
		if id, ok := ast.Unparen(x).(*ast.Ident); ok {
			if i, ok := names[id.Name]; ok {
				k.nilIdx = i
			}
		}
	}
	if x, y, op, ok := binaryCmp(is.Cond); ok && (op == token.NEQ || op == token.EQL) {
		if id, ok := ast.Unparen(x).(*ast.Ident); ok {
			if i, ok := names[id.Name]; ok {
				if isNilIdent(y) {
					k.cmpIdx, k.cmpOp, k.cmpKind = i, op, "nil"
				} else if bl, ok := ast.Unparen(y).(*ast.BasicLit); ok && bl.Kind == token.STRING && (bl.Value == `""` || bl.Value == "``") {
					k.cmpIdx, k.cmpOp, k.cmpKind = i, op, "empty"
				}
			}
		}
	}
	{
		c, neg := ast.Unparen(is.Cond), false
		if u, ok := c.(*ast.UnaryExpr); ok && u.Op == token.NOT {
			c, neg = ast.Unparen(u.X), true
		}
		if id, ok := c.(*ast.Ident); ok && k.cmpIdx < 0 {
			if i, ok := names[id.Name]; ok {
				// `if !ok` is taken when ok is the sentinel false; `if ok` when it is not
				k.cmpIdx, k.cmpKind = i, "bool"
				if neg {
					k.cmpOp = token.EQL
				} else {
					k.cmpOp = token.NEQ
				}
			}
		}
	}
	// the copied test only pays off when its body leaves (otherwise the plain expansion is as good) - or when the helper
	// signals "nothing" with a sentinel value (return "" / return nil) that the caller tests: at every return site the
	// outcome of that test is then evident, and the sentinel disappears
	if !terminates(is.Body.List) && !k.decidesAllReturns(h) {
		return nil
	}
	if isInit {
		is.Init = nil
		k.scoped = as.Tok == token.DEFINE
	}
	var pre []ast.Stmt
	if !nz.freeOK(h, h.decl.Type.Results, nz.pk, nz.file, call.Pos()) {
		return nil
	}
	var rtypes []ast.Expr
	for _, fld := range h.decl.Type.Results.List {
		n := len(fld.Names)
		if n == 0 {
			n = 1
		}
		for j := 0; j < n; j++ {
			rtypes = append(rtypes, fld.Type)
		}
	}
	var lhs []ast.Expr
	for i, l := range as.Lhs {
		lhs = append(lhs, l)
		if id := l.(*ast.Ident); as.Tok == token.DEFINE && id.Name != "_" && info.Defs[id] != nil {
			pre = append(pre, &ast.DeclStmt{Decl: &ast.GenDecl{Tok: token.VAR, Specs: []ast.Spec{&ast.ValueSpec{
				Names: []*ast.Ident{ast.NewIdent(id.Name)}, Type: cloneNode(rtypes[i])}}}})
		}
	}
	body := nz.expandBody(h, call, lhs, false, k)
	if body == nil {
		if isInit {
			is.Init = st
		}
		return nil
	}
	out := append(pre, body)
	if isInit {
		return []ast.Stmt{&ast.BlockStmt{List: out}}
	}
	return out
}

// assignThenReturn: `v := h(x)` directly followed by `return …, v, …` at the end of a statement list: the return moves
// to the return sites of h, with the value in place of the variable (`status := statusOf(err); return nil, msg, status`
// becomes one return per status, which is what stood there before the mapping was given a name).
func (nz *normaliser) assignThenReturn(st ast.Stmt, r *ast.ReturnStmt) []ast.Stmt {
	info := nz.pk.TypesInfo
	as, ok := st.(*ast.AssignStmt)
	if !ok || len(as.Rhs) != 1 || as.Tok != token.DEFINE {
		return nil
	}
	call, ok := ast.Unparen(as.Rhs[0]).(*ast.CallExpr)
	if !ok {
		return nil
	}
	h := nz.helperOf(info, call)
	if h == nil || h.single != nil || h.nres != len(as.Lhs) || countReturns(h.decl.Body) > 12 {
		return nil
	}
	// every received variable is new, and is a plain result of the return (once)
	for _, l := range as.Lhs {
		id, ok := l.(*ast.Ident)
		if !ok || id.Name == "_" || info.Defs[id] == nil {
			return nil
		}
		n := 0
		for _, e := range r.Results {
			if rid, ok := ast.Unparen(e).(*ast.Ident); ok && rid.Name == id.Name {
				n++
			}
		}
		m := 0
		ast.Inspect(r, func(x ast.Node) bool {
			if rid, ok := x.(*ast.Ident); ok && rid.Name == id.Name {
				m++
			}
			return true
		})
		if n != 1 || m != 1 {
			return nil
		}
	}
	// the other results are evaluated after h's body instead of before: they must not care
	for _, e := range r.Results {
		if !nz.pure(info, e) {
			if c, isC := ast.Unparen(e).(*ast.CallExpr); !isC || !isErrorMethodCall(c) {
				return nil
			}
		}
	}
	// every return of h can be substituted
	okAll := true
	ast.Inspect(h.decl.Body, func(x ast.Node) bool {
		switch y := x.(type) {
		case *ast.FuncLit:
			return false
		case *ast.ReturnStmt:
			if len(y.Results) != h.nres {
				okAll = false
			}
		}
		return okAll
	})
	if !okAll || !nz.freeOK(h, h.decl.Type.Results, nz.pk, nz.file, call.Pos()) {
		return nil
	}
	var lhs []ast.Expr
	for _, l := range as.Lhs {
		lhs = append(lhs, l)
	}
	body := nz.expandBody(h, call, lhs, false, &continuation{nilIdx: -1, cmpIdx: -1, ret: r})
	if body == nil {
		return nil
	}
	return []ast.Stmt{body}
}

// isErrorMethodCall: err.Error() on a plain variable.
func isErrorMethodCall(c *ast.CallExpr) bool {
	sel, ok := ast.Unparen(c.Fun).(*ast.SelectorExpr)
	if !ok || sel.Sel.Name != "Error" || len(c.Args) != 0 {
		return false
	}
	_, isID := ast.Unparen(sel.X).(*ast.Ident)
	return isID
}

func hasLabels(n ast.Node) bool {
	f := false
	ast.Inspect(n, func(x ast.Node) bool {
		if _, ok := x.(*ast.LabeledStmt); ok {
			f = true
		}
		return !f
	})
	return f
}

func countReturns(n ast.Node) int {
	c := 0
	ast.Inspect(n, func(x ast.Node) bool {
		switch x.(type) {
		case *ast.FuncLit:
			return false
		case *ast.ReturnStmt:
			c++
		}
		return true
	})
	return c
}

// wrapGoDefer: go h(a, b) / defer h(a, b)  →  go func(p1 T1, p2 T2) { <body of h> }(a, b). An argument that is a local
// variable which is never reassigned in the calling function (and whose parameter h does not modify) is captured
// instead of passed: `go c.run(ctx, req, rel)` becomes `go func() { … req … rel … }()` again, the closure it was before it
// was given a name. (Capturing instead of copying is the same thing exactly when the variable does not change.)
func (nz *normaliser) wrapGoDefer(call *ast.CallExpr) *ast.CallExpr { return nz.wrapLit(call, false) }

// wrapLit: the call of a helper becomes the call of a literal with the helper's body. keep: the literal has the helper's
// results (an immediately invoked literal standing where the call stood); otherwise they are discarded (go/defer).
func (nz *normaliser) wrapLit(call *ast.CallExpr, keep bool) *ast.CallExpr {
	info := nz.pk.TypesInfo
	h := nz.helperOfAny(info, call)
	if h == nil {
		return nil
	}
	if keep && (!h.deferOnly || h.knownFn || (h.nres > 0 && !nz.freeOK(h, h.decl.Type.Results, nz.pk, nz.file, call.Pos()))) {
		return nil
	}
	if h.nres != 0 && !keep {
		// `go h(x)` discards the results: usable when they are unnamed (every return is then rewritten below)
		for _, fld := range h.decl.Type.Results.List {
			if len(fld.Names) > 0 {
				return nil
			}
		}
	}
	if !nz.freeOK(h, h.decl.Body, nz.pk, nz.file, call.Pos()) {
		return nil
	}
	bs, ok := nz.bindings(h, info, call)
	if !ok {
		return nil
	}
	hinfo := h.pk.TypesInfo
	// which identifiers of the body are which parameter
	var marks []*binding
	ast.Inspect(h.decl.Body, func(n ast.Node) bool {
		if id, ok := n.(*ast.Ident); ok {
			var hit *binding
			for i := range bs {
				if bs[i].v != nil && hinfo.Uses[id] == bs[i].v {
					hit = &bs[i]
				}
			}
			marks = append(marks, hit)
		}
		return true
	})
	body := cloneNode(h.decl.Body)
	uses := map[*binding][]*ast.Ident{}
	i := 0
	ast.Inspect(body, func(n ast.Node) bool {
		if id, ok := n.(*ast.Ident); ok {
			if marks[i] != nil {
				uses[marks[i]] = append(uses[marks[i]], id)
			}
			i++
		}
		return true
	})
	immutable := func(id *ast.Ident) bool {
		v, isVar := info.Uses[id].(*types.Var)
		if !isVar || v.IsField() || v.Parent() == nil || v.Pkg() == nil || v.Parent() == v.Pkg().Scope() || nz.cur == nil {
			return false
		}
		n := 0
		for _, w := range Writes(nz.cur.Body, true) {
			if wid, ok := ast.Unparen(w.LHS).(*ast.Ident); ok && (info.Uses[wid] == types.Object(v) || info.Defs[wid] == types.Object(v)) {
				n++
			}
		}
		addr := false
		ast.Inspect(nz.cur.Body, func(x ast.Node) bool {
			if u, ok := x.(*ast.UnaryExpr); ok && u.Op == token.AND {
				if uid, ok := ast.Unparen(u.X).(*ast.Ident); ok && info.Uses[uid] == types.Object(v) {
					addr = true
				}
			}
			return true
		})
		return n <= 1 && !addr
	}
	ft := &ast.FuncType{Params: &ast.FieldList{}}
	var args []ast.Expr
	for k := range bs {
		b := &bs[k]
		if b.v == nil || b.name == "_" {
			if !nz.pure(info, b.arg) {
				return nil
			}
			continue
		}
		if id, ok := ast.Unparen(b.arg).(*ast.Ident); ok && immutable(id) && types.Identical(info.TypeOf(id), b.v.Type()) && !mutated(hinfo, h.decl.Body, b.v) &&
			(id.Name == b.name || (!declaresName(hinfo, h.decl.Body, id.Name) && !mentionsFreeName(hinfo, h.decl.Body, id.Name))) {
			for _, u := range uses[b] {
				u.Name = id.Name
			}
			continue
		}
		if !nz.freeOK(h, b.typ, nz.pk, nz.file, call.Pos()) {
			return nil
		}
		ft.Params.List = append(ft.Params.List, &ast.Field{Names: []*ast.Ident{ast.NewIdent(b.name)}, Type: cloneNode(b.typ)})
		args = append(args, b.arg)
	}
	if h.nres != 0 && !keep {
		discardReturns(body)
	}
	nz.changed[nz.file] = true
	if keep {
		if h.nres > 0 {
			ft.Results = cloneNode(h.decl.Type.Results)
		}
		nz.notes = append(nz.notes, fmt.Sprintf("call of %s (which defers) turned into an immediately invoked literal", funcName(h.obj)))
		return &ast.CallExpr{Fun: &ast.ParenExpr{X: &ast.FuncLit{Type: ft, Body: body}}, Args: args}
	}
	nz.notes = append(nz.notes, fmt.Sprintf("go/defer of %s turned into a literal", funcName(h.obj)))
	return &ast.CallExpr{Fun: &ast.FuncLit{Type: ft, Body: body}, Args: args}
}

// discardReturns rewrites every `return e1, e2` of body (nested literals excluded) into `{ e1'; e2'; return }`, where a call
// stays a statement and any other expression is assigned to the blank identifier: the body of a function whose results nobody
// reads.
func discardReturns(body *ast.BlockStmt) {
	astutil.Apply(body, func(c *astutil.Cursor) bool {
		switch n := c.Node().(type) {
		case *ast.FuncLit:
			return false
		case *ast.ReturnStmt:
			if len(n.Results) == 0 {
				return false
			}
			var list []ast.Stmt
			for _, e := range n.Results {
				if ce, ok := ast.Unparen(e).(*ast.CallExpr); ok {
					list = append(list, &ast.ExprStmt{X: ce})
				} else if _, isLit := ast.Unparen(e).(*ast.BasicLit); isLit {
					continue
				} else if id, isId := ast.Unparen(e).(*ast.Ident); isId && (id.Name == "nil" || id.Name == "true" || id.Name == "false") {
					continue
				} else {
					list = append(list, &ast.AssignStmt{Lhs: []ast.Expr{ast.NewIdent("_")}, Tok: token.ASSIGN, Rhs: []ast.Expr{e}})
				}
			}
			list = append(list, &ast.ReturnStmt{})
			c.Replace(&ast.BlockStmt{List: list})
			return false
		}
		return true
	}, nil)
}

// expandAssignNew: `tmp := h(args)` for a fresh tmp.
func (nz *normaliser) expandAssignNew(h *helper, call *ast.CallExpr, as *ast.AssignStmt, tmp string) []ast.Stmt {
	if !nz.freeOK(h, h.decl.Type.Results, nz.pk, nz.file, call.Pos()) {
		return nil
	}
	body := nz.expandBody(h, call, []ast.Expr{ast.NewIdent(tmp)}, false)
	if body == nil {
		return nil
	}
	decl := &ast.DeclStmt{Decl: &ast.GenDecl{Tok: token.VAR, Specs: []ast.Spec{&ast.ValueSpec{
		Names: []*ast.Ident{ast.NewIdent(tmp)}, Type: cloneNode(h.decl.Type.Results.List[0].Type)}}}}
	return []ast.Stmt{decl, body}
}

// expand replaces a statement whose only effect is the call of h.
//
//	as == nil, tail == false : results (if any) are discarded
//	as != nil                : results go to as.Lhs (declared first where as defines them)
//	tail                     : the statement was `return h(...)`
func (nz *normaliser) expand(h *helper, call *ast.CallExpr, as *ast.AssignStmt, tail, _ bool) []ast.Stmt {
	info := nz.pk.TypesInfo
	var pre []ast.Stmt
	var lhs []ast.Expr
	if as != nil {
		if !nz.freeOK(h, h.decl.Type.Results, nz.pk, nz.file, call.Pos()) {
			return nil
		}
		// result types, one per result
		var rtypes []ast.Expr
		for _, fld := range h.decl.Type.Results.List {
			n := len(fld.Names)
			if n == 0 {
				n = 1
			}
			for j := 0; j < n; j++ {
				rtypes = append(rtypes, fld.Type)
			}
		}
		nz.freshLhs = map[string]bool{}
		defer func() { nz.freshLhs = nil }()
		for i, l := range as.Lhs {
			lhs = append(lhs, l)
			if id, ok := l.(*ast.Ident); ok && as.Tok == token.DEFINE && id.Name != "_" && info.Defs[id] != nil {
				nz.freshLhs[id.Name] = true
				pre = append(pre, &ast.DeclStmt{Decl: &ast.GenDecl{Tok: token.VAR, Specs: []ast.Spec{&ast.ValueSpec{
					Names: []*ast.Ident{ast.NewIdent(id.Name)}, Type: cloneNode(rtypes[i])}}}})
			}
		}
	} else if !tail && h.nres > 0 {
		for i := 0; i < h.nres; i++ {
			lhs = append(lhs, ast.NewIdent("_"))
		}
	}
	body := nz.expandBody(h, call, lhs, tail)
	if body == nil {
		return nil
	}
	return append(pre, body)
}

// expandBody builds the block that stands for the call.
// continuation: what the caller does with the result right after the call. Copying it to every return site of the
// helper gives back the shape the code had before the helper was extracted (an early `return` where the helper says
// `return false`) instead of a flag that is set in one place and tested in another.
type continuation struct {
	ifs    *ast.IfStmt // the test; its Cond is the call itself (pred) or mentions the assigned variables
	pred   bool        // the call is the condition of ifs (possibly negated)
	neg    bool
	nilIdx int // !pred: ifs.Cond is `lhs[nilIdx] != nil` (-1: some other test of the results)
	// !pred: ifs.Cond compares lhs[cmpIdx] with a sentinel ("" or nil) using cmpOp (== or !=); cmpIdx is -1 otherwise
	cmpIdx  int
	cmpOp   token.Token
	cmpKind string // "nil" or "empty"
	// ret: instead of a test, the statement after the assignment is this return, which hands the received values on
	ret *ast.ReturnStmt
	// scoped: the receiving variables are declared by the init statement of ifs, so nothing after ifs can read them
	scoped bool
}

// sentinelOutcome: what the caller's sentinel test says about the value e a return site is about to hand over, when
// that is evident from the expression (known == false otherwise).
func (k *continuation) sentinelOutcome(e ast.Expr) (known, taken bool) {
	if k == nil || k.cmpIdx < 0 {
		return false, false
	}
	isSentinel, isOther := false, false
	e = ast.Unparen(e)
	switch k.cmpKind {
	case "nil":
		if id, ok := e.(*ast.Ident); ok && id.Name == "nil" {
			isSentinel = true
		} else if evidentlyNonNil(e) {
			isOther = true
		}
	case "bool":
		// the test is the variable itself (cmpOp ==: `!ok`, i.e. ok == false)
		if id, ok := e.(*ast.Ident); ok && (id.Name == "true" || id.Name == "false") {
			if id.Name == "false" {
				isSentinel = true
			} else {
				isOther = true
			}
		}
	case "empty":
		if bl, ok := e.(*ast.BasicLit); ok && bl.Kind == token.STRING {
			if bl.Value == `""` || bl.Value == "``" {
				isSentinel = true
			} else {
				isOther = true
			}
		} else if evidentlyNonEmpty(e) {
			isOther = true
		}
	}
	if !isSentinel && !isOther {
		return false, false
	}
	return true, isSentinel == (k.cmpOp == token.EQL)
}

// endsInReturn: the last statement is a return.
func endsInReturn(list []ast.Stmt) bool {
	if len(list) == 0 {
		return false
	}
	_, ok := list[len(list)-1].(*ast.ReturnStmt)
	return ok
}

// capturedByLiteral: one of the variables is mentioned inside a function literal of the function being rewritten (a
// deferred closure could still read it after a return).
func (nz *normaliser) capturedByLiteral(lhs []ast.Expr) bool {
	if nz.cur == nil || nz.cur.Body == nil {
		return true
	}
	names := map[string]bool{}
	for _, l := range lhs {
		if id, ok := l.(*ast.Ident); ok {
			names[id.Name] = true
		}
	}
	// named results are read by the caller after a return
	if nz.cur.Type.Results != nil {
		for _, f := range nz.cur.Type.Results.List {
			for _, n := range f.Names {
				if names[n.Name] {
					return true
				}
			}
		}
	}
	found := false
	ast.Inspect(nz.cur.Body, func(x ast.Node) bool {
		if fl, ok := x.(*ast.FuncLit); ok {
			ast.Inspect(fl, func(y ast.Node) bool {
				if id, ok := y.(*ast.Ident); ok && names[id.Name] {
					found = true
				}
				return !found
			})
			return false
		}
		return !found
	})
	return found
}

// evidentlyNonEmpty: a string expression with a non-empty literal among its concatenated parts.
func evidentlyNonEmpty(e ast.Expr) bool {
	switch x := ast.Unparen(e).(type) {
	case *ast.BasicLit:
		return x.Kind == token.STRING && x.Value != `""` && x.Value != "``"
	case *ast.BinaryExpr:
		return x.Op == token.ADD && (evidentlyNonEmpty(x.X) || evidentlyNonEmpty(x.Y))
	}
	return false
}

// decidesAllReturns: every return of the helper hands over, in the tested position, a value for which the outcome of the
// caller's sentinel test is evident.
func (k *continuation) decidesAllReturns(h *helper) bool {
	if k.cmpIdx < 0 {
		return false
	}
	all := true
	n := 0
	var walk func(n ast.Node) bool
	walk = func(x ast.Node) bool {
		switch r := x.(type) {
		case *ast.FuncLit:
			return false
		case *ast.ReturnStmt:
			n++
			if len(r.Results) != h.nres {
				all = false
				return false
			}
			if known, _ := k.sentinelOutcome(r.Results[k.cmpIdx]); !known {
				all = false
			}
		}
		return all
	}
	ast.Inspect(h.decl.Body, walk)
	return all && n > 0
}

func (nz *normaliser) expandBody(h *helper, call *ast.CallExpr, lhs []ast.Expr, tail bool, ks ...*continuation) ast.Stmt {
	var k *continuation
	if len(ks) > 0 {
		k = ks[0]
	}
	info := nz.pk.TypesInfo
	hinfo := h.pk.TypesInfo
	bs, ok := nz.bindings(h, info, call)
	if !ok {
		nzWhy(h, "bindings not supported at %s", nz.p.Fset.Position(call.Pos()))
		return nil
	}
	// operands that were synthesised in this round have no type information yet: wait for the next round
	for _, b := range bs {
		fresh := false
		ast.Inspect(b.arg, func(n ast.Node) bool {
			if id, ok := n.(*ast.Ident); ok && info.Uses[id] == nil && info.Defs[id] == nil && id.Name != "_" && id.Name != "nil" && id.Name != "true" && id.Name != "false" {
				fresh = true
			}
			return true
		})
		if fresh {
			return nil
		}
	}
	if !nz.freeOK(h, h.decl.Body, nz.pk, nz.file, call.Pos()) {
		nzWhy(h, "free identifier means something else at %s", nz.p.Fset.Position(call.Pos()))
		return nil
	}
	// (the types of the signature are checked where a declaration with that type is actually written: a parameter that
	// is substituted needs none)
	// clone the body, remembering which identifiers are which parameter and which name something the helper declares
	nz.seq++
	sfx := fmt.Sprintf("Zq%d", nz.seq)
	within := func(p token.Pos) bool {
		if p >= h.decl.Body.Pos() && p < h.decl.Body.End() {
			return true
		}
		return h.decl.Type.Results != nil && p >= h.decl.Type.Results.Pos() && p < h.decl.Type.Results.End()
	}
	tsDefs := map[*ast.Ident]bool{}
	ast.Inspect(h.decl.Body, func(n ast.Node) bool {
		if ts, ok := n.(*ast.TypeSwitchStmt); ok {
			if as, ok := ts.Assign.(*ast.AssignStmt); ok && len(as.Lhs) == 1 {
				if id, ok := as.Lhs[0].(*ast.Ident); ok {
					tsDefs[id] = true
				}
			}
		}
		return true
	})
	var marks []*binding
	var locals []bool
	ast.Inspect(h.decl.Body, func(n ast.Node) bool {
		if id, ok := n.(*ast.Ident); ok {
			var hit *binding
			for i := range bs {
				if bs[i].v != nil && hinfo.Uses[id] == bs[i].v {
					hit = &bs[i]
				}
			}
			marks = append(marks, hit)
			obj := hinfo.Defs[id]
			if obj == nil {
				obj = hinfo.Uses[id]
			}
			loc := tsDefs[id]
			switch o := obj.(type) {
			case *types.Var:
				loc = loc || (!o.IsField() && within(o.Pos()))
			case *types.TypeName, *types.Const:
				loc = within(o.Pos())
			}
			locals = append(locals, loc && id.Name != "_")
		}
		return true
	})
	body := cloneNode(h.decl.Body)
	uses := map[*binding][]*ast.Ident{}
	identOf := map[*ast.Ident]*binding{}
	i := 0
	ast.Inspect(body, func(n ast.Node) bool {
		if id, ok := n.(*ast.Ident); ok {
			if marks[i] != nil {
				uses[marks[i]] = append(uses[marks[i]], id)
				identOf[id] = marks[i]
			}
			// everything the helper declares gets a name of its own: neither the caller's variables that receive the results
			// nor the caller's statements that are copied to the return sites can be captured by it
			if locals[i] {
				id.Name += sfx
			}
			i++
		}
		return true
	})
	substExpr := map[*binding]ast.Expr{}
	var binds []ast.Stmt
	bound := map[string]bool{}
	for k := range bs {
		b := &bs[k]
		if b.v == nil || b.name == "_" {
			if !nz.pure(info, b.arg) {
				binds = append(binds, &ast.AssignStmt{Lhs: []ast.Expr{ast.NewIdent("_")}, Tok: token.ASSIGN, Rhs: []ast.Expr{b.arg}})
			}
			continue
		}
		// an argument that mentions a name bound earlier in this block would be captured
		capt := false
		ast.Inspect(b.arg, func(n ast.Node) bool {
			if id, ok := n.(*ast.Ident); ok && bound[id.Name] {
				capt = true
			}
			return true
		})
		if capt {
			return nil
		}
		if id, ok := ast.Unparen(b.arg).(*ast.Ident); ok {
			if av, isVar := info.Uses[id].(*types.Var); isVar && !av.IsField() && types.Identical(av.Type(), b.v.Type()) && !mutated(hinfo, h.decl.Body, b.v) {
				if id.Name == b.name {
					continue
				}
				if !declaresName(hinfo, h.decl.Body, id.Name) && !mentionsFreeName(hinfo, h.decl.Body, id.Name) {
					for _, u := range uses[b] {
						u.Name = id.Name
					}
					continue
				}
			}
		}
		// a field of a variable (req.Params, c.conn) handed to a parameter that the helper only reads is read in place
		if sel, ok := ast.Unparen(b.arg).(*ast.SelectorExpr); ok && selectorChain(sel) && !mutated(hinfo, h.decl.Body, b.v) && types.Identical(info.TypeOf(b.arg), b.v.Type()) {
			substExpr[b] = b.arg
			continue
		}
		// an argument that is plain arithmetic over variables (interval / 2) and feeds a parameter that is read once is
		// written where it is read
		if pureSyntax(b.arg) && len(uses[b]) == 1 && !mutated(hinfo, h.decl.Body, b.v) && types.Identical(info.TypeOf(b.arg), b.v.Type()) {
			if _, isLit := ast.Unparen(b.arg).(*ast.BasicLit); !isLit {
				substExpr[b] = &ast.ParenExpr{X: b.arg}
				continue
			}
		}
		if !nz.freeOK(h, b.typ, nz.pk, nz.file, call.Pos()) {
			nzWhy(h, "the type of parameter %s means something else at the call", b.name)
			return nil
		}
		pname := b.name + sfx
		for _, u := range uses[b] {
			u.Name = pname
		}
		binds = append(binds, &ast.DeclStmt{Decl: &ast.GenDecl{Tok: token.VAR, Specs: []ast.Spec{&ast.ValueSpec{
			Names: []*ast.Ident{ast.NewIdent(pname)}, Type: cloneNode(b.typ), Values: []ast.Expr{b.arg}}}}})
		// keep the compiler quiet about parameters the body never reads
		if len(uses[b]) == 0 {
			binds = append(binds, &ast.AssignStmt{Lhs: []ast.Expr{ast.NewIdent("_")}, Tok: token.ASSIGN, Rhs: []ast.Expr{ast.NewIdent(pname)}})
		}
		bound[pname] = true
	}
	if len(substExpr) > 0 {
		replaceExprs(body, func(e ast.Expr) ast.Expr {
			if id, ok := e.(*ast.Ident); ok {
				if b := identOf[id]; b != nil && substExpr[b] != nil {
					return cloneNode(substExpr[b])
				}
			}
			return nil
		})
	}
	// named results become locals
	var named []string
	if h.decl.Type.Results != nil {
		for _, fld := range h.decl.Type.Results.List {
			for _, nm := range fld.Names {
				rn := nm.Name
				if rn != "_" {
					rn += sfx
				}
				named = append(named, rn)
				if nm.Name != "_" {
					if !nz.freeOK(h, fld.Type, nz.pk, nz.file, call.Pos()) {
						return nil
					}
					binds = append(binds, &ast.DeclStmt{Decl: &ast.GenDecl{Tok: token.VAR, Specs: []ast.Spec{&ast.ValueSpec{
						Names: []*ast.Ident{ast.NewIdent(rn)}, Type: cloneNode(fld.Type)}}}})
					binds = append(binds, &ast.AssignStmt{Lhs: []ast.Expr{ast.NewIdent("_")}, Tok: token.ASSIGN, Rhs: []ast.Expr{ast.NewIdent(rn)}})
				}
			}
		}
	}
	label := fmt.Sprintf("inlZq%d", nz.seq)
	// the receiving variables are assigned from inside the helper's scope: if the helper declares (or this block
	// binds) one of their names, results travel through fresh temporaries declared outside that scope
	var finalLhs []ast.Expr
	var temps []ast.Stmt
	if !tail && len(lhs) > 0 {
		capt := false
		for _, l := range lhs {
			ast.Inspect(l, func(n ast.Node) bool {
				if id, ok := n.(*ast.Ident); ok && id.Name != "_" {
					if bound[id.Name] {
						capt = true // cannot happen: bound names carry a suffix of their own
					}
					for _, nm := range named {
						if nm == id.Name {
							capt = true
						}
					}
				}
				return true
			})
		}
		if capt {
			if !nz.freeOK(h, h.decl.Type.Results, nz.pk, nz.file, call.Pos()) {
				return nil
			}
			var rtypes []ast.Expr
			for _, fld := range h.decl.Type.Results.List {
				n := len(fld.Names)
				if n == 0 {
					n = 1
				}
				for j := 0; j < n; j++ {
					rtypes = append(rtypes, fld.Type)
				}
			}
			finalLhs = lhs
			lhs = nil
			for i := range finalLhs {
				name := fmt.Sprintf("resZq%d_%d", nz.seq, i)
				temps = append(temps, &ast.DeclStmt{Decl: &ast.GenDecl{Tok: token.VAR, Specs: []ast.Spec{&ast.ValueSpec{
					Names: []*ast.Ident{ast.NewIdent(name)}, Type: cloneNode(rtypes[i])}}}})
				lhs = append(lhs, ast.NewIdent(name))
			}
		}
	}
	if h.unlockDefer {
		// x.Lock(); defer x.Unlock(); …  →  x.Lock(); …; x.Unlock() in front of every return and at the end
		for i, st := range body.List {
			ds, ok := st.(*ast.DeferStmt)
			if !ok {
				continue
			}
			unlock := ds.Call
			body.List = append(body.List[:i:i], body.List[i+1:]...)
			body.List = rewriteReturns(body.List, func(r *ast.ReturnStmt, last bool) []ast.Stmt {
				// what a return reads is read with the lock held: anything but a plain name or literal is put into a
				// temporary before the unlock
				var lhs, rhs []ast.Expr
				for i, e := range r.Results {
					switch ast.Unparen(e).(type) {
					case *ast.Ident, *ast.BasicLit:
						continue
					}
					nz.seq++
					tmp := fmt.Sprintf("rZq%d", nz.seq)
					lhs = append(lhs, ast.NewIdent(tmp))
					rhs = append(rhs, e)
					r.Results[i] = ast.NewIdent(tmp)
				}
				out := []ast.Stmt{}
				if len(lhs) > 0 {
					out = append(out, &ast.AssignStmt{Lhs: lhs, Tok: token.DEFINE, Rhs: rhs})
				}
				return append(out, &ast.ExprStmt{X: cloneNode(unlock)}, r)
			}, true)
			if !terminates(body.List) {
				body.List = append(body.List, &ast.ExprStmt{X: cloneNode(unlock)})
			}
			break
		}
	}
	// labels of the helper must stay unique in the host function
	relabel(body, fmt.Sprintf("Zq%d", nz.seq))
	needLabel := false
	nGenAssign := 0
	var lastGenAssign *ast.AssignStmt
	if tail {
		// bare returns of a helper with named results become explicit
		if len(named) > 0 {
			rewriteReturns(body.List, func(r *ast.ReturnStmt, last bool) []ast.Stmt {
				if len(r.Results) == 0 {
					for _, nm := range named {
						r.Results = append(r.Results, ast.NewIdent(nm))
					}
				}
				return []ast.Stmt{r}
			}, true)
		}
	} else {
		body.List = rewriteReturns(body.List, func(r *ast.ReturnStmt, last bool) []ast.Stmt {
			var out []ast.Stmt
			res := r.Results
			if len(res) == 0 && len(named) > 0 && (len(lhs) > 0 || (k != nil && k.pred)) {
				for _, nm := range named {
					res = append(res, ast.NewIdent(nm))
				}
			}
			if k != nil && k.pred && len(res) == 1 {
				// the returned value decides the caller's branch right here
				taken, known := false, false
				if id, ok := ast.Unparen(res[0]).(*ast.Ident); ok && (id.Name == "true" || id.Name == "false") {
					if _, isConst := hinfo.Uses[identAt(h, r, id)].(*types.Const); isConst || true {
						taken, known = (id.Name == "true") != k.neg, true
					}
				}
				var thenS, elseS []ast.Stmt
				thenS = cloneNode(k.ifs.Body).List
				if k.ifs.Else != nil {
					if eb, ok := k.ifs.Else.(*ast.BlockStmt); ok {
						elseS = cloneNode(eb).List
					} else {
						elseS = []ast.Stmt{cloneNode(k.ifs.Else)}
					}
				}
				switch {
				case known && taken:
					out = thenS
				case known:
					out = elseS
				default:
					var c ast.Expr = res[0]
					if k.neg {
						c = &ast.UnaryExpr{Op: token.NOT, X: &ast.ParenExpr{X: c}}
					}
					is := &ast.IfStmt{Cond: c, Body: &ast.BlockStmt{List: thenS}}
					if elseS != nil {
						is.Else = &ast.BlockStmt{List: elseS}
					}
					out = []ast.Stmt{is}
				}
				if !last && !terminates(out) {
					needLabel = true
					out = append(out, &ast.BranchStmt{Tok: token.BREAK, Label: ast.NewIdent(label)})
				}
				if len(out) == 0 {
					out = append(out, &ast.EmptyStmt{})
				}
				return out
			}
			if len(res) > 0 && len(lhs) > 0 {
				l2 := make([]ast.Expr, len(lhs))
				for i, l := range lhs {
					l2[i] = cloneNode(l)
				}
				// results nobody receives: `_ = nil` does not type-check and `_ = x` says nothing
				if len(l2) == len(res) {
					var kl, kr []ast.Expr
					for i := range l2 {
						if id, isID := l2[i].(*ast.Ident); isID && id.Name == "_" && pureSyntax(res[i]) {
							continue
						}
						kl, kr = append(kl, l2[i]), append(kr, res[i])
					}
					l2, res = kl, kr
				}
				if len(l2) > 0 {
					ga := &ast.AssignStmt{Lhs: l2, Tok: token.ASSIGN, Rhs: res}
					out = append(out, ga)
					nGenAssign++
					lastGenAssign = ga
				}
			} else if len(res) > 0 {
				for _, e := range res {
					out = append(out, &ast.AssignStmt{Lhs: []ast.Expr{ast.NewIdent("_")}, Tok: token.ASSIGN, Rhs: []ast.Expr{e}})
				}
			}
			if k != nil && k.ret != nil {
				rr := cloneNode(k.ret)
				if len(res) == len(lhs) && substResults(rr, lhs, res) {
					nGenAssign--
					return []ast.Stmt{rr}
				}
				return append(out, rr)
			}
			if k != nil && !k.pred {
				// the caller's test of the results, copied to this return site (dropped where the tested result is a literal nil)
				skip := false
				if len(res) == len(lhs) && k.nilIdx >= 0 && k.nilIdx < len(res) {
					if id, ok := ast.Unparen(res[k.nilIdx]).(*ast.Ident); ok && id.Name == "nil" {
						skip = true
					}
				}
				known, taken := false, false
				if len(res) == len(lhs) && k.cmpIdx >= 0 && k.cmpIdx < len(res) {
					known, taken = k.sentinelOutcome(res[k.cmpIdx])
				}
				switch {
				case skip:
				case known && !(k.nilIdx >= 0 && k.ifs.Else == nil && evidentlyNonNil(res[k.nilIdx])):
					// the outcome of the caller's test is evident here: the branch itself takes the place of the test
					var branch []ast.Stmt
					if taken {
						branch = cloneNode(k.ifs.Body).List
					} else if k.ifs.Else != nil {
						if eb, ok := k.ifs.Else.(*ast.BlockStmt); ok {
							branch = cloneNode(eb).List
						} else {
							branch = []ast.Stmt{cloneNode(k.ifs.Else)}
						}
					}
					// receiving variables that nothing can read any more are not assigned (return "" meaning "nothing")
					if (k.scoped || (endsInReturn(branch) && !nz.capturedByLiteral(lhs))) && len(out) > 0 && out[len(out)-1] == ast.Stmt(lastGenAssign) {
						read := false
						for _, l := range lhs {
							nm := l.(*ast.Ident).Name
							for _, st := range branch {
								ast.Inspect(st, func(x ast.Node) bool {
									if id, ok := x.(*ast.Ident); ok && id.Name == nm {
										read = true
									}
									return !read
								})
							}
						}
						simple := true
						for _, e := range res {
							switch ast.Unparen(e).(type) {
							case *ast.BasicLit, *ast.Ident:
							default:
								simple = false
							}
						}
						if !read && simple {
							out = out[:len(out)-1]
							nGenAssign--
						}
					}
					out = append(out, branch...)
				case len(res) == len(lhs) && k.nilIdx >= 0 && k.nilIdx < len(res) && k.ifs.Else == nil && evidentlyNonNil(res[k.nilIdx]):
					// the tested result is a freshly built error: the caller's branch is taken for certain. If that branch is a
					// single return that hands the results on, the values are put into it directly (`return nil, &Error{…}`,
					// which is what stood here before the helper was extracted)
					body := cloneNode(k.ifs.Body).List
					if r, ok := singleReturn(body); ok && substResults(r, lhs, res) {
						out = []ast.Stmt{r}
						nGenAssign-- // the generated assignment is gone
					} else {
						out = append(out, body...)
					}
				default:
					out = append(out, cloneNode(k.ifs))
				}
			}
			if !last && !terminates(out) {
				needLabel = true
				out = append(out, &ast.BranchStmt{Tok: token.BREAK, Label: ast.NewIdent(label)})
			}
			if len(out) == 0 {
				out = append(out, &ast.EmptyStmt{})
			}
			return out
		}, true)
		// a helper that can fall off its end (no results) continues with the caller's next statement: nothing to add
	}
	nz.changed[nz.file] = true
	nz.notes = append(nz.notes, fmt.Sprintf("call of %s expanded in place", funcName(h.obj)))
	if !tail && !needLabel && finalLhs == nil && nGenAssign == 1 {
		before := len(body.List)
		body.List = unifyResults(body.List, sfx, lastGenAssign, nz.freshLhs)
		if len(body.List) == before && len(named) > 0 {
			// the same for named results (declared by this expansion as zero-valued locals): `err = errZq; …` where errZq is
			// the helper's named result becomes the caller's err itself, reset to nil first
			binds, body.List = unifyNamedResults(binds, body.List, named, lastGenAssign, h)
		}
	}
	var inner *ast.BlockStmt
	if needLabel {
		sw := &ast.SwitchStmt{Body: &ast.BlockStmt{List: []ast.Stmt{&ast.CaseClause{Body: body.List}}}}
		inner = &ast.BlockStmt{List: append(binds, &ast.LabeledStmt{Label: ast.NewIdent(label), Stmt: sw})}
	} else {
		inner = &ast.BlockStmt{List: append(binds, body.List...)}
	}
	if finalLhs == nil {
		return inner
	}
	var rhs []ast.Expr
	for _, l := range lhs {
		rhs = append(rhs, ast.NewIdent(l.(*ast.Ident).Name))
	}
	out := append(temps, inner, &ast.AssignStmt{Lhs: finalLhs, Tok: token.ASSIGN, Rhs: rhs})
	return &ast.BlockStmt{List: out}
}

// identAt exists only to keep the signature of the constant test readable: the identifier of a cloned return
// statement has no type information, true/false are taken by name (shadowing them is excluded by freeOK).
func identAt(h *helper, r *ast.ReturnStmt, id *ast.Ident) *ast.Ident { return id }

// terminates: the statement list ends in a statement after which control does not continue with the next statement.
func terminates(list []ast.Stmt) bool {
	if len(list) == 0 {
		return false
	}
	switch s := list[len(list)-1].(type) {
	case *ast.ReturnStmt:
		return true
	case *ast.BranchStmt:
		return s.Tok == token.CONTINUE || s.Tok == token.GOTO || (s.Tok == token.BREAK && s.Label != nil)
	case *ast.ExprStmt:
		if c, ok := s.X.(*ast.CallExpr); ok {
			if id, ok := c.Fun.(*ast.Ident); ok && id.Name == "panic" {
				return true
			}
		}
	case *ast.BlockStmt:
		return terminates(s.List)
	case *ast.IfStmt:
		if s.Else == nil {
			return false
		}
		if eb, ok := s.Else.(*ast.BlockStmt); ok {
			return terminates(s.Body.List) && terminates(eb.List)
		}
		return terminates(s.Body.List) && terminates([]ast.Stmt{s.Else})
	}
	return false
}

// freeBreak: the statements contain an unlabelled break that refers to a statement outside them (it would be
// captured by the switch that stands for the helper's body).
func freeBreak(n ast.Node) bool {
	found := false
	var walk func(n ast.Node, inBreakable bool)
	walk = func(n ast.Node, inBreakable bool) {
		ast.Inspect(n, func(x ast.Node) bool {
			if x == nil || found {
				return false
			}
			switch y := x.(type) {
			case *ast.FuncLit:
				return false
			case *ast.ForStmt, *ast.RangeStmt, *ast.SwitchStmt, *ast.TypeSwitchStmt, *ast.SelectStmt:
				if x != n {
					walk(x, true)
					return false
				}
			case *ast.BranchStmt:
				if y.Tok == token.BREAK && y.Label == nil && !inBreakable {
					found = true
				}
			}
			return true
		})
	}
	walk(n, false)
	return found
}

// unifyResults: the expansion ends in `x, y = aZq, bZq` where aZq and bZq are locals of the helper that are declared once,
// at the top level of its body, by `aZq, bZq := <expr>` (all of that statement's variables being among the returned ones).
// The helper's result variables and the caller's receiving variables are then one and the same: the declaration becomes
// the assignment `x, y = <expr>` and the copy at the end disappears — which is the statement that stood in the caller
// before it was moved into the helper (`ac, ok := s.outgoingCalls[id]` rather than a lookup into temporaries and a copy).
func unifyResults(list []ast.Stmt, sfx string, fin *ast.AssignStmt, fresh map[string]bool) []ast.Stmt {
	if len(list) < 2 || fin == nil {
		return list
	}
	// the generated assignment sits at the top level; what follows it (the caller's test of the results, copied here)
	// mentions the caller's variables only
	finAt := -1
	for i, st := range list {
		if st == ast.Stmt(fin) {
			finAt = i
		}
	}
	if finAt < 1 || fin.Tok != token.ASSIGN || len(fin.Lhs) != len(fin.Rhs) {
		return list
	}
	rest := list[finAt+1:]
	list = list[:finAt+1]
	to := map[string]string{} // helper local → caller variable
	var resL, resR []ast.Expr // what stays an assignment (a literal result such as nil)
	for i, r := range fin.Rhs {
		rid, ok1 := r.(*ast.Ident)
		lid, ok2 := fin.Lhs[i].(*ast.Ident)
		if ok2 && (!ok1 || !strings.HasSuffix(rid.Name, sfx)) && pureSyntax(r) && !mentionsSuffix(r, sfx) {
			resL, resR = append(resL, fin.Lhs[i]), append(resR, r)
			continue
		}
		if !ok1 || !ok2 || !strings.HasSuffix(rid.Name, sfx) || lid.Name == "_" {
			return append(list, rest...)
		}
		if _, dup := to[rid.Name]; dup {
			return append(list, rest...)
		}
		to[rid.Name] = lid.Name
	}
	if len(to) == 0 {
		return append(list, rest...)
	}
	residual := func(out []ast.Stmt) []ast.Stmt {
		if len(resL) > 0 {
			out = append(out, &ast.AssignStmt{Lhs: resL, Tok: token.ASSIGN, Rhs: resR})
		}
		return out
	}
	// zero-valued declarations (`var aZq T`) of returned locals whose receiving variable is freshly declared by the
	// caller's statement are dropped: the caller's variable is that zero value
	varDecls := map[int]bool{}
	nVar := 0
	for i, st := range list[:len(list)-1] {
		ds, ok := st.(*ast.DeclStmt)
		if !ok {
			continue
		}
		gd, ok := ds.Decl.(*ast.GenDecl)
		if !ok || gd.Tok != token.VAR || len(gd.Specs) != 1 {
			continue
		}
		vs := gd.Specs[0].(*ast.ValueSpec)
		if len(vs.Names) != 1 || len(vs.Values) != 0 {
			continue
		}
		if nn, is := to[vs.Names[0].Name]; is && fresh[nn] {
			varDecls[i] = true
			nVar++
		}
	}
	if nVar > 0 && nVar == len(to) {
		// all returned locals are zero-declared variables: rename and drop the declarations and the final copy
		for _, st := range list[:len(list)-1] {
			ast.Inspect(st, func(n ast.Node) bool {
				if id, ok := n.(*ast.Ident); ok {
					if nn, is := to[id.Name]; is {
						id.Name = nn
					}
				}
				return true
			})
		}
		var out []ast.Stmt
		for i, st := range list[:len(list)-1] {
			if !varDecls[i] {
				out = append(out, st)
			}
		}
		return append(residual(out), rest...)
	}
	// the one declaration of those locals
	declAt := -1
	for i, st := range list[:len(list)-1] {
		as, ok := st.(*ast.AssignStmt)
		if !ok || as.Tok != token.DEFINE {
			continue
		}
		n := 0
		for _, l := range as.Lhs {
			if id, ok := l.(*ast.Ident); ok {
				if _, is := to[id.Name]; is {
					n++
				}
			}
		}
		if n == 0 {
			continue
		}
		if n != len(as.Lhs) || n != len(to) || declAt >= 0 {
			return append(list, rest...)
		}
		declAt = i
	}
	if declAt < 0 {
		return append(list, rest...)
	}
	// no other definition of these names anywhere (nested := of the same name would now assign the caller's variable)
	defs := 0
	for _, st := range list[:len(list)-1] {
		ast.Inspect(st, func(n ast.Node) bool {
			switch x := n.(type) {
			case *ast.AssignStmt:
				if x.Tok == token.DEFINE {
					for _, l := range x.Lhs {
						if id, ok := l.(*ast.Ident); ok {
							if _, is := to[id.Name]; is {
								defs++
							}
						}
					}
				}
			case *ast.ValueSpec:
				for _, nm := range x.Names {
					if _, is := to[nm.Name]; is {
						defs += 100
					}
				}
			case *ast.RangeStmt:
				if x.Tok == token.DEFINE {
					for _, e := range []ast.Expr{x.Key, x.Value} {
						if id, ok := e.(*ast.Ident); ok {
							if _, is := to[id.Name]; is {
								defs += 100
							}
						}
					}
				}
			}
			return true
		})
	}
	if defs != len(to) {
		return append(list, rest...)
	}
	for _, st := range list[:len(list)-1] {
		ast.Inspect(st, func(n ast.Node) bool {
			if id, ok := n.(*ast.Ident); ok {
				if nn, is := to[id.Name]; is {
					id.Name = nn
				}
			}
			return true
		})
	}
	list[declAt].(*ast.AssignStmt).Tok = token.ASSIGN
	return append(residual(list[:len(list)-1:len(list)-1]), rest...)
}

func mentionsSuffix(e ast.Expr, sfx string) bool {
	f := false
	ast.Inspect(e, func(n ast.Node) bool {
		if id, ok := n.(*ast.Ident); ok && strings.HasSuffix(id.Name, sfx) {
			f = true
		}
		return !f
	})
	return f
}

// unifyNamedResults: see the call site. Only for results of a type whose zero value is nil.
func unifyNamedResults(binds, list []ast.Stmt, named []string, fin *ast.AssignStmt, h *helper) ([]ast.Stmt, []ast.Stmt) {
	if fin == nil || len(fin.Lhs) != len(fin.Rhs) || len(named) != len(fin.Rhs) {
		return binds, list
	}
	finAt := -1
	for i, st := range list {
		if st == ast.Stmt(fin) {
			finAt = i
		}
	}
	if finAt < 0 {
		return binds, list
	}
	to := map[string]string{}
	for i, r := range fin.Rhs {
		rid, ok1 := r.(*ast.Ident)
		lid, ok2 := fin.Lhs[i].(*ast.Ident)
		if !ok1 || !ok2 || rid.Name != named[i] || lid.Name == "_" {
			return binds, list
		}
		to[rid.Name] = lid.Name
	}
	// nil-able result types only
	k := 0
	for _, fld := range h.decl.Type.Results.List {
		for range fld.Names {
			nilable := false
			switch t := fld.Type.(type) {
			case *ast.StarExpr, *ast.MapType, *ast.FuncType, *ast.ChanType, *ast.InterfaceType:
				nilable = true
			case *ast.ArrayType:
				nilable = t.Len == nil
			case *ast.Ident:
				nilable = t.Name == "error" || t.Name == "any"
			}
			if !nilable {
				return binds, list
			}
			k++
		}
	}
	var nb []ast.Stmt
	for _, st := range binds {
		drop := false
		switch x := st.(type) {
		case *ast.DeclStmt:
			if gd, ok := x.Decl.(*ast.GenDecl); ok && len(gd.Specs) == 1 {
				if vs, ok := gd.Specs[0].(*ast.ValueSpec); ok && len(vs.Names) == 1 && len(vs.Values) == 0 {
					if nn, is := to[vs.Names[0].Name]; is {
						nb = append(nb, &ast.AssignStmt{Lhs: []ast.Expr{ast.NewIdent(nn)}, Tok: token.ASSIGN, Rhs: []ast.Expr{ast.NewIdent("nil")}})
						drop = true
					}
				}
			}
		case *ast.AssignStmt:
			if len(x.Lhs) == 1 && len(x.Rhs) == 1 {
				if l, ok := x.Lhs[0].(*ast.Ident); ok && l.Name == "_" {
					if r, ok := x.Rhs[0].(*ast.Ident); ok {
						if _, is := to[r.Name]; is {
							drop = true
						}
					}
				}
			}
		}
		if !drop {
			nb = append(nb, st)
		}
	}
	for _, st := range list {
		ast.Inspect(st, func(n ast.Node) bool {
			if id, ok := n.(*ast.Ident); ok {
				if nn, is := to[id.Name]; is {
					id.Name = nn
				}
			}
			return true
		})
	}
	out := append([]ast.Stmt(nil), list[:finAt]...)
	return nb, append(out, list[finAt+1:]...)
}

// evidentlyNonNil: the expression builds a new value (an error constructor, &T{…}).
func evidentlyNonNil(e ast.Expr) bool {
	switch x := ast.Unparen(e).(type) {
	case *ast.UnaryExpr:
		if x.Op == token.AND {
			_, isLit := ast.Unparen(x.X).(*ast.CompositeLit)
			return isLit
		}
	case *ast.CallExpr:
		if sel, ok := ast.Unparen(x.Fun).(*ast.SelectorExpr); ok {
			if pk, ok := sel.X.(*ast.Ident); ok {
				switch pk.Name + "." + sel.Sel.Name {
				case "fmt.Errorf", "errors.New":
					return true
				}
			}
		}
	}
	return false
}

func singleReturn(list []ast.Stmt) (*ast.ReturnStmt, bool) {
	if len(list) != 1 {
		return nil, false
	}
	r, ok := list[0].(*ast.ReturnStmt)
	return r, ok
}

// substResults replaces, in the results of r, every receiving variable by the value it was about to receive. It succeeds
// only if the variables occur there as plain results (and at most once each, so that nothing is evaluated twice).
func substResults(r *ast.ReturnStmt, lhs, res []ast.Expr) bool {
	if len(lhs) != len(res) {
		return false
	}
	names := map[string]ast.Expr{}
	for i, l := range lhs {
		id, ok := l.(*ast.Ident)
		if !ok {
			return false
		}
		if id.Name != "_" {
			names[id.Name] = res[i]
		} else if !pureSyntax(res[i]) {
			return false // a discarded result with effects must still be evaluated
		}
	}
	used := map[string]int{}
	okShape := true
	for _, e := range r.Results {
		if id, ok := ast.Unparen(e).(*ast.Ident); ok {
			if _, is := names[id.Name]; is {
				used[id.Name]++
			}
			continue
		}
		ast.Inspect(e, func(n ast.Node) bool {
			if id, ok := n.(*ast.Ident); ok {
				if _, is := names[id.Name]; is {
					okShape = false // used inside a larger expression
				}
			}
			return true
		})
	}
	for name, v := range names {
		if used[name] > 1 || (used[name] == 0 && !pureSyntax(v)) {
			okShape = false
		}
	}
	if !okShape {
		return false
	}
	for i, e := range r.Results {
		if id, ok := ast.Unparen(e).(*ast.Ident); ok {
			if v, is := names[id.Name]; is {
				r.Results[i] = v
			}
		}
	}
	return true
}

// pureSyntax: identifiers, literals, selectors, nil — nothing that could have an effect.
func pureSyntax(e ast.Expr) bool {
	ok := true
	ast.Inspect(e, func(n ast.Node) bool {
		switch n.(type) {
		case *ast.CallExpr, *ast.FuncLit:
			ok = false
		case *ast.UnaryExpr:
			if n.(*ast.UnaryExpr).Op == token.ARROW {
				ok = false
			}
		}
		return ok
	})
	return ok
}

// selectorChain: x.a.b with x an identifier.
func selectorChain(e ast.Expr) bool {
	for {
		switch x := ast.Unparen(e).(type) {
		case *ast.SelectorExpr:
			e = x.X
		case *ast.Ident:
			return true
		default:
			return false
		}
	}
}

// mentionsFreeName: the fragment uses name for something that is not declared inside it (renaming a parameter to it would capture).
func mentionsFreeName(info *types.Info, frag ast.Node, name string) bool {
	found := false
	ast.Inspect(frag, func(n ast.Node) bool {
		if id, ok := n.(*ast.Ident); ok && id.Name == name {
			if o := info.Uses[id]; o != nil {
				if !(o.Pos() >= frag.Pos() && o.Pos() < frag.End()) {
					found = true
				}
			}
		}
		return !found
	})
	return found
}

// rewriteReturns replaces the return statements of a statement list (not inside literals); top says whether the
// list is the helper's outermost list (its final return needs no jump).
func rewriteReturns(list []ast.Stmt, f func(r *ast.ReturnStmt, last bool) []ast.Stmt, top bool) []ast.Stmt {
	var out []ast.Stmt
	for i, st := range list {
		last := top && i == len(list)-1
		if r, ok := st.(*ast.ReturnStmt); ok {
			out = append(out, f(r, last)...)
			continue
		}
		rewriteReturnsIn(st, f)
		out = append(out, st)
	}
	return out
}

func rewriteReturnsIn(st ast.Stmt, f func(r *ast.ReturnStmt, last bool) []ast.Stmt) {
	switch s := st.(type) {
	case *ast.BlockStmt:
		s.List = rewriteReturns(s.List, f, false)
	case *ast.IfStmt:
		s.Body.List = rewriteReturns(s.Body.List, f, false)
		if s.Else != nil {
			rewriteReturnsIn(s.Else, f)
		}
	case *ast.ForStmt:
		s.Body.List = rewriteReturns(s.Body.List, f, false)
	case *ast.RangeStmt:
		s.Body.List = rewriteReturns(s.Body.List, f, false)
	case *ast.SwitchStmt:
		rewriteReturnsIn(s.Body, f)
	case *ast.TypeSwitchStmt:
		rewriteReturnsIn(s.Body, f)
	case *ast.SelectStmt:
		rewriteReturnsIn(s.Body, f)
	case *ast.CaseClause:
		s.Body = rewriteReturns(s.Body, f, false)
	case *ast.CommClause:
		s.Body = rewriteReturns(s.Body, f, false)
	case *ast.LabeledStmt:
		if r, ok := s.Stmt.(*ast.ReturnStmt); ok {
			s.Stmt = &ast.BlockStmt{List: f(r, false)}
		} else {
			rewriteReturnsIn(s.Stmt, f)
		}
	}
}

func relabel(body *ast.BlockStmt, suffix string) {
	labels := map[string]bool{}
	ast.Inspect(body, func(n ast.Node) bool {
		if l, ok := n.(*ast.LabeledStmt); ok {
			labels[l.Label.Name] = true
		}
		return true
	})
	if len(labels) == 0 {
		return
	}
	ast.Inspect(body, func(n ast.Node) bool {
		switch x := n.(type) {
		case *ast.LabeledStmt:
			x.Label.Name += suffix
		case *ast.BranchStmt:
			if x.Label != nil && labels[x.Label.Name] {
				x.Label.Name += suffix
			}
		}
		return true
	})
}

// replaceExprs applies f to every expression slot under root (post-order for children first is not needed: a
// replaced expression is not descended into).
func replaceExprs(root ast.Node, f func(ast.Expr) ast.Expr) {
	exprType := reflect.TypeOf((*ast.Expr)(nil)).Elem()
	var walk func(v reflect.Value)
	walk = func(v reflect.Value) {
		switch v.Kind() {
		case reflect.Ptr:
			if v.IsNil() {
				return
			}
			if _, ok := v.Interface().(*ast.Object); ok {
				return
			}
			if _, ok := v.Interface().(*ast.Scope); ok {
				return
			}
			walk(v.Elem())
		case reflect.Interface:
			if v.IsNil() {
				return
			}
			if v.Type() == exprType && v.CanSet() {
				if rep := f(v.Interface().(ast.Expr)); rep != nil {
					v.Set(reflect.ValueOf(rep))
					return
				}
			}
			walk(v.Elem())
		case reflect.Struct:
			for i := 0; i < v.NumField(); i++ {
				walk(v.Field(i))
			}
		case reflect.Slice:
			for i := 0; i < v.Len(); i++ {
				walk(v.Index(i))
			}
		}
	}
	walk(reflect.ValueOf(root))
}

// dropUnused removes the declaration of every helper that is no longer referenced from its package.
func (nz *normaliser) dropUnused() {
	if len(nz.changed) == 0 {
		return
	}
	for obj, h := range nz.helpers {
		if h.knownFn {
			continue
		}
		used := false
		for _, f := range h.pk.Syntax {
			ast.Inspect(f, func(n ast.Node) bool {
				if id, ok := n.(*ast.Ident); ok && id.Name == obj.Name() && id != h.decl.Name {
					// after rewriting, any surviving identifier of that name that resolved to the helper is a reference
					if h.pk.TypesInfo.Uses[id] == obj {
						used = true
					} else if h.pk.TypesInfo.Uses[id] == nil && h.pk.TypesInfo.Defs[id] == nil {
						// an identifier of a copied subtree (no type information yet): the next round decides
						used = true
					}
				}
				return !used
			})
			if used {
				break
			}
		}
		if used || obj.Exported() {
			continue
		}
		// (an unexported method that is needed to satisfy an interface makes the re-check fail, and normalisation is abandoned)
		for i, d := range h.file.Decls {
			if d == h.decl {
				h.file.Decls = append(h.file.Decls[:i:i], h.file.Decls[i+1:]...)
				nz.changed[h.file] = true
				break
			}
		}
	}
}

// reparseAndCheck prints and re-parses the rewritten files (fresh, consistent positions) and type-checks every
// module package again, dependencies first.
func (nz *normaliser) reparseAndCheck() error {
	p := nz.p
	for _, pk := range p.All {
		for i, f := range pk.Syntax {
			if !nz.changed[f] {
				continue
			}
			f.Comments = nil
			var buf bytes.Buffer
			if err := format.Node(&buf, p.Fset, f); err != nil {
				return fmt.Errorf("print %s: %v", pk.CompiledGoFiles[i], err)
			}
			nf, err := parser.ParseFile(p.Fset, pk.CompiledGoFiles[i], buf.Bytes(), parser.SkipObjectResolution)
			if err != nil {
				return fmt.Errorf("re-parse %s: %v", pk.CompiledGoFiles[i], err)
			}
			pk.Syntax[i] = nf
			if d := os.Getenv("MCPCHECK_NZ_DUMP"); d != "" {
				os.MkdirAll(d, 0o755)
				os.WriteFile(d+"/"+strings.ReplaceAll(strings.TrimPrefix(pk.CompiledGoFiles[i], p.Dir+"/"), "/", "__"), buf.Bytes(), 0o644)
			}
			p.noteNormalised(p.Fset.File(nf.Pos()), pk.CompiledGoFiles[i], buf.Bytes())
		}
	}
	return p.recheck()
}

// recheck type-checks all module packages from their current syntax, in dependency order.
func (p *Prog) recheck() error {
	// every *types.Package reachable from the loaded ones, by path (dependencies come from export data or source)
	deps := map[string]*types.Package{}
	var visit func(tp *types.Package)
	visit = func(tp *types.Package) {
		if tp == nil || deps[tp.Path()] != nil {
			return
		}
		deps[tp.Path()] = tp
		for _, im := range tp.Imports() {
			visit(im)
		}
	}
	for _, pk := range p.byPath {
		visit(pk.Types)
	}
	isMod := func(path string) bool { return path == modPath || strings.HasPrefix(path, modPath+"/") }
	done := map[string]*types.Package{}
	var check func(pk *packages.Package) error
	state := map[string]int{}
	check = func(pk *packages.Package) error {
		if state[pk.PkgPath] == 2 {
			return nil
		}
		if state[pk.PkgPath] == 1 {
			return fmt.Errorf("import cycle at %s", pk.PkgPath)
		}
		state[pk.PkgPath] = 1
		for path, im := range pk.Imports {
			if isMod(path) {
				if q := p.byPath[path]; q != nil && len(q.Syntax) > 0 {
					if err := check(q); err != nil {
						return err
					}
				} else {
					_ = im
				}
			}
		}
		var firstErr error
		conf := types.Config{
			Importer: importerFunc(func(path string) (*types.Package, error) {
				if path == "unsafe" {
					return types.Unsafe, nil
				}
				if np := done[path]; np != nil {
					return np, nil
				}
				if tp := deps[path]; tp != nil {
					return tp, nil
				}
				return nil, fmt.Errorf("package %s not loaded", path)
			}),
			Sizes: pk.TypesSizes,
			Error: func(err error) {
				if te, ok := err.(types.Error); ok && te.Soft {
					return // unused imports/variables/labels left behind by the expansion
				}
				if firstErr == nil {
					firstErr = err
				}
			},
		}
		if pk.Module != nil && pk.Module.GoVersion != "" {
			conf.GoVersion = "go" + pk.Module.GoVersion
		}
		info := &types.Info{
			Types: map[ast.Expr]types.TypeAndValue{}, Defs: map[*ast.Ident]types.Object{}, Uses: map[*ast.Ident]types.Object{},
			Implicits: map[ast.Node]types.Object{}, Instances: map[*ast.Ident]types.Instance{}, Scopes: map[ast.Node]*types.Scope{},
			Selections: map[*ast.SelectorExpr]*types.Selection{}, FileVersions: map[*ast.File]string{},
		}
		tp, _ := conf.Check(pk.PkgPath, p.Fset, pk.Syntax, info)
		if firstErr != nil {
			return fmt.Errorf("type-check %s: %v", pk.PkgPath, firstErr)
		}
		pk.Types, pk.TypesInfo = tp, info
		done[pk.PkgPath] = tp
		state[pk.PkgPath] = 2
		return nil
	}
	var mods []*packages.Package
	for path, pk := range p.byPath {
		if isMod(path) && len(pk.Syntax) > 0 {
			mods = append(mods, pk)
		}
	}
	sort.Slice(mods, func(i, j int) bool { return mods[i].PkgPath < mods[j].PkgPath })
	for _, pk := range mods {
		if err := check(pk); err != nil {
			return err
		}
	}
	return nil
}

type importerFunc func(path string) (*types.Package, error)

func (f importerFunc) Import(path string) (*types.Package, error) { return f(path) }

// ---- line mapping for reports on normalised files ---------------------------------------------------

// noteNormalised records, for a file that was printed again, which original line each new line corresponds to
// (identical lines are matched in order; lines without a partner take the last matched line before them).
func (p *Prog) noteNormalised(tf *token.File, path string, newSrc []byte) {
	if p.lineMap == nil {
		p.lineMap = map[*token.File][]int{}
	}
	orig, _ := os.ReadFile(path)
	norm := func(src string) []string {
		ls := strings.Split(src, "\n")
		for i := range ls {
			ls[i] = strings.TrimSpace(ls[i])
		}
		return ls
	}
	ol, nl := norm(string(orig)), norm(string(newSrc))
	m := make([]int, len(nl)+2)
	// common prefix and suffix
	pre := 0
	for pre < len(ol) && pre < len(nl) && ol[pre] == nl[pre] {
		m[pre+1] = pre + 1
		pre++
	}
	suf := 0
	for suf < len(ol)-pre && suf < len(nl)-pre && ol[len(ol)-1-suf] == nl[len(nl)-1-suf] {
		m[len(nl)-suf] = len(ol) - suf
		suf++
	}
	a, b := ol[pre:len(ol)-suf], nl[pre:len(nl)-suf]
	if len(a) > 0 && len(b) > 0 && len(a)*len(b) <= 24_000_000 {
		// longest common subsequence of the lines in between (the printed file has no comments and the expanded bodies are
		// new; everything else is unchanged text)
		w := len(b) + 1
		t := make([]uint16, (len(a)+1)*w)
		for i := len(a) - 1; i >= 0; i-- {
			for j := len(b) - 1; j >= 0; j-- {
				switch {
				case a[i] == b[j] && a[i] != "":
					t[i*w+j] = t[(i+1)*w+j+1] + 1
				case t[(i+1)*w+j] >= t[i*w+j+1]:
					t[i*w+j] = t[(i+1)*w+j]
				default:
					t[i*w+j] = t[i*w+j+1]
				}
			}
		}
		i, j := 0, 0
		for i < len(a) && j < len(b) {
			switch {
			case a[i] == b[j] && a[i] != "":
				m[pre+j+1] = pre + i + 1
				i++
				j++
			case t[(i+1)*w+j] >= t[i*w+j+1]:
				i++
			default:
				j++
			}
		}
	}
	// lines without a partner take the last matched line before them
	last := 1
	for k := 1; k <= len(nl); k++ {
		if m[k] > 0 {
			last = m[k]
		} else {
			m[k] = last
		}
	}
	p.lineMap[tf] = m
}

// ---- scalar replacement of local aggregates ---------------------------------------------------------------------

// sraCandidates finds local variables of a struct type that is declared inside the function (or anonymous) and that are
// only ever used field by field: `var p struct{ n int; items []T }` … `p.n++` … `p.items = append(p.items, x)`. Such a
// variable is a bundle of independent locals; splitting it (p.n → pZqn, p.items → pZqitems) changes nothing and gives the
// rules the plain locals they know how to follow. Variables whose address is taken, that are assigned or passed as a
// whole, compared, or captured as a whole are left alone.
func (nz *normaliser) sra() {
	for _, rel := range sdkPkgs {
		pk := nz.p.Pkg(rel)
		if pk == nil {
			continue
		}
		info := pk.TypesInfo
		for _, f := range pk.Syntax {
			for _, d := range f.Decls {
				fd, ok := d.(*ast.FuncDecl)
				if !ok || fd.Body == nil {
					continue
				}
				if nz.sraFunc(pk, info, fd) {
					nz.changed[f] = true
				}
			}
		}
	}
}

func (nz *normaliser) sraFunc(pk *packages.Package, info *types.Info, fd *ast.FuncDecl) bool {
	type cand struct {
		v      *types.Var
		st     *types.Struct
		decl   ast.Stmt // the DeclStmt / AssignStmt that introduces it
		fields map[string]ast.Expr
		ok     bool
	}
	cands := map[*types.Var]*cand{}
	localStruct := func(t types.Type) *types.Struct {
		if p, ok := t.(*types.Pointer); ok {
			// b := &T{...}: only for the unknown package-level types below
			if n, ok := p.Elem().(*types.Named); ok && nz.unknownType(n) {
				st, _ := n.Underlying().(*types.Struct)
				return st
			}
			return nil
		}
		switch x := t.(type) {
		case *types.Struct:
			return x
		case *types.Named:
			// declared inside this function
			if x.Obj().Pos() >= fd.Body.Pos() && x.Obj().Pos() < fd.Body.End() {
				if st, ok := x.Underlying().(*types.Struct); ok && x.NumMethods() == 0 {
					return st
				}
			}
			// a package-level struct type the tree the rules were written for does not have (a closure's captured
			// variables turned into a struct, an argument pack): a variable of it that is only ever read and written
			// field by field is that many variables
			if nz.unknownType(x) {
				st, _ := x.Underlying().(*types.Struct)
				return st
			}
		}
		return nil
	}
	// 1. declarations
	var visitList func(list []ast.Stmt)
	visitList = func(list []ast.Stmt) {
		for _, st := range list {
			switch s := st.(type) {
			case *ast.DeclStmt:
				gd, ok := s.Decl.(*ast.GenDecl)
				if !ok || gd.Tok != token.VAR || len(gd.Specs) != 1 {
					continue
				}
				vs := gd.Specs[0].(*ast.ValueSpec)
				if len(vs.Names) != 1 || len(vs.Values) > 1 {
					continue
				}
				v, _ := info.Defs[vs.Names[0]].(*types.Var)
				if v == nil {
					continue
				}
				if stt := localStruct(v.Type()); stt != nil {
					c := &cand{v: v, st: stt, decl: s, ok: true, fields: map[string]ast.Expr{}}
					if len(vs.Values) == 1 {
						if !sraLiteral(vs.Values[0], stt, c.fields) {
							c.ok = false
						}
					} else if _, isPtr := v.Type().(*types.Pointer); isPtr {
						c.ok = false
					}
					cands[v] = c
				}
			case *ast.AssignStmt:
				if s.Tok != token.DEFINE || len(s.Lhs) != 1 || len(s.Rhs) != 1 {
					continue
				}
				id, ok := s.Lhs[0].(*ast.Ident)
				if !ok {
					continue
				}
				v, _ := info.Defs[id].(*types.Var)
				if v == nil {
					continue
				}
				if stt := localStruct(v.Type()); stt != nil {
					c := &cand{v: v, st: stt, decl: s, ok: true, fields: map[string]ast.Expr{}}
					if !sraLiteral(s.Rhs[0], stt, c.fields) {
						c.ok = false
					}
					cands[v] = c
				}
			}
		}
	}
	ast.Inspect(fd.Body, func(n ast.Node) bool {
		switch b := n.(type) {
		case *ast.BlockStmt:
			visitList(b.List)
		case *ast.CaseClause:
			visitList(b.Body)
		case *ast.CommClause:
			visitList(b.Body)
		}
		return true
	})
	if len(cands) == 0 {
		return false
	}
	// 2. every use must be the X of a selector that names a field (not under &)
	var stack []ast.Node
	ast.Inspect(fd.Body, func(n ast.Node) bool {
		if n == nil {
			stack = stack[:len(stack)-1]
			return true
		}
		stack = append(stack, n)
		id, ok := n.(*ast.Ident)
		if !ok {
			return true
		}
		v, _ := info.Uses[id].(*types.Var)
		c := cands[v]
		if c == nil {
			return true
		}
		if len(stack) < 2 {
			c.ok = false
			return true
		}
		sel, isSel := stack[len(stack)-2].(*ast.SelectorExpr)
		if !isSel || sel.X != ast.Expr(id) {
			c.ok = false
			return true
		}
		if s, ok := info.Selections[sel]; !ok || s.Kind() != types.FieldVal || len(s.Index()) != 1 {
			c.ok = false
			return true
		}
		if len(stack) >= 3 {
			if u, ok := stack[len(stack)-3].(*ast.UnaryExpr); ok && u.Op == token.AND {
				c.ok = false
			}
		}
		return true
	})
	changed := false
	for _, c := range cands {
		if !c.ok {
			continue
		}
		// field type expressions: only for struct types whose syntax we can reach (anonymous struct in the declaration, or
		// a local type declaration); otherwise give up
		ftypes := sraFieldTypes(pk, info, fd, c.v)
		if ftypes == nil {
			continue
		}
		prefix := c.v.Name() + "Zq"
		// replace the declaration by one declaration per field
		var repl []ast.Stmt
		// fields that are never written after their initialisation and are initialised from a variable that never
		// changes are just another name for that variable
		written := map[string]bool{}
		ast.Inspect(fd.Body, func(n ast.Node) bool {
			mark := func(e ast.Expr) {
				if sel, ok := ast.Unparen(e).(*ast.SelectorExpr); ok {
					if id, ok := sel.X.(*ast.Ident); ok && info.Uses[id] == types.Object(c.v) {
						written[sel.Sel.Name] = true
					}
				}
			}
			switch x := n.(type) {
			case *ast.AssignStmt:
				for _, l := range x.Lhs {
					mark(l)
				}
			case *ast.IncDecStmt:
				mark(x.X)
			case *ast.RangeStmt:
				if x.Key != nil {
					mark(x.Key)
				}
				if x.Value != nil {
					mark(x.Value)
				}
			}
			return true
		})
		aliasOf := map[string]string{}
		for fn, init := range c.fields {
			id, ok := ast.Unparen(init).(*ast.Ident)
			if !ok || written[fn] {
				continue
			}
			src, isVar := info.Uses[id].(*types.Var)
			if !isVar || src.IsField() || src.Parent() == nil || src.Pkg() == nil || src.Parent() == src.Pkg().Scope() {
				continue
			}
			nw := 0
			for _, w := range Writes(fd.Body, true) {
				if wid, ok := ast.Unparen(w.LHS).(*ast.Ident); ok && info.Uses[wid] == types.Object(src) {
					nw++
				}
			}
			if nw == 0 {
				aliasOf[fn] = id.Name
			}
		}
		for i := 0; i < c.st.NumFields(); i++ {
			fn := c.st.Field(i).Name()
			if _, isAlias := aliasOf[fn]; isAlias {
				continue
			}
			name := prefix + fn
			if init, ok := c.fields[fn]; ok && sraDefineOK(info, init, c.st.Field(i).Type()) {
				repl = append(repl, &ast.AssignStmt{Lhs: []ast.Expr{ast.NewIdent(name)}, Tok: token.DEFINE, Rhs: []ast.Expr{init}})
			} else {
				spec := &ast.ValueSpec{Names: []*ast.Ident{ast.NewIdent(name)}, Type: cloneNode(ftypes[fn])}
				if init, ok := c.fields[fn]; ok {
					spec.Values = []ast.Expr{init}
				}
				repl = append(repl, &ast.DeclStmt{Decl: &ast.GenDecl{Tok: token.VAR, Specs: []ast.Spec{spec}}})
			}
			repl = append(repl, &ast.AssignStmt{Lhs: []ast.Expr{ast.NewIdent("_")}, Tok: token.ASSIGN, Rhs: []ast.Expr{ast.NewIdent(name)}})
		}
		replaced := false
		ast.Inspect(fd.Body, func(n ast.Node) bool {
			swap := func(list []ast.Stmt) []ast.Stmt {
				for i, st := range list {
					if st == c.decl {
						out := append([]ast.Stmt(nil), list[:i]...)
						out = append(out, repl...)
						replaced = true
						return append(out, list[i+1:]...)
					}
				}
				return list
			}
			switch b := n.(type) {
			case *ast.BlockStmt:
				b.List = swap(b.List)
			case *ast.CaseClause:
				b.Body = swap(b.Body)
			case *ast.CommClause:
				b.Body = swap(b.Body)
			}
			return !replaced
		})
		if !replaced {
			continue
		}
		replaceExprs(fd.Body, func(e ast.Expr) ast.Expr {
			sel, ok := e.(*ast.SelectorExpr)
			if !ok {
				return nil
			}
			id, ok := sel.X.(*ast.Ident)
			if !ok || info.Uses[id] != types.Object(c.v) {
				return nil
			}
			if a, isAlias := aliasOf[sel.Sel.Name]; isAlias {
				return ast.NewIdent(a)
			}
			return ast.NewIdent(prefix + sel.Sel.Name)
		})
		// a field variable that is declared empty and given its value by the first statement that mentions it is declared there
		for i := 0; i < c.st.NumFields(); i++ {
			fn := c.st.Field(i).Name()
			if _, hasInit := c.fields[fn]; hasInit {
				continue
			}
			if _, isAlias := aliasOf[fn]; isAlias {
				continue
			}
			sraLateDefine(info, fd.Body, prefix+fn, c.st.Field(i).Type())
		}
		changed = true
		nz.notes = append(nz.notes, fmt.Sprintf("local aggregate %s of %s split into its fields", c.v.Name(), fd.Name.Name))
	}
	return changed
}

// unknownType: a package-level named type of an SDK package that is not in the known list.
func (nz *normaliser) unknownType(n *types.Named) bool {
	o := n.Obj()
	if o == nil || o.Pkg() == nil || o.Parent() != o.Pkg().Scope() || n.TypeArgs().Len() > 0 || n.TypeParams().Len() > 0 {
		return false
	}
	if !strings.HasPrefix(o.Pkg().Path(), modPath) {
		return false
	}
	rel := relOf(o.Pkg().Path())
	isSDK := false
	for _, r := range sdkPkgs {
		if r == rel {
			isSDK = true
		}
	}
	return isSDK && !nz.known[typeKey(rel, o.Name())]
}

// sraDefineOK: `name := init` declares a variable of exactly the field's type.
func sraDefineOK(info *types.Info, init ast.Expr, ft types.Type) bool {
	tv, ok := info.Types[init]
	if !ok || tv.Type == nil {
		return false
	}
	if tv.Value != nil {
		// a constant takes its default type in a short variable declaration
		if b, isB := ft.(*types.Basic); isB {
			switch b.Kind() {
			case types.Int, types.String, types.Bool, types.Float64:
				return types.Identical(tv.Type, ft)
			}
		}
		return false
	}
	if tv.IsNil() {
		return false
	}
	return types.Identical(tv.Type, ft)
}

// sraLiteral: e is a composite literal of the struct with keyed (or no) elements; the field initialisers are collected.
func sraLiteral(e ast.Expr, st *types.Struct, out map[string]ast.Expr) bool {
	e = ast.Unparen(e)
	if u, isU := e.(*ast.UnaryExpr); isU && u.Op == token.AND {
		e = ast.Unparen(u.X)
	}
	cl, ok := e.(*ast.CompositeLit)
	if !ok {
		return false
	}
	for i, el := range cl.Elts {
		kv, ok := el.(*ast.KeyValueExpr)
		if !ok {
			// positional literal: all fields, in order
			if len(cl.Elts) != st.NumFields() {
				return false
			}
			out[st.Field(i).Name()] = el
			continue
		}
		k, ok := kv.Key.(*ast.Ident)
		if !ok {
			return false
		}
		out[k.Name] = kv.Value
	}
	return true
}

// sraFieldTypes returns the type expression of each field of v's struct type, from the syntax of the anonymous struct
// in v's declaration or of the local type declaration.
func sraFieldTypes(pk *packages.Package, info *types.Info, fd *ast.FuncDecl, v *types.Var) map[string]ast.Expr {
	var stx *ast.StructType
	vt := v.Type()
	if p, ok := vt.(*types.Pointer); ok {
		vt = p.Elem()
	}
	if n, ok := vt.(*types.Named); ok && n.Obj().Pkg() == pk.Types && n.Obj().Parent() == pk.Types.Scope() {
		for _, f := range pk.Syntax {
			for _, d := range f.Decls {
				if gd, ok := d.(*ast.GenDecl); ok && gd.Tok == token.TYPE {
					for _, sp := range gd.Specs {
						ts := sp.(*ast.TypeSpec)
						if info.Defs[ts.Name] == types.Object(n.Obj()) {
							stx, _ = ts.Type.(*ast.StructType)
						}
					}
				}
			}
		}
	}
	ast.Inspect(fd.Body, func(n ast.Node) bool {
		switch x := n.(type) {
		case *ast.TypeSpec:
			if tn, ok := info.Defs[x.Name].(*types.TypeName); ok && types.Identical(tn.Type(), v.Type()) {
				stx, _ = x.Type.(*ast.StructType)
			}
		case *ast.ValueSpec:
			if len(x.Names) == 1 && info.Defs[x.Names[0]] == types.Object(v) {
				if s, ok := x.Type.(*ast.StructType); ok {
					stx = s
				}
				if len(x.Values) == 1 {
					if cl, ok := ast.Unparen(x.Values[0]).(*ast.CompositeLit); ok {
						if s, ok := cl.Type.(*ast.StructType); ok {
							stx = s
						}
					}
				}
			}
		case *ast.AssignStmt:
			if len(x.Lhs) == 1 && len(x.Rhs) == 1 {
				if id, ok := x.Lhs[0].(*ast.Ident); ok && info.Defs[id] == types.Object(v) {
					if cl, ok := ast.Unparen(x.Rhs[0]).(*ast.CompositeLit); ok {
						if s, ok := cl.Type.(*ast.StructType); ok {
							stx = s
						}
					}
				}
			}
		}
		return true
	})
	if stx == nil {
		return nil
	}
	out := map[string]ast.Expr{}
	for _, fld := range stx.Fields.List {
		for _, nm := range fld.Names {
			out[nm.Name] = fld.Type
		}
	}
	return out
}

// copyProp removes the normaliser's own immutable copies: a local whose name the normaliser made (…Zq<n>), defined once
// from a plain local variable or parameter that is itself never reassigned and never has its address taken, is just
// another name for that variable. Every use is replaced where the original name still means the original variable.
func (nz *normaliser) copyProp() {
	for _, rel := range sdkPkgs {
		pk := nz.p.Pkg(rel)
		if pk == nil {
			continue
		}
		info := pk.TypesInfo
		for _, f := range pk.Syntax {
			for _, d := range f.Decls {
				fd, ok := d.(*ast.FuncDecl)
				if !ok || fd.Body == nil {
					continue
				}
				if nz.copyPropFunc(pk, info, fd) {
					nz.changed[f] = true
				}
				if nz.errInitCanon(fd) {
					nz.changed[f] = true
				}
			}
		}
	}
}

func (nz *normaliser) copyPropFunc(pk *packages.Package, info *types.Info, fd *ast.FuncDecl) bool {
	// writes and address-taking per variable
	nWrites := map[types.Object]int{}
	addr := map[types.Object]bool{}
	for _, w := range Writes(fd.Body, true) {
		if id, ok := ast.Unparen(w.LHS).(*ast.Ident); ok {
			if o := info.Uses[id]; o != nil {
				nWrites[o]++
			}
		}
	}
	ast.Inspect(fd.Body, func(n ast.Node) bool {
		if u, ok := n.(*ast.UnaryExpr); ok && u.Op == token.AND {
			if id, ok := ast.Unparen(u.X).(*ast.Ident); ok {
				if o := info.Uses[id]; o != nil {
					addr[o] = true
				}
			}
		}
		return true
	})
	stable := func(o types.Object) bool {
		v, ok := o.(*types.Var)
		if !ok || v.IsField() || v.Pkg() == nil || v.Parent() == nil || v.Parent() == v.Pkg().Scope() {
			return false
		}
		return nWrites[o] == 0 && !addr[o]
	}
	alias := map[types.Object]*types.Var{}
	ast.Inspect(fd.Body, func(n ast.Node) bool {
		as, ok := n.(*ast.AssignStmt)
		if !ok || as.Tok != token.DEFINE || len(as.Lhs) != len(as.Rhs) {
			return true
		}
		for i, l := range as.Lhs {
			lid, ok := l.(*ast.Ident)
			if !ok || !strings.Contains(lid.Name, "Zq") {
				continue
			}
			lo := info.Defs[lid]
			rid, ok := ast.Unparen(as.Rhs[i]).(*ast.Ident)
			if lo == nil || !ok || !stable(lo) {
				continue
			}
			ro, _ := info.Uses[rid].(*types.Var)
			if ro == nil || !stable(ro) || !types.Identical(lo.Type(), ro.Type()) {
				continue
			}
			alias[lo] = ro
		}
		return true
	})
	if len(alias) == 0 {
		return false
	}
	// the original name must mean the original variable at every use of the copy
	for id, o := range info.Uses {
		src := alias[o]
		if src == nil || id.Pos() < fd.Body.Pos() || id.Pos() > fd.Body.End() {
			continue
		}
		inner := pk.Types.Scope().Innermost(id.Pos())
		if inner == nil {
			delete(alias, o)
			continue
		}
		if _, found := inner.LookupParent(src.Name(), id.Pos()); found != types.Object(src) {
			delete(alias, o)
		}
	}
	if len(alias) == 0 {
		return false
	}
	replaceExprs(fd.Body, func(e ast.Expr) ast.Expr {
		id, ok := e.(*ast.Ident)
		if !ok {
			return nil
		}
		if src := alias[info.Uses[id]]; src != nil {
			return ast.NewIdent(src.Name())
		}
		return nil
	})
	// the defining statements: the copy's slot becomes the blank identifier; a definition with nothing left to define goes
	var rm []ast.Stmt
	ast.Inspect(fd.Body, func(n ast.Node) bool {
		as, ok := n.(*ast.AssignStmt)
		if !ok || as.Tok != token.DEFINE || len(as.Lhs) != len(as.Rhs) {
			return true
		}
		left := 0
		touched := false
		for i, l := range as.Lhs {
			lid, ok := l.(*ast.Ident)
			if ok && alias[info.Defs[lid]] != nil {
				as.Lhs[i] = ast.NewIdent("_")
				touched = true
				continue
			}
			if ok && lid.Name == "_" {
				continue
			}
			left++
		}
		if touched && left == 0 {
			pure := true
			for _, r := range as.Rhs {
				if _, isId := ast.Unparen(r).(*ast.Ident); !isId {
					pure = false
				}
			}
			if pure {
				rm = append(rm, as)
			} else {
				as.Tok = token.ASSIGN
			}
		}
		return true
	})
	for _, st := range rm {
		removeStmt(fd.Body, st)
	}
	for o, src := range alias {
		nz.notes = append(nz.notes, fmt.Sprintf("copy %s of %s in %s replaced by the original", o.Name(), src.Name(), fd.Name.Name))
	}
	return true
}

// removeStmt deletes st from the statement list (or the init slot) that holds it.
func removeStmt(root ast.Node, st ast.Stmt) {
	cut := func(list []ast.Stmt) []ast.Stmt {
		for i, x := range list {
			if x == st {
				return append(append([]ast.Stmt(nil), list[:i]...), list[i+1:]...)
			}
		}
		return list
	}
	ast.Inspect(root, func(n ast.Node) bool {
		switch b := n.(type) {
		case *ast.BlockStmt:
			b.List = cut(b.List)
		case *ast.CaseClause:
			b.Body = cut(b.Body)
		case *ast.CommClause:
			b.Body = cut(b.Body)
		case *ast.IfStmt:
			if b.Init == st {
				b.Init = nil
			}
		case *ast.ForStmt:
			if b.Init == st {
				b.Init = nil
			}
		case *ast.SwitchStmt:
			if b.Init == st {
				b.Init = nil
			}
		case *ast.TypeSwitchStmt:
			if b.Init == st {
				b.Init = nil
			}
		}
		return true
	})
}

// sraLateDefine: `var name T; _ = name; …; name = E` (same statement list, name not mentioned in between, E does not
// mention name) becomes `…; name := E; _ = name`.
func sraLateDefine(info *types.Info, body *ast.BlockStmt, name string, ft types.Type) {
	mentions := func(n ast.Node) bool {
		found := false
		ast.Inspect(n, func(x ast.Node) bool {
			if id, ok := x.(*ast.Ident); ok && id.Name == name {
				found = true
			}
			return !found
		})
		return found
	}
	done := false
	fix := func(list []ast.Stmt) []ast.Stmt {
		for i, st := range list {
			ds, ok := st.(*ast.DeclStmt)
			if !ok {
				continue
			}
			gd := ds.Decl.(*ast.GenDecl)
			if gd.Tok != token.VAR || len(gd.Specs) != 1 {
				continue
			}
			vs := gd.Specs[0].(*ast.ValueSpec)
			if len(vs.Names) != 1 || vs.Names[0].Name != name || len(vs.Values) != 0 {
				continue
			}
			done = true
			if i+1 >= len(list) {
				return list
			}
			// list[i+1] is `_ = name`
			for j := i + 2; j < len(list); j++ {
				if !mentions(list[j]) {
					continue
				}
				as, ok := list[j].(*ast.AssignStmt)
				if !ok || as.Tok != token.ASSIGN || len(as.Lhs) != 1 || len(as.Rhs) != 1 || mentions(as.Rhs[0]) {
					return list
				}
				if id, ok := as.Lhs[0].(*ast.Ident); !ok || id.Name != name {
					return list
				}
				var def ast.Stmt
				if sraDefineOK(info, as.Rhs[0], ft) {
					def = &ast.AssignStmt{Lhs: []ast.Expr{ast.NewIdent(name)}, Tok: token.DEFINE, Rhs: as.Rhs}
				} else {
					def = &ast.DeclStmt{Decl: &ast.GenDecl{Tok: token.VAR, Specs: []ast.Spec{&ast.ValueSpec{Names: []*ast.Ident{ast.NewIdent(name)}, Type: vs.Type, Values: as.Rhs}}}}
				}
				out := append([]ast.Stmt(nil), list[:i]...)
				out = append(out, list[i+2:j]...)
				out = append(out, def, list[i+1])
				return append(out, list[j+1:]...)
			}
			return list
		}
		return list
	}
	ast.Inspect(body, func(n ast.Node) bool {
		if done {
			return false
		}
		switch b := n.(type) {
		case *ast.BlockStmt:
			b.List = fix(b.List)
		case *ast.CaseClause:
			b.Body = fix(b.Body)
		case *ast.CommClause:
			b.Body = fix(b.Body)
		}
		return !done
	})
}

// lockThenDeferUnlock: the body starts with `x.Lock()` (or RLock) followed by `defer x.Unlock()` (RUnlock) on the same x,
// has no other defer statement, and every return hands over plain values (nothing that would have been evaluated
// under the lock).
func lockThenDeferUnlock(body *ast.BlockStmt) bool {
	if len(body.List) < 2 {
		return false
	}
	es, ok1 := body.List[0].(*ast.ExprStmt)
	ds, ok2 := body.List[1].(*ast.DeferStmt)
	if !ok1 || !ok2 {
		return false
	}
	lc, ok := es.X.(*ast.CallExpr)
	if !ok || len(lc.Args) != 0 || len(ds.Call.Args) != 0 {
		return false
	}
	ls, ok1 := lc.Fun.(*ast.SelectorExpr)
	us, ok2 := ds.Call.Fun.(*ast.SelectorExpr)
	if !ok1 || !ok2 || types.ExprString(ls.X) != types.ExprString(us.X) || !pureSyntax(ls.X) {
		return false
	}
	if !(ls.Sel.Name == "Lock" && us.Sel.Name == "Unlock") && !(ls.Sel.Name == "RLock" && us.Sel.Name == "RUnlock") {
		return false
	}
	ok = true
	n := 0
	ast.Inspect(body, func(x ast.Node) bool {
		switch y := x.(type) {
		case *ast.FuncLit:
			return false
		case *ast.DeferStmt:
			n++
		case *ast.ReturnStmt:
			for _, e := range y.Results {
				if !pureSyntax(e) {
					ok = false
				}
			}
		}
		return ok
	})
	return ok && n == 1
}

// errInitCanon undoes the detour an expanded helper takes when it tests its own error first:
//
//	if eZq := E; eZq != nil { x = eZq; break inlZq }   …   x = nil        (last statement of the expansion)
//
// becomes
//
//	x = E; if x != nil { break inlZq }   …
//
// provided nothing in between mentions x and E does not mention it: on the failing path x receives E's value either
// way, on the other path it ends as nil either way (E's value there). That is the statement the caller had before the
// steps were moved into a helper (`err = s.shuttingDown(…); if err != nil { return }`).
func (nz *normaliser) errInitCanon(fd *ast.FuncDecl) bool {
	changed := false
	mentions := func(n ast.Node, name string) bool {
		found := false
		ast.Inspect(n, func(x ast.Node) bool {
			if id, ok := x.(*ast.Ident); ok && id.Name == name {
				found = true
			}
			return !found
		})
		return found
	}
	ast.Inspect(fd.Body, func(n ast.Node) bool {
		ls, ok := n.(*ast.LabeledStmt)
		if !ok || !strings.Contains(ls.Label.Name, "Zq") {
			return true
		}
		sw, ok := ls.Stmt.(*ast.SwitchStmt)
		if !ok || sw.Tag != nil || sw.Init != nil || len(sw.Body.List) != 1 {
			return true
		}
		cc := sw.Body.List[0].(*ast.CaseClause)
		L := cc.Body
		if len(L) < 2 {
			return true
		}
		fin, ok := L[len(L)-1].(*ast.AssignStmt)
		if !ok || fin.Tok != token.ASSIGN || len(fin.Lhs) != 1 || len(fin.Rhs) != 1 || !isNilIdent(fin.Rhs[0]) {
			return true
		}
		x, ok := fin.Lhs[0].(*ast.Ident)
		if !ok {
			return true
		}
		for i, st := range L[:len(L)-1] {
			is, ok := st.(*ast.IfStmt)
			if !ok || is.Else != nil || is.Init == nil || len(is.Body.List) != 2 {
				continue
			}
			def, ok := is.Init.(*ast.AssignStmt)
			if !ok || def.Tok != token.DEFINE || len(def.Lhs) != 1 || len(def.Rhs) != 1 {
				continue
			}
			v, ok := def.Lhs[0].(*ast.Ident)
			if !ok || !strings.Contains(v.Name, "Zq") {
				continue
			}
			cx, cy, op, isCmp := binaryCmp(is.Cond)
			if !isCmp || op != token.NEQ || !isNilIdent(cy) {
				continue
			}
			if cid, ok := ast.Unparen(cx).(*ast.Ident); !ok || cid.Name != v.Name {
				continue
			}
			as, ok1 := is.Body.List[0].(*ast.AssignStmt)
			br, ok2 := is.Body.List[1].(*ast.BranchStmt)
			if !ok1 || !ok2 || br.Tok != token.BREAK || br.Label == nil || br.Label.Name != ls.Label.Name {
				continue
			}
			if as.Tok != token.ASSIGN || len(as.Lhs) != 1 || len(as.Rhs) != 1 {
				continue
			}
			l, okL := as.Lhs[0].(*ast.Ident)
			r, okR := as.Rhs[0].(*ast.Ident)
			if !okL || !okR || l.Name != x.Name || r.Name != v.Name || mentions(def.Rhs[0], x.Name) {
				continue
			}
			clean := true
			for _, mid := range L[i+1 : len(L)-1] {
				if mentions(mid, x.Name) || mentions(mid, v.Name) {
					clean = false
				}
			}
			for _, before := range L[:i] {
				_ = before
			}
			if !clean {
				continue
			}
			first := &ast.AssignStmt{Lhs: []ast.Expr{ast.NewIdent(x.Name)}, Tok: token.ASSIGN, Rhs: def.Rhs}
			test := &ast.IfStmt{Cond: &ast.BinaryExpr{X: ast.NewIdent(x.Name), Op: token.NEQ, Y: ast.NewIdent("nil")},
				Body: &ast.BlockStmt{List: []ast.Stmt{br}}}
			out := append([]ast.Stmt(nil), L[:i]...)
			out = append(out, first, test)
			out = append(out, L[i+1:len(L)-1]...)
			cc.Body = out
			changed = true
			nz.notes = append(nz.notes, fmt.Sprintf("error tested through a temporary in %s assigned directly", fd.Name.Name))
			break
		}
		return true
	})
	return changed
}

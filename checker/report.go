package main

import (
	"encoding/json"
	"fmt"
	"go/ast"
	"go/token"
	"go/types"
	"os"
	"path/filepath"
	"regexp"
	"runtime/debug"
	"sort"
	"strings"
)

// Verdict kinds of one obligation.
const (
	vOK        = "ok"
	vViolation = "violation"
	vUndecided = "undecided"
	vAnchor    = "anchor-unresolved"
	vPin       = "instances-below-pin"
	vPanic     = "rule-panic"
)

// Obl is one proof obligation: a rule applied to one construct.
type Obl struct {
	Rule    string `json:"rule"`
	Key     string `json:"key"`
	Pos     string `json:"pos,omitempty"`
	Verdict string `json:"verdict"`
	Detail  string `json:"detail,omitempty"`
}

type anchorErr struct{ what string }

// Ctx is the state of one property run.
type Ctx struct {
	// inRule: a rule body is running. tolerant: second pass after a shared anchor failed to resolve (see partial.go):
	// lookups outside rule bodies hand out placeholders, rules that depend on one are skipped (skip: rule id -> reason)
	inRule    bool
	tolerant  bool
	missing   []string
	skip      map[string]string
	P         *Prog
	Prop      string
	Tier      string
	rule      string
	Obls      []Obl
	funcs     map[*Func]bool // functions examined
	sites     int            // call sites / program points examined
	paths     int            // path queries decided
	pins      map[string][2]int
	ruleDocs  map[string]string
	notes     []string
	le        *lockEnv
	addrTaken map[*types.Func]bool
	cr        *callResolver
	lg        *lockGraph
}

func newCtx(p *Prog, prop, tier string) *Ctx {
	return &Ctx{P: p, Prop: prop, Tier: tier, funcs: map[*Func]bool{}, pins: map[string][2]int{}, ruleDocs: map[string]string{}}
}

// Rule runs one rule body, converting anchor failures and panics into failed obligations.
func (c *Ctx) Rule(id, doc string, body func()) {
	c.rule = id
	c.ruleDocs[id] = doc
	if why, skipped := c.skip[id]; skipped {
		c.add(id, "anchor:"+why, "", vAnchor, "the construct that carried this guarantee is gone or renamed: "+why+" (an anchor this rule reads; the rules of the property that do not read it were applied)")
		return
	}
	c.inRule = true
	defer func() { c.inRule = false }()
	defer func() {
		if r := recover(); r != nil {
			if a, ok := r.(anchorErr); ok {
				c.add(id, "anchor:"+a.what, "", vAnchor, "the construct that carried this guarantee is gone or renamed: "+a.what+" (nothing can be concluded; not a behavioural claim)")
				return
			}
			if _, ok := r.(abortRule); ok {
				return // a Must failed: the violation is recorded, the rest of the rule has nothing to look at
			}
			if os.Getenv("MCPCHECK_PANIC_TRACE") != "" {
				fmt.Fprintf(os.Stderr, "panic in %s: %v\n%s\n", id, r, debug.Stack())
			}
			c.add(id, "panic", "", vPanic, fmt.Sprint(r))
		}
	}()
	before := len(c.Obls)
	body()
	if len(c.Obls) == before {
		c.add(id, "vacuous", "", vPin, "rule produced no obligation (would pass vacuously)")
	}
}

// Import makes a discipline that is decided by another property's rule an obligation of this property too: the
// same code often carries several properties (the idle timer protects both "a call is answered" and "no timer is left
// behind"), and a change written against one of them must fail that property's own check. The source property's rules
// are run once per program in a private context; the obligations of fromRule whose key satisfies keep are copied under
// the new rule id, verdicts included.
func (c *Ctx) Import(newRule, doc, fromProp, fromRule string, keep func(key string) bool) {
	c.Rule(newRule, doc+" (decided by "+fromRule+" of "+fromProp+")", func() {
		sub := c.P.subCtx(fromProp, c.Tier)
		n := 0
		for _, o := range sub.Obls {
			if strings.HasSuffix(o.Rule, "-setup") {
				c.add(newRule, o.Key, o.Pos, o.Verdict, o.Detail)
				continue
			}
			// instance-count pins of the source rule are imported too (the filter sees the pin's name): a site that
			// disappears is how a removed safeguard shows up
			if o.Rule != fromRule || (keep != nil && !keep(strings.TrimPrefix(o.Key, "pin:"))) {
				continue
			}
			n++
			c.sites++
			c.add(newRule, o.Key, o.Pos, o.Verdict, o.Detail)
		}
		if n == 0 {
			c.add(newRule, "import:"+fromRule, "", vAnchor, "no obligation of "+fromRule+" matched the import filter: the rule it relied on changed")
		}
	})
}

// subCtx runs (once) the quick rules of another property on this program.
func (p *Prog) subCtx(prop, tier string) *Ctx {
	if p.sub == nil {
		p.sub = map[string]*Ctx{}
	}
	if s, ok := p.sub[prop]; ok {
		if s == nil {
			panic(anchorErr{"cyclic import of " + prop})
		}
		return s
	}
	p.sub[prop] = nil
	s := newCtx(p, prop, tier)
	guarded(s, prop, func() { registry[prop].rules(s) })
	p.sub[prop] = s
	return s
}

func (c *Ctx) add(rule, key, pos, verdict, detail string) {
	c.Obls = append(c.Obls, Obl{rule, key, pos, verdict, detail})
}

// touch records that a function was examined.
func (c *Ctx) touch(f *Func) *Func {
	if f != nil {
		c.funcs[f] = true
	}
	return f
}

func posOf(f *Func, n ast.Node) string {
	if f == nil {
		return ""
	}
	return f.At(n)
}

// Ok/Fail/Undecided record an obligation for the current rule.
func (c *Ctx) Ok(key string, f *Func, n ast.Node, detail string, a ...any) {
	c.sites++
	c.add(c.rule, key, posOf(f, n), vOK, fmt.Sprintf(detail, a...))
}
func (c *Ctx) Fail(key string, f *Func, n ast.Node, detail string, a ...any) {
	c.sites++
	c.add(c.rule, key, posOf(f, n), vViolation, fmt.Sprintf(detail, a...))
}
func (c *Ctx) Undecided(key string, f *Func, n ast.Node, detail string, a ...any) {
	c.sites++
	c.add(c.rule, key, posOf(f, n), vUndecided, fmt.Sprintf(detail, a...))
}

// Check records ok or violation depending on cond.
func (c *Ctx) Check(cond bool, key string, f *Func, n ast.Node, detail string, a ...any) bool {
	if cond {
		c.Ok(key, f, n, detail, a...)
	} else {
		c.Fail(key, f, n, detail, a...)
	}
	return cond
}

// Pin asserts that a rule saw at least min instances of a role.
func (c *Ctx) Pin(role string, got, min int) {
	c.pins[c.rule+"/"+role] = [2]int{got, min}
	if got < min {
		c.add(c.rule, "pin:"+role, "", vPin, fmt.Sprintf("%d instances of role %q found, at least %d confirmed by hand: the rule would pass (partly) vacuously", got, role, min))
	} else {
		c.add(c.rule, "pin:"+role, "", vOK, fmt.Sprintf("%d instances (pin %d)", got, min))
	}
}

// ---- anchors (panic with anchorErr when missing) --------------------------------------------

func (c *Ctx) Fn(rel, recv, name string) *Func {
	o := c.P.LookupFuncObj(rel, recv, name)
	f := c.P.FuncOf(o)
	if f == nil {
		w := rel + "." + name
		if recv != "" {
			w = rel + ".(" + recv + ")." + name
		}
		if c.tolerant && !c.inRule {
			c.missing = append(c.missing, "function "+w)
			return &Func{Prog: c.P, name: "<missing " + w + ">"}
		}
		panic(anchorErr{"function " + w})
	}
	return c.touch(f)
}

func (c *Ctx) FnObj(rel, recv, name string) *funcObj {
	o := c.P.LookupFuncObj(rel, recv, name)
	if o == nil {
		if c.tolerant && !c.inRule {
			c.missing = append(c.missing, "function object "+rel+"."+recv+"."+name)
			return types.NewFunc(token.NoPos, nil, "<missing>", types.NewSignatureType(nil, nil, nil, nil, nil, false))
		}
		panic(anchorErr{"function object " + rel + "." + recv + "." + name})
	}
	return o
}

func (c *Ctx) Field(rel, typ, field string) *fieldObj {
	v := c.P.LookupField(rel, typ, field)
	if v == nil {
		if c.tolerant && !c.inRule {
			c.missing = append(c.missing, "field "+rel+"."+typ+"."+field)
			return types.NewField(token.NoPos, nil, "<missing>", types.Typ[types.Invalid], false)
		}
		panic(anchorErr{"field " + rel + "." + typ + "." + field})
	}
	return v
}

func (c *Ctx) Obj(rel, name string) objT {
	o := c.P.LookupObj(rel, name)
	if o == nil {
		if c.tolerant && !c.inRule {
			c.missing = append(c.missing, "object "+rel+"."+name)
			return types.NewVar(token.NoPos, nil, "<missing>", types.Typ[types.Invalid])
		}
		panic(anchorErr{"object " + rel + "." + name})
	}
	return o
}

func (c *Ctx) Std(path, recv, name string) *funcObj {
	o := c.P.StdFunc(path, recv, name)
	if o == nil {
		panic(anchorErr{"std " + path + "." + recv + "." + name})
	}
	return o
}

type abortRule struct{}

// Must is for a safeguard the property itself depends on (a check that a repair introduced, the one place a filter is
// applied): when it cannot be found the safeguard is gone, which is a violation and not merely an unresolved anchor.
// Used sparingly — where the catalogue of seeded changes shows the construct disappears exactly when the protection is
// removed; everything else uses Need, whose failure does not fail the check.
func (c *Ctx) Must(cond bool, key string, f *Func, n ast.Node, what string) {
	if cond {
		return
	}
	c.Fail(key, f, n, "%s", what)
	panic(abortRule{})
}

// MustPin is Pin for a role whose disappearance is itself the violation (a path that lost its safeguard).
func (c *Ctx) MustPin(role string, got, min int, what string) {
	c.pins[c.rule+"/"+role] = [2]int{got, min}
	if got < min {
		c.add(c.rule, "pin:"+role, "", vViolation, fmt.Sprintf("%d instances of role %q found, %d confirmed by hand: %s", got, role, min, what))
	} else {
		c.add(c.rule, "pin:"+role, "", vOK, fmt.Sprintf("%d instances (pin %d)", got, min))
	}
}

// Need panics with an anchor error when cond is false.
func (c *Ctx) Need(cond bool, what string) {
	if !cond {
		panic(anchorErr{what})
	}
}

// ---- evidence ----------------------------------------------------------------------------

type knownFinding struct {
	Property string `json:"property"`
	Rule     string `json:"rule"`
	Key      string `json:"key"`
	Status   string `json:"status"` // known | fixed
	Commit   string `json:"commit,omitempty"`
	What     string `json:"what"`
}

func loadKnown(path string) ([]knownFinding, error) {
	b, err := os.ReadFile(path)
	if err != nil {
		if os.IsNotExist(err) {
			return nil, nil
		}
		return nil, err
	}
	var ks []knownFinding
	if err := json.Unmarshal(b, &ks); err != nil {
		return nil, err
	}
	return ks, nil
}

var unsafeName = regexp.MustCompile(`[^A-Za-z0-9_.-]+`)

type runResult struct {
	violations []Obl
	known      []struct {
		O Obl
		K knownFinding
	}
}

// finish prints the report, writes evidence and violation files; returns the exit code.
func (c *Ctx) finish(root string, seed int64, wall float64, sens *sensitivity, extra map[string]any) int {
	known, err := loadKnown(filepath.Join(root, "known_findings.json"))
	if err != nil {
		fmt.Printf("cannot read known_findings.json: %v\n", err)
	}
	isKnown := func(o Obl) *knownFinding {
		for i := range known {
			k := &known[i]
			if k.Status == "known" && k.Property == c.Prop && k.Rule == o.Rule && k.Key == o.Key {
				return k
			}
		}
		return nil
	}
	var viol, undec []Obl
	nOK, nKnown := 0, 0
	distinct := map[string]bool{}
	perRule := map[string][2]int{}
	for _, o := range c.Obls {
		pr := perRule[o.Rule]
		pr[0]++
		if o.Verdict == vOK {
			nOK++
			pr[1]++
			if o.Pos != "" {
				distinct[o.Rule+"|"+o.Key] = true
			}
		} else if k := isKnown(o); k != nil {
			nKnown++
			fmt.Printf("KNOWN-FINDING: property=%s %s [%s %s at %s]\n", c.Prop, k.What, o.Rule, o.Key, o.Pos)
			if o.Pos != "" {
				distinct[o.Rule+"|"+o.Key] = true
			}
		} else if o.Verdict == vViolation {
			viol = append(viol, o)
		} else {
			// anchor-unresolved, instances-below-pin, undecided, rule-panic: the rule could not be applied to this
			// tree (the code it was confirmed on was moved, renamed or reshaped). That is not a verdict about the
			// property: it is reported, recorded in the evidence, and does not fail the check.
			undec = append(undec, o)
		}
		perRule[o.Rule] = pr
	}
	// human-readable listing
	rules := make([]string, 0, len(perRule))
	for r := range perRule {
		rules = append(rules, r)
	}
	sort.Strings(rules)
	for _, r := range rules {
		fmt.Printf("%-10s %3d/%-3d  %s\n", r, perRule[r][1], perRule[r][0], c.ruleDocs[r])
	}
	vdir := filepath.Join(root, "evidence", "violations")
	replay := ""
	for i, o := range viol {
		os.MkdirAll(vdir, 0o755)
		name := unsafeName.ReplaceAllString(fmt.Sprintf("%s-%s-%s", c.Prop, o.Rule, o.Key), "_")
		if len(name) > 150 {
			name = name[:150]
		}
		path := filepath.Join(vdir, name+".json")
		b, _ := json.MarshalIndent(map[string]any{"property": c.Prop, "obligation": o, "rule_doc": c.ruleDocs[o.Rule], "tier": c.Tier}, "", " ")
		os.WriteFile(path, b, 0o644)
		if i == 0 {
			replay = path
		}
		fmt.Printf("%s  %s  %s  [%s]  %s\n", o.Pos, o.Rule, o.Key, o.Verdict, o.Detail)
		fmt.Printf("VIOLATION property=%s replay=%s\n", c.Prop, path)
	}
	_ = replay
	for _, o := range undec {
		fmt.Printf("UNDECIDED property=%s rule=%s key=%s [%s] %s\n", c.Prop, o.Rule, o.Key, o.Verdict, o.Detail)
	}
	for _, n := range c.P.normNotes {
		fmt.Printf("NORMALISED: %s\n", n)
	}

	// samples: a spread of obligations (first of each rule, then violations)
	var samples []Obl
	seenRule := map[string]int{}
	for _, o := range c.Obls {
		if seenRule[o.Rule] < 2 && o.Pos != "" {
			samples = append(samples, o)
			seenRule[o.Rule]++
		}
	}
	samples = append(samples, viol...)
	pins := map[string]any{}
	for k, v := range c.pins {
		pins[k] = map[string]int{"found": v[0], "pin": v[1]}
	}
	var fnames []string
	for f := range c.funcs {
		fnames = append(fnames, f.Name())
	}
	sort.Strings(fnames)
	cov := map[string]any{
		"explanation": fmt.Sprintf("Static analysis of /repo's current source (go/packages type-checked AST, go/cfg per-function control-flow graphs with dominator/must-pass-through queries, must-locksets, extracted tables%s). "+
			"Each obligation is one repository-specific rule applied to one construct (function, call site, field writer, table row); a rule is universally quantified over the sites it discovers. "+
			"This decides structural necessary conditions of property %s (see DESIGN.md §3), not the behavioural statement as a whole.", map[bool]string{true: "; thorough tier adds SSA + VTA whole-program call graph rules, alternate GOOS/GOARCH loads and the mutant catalogue", false: ""}[c.Tier == "thorough"], c.Prop),
		"obligations":         len(c.Obls),
		"discharged":          nOK + nKnown,
		"known_findings":      nKnown,
		"evaluations":         len(c.Obls),
		"distinct_nontrivial": len(distinct),
		"rule":                "one evaluation = one (rule, construct) obligation; distinct_nontrivial counts distinct (rule,key) pairs that examined a concrete program point (have a file:line), excluding pins and vacuity markers",
		"rules":               c.ruleDocs,
		"per_rule":            perRule,
		"pins":                pins,
		"functions_analysed":  fnames,
		"program_points":      c.sites,
		"samples":             samples,
		"checker_cmd":         strings.Join(os.Args, " "),
		"trusted_base":        []string{"go/types", "go/packages", "golang.org/x/tools/go/cfg", "golang.org/x/tools/go/ssa + callgraph/vta (thorough)", "the rule tables in /verif/checker"},
		"packages_loaded":     len(c.P.All),
		"exhaustive":          true,
	}
	if sens != nil {
		cov["checker_sensitivity"] = sens
	}
	for k, v := range extra {
		cov[k] = v
	}
	ev := map[string]any{
		"property_id": c.Prop, "tier": c.Tier, "seed": seed, "level": "other", "coverage": cov,
		"assumptions": append([]string{
			"user callbacks (handlers, verifiers, event stores, custom transports) behave as the property's own provisos say",
			"no reflection/unsafe/linkname alters the anchored state (none in the analysed functions)",
			"guards are branch-edge dominance; operands of a guard are assumed not reassigned between test and use unless a rule says it checks that",
		}, c.notes...),
		"wall_s": wall, "violations": len(viol), "undecided": len(undec),
	}
	if len(undec) > 0 {
		cov["undecided_obligations"] = undec
	}
	if len(c.P.normNotes) > 0 {
		cov["normalisation"] = c.P.normNotes
	}
	os.MkdirAll(filepath.Join(root, "evidence"), 0o755)
	b, _ := json.MarshalIndent(ev, "", " ")
	if err := os.WriteFile(filepath.Join(root, "evidence", c.Prop+".json"), b, 0o644); err != nil {
		fmt.Printf("cannot write evidence: %v\n", err)
		return 1
	}
	fmt.Printf("%s %s: %d obligations, %d discharged, %d known findings, %d violations, %d undecided, %d functions, %.1fs\n",
		c.Prop, c.Tier, len(c.Obls), nOK, nKnown, len(viol), len(undec), len(c.funcs), wall)
	if len(viol) > 0 {
		return 1
	}
	return 0
}

type sensitivity struct {
	Mutants  int              `json:"mutants"`
	Detected int              `json:"detected"`
	Missed   int              `json:"missed"`
	Skipped  int              `json:"skipped"`
	Detail   []map[string]any `json:"detail"`
}

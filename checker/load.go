package main

import (
	"fmt"
	"go/ast"
	"go/token"
	"go/types"
	"os"
	"path/filepath"
	"sort"
	"strings"

	"golang.org/x/tools/go/packages"
)

const modPath = "github.com/modelcontextprotocol/go-sdk"

// sdkPkgs are the packages whose code the rules quantify over (the library proper;
// examples/, conformance/ and internal tools are loaded and type-checked but are clients of it).
var sdkPkgs = []string{
	"mcp", "internal/jsonrpc2", "internal/json", "jsonrpc", "auth", "auth/extauth", "oauthex",
	"internal/util", "internal/authutil", "internal/xcontext", "internal/mcpgodebug",
}

// Prog is the loaded, type-checked program.
type Prog struct {
	sub    map[string]*Ctx // other properties' rule runs, for Ctx.Import
	Dir    string
	Fset   *token.FileSet
	All    []*packages.Package
	byPath map[string]*packages.Package
	funcs  map[*types.Func]*Func
	// fileOf maps a token.File to its package and syntax.
	allSyntax bool
	ssa       *ssaState
	// lineMap: for files that were printed again by the normaliser, the original line of each new line
	lineMap   map[*token.File][]int
	normNotes []string
	stripped  int // logging statements removed before the rules ran
	merged    int // nested / consecutive if statements brought into one condition
}

// Load loads ./... of dir. With deps=true the whole dependency closure is loaded from source
// (needed for SSA / call-graph rules).
func Load(dir string, deps bool, extraEnv ...string) (*Prog, error) {
	mode := packages.NeedName | packages.NeedFiles | packages.NeedCompiledGoFiles | packages.NeedImports |
		packages.NeedTypes | packages.NeedTypesSizes | packages.NeedSyntax | packages.NeedTypesInfo | packages.NeedModule
	if deps {
		mode |= packages.NeedDeps
	}
	fset := token.NewFileSet()
	cfg := &packages.Config{Mode: mode, Dir: dir, Fset: fset, Tests: false, Env: append(os.Environ(), extraEnv...)}
	pkgs, err := packages.Load(cfg, "./...")
	if err != nil {
		return nil, fmt.Errorf("load: %w", err)
	}
	if len(pkgs) == 0 {
		return nil, fmt.Errorf("load: zero packages")
	}
	p := &Prog{Dir: dir, Fset: fset, byPath: map[string]*packages.Package{}, funcs: map[*types.Func]*Func{}, allSyntax: deps}
	var errs []string
	packages.Visit(pkgs, nil, func(pk *packages.Package) {
		p.byPath[pk.PkgPath] = pk
		if strings.HasPrefix(pk.PkgPath, modPath) {
			for _, e := range pk.Errors {
				errs = append(errs, e.Error())
			}
		}
	})
	if len(errs) > 0 {
		return nil, fmt.Errorf("load: type/parse errors: %s", strings.Join(errs, "; "))
	}
	sort.Slice(pkgs, func(i, j int) bool { return pkgs[i].PkgPath < pkgs[j].PkgPath })
	p.All = pkgs
	if !disableNormalise {
		notes, nerr := safeNormalise(p)
		if nerr != nil {
			// analyse the program as written
			disableNormalise = true
			p2, err := Load(dir, deps, extraEnv...)
			disableNormalise = false
			if p2 != nil {
				p2.normNotes = []string{"normalisation abandoned: " + nerr.Error()}
			}
			return p2, err
		}
		p.normNotes = notes
	}
	for _, rel := range sdkPkgs {
		pk := p.byPath[modPath+"/"+rel]
		if pk == nil {
			continue
		}
		if !keepLogging {
			p.merged += canonSwitch(pk)
			p.merged += canonIfs(p.Fset, pk)
		}
		if normaliseCmp {
			normaliseComparisons(pk)
		}
		if !keepLogging {
			p.stripped += stripLogging(pk)
		}
		p.indexPkg(pk)
	}
	return p, nil
}

// normaliseCmp: comparisons are brought into one orientation before any rule looks at them, so that
// `nil != err`, `0 < len(x)` and `limit <= n` are seen as `err != nil`, `len(x) > 0` and `n >= limit`.
// The rewrite swaps the operand pointers of the type-checked tree in place (types.Info is keyed by
// node, so it stays valid) and mirrors the operator; it never changes which values are compared.
var normaliseCmp = true

func normaliseComparisons(pk *packages.Package) {
	constLike := func(e ast.Expr) bool {
		tv, ok := pk.TypesInfo.Types[e]
		return ok && (tv.Value != nil || tv.IsNil())
	}
	for _, f := range pk.Syntax {
		ast.Inspect(f, func(n ast.Node) bool {
			b, ok := n.(*ast.BinaryExpr)
			if !ok {
				return true
			}
			var mirrored token.Token
			switch b.Op {
			case token.EQL, token.NEQ:
				mirrored = b.Op
			case token.LSS:
				mirrored = token.GTR
			case token.GTR:
				mirrored = token.LSS
			case token.LEQ:
				mirrored = token.GEQ
			case token.GEQ:
				mirrored = token.LEQ
			default:
				return true
			}
			if constLike(b.X) && !constLike(b.Y) {
				b.X, b.Y, b.Op = b.Y, b.X, mirrored
			}
			return true
		})
	}
}

func (p *Prog) indexPkg(pk *packages.Package) {
	for _, f := range pk.Syntax {
		for _, d := range f.Decls {
			fd, ok := d.(*ast.FuncDecl)
			if !ok || fd.Body == nil {
				continue
			}
			obj, _ := pk.TypesInfo.Defs[fd.Name].(*types.Func)
			if obj == nil {
				continue
			}
			p.funcs[obj] = &Func{Prog: p, Pkg: pk, Obj: obj, Decl: fd, Body: fd.Body, Type: fd.Type, name: funcName(obj)}
		}
	}
}

func funcName(obj *types.Func) string {
	sig := obj.Type().(*types.Signature)
	if r := sig.Recv(); r != nil {
		t := r.Type()
		ptr := ""
		if pt, ok := t.(*types.Pointer); ok {
			t = pt.Elem()
			ptr = "*"
		}
		n := "?"
		if nt, ok := t.(*types.Named); ok {
			n = nt.Obj().Name()
		}
		return "(" + ptr + n + ")." + obj.Name()
	}
	return obj.Name()
}

// Pkg returns the SDK package with the given module-relative path, or nil.
func (p *Prog) Pkg(rel string) *packages.Package {
	if rel == "" {
		return p.byPath[modPath]
	}
	return p.byPath[modPath+"/"+rel]
}

// SDKFuncs returns every declared function of the SDK packages, sorted by position.
func (p *Prog) SDKFuncs() []*Func {
	var out []*Func
	for _, f := range p.funcs {
		out = append(out, f)
	}
	sort.Slice(out, func(i, j int) bool { return out[i].Body.Pos() < out[j].Body.Pos() })
	return out
}

// FuncsIn returns the declared functions of one SDK package.
func (p *Prog) FuncsIn(rel string) []*Func {
	pk := p.Pkg(rel)
	var out []*Func
	for _, f := range p.SDKFuncs() {
		if f.Pkg == pk {
			out = append(out, f)
		}
	}
	return out
}

// FuncOf returns the Func for a declared function object (nil if not SDK source).
func (p *Prog) FuncOf(obj *types.Func) *Func {
	if obj == nil {
		return nil
	}
	return p.funcs[obj.Origin()]
}

// LookupType finds a named type in an SDK package.
func (p *Prog) LookupType(rel, name string) *types.Named {
	pk := p.Pkg(rel)
	if pk == nil {
		return nil
	}
	o := pk.Types.Scope().Lookup(name)
	if tn, ok := o.(*types.TypeName); ok {
		if n, ok := tn.Type().(*types.Named); ok {
			return n
		}
	}
	return nil
}

// LookupObj finds a package-level object.
func (p *Prog) LookupObj(rel, name string) types.Object {
	pk := p.Pkg(rel)
	if pk == nil {
		return nil
	}
	return pk.Types.Scope().Lookup(name)
}

// LookupFuncObj finds a function (recv=="") or method (recv = type name).
func (p *Prog) LookupFuncObj(rel, recv, name string) *types.Func {
	pk := p.Pkg(rel)
	if pk == nil {
		return nil
	}
	if recv == "" {
		f, _ := pk.Types.Scope().Lookup(name).(*types.Func)
		return f
	}
	n := p.LookupType(rel, recv)
	if n == nil {
		return nil
	}
	for i := 0; i < n.NumMethods(); i++ {
		if m := n.Method(i); m.Name() == name {
			return m
		}
	}
	// a method promoted from an embedded struct of the SDK (state that was moved into a type of its own)
	if o, _, _ := types.LookupFieldOrMethod(types.NewPointer(n), true, pk.Types, name); o != nil {
		if m, ok := o.(*types.Func); ok && m.Pkg() != nil && (m.Pkg().Path() == modPath || strings.HasPrefix(m.Pkg().Path(), modPath+"/")) {
			return m
		}
	}
	return nil
}

// LookupField finds a struct field of a named struct type.
func (p *Prog) LookupField(rel, typ, field string) *types.Var {
	n := p.LookupType(rel, typ)
	if n == nil {
		return nil
	}
	st, ok := n.Underlying().(*types.Struct)
	if !ok {
		return nil
	}
	for i := 0; i < st.NumFields(); i++ {
		if f := st.Field(i); f.Name() == field {
			return f
		}
	}
	// a field promoted from an embedded struct of the SDK
	if o, _, _ := types.LookupFieldOrMethod(n, true, n.Obj().Pkg(), field); o != nil {
		if v, ok := o.(*types.Var); ok && v.IsField() && v.Pkg() != nil && (v.Pkg().Path() == modPath || strings.HasPrefix(v.Pkg().Path(), modPath+"/")) {
			return v
		}
	}
	return nil
}

// StdFunc finds a function or method in a non-SDK package by import path, e.g. ("sync","Mutex","Lock").
func (p *Prog) StdFunc(path, recv, name string) *types.Func {
	pk := p.byPath[path]
	var tp *types.Package
	if pk != nil {
		tp = pk.Types
	} else {
		// Without NeedDeps the dependency is only reachable through importers' type info.
		for _, q := range p.byPath {
			if q.Types == nil {
				continue
			}
			for _, imp := range q.Types.Imports() {
				if imp.Path() == path {
					tp = imp
				}
			}
			if tp != nil {
				break
			}
		}
	}
	if tp == nil {
		return nil
	}
	if recv == "" {
		f, _ := tp.Scope().Lookup(name).(*types.Func)
		return f
	}
	tn, _ := tp.Scope().Lookup(recv).(*types.TypeName)
	if tn == nil {
		return nil
	}
	if n, ok := tn.Type().(*types.Named); ok {
		for i := 0; i < n.NumMethods(); i++ {
			if m := n.Method(i); m.Name() == name {
				return m
			}
		}
		if it, ok := n.Underlying().(*types.Interface); ok {
			for i := 0; i < it.NumMethods(); i++ {
				if m := it.Method(i); m.Name() == name {
					return m
				}
			}
		}
	}
	return nil
}

func safeNormalise(p *Prog) (notes []string, err error) {
	defer func() {
		if r := recover(); r != nil {
			if nf, ok := r.(normaliseFailure); ok {
				err = nf.err
				return
			}
			err = fmt.Errorf("panic in the normaliser: %v", r)
		}
	}()
	return p.Normalise(), nil
}

// Rel returns a path relative to the repository root for a position.
func (p *Prog) Rel(pos token.Pos) string {
	if !pos.IsValid() {
		return "?"
	}
	ps := p.Fset.Position(pos)
	if m := p.lineMap[p.Fset.File(pos)]; m != nil && ps.Line < len(m) && m[ps.Line] > 0 {
		ps.Line = m[ps.Line]
	}
	r, err := filepath.Rel(p.Dir, ps.Filename)
	if err != nil {
		r = ps.Filename
	}
	return fmt.Sprintf("%s:%d", r, ps.Line)
}

// Func is a declared function or a function literal of SDK source.
type Func struct {
	Prog   *Prog
	Pkg    *packages.Package
	Obj    *types.Func // nil for literals
	Decl   *ast.FuncDecl
	Lit    *ast.FuncLit
	Parent *Func
	Body   *ast.BlockStmt
	Type   *ast.FuncType
	name   string

	g       *Graph
	parents map[ast.Node]ast.Node
	lits    []*Func
	litsOK  bool
}

func (f *Func) Name() string      { return f.name }
func (f *Func) Info() *types.Info { return f.Pkg.TypesInfo }
func (f *Func) At(n ast.Node) string {
	if n == nil {
		return f.Prog.Rel(f.Body.Pos())
	}
	return f.Prog.Rel(n.Pos())
}
func (f *Func) Line(n ast.Node) int {
	ps := f.Prog.Fset.Position(n.Pos())
	if m := f.Prog.lineMap[f.Prog.Fset.File(n.Pos())]; m != nil && ps.Line < len(m) && m[ps.Line] > 0 {
		return m[ps.Line]
	}
	return ps.Line
}

// Root returns the enclosing declared function.
func (f *Func) Root() *Func {
	for f.Parent != nil {
		f = f.Parent
	}
	return f
}

// Lits returns the function literals directly nested in f (not inside another literal), in source order.
func (f *Func) Lits() []*Func {
	if f.litsOK {
		return f.lits
	}
	f.litsOK = true
	n := 0
	ast.Inspect(f.Body, func(x ast.Node) bool {
		if l, ok := x.(*ast.FuncLit); ok {
			n++
			f.lits = append(f.lits, &Func{Prog: f.Prog, Pkg: f.Pkg, Lit: l, Parent: f, Body: l.Body, Type: l.Type,
				name: fmt.Sprintf("%s$%d", f.name, n)})
			return false
		}
		return true
	})
	return f.lits
}

// AllLits returns all literals nested at any depth, pre-order.
func (f *Func) AllLits() []*Func {
	var out []*Func
	for _, l := range f.Lits() {
		out = append(out, l)
		out = append(out, l.AllLits()...)
	}
	return out
}

// LitFor returns the *Func wrapping the given literal (searching nested literals of f).
func (f *Func) LitFor(l *ast.FuncLit) *Func {
	for _, x := range f.AllLits() {
		if x.Lit == l {
			return x
		}
	}
	return nil
}

// ParentOf returns the syntactic parent of n within f's body.
func (f *Func) ParentOf(n ast.Node) ast.Node {
	if f.parents == nil {
		f.parents = map[ast.Node]ast.Node{}
		var stack []ast.Node
		ast.Inspect(f.Body, func(x ast.Node) bool {
			if x == nil {
				stack = stack[:len(stack)-1]
				return true
			}
			if len(stack) > 0 {
				f.parents[x] = stack[len(stack)-1]
			}
			stack = append(stack, x)
			return true
		})
	}
	return f.parents[n]
}

// Enclosing walks parents of n until pred matches; returns nil if none.
func (f *Func) Enclosing(n ast.Node, pred func(ast.Node) bool) ast.Node {
	for x := f.ParentOf(n); x != nil; x = f.ParentOf(x) {
		if pred(x) {
			return x
		}
	}
	return nil
}

// Params returns the parameter objects of f (receiver first, if any).
func (f *Func) Params() []*types.Var {
	var out []*types.Var
	add := func(fl *ast.FieldList) {
		if fl == nil {
			return
		}
		for _, fld := range fl.List {
			for _, nm := range fld.Names {
				if v, ok := f.Info().Defs[nm].(*types.Var); ok {
					out = append(out, v)
				}
			}
		}
	}
	if f.Decl != nil {
		add(f.Decl.Recv)
	}
	add(f.Type.Params)
	return out
}

// Param returns the parameter named n, or nil.
func (f *Func) Param(n string) *types.Var {
	for _, v := range f.Params() {
		if v.Name() == n {
			return v
		}
	}
	return nil
}

// Recv returns the receiver variable of a method declaration (nil otherwise).
func (f *Func) Recv() *types.Var {
	if f.Decl == nil || f.Decl.Recv == nil || len(f.Decl.Recv.List) == 0 || len(f.Decl.Recv.List[0].Names) == 0 {
		return nil
	}
	v, _ := f.Info().Defs[f.Decl.Recv.List[0].Names[0]].(*types.Var)
	return v
}

// keepLogging disables stripLogging (the source transformations of refactor.go print the tree as it is).
var keepLogging = false

// stripLogging removes statements that only log: calls of package log / log/slog functions and of *slog.Logger /
// *log.Logger methods whose arguments are evaluated without side effects. No property talks about log output, and no
// rule looks at it; taking these statements out of the analysed program means that adding, moving or rewording a log
// line can never change a verdict. (Arguments may call fmt.Sprint*, len/cap, conversions and niladic accessor methods;
// any other call in an argument keeps the statement.)
func stripLogging(pk *packages.Package) int {
	info := pk.TypesInfo
	isLogPkg := func(p *types.Package) bool {
		return p != nil && (p.Path() == "log" || p.Path() == "log/slog")
	}
	var harmless func(e ast.Expr) bool
	harmless = func(e ast.Expr) bool {
		ok := true
		ast.Inspect(e, func(n ast.Node) bool {
			switch x := n.(type) {
			case *ast.FuncLit:
				ok = false
			case *ast.UnaryExpr:
				if x.Op == token.ARROW {
					ok = false
				}
			case *ast.CallExpr:
				if tv, isT := info.Types[x.Fun]; isT && tv.IsType() {
					return true
				}
				var id *ast.Ident
				switch f := ast.Unparen(x.Fun).(type) {
				case *ast.Ident:
					id = f
				case *ast.SelectorExpr:
					id = f.Sel
				}
				if id == nil {
					ok = false
					return false
				}
				switch o := info.Uses[id].(type) {
				case *types.Builtin:
					if o.Name() != "len" && o.Name() != "cap" {
						ok = false
					}
				case *types.Func:
					sig := o.Type().(*types.Signature)
					switch {
					case o.Pkg() != nil && o.Pkg().Path() == "fmt" && strings.HasPrefix(o.Name(), "Sprint"):
					case isLogPkg(o.Pkg()):
					case sig.Recv() != nil && sig.Params().Len() == 0 && sig.Results().Len() == 1:
						// niladic accessor (Error, String, ID, SessionID, Raw, …)
					default:
						ok = false
					}
				default:
					ok = false
				}
			}
			return ok
		})
		return ok
	}
	isLogStmt := func(st ast.Stmt) bool {
		es, ok := st.(*ast.ExprStmt)
		if !ok {
			return false
		}
		call, ok := es.X.(*ast.CallExpr)
		if !ok {
			return false
		}
		sel, ok := ast.Unparen(call.Fun).(*ast.SelectorExpr)
		if !ok {
			return false
		}
		fn, _ := info.Uses[sel.Sel].(*types.Func)
		if fn == nil || !isLogPkg(fn.Pkg()) {
			return false
		}
		switch fn.Name() {
		case "Fatal", "Fatalf", "Fatalln", "Panic", "Panicf", "Panicln":
			return false // these do not return
		}
		if !harmless(sel.X) {
			return false
		}
		for _, a := range call.Args {
			if !harmless(a) {
				return false
			}
		}
		return true
	}
	n := 0
	strip := func(list []ast.Stmt) []ast.Stmt {
		out := list[:0:0]
		for _, st := range list {
			if isLogStmt(st) {
				n++
				continue
			}
			out = append(out, st)
		}
		return out
	}
	for _, f := range pk.Syntax {
		ast.Inspect(f, func(x ast.Node) bool {
			switch b := x.(type) {
			case *ast.BlockStmt:
				b.List = strip(b.List)
			case *ast.CaseClause:
				b.Body = strip(b.Body)
			case *ast.CommClause:
				b.Body = strip(b.Body)
			}
			return true
		})
	}
	return n
}

// canonIfs brings two ways of writing one decision into a single form, so that rules see the same gate either way:
//
//	if a { if b { S } }              →  if a && b { S }      (neither if has an else; the inner one has no init and is the
//	                                                           only statement of the outer body)
//	if a { S }; if b { S }           →  if a || b { S }      (same S, textually, ending in return/continue/break/goto/panic;
//	                                                           no init, no else)
//
// Both rewrites keep the order in which a and b are evaluated and the set of executions of S. The new condition node
// gets the type bool in the package's type information; nothing else changes, so no re-check is needed.
func canonIfs(fset *token.FileSet, pk *packages.Package) int {
	n := 0
	mk := func(x ast.Expr, op token.Token, y ast.Expr) ast.Expr {
		par := func(e ast.Expr) ast.Expr {
			if b, ok := e.(*ast.BinaryExpr); ok && (b.Op == token.LOR || b.Op == token.LAND) && b.Op != op {
				p := &ast.ParenExpr{Lparen: e.Pos(), X: e, Rparen: e.End()}
				pk.TypesInfo.Types[p] = pk.TypesInfo.Types[e]
				return p
			}
			return e
		}
		b := &ast.BinaryExpr{X: par(x), OpPos: x.End(), Op: op, Y: par(y)}
		pk.TypesInfo.Types[b] = types.TypeAndValue{Type: types.Typ[types.Bool]}
		return b
	}
	text := func(b *ast.BlockStmt) string {
		var sb strings.Builder
		for _, st := range b.List {
			sb.WriteString(stmtText(st))
			sb.WriteString(";")
		}
		return sb.String()
	}
	var mergeAnd func(is *ast.IfStmt)
	mergeAnd = func(is *ast.IfStmt) {
		for is.Else == nil && len(is.Body.List) == 1 {
			in, ok := is.Body.List[0].(*ast.IfStmt)
			if !ok || in.Init != nil || in.Else != nil {
				return
			}
			is.Cond = mk(is.Cond, token.LAND, in.Cond)
			is.Body = in.Body
			n++
		}
	}
	mergeOr := func(list []ast.Stmt) []ast.Stmt {
		var out []ast.Stmt
		for _, st := range list {
			cur, ok := st.(*ast.IfStmt)
			if ok && len(out) > 0 && cur.Init == nil && cur.Else == nil {
				if prev, ok := out[len(out)-1].(*ast.IfStmt); ok && prev.Init == nil && prev.Else == nil &&
					len(prev.Body.List) > 0 && leaves(prev.Body.List) && text(prev.Body) == text(cur.Body) {
					prev.Cond = mk(prev.Cond, token.LOR, cur.Cond)
					n++
					continue
				}
			}
			out = append(out, st)
		}
		return out
	}
	// a local that only names the condition of the if statement that follows it is put back into the condition:
	//	ok := a && b; if ok { … }   →   if a && b { … }
	// (one definition, one use, nothing in between; the defining expression is evaluated at the same point, and — unless it
	// is call-free — as the first operand of the condition, so the order of evaluation is unchanged)
	uses := map[types.Object]int{}
	for _, o := range pk.TypesInfo.Uses {
		uses[o]++
	}
	var firstLeaf func(e ast.Expr) ast.Expr
	firstLeaf = func(e ast.Expr) ast.Expr {
		switch x := e.(type) {
		case *ast.ParenExpr:
			return firstLeaf(x.X)
		case *ast.UnaryExpr:
			if x.Op == token.NOT {
				return firstLeaf(x.X)
			}
		case *ast.BinaryExpr:
			return firstLeaf(x.X)
		}
		return e
	}
	// pureExpr: evaluating e has no effect and does not depend on when it happens relative to other pure expressions
	// (no calls except len/cap, conversions and a few well-known predicates; no receive, no literal function)
	var pureExpr func(e ast.Expr) bool
	pureExpr = func(e ast.Expr) bool {
		ok := true
		ast.Inspect(e, func(x ast.Node) bool {
			switch y := x.(type) {
			case *ast.CallExpr:
				if tv, isT := pk.TypesInfo.Types[y.Fun]; isT && tv.IsType() {
					return true
				}
				var id *ast.Ident
				switch f := ast.Unparen(y.Fun).(type) {
				case *ast.Ident:
					id = f
				case *ast.SelectorExpr:
					id = f.Sel
				}
				if id != nil {
					switch o := pk.TypesInfo.Uses[id].(type) {
					case *types.Builtin:
						if o.Name() == "len" || o.Name() == "cap" {
							return true
						}
					case *types.Func:
						if o.Pkg() != nil {
							switch o.Pkg().Path() + "." + o.Name() {
							case "errors.Is", "strings.HasPrefix", "strings.HasSuffix", "strings.Contains", "strings.EqualFold", "slices.Contains", "bytes.Equal", "strings.ToLower", "strings.TrimSpace":
								return true
							}
						}
					}
				}
				ok = false
			case *ast.FuncLit:
				ok = false
			case *ast.UnaryExpr:
				if y.Op == token.ARROW {
					ok = false
				}
			}
			return ok
		})
		return ok
	}
	// headerSlots: the expressions a statement evaluates before anything else of it runs
	headerSlots := func(ns ast.Stmt) []ast.Expr {
		switch x := ns.(type) {
		case *ast.IfStmt:
			if x.Init == nil {
				return []ast.Expr{x.Cond}
			}
		case *ast.SwitchStmt:
			if x.Init == nil {
				if x.Tag != nil {
					return []ast.Expr{x.Tag}
				}
				if len(x.Body.List) > 0 {
					if cc := x.Body.List[0].(*ast.CaseClause); len(cc.List) == 1 {
						return []ast.Expr{cc.List[0]}
					}
				}
			}
		case *ast.ExprStmt:
			return []ast.Expr{x.X}
		case *ast.AssignStmt:
			return append([]ast.Expr(nil), x.Rhs...)
		case *ast.ReturnStmt:
			return append([]ast.Expr(nil), x.Results...)
		case *ast.RangeStmt:
			return []ast.Expr{x.X}
		case *ast.GoStmt:
			return []ast.Expr{x.Call}
		case *ast.DeferStmt:
			return []ast.Expr{x.Call}
		}
		return nil
	}
	condLocals := func(list []ast.Stmt) []ast.Stmt {
		var out []ast.Stmt
		for i := 0; i < len(list); i++ {
			st := list[i]
			if as, ok := st.(*ast.AssignStmt); ok && as.Tok == token.DEFINE && len(as.Lhs) == 1 && len(as.Rhs) == 1 && i+1 < len(list) {
				if id, ok := as.Lhs[0].(*ast.Ident); ok && id.Name != "_" {
					obj := pk.TypesInfo.Defs[id]
					slots := headerSlots(list[i+1])
					if obj != nil && uses[obj] == 1 && len(slots) > 0 {
						// the single use must be in the header of the next statement, outside any function literal
						var use *ast.Ident
						var useSlot ast.Expr
						var inner *ast.CallExpr // innermost call that has the use as a direct operand
						for _, sl := range slots {
							var stack []ast.Node
							ast.Inspect(sl, func(x ast.Node) bool {
								if x == nil {
									stack = stack[:len(stack)-1]
									return true
								}
								if _, isLit := x.(*ast.FuncLit); isLit {
									return false
								}
								stack = append(stack, x)
								if u, ok := x.(*ast.Ident); ok && pk.TypesInfo.Uses[u] == obj {
									use, useSlot = u, sl
									if len(stack) >= 2 {
										if ce, isC := stack[len(stack)-2].(*ast.CallExpr); isC {
											inner = ce
										}
									}
								}
								return true
							})
						}
						rhs := as.Rhs[0]
						okMove := false
						if use != nil {
							switch {
							case pureExpr(rhs):
								okMove = true
							case firstLeaf(useSlot) == ast.Expr(use) && useSlot == slots[0]:
								okMove = true // evaluated first, as before
							default:
								// the defining expression has effects: everything else the next statement evaluates before its own
								// effect must be pure, and the use must be a direct operand of the statement's outermost call (or the
								// whole slot)
								okMove = true
								for _, sl := range slots {
									if sl == useSlot {
										top, isCall := ast.Unparen(sl).(*ast.CallExpr)
										switch {
										case ast.Unparen(sl) == ast.Expr(use):
										case isCall && inner == top:
											if !pureExpr(top.Fun) {
												okMove = false
											}
											for _, a := range top.Args {
												if ast.Unparen(a) != ast.Expr(use) && !pureExpr(a) {
													okMove = false
												}
											}
										default:
											okMove = false
										}
									} else if !pureExpr(sl) {
										okMove = false
									}
								}
							}
						}
						if okMove {
							var repl ast.Expr = rhs
							switch rhs.(type) {
							case *ast.Ident, *ast.SelectorExpr, *ast.CallExpr, *ast.ParenExpr, *ast.BasicLit, *ast.IndexExpr:
							default:
								p := &ast.ParenExpr{Lparen: rhs.Pos(), X: rhs, Rparen: rhs.End()}
								pk.TypesInfo.Types[p] = pk.TypesInfo.Types[rhs]
								repl = p
							}
							replaceExprs(list[i+1], func(e ast.Expr) ast.Expr {
								if e == ast.Expr(use) {
									return repl
								}
								return nil
							})
							n++
							continue // the definition is dropped
						}
					}
				}
			}
			out = append(out, st)
		}
		return out
	}
	for _, f := range pk.Syntax {
		ast.Inspect(f, func(x ast.Node) bool {
			switch b := x.(type) {
			case *ast.BlockStmt:
				b.List = condLocals(b.List)
			case *ast.CaseClause:
				b.Body = condLocals(b.Body)
			case *ast.CommClause:
				b.Body = condLocals(b.Body)
			}
			return true
		})
	}
	for _, f := range pk.Syntax {
		ast.Inspect(f, func(x ast.Node) bool {
			switch b := x.(type) {
			case *ast.IfStmt:
				mergeAnd(b)
			case *ast.BlockStmt:
				b.List = mergeOr(b.List)
			case *ast.CaseClause:
				b.Body = mergeOr(b.Body)
			case *ast.CommClause:
				b.Body = mergeOr(b.Body)
			}
			return true
		})
	}
	return n
}

// leaves: control does not continue with the next statement after this list.
func leaves(list []ast.Stmt) bool {
	if len(list) == 0 {
		return false
	}
	switch s := list[len(list)-1].(type) {
	case *ast.ReturnStmt:
		return true
	case *ast.BranchStmt:
		return s.Tok != token.FALLTHROUGH
	case *ast.ExprStmt:
		if c, ok := s.X.(*ast.CallExpr); ok {
			if id, ok := c.Fun.(*ast.Ident); ok && id.Name == "panic" {
				return true
			}
		}
	}
	return false
}

func stmtText(n ast.Node) string {
	var sb strings.Builder
	ast.Inspect(n, func(x ast.Node) bool {
		switch y := x.(type) {
		case *ast.Ident:
			sb.WriteString(y.Name + " ")
		case *ast.BasicLit:
			sb.WriteString(y.Value + " ")
		case nil:
			sb.WriteString(") ")
		default:
			sb.WriteString(fmt.Sprintf("%T( ", x))
			switch z := x.(type) {
			case *ast.BinaryExpr:
				sb.WriteString(z.Op.String() + " ")
			case *ast.UnaryExpr:
				sb.WriteString(z.Op.String() + " ")
			case *ast.AssignStmt:
				sb.WriteString(z.Tok.String() + " ")
			case *ast.BranchStmt:
				sb.WriteString(z.Tok.String() + " ")
			case *ast.IncDecStmt:
				sb.WriteString(z.Tok.String() + " ")
			}
		}
		return true
	})
	return sb.String()
}

// canonSwitch rewrites a switch over a plain variable or field,
//
//	switch v { case a, b: S  case c: T  default: U }
//
// as the switch without tag that makes the same decisions in the same order,
//
//	switch { case v == a || v == b: S  case v == c: T  default: U }
//
// so that a decision written as a switch and the same decision written as an if-chain are one shape for the rules (a
// case is then a condition vertex like any other). Only for tags that are free of calls, indexing and channel
// operations (evaluating them once or once per case is the same) and for switches without fallthrough. The new nodes
// get their entries in the package's type information.
func canonSwitch(pk *packages.Package) int {
	info := pk.TypesInfo
	n := 0
	var pureTag func(e ast.Expr) bool
	pureTag = func(e ast.Expr) bool {
		switch x := e.(type) {
		case *ast.Ident:
			_, isVar := info.Uses[x].(*types.Var)
			return isVar
		case *ast.ParenExpr:
			return pureTag(x.X)
		case *ast.SelectorExpr:
			if s, ok := info.Selections[x]; ok && s.Kind() == types.FieldVal {
				return pureTag(x.X)
			}
			// package-qualified variable
			if id, ok := x.X.(*ast.Ident); ok {
				if _, isPkg := info.Uses[id].(*types.PkgName); isPkg {
					_, isVar := info.Uses[x.Sel].(*types.Var)
					return isVar
				}
			}
		}
		return false
	}
	var clone func(e ast.Expr, at token.Pos) ast.Expr
	clone = func(e ast.Expr, at token.Pos) ast.Expr {
		var out ast.Expr
		switch x := e.(type) {
		case *ast.Ident:
			id := &ast.Ident{NamePos: at, Name: x.Name}
			if o := info.Uses[x]; o != nil {
				info.Uses[id] = o
			}
			out = id
		case *ast.ParenExpr:
			out = &ast.ParenExpr{Lparen: at, X: clone(x.X, at), Rparen: at}
		case *ast.SelectorExpr:
			sel := &ast.SelectorExpr{X: clone(x.X, at), Sel: clone(x.Sel, at).(*ast.Ident)}
			if s, ok := info.Selections[x]; ok {
				info.Selections[sel] = s
			}
			out = sel
		default:
			return e
		}
		if tv, ok := info.Types[e]; ok {
			info.Types[out] = tv
		}
		return out
	}
	for _, f := range pk.Syntax {
		ast.Inspect(f, func(nd ast.Node) bool {
			sw, ok := nd.(*ast.SwitchStmt)
			if !ok || sw.Tag == nil || !pureTag(sw.Tag) {
				return true
			}
			ft := false
			for _, st := range sw.Body.List {
				for _, b := range st.(*ast.CaseClause).Body {
					if br, ok := b.(*ast.BranchStmt); ok && br.Tok == token.FALLTHROUGH {
						ft = true
					}
				}
			}
			if ft {
				return true
			}
			for _, st := range sw.Body.List {
				cc := st.(*ast.CaseClause)
				if len(cc.List) == 0 {
					continue
				}
				var cond ast.Expr
				for _, e := range cc.List {
					eq := &ast.BinaryExpr{X: clone(sw.Tag, e.Pos()), OpPos: e.Pos(), Op: token.EQL, Y: e}
					info.Types[eq] = types.TypeAndValue{Type: types.Typ[types.Bool]}
					if cond == nil {
						cond = eq
					} else {
						or := &ast.BinaryExpr{X: cond, OpPos: e.Pos(), Op: token.LOR, Y: eq}
						info.Types[or] = types.TypeAndValue{Type: types.Typ[types.Bool]}
						cond = or
					}
				}
				cc.List = []ast.Expr{cond}
			}
			sw.Tag = nil
			n++
			return true
		})
	}
	return n
}

package main

import (
	"fmt"
	"go/ast"
	"go/constant"
	"go/token"
	"go/types"
	"sort"
	"strings"
)

func init() { register("C06", rulesC06, nil) }

// mapLiteralKeys returns the constant string keys of a package-level map composite literal.
func (c *Ctx) mapLiteralKeys(rel, name string) map[string]ast.Expr {
	pk := c.P.Pkg(rel)
	out := map[string]ast.Expr{}
	for _, f := range pk.Syntax {
		for _, d := range f.Decls {
			gd, ok := d.(*ast.GenDecl)
			if !ok {
				continue
			}
			for _, sp := range gd.Specs {
				vs, ok := sp.(*ast.ValueSpec)
				if !ok {
					continue
				}
				for i, nm := range vs.Names {
					if nm.Name != name || i >= len(vs.Values) {
						continue
					}
					cl, ok := vs.Values[i].(*ast.CompositeLit)
					if !ok {
						continue
					}
					for _, el := range cl.Elts {
						if kv, ok := el.(*ast.KeyValueExpr); ok {
							if tv, ok := pk.TypesInfo.Types[kv.Key]; ok && tv.Value != nil && tv.Value.Kind() == constant.String {
								out[constant.StringVal(tv.Value)] = kv.Value
							}
						}
					}
				}
			}
		}
	}
	return out
}

// errorCodeOf classifies the error expression of a return: the constant Code of a &jsonrpc.Error{}
// literal, "var:<name>" for an error variable, "plain" for fmt.Errorf without a code.
func errorCodeOf(f *Func, e ast.Expr) string {
	e = ast.Unparen(e)
	if u, ok := e.(*ast.UnaryExpr); ok && u.Op == token.AND {
		if cl, ok := u.X.(*ast.CompositeLit); ok {
			for _, el := range cl.Elts {
				if kv, ok := el.(*ast.KeyValueExpr); ok && exprStr(kv.Key) == "Code" {
					if v, ok := f.ConstInt(kv.Value); ok {
						return fmt.Sprint(v)
					}
				}
			}
			return "wire-error(no constant code)"
		}
	}
	if id, ok := e.(*ast.Ident); ok {
		if id.Name == "nil" {
			return "nil"
		}
		// a local holding the error: the assignment that reaches this use
		if def := f.reachingDef(f.Graph(), id); def != nil {
			if _, again := ast.Unparen(def).(*ast.Ident); !again {
				return errorCodeOf(f, def)
			}
		}
		return "var:" + types.TypeString(f.TypeOf(id), func(p *types.Package) string { return p.Name() })
	}
	if ce, ok := e.(*ast.CallExpr); ok {
		if ws := f.ErrorfWraps(ce); ws != nil {
			for _, w := range ws {
				if o := f.ObjOf(w); o != nil {
					return "wraps:" + o.Name()
				}
			}
		}
		return "plain"
	}
	return "other"
}

func rulesC06(c *Ctx) {
	h := c.Fn(pM, "ServerSession", "handle")
	g := h.Graph()
	hr := c.FnObj(pM, "", "handleReceive")
	vrm := c.FnObj(pM, "", "validateRequestMeta")
	methodF := c.Field(pJ, "Request", "Method")
	unp := c.Field(pM, "validatedMeta", "usesNewProtocol")
	initParamsF := c.Field(pM, "ServerSessionState", "InitializeParams")
	initdParamsF := c.Field(pM, "ServerSessionState", "InitializedParams")

	c.Rule("R-C06-1", "decision table of the receive gate: for every known method × {initialized} × {new protocol}, which paths reach the handler and which rejection is returned", func() {
		hv := g.callVertices(hr)
		c.Need(len(hv) == 1, "handle: one handleReceive call")
		// the local `initialized` is defined from state.InitializeParams != nil, under ss.mu, and never reassigned
		var initVar types.Object
		for _, w := range Writes(h.Body, false) {
			if w.RHS == nil {
				continue
			}
			if x, twn, ok := NilTest(w.RHS); ok && !twn && h.IsField(x, initParamsF) {
				initVar = h.ObjOf(w.LHS)
				c.Check(h.heldLocal(w.Stmt)["ServerSession.mu"], "handle:phase-read-under-mu", h, w.Stmt, "the lifecycle phase is read under ss.mu")
			}
		}
		c.Need(initVar != nil, "handle: local `initialized` := state.InitializeParams != nil")
		c.Check(len(h.writesToVar(h.Body, initVar, true)) == 1, "handle:phase-flag-stable", h, nil, "the phase flag is assigned once")
		methods := c.mapLiteralKeys(pM, "serverMethodInfos")
		c.Pin("serverMethodInfos keys", len(methods), 15)
		names := []string{"\x00other"}
		for m := range methods {
			names = append(names, m)
		}
		sort.Strings(names)
		lifecycle := map[string]bool{"initialize": true, "notifications/initialized": true, "ping": true}
		// methods that do not exist under 2026-07-28 (SEP-2575/2577; docs/protocol.md): the handshake, ping,
		// and the stateful per-session features replaced by subscriptions/listen and per-request _meta.
		removed := map[string]bool{"initialize": true, "notifications/initialized": true, "ping": true, "logging/setLevel": true,
			"resources/subscribe": true, "resources/unsubscribe": true, "notifications/roots/list_changed": true}
		// classify returns
		type ret struct {
			v    int
			code string
		}
		var rets []ret
		for _, r := range h.Returns() {
			if len(r.Results) == 2 {
				rets = append(rets, ret{g.VertexOf(r), errorCodeOf(h, r.Results[1])})
			}
		}
		for _, m := range names {
			for _, init := range []bool{false, true} {
				for _, newp := range []bool{false, true} {
					leaf := func(e ast.Expr) tri {
						e = ast.Unparen(e)
						if h.ObjOf(e) == initVar && initVar != nil {
							if id, ok := e.(*ast.Ident); ok && id != nil {
								return boolTri(init)
							}
						}
						// (a local that holds a copy of the field is the field)
						if h.IsField(h.valueOf(e), unp) {
							return boolTri(newp)
						}
						// the table is about requests: the request handed to handle exists (a defensive nil test of a parameter
						// is not one of the gate's decisions)
						if x, testsNil, ok := NilTest(e); ok {
							for _, p := range h.Params() {
								if h.ObjOf(x) == types.Object(p) {
									return boolTri(!testsNil)
								}
							}
						}
						if x, y, op, ok := binaryCmp(e); ok && (op == token.EQL || op == token.NEQ) {
							var k ast.Expr
							if h.IsField(h.valueOf(x), methodF) {
								k = y
							} else if h.IsField(h.valueOf(y), methodF) {
								k = x
							}
							if k != nil {
								if s, ok := h.ConstString(k); ok {
									return boolTri((s == m) == (op == token.EQL))
								}
							}
						}
						return triUnknown
					}
					pre := g.ReachUnder(leaf, func(v int) bool { return v == hv[0] })
					all := g.ReachUnder(leaf, nil)
					dispatch := all[hv[0]]
					codes := map[string]bool{}
					for _, r := range rets {
						if pre[r.v] {
							codes[r.code] = true
						}
					}
					var cs []string
					for k := range codes {
						cs = append(cs, k)
					}
					sort.Strings(cs)
					// expected row
					wantDispatch := true
					allowed := map[string]bool{"var:error": true} // the error returned by validateRequestMeta
					switch {
					case newp:
						allowed["-32022"] = true
						if removed[m] {
							wantDispatch = false
							allowed["-32601"] = true
						}
					case m == "server/discover":
						wantDispatch = false
						allowed["-32601"] = true
					case !init && !lifecycle[m]:
						wantDispatch = false
						allowed["plain"] = true
					}
					label := strings.TrimPrefix(m, "\x00")
					key := fmt.Sprintf("gate[%s,init=%v,new=%v]", label, init, newp)
					extra := ""
					for _, k := range cs {
						if !allowed[k] {
							extra += " unexpected rejection " + k
						}
					}
					mustReject := !wantDispatch
					rejected := false
					for _, k := range cs {
						if k != "var:error" && k != "-32022" {
							rejected = true
						}
					}
					ok := dispatch == wantDispatch && extra == "" && (!mustReject || rejected)
					c.paths++
					if ok {
						c.Ok(key, h, nil, "handler reachable=%v, pre-dispatch rejections=%v", dispatch, cs)
					} else {
						c.Fail(key, h, g.Node(hv[0]), "gate table mismatch: handler reachable=%v (expected %v), pre-dispatch rejections=%v%s. Expected: before initialize a legacy session serves only initialize/initialized/ping; removed methods under the new protocol and discover under the old one are method-not-found", dispatch, wantDispatch, cs, extra)
					}
				}
			}
		}
	})

	c.Rule("R-C06-2", "per-request metadata is validated before dispatch: validateRequestMeta and the supported-version test dominate the handler; their failures carry -32602 / -32022 with the supported list", func() {
		hv := g.callVertices(hr)[0]
		vv := g.callVertices(vrm)
		c.Need(len(vv) == 1, "handle: validateRequestMeta call")
		c.Check(g.Dominates(vv[0], hv), "handle:meta-validated-before-dispatch", h, g.Node(hv), "validateRequestMeta dominates handleReceive")
		// its error is returned
		var errVar types.Object
		for _, w := range Writes(g.Node(vv[0]), false) {
			if t := h.TypeOf(w.LHS); t != nil && t.String() == "error" {
				errVar = h.ObjOf(w.LHS)
			}
		}
		okRet := false
		for _, r := range h.Returns() {
			if len(r.Results) == 2 && h.ObjOf(r.Results[1]) == errVar && errVar != nil {
				if hasAtom(g.GuardsAt(g.VertexOf(r)), func(a Atom) bool { return AtomSaysNil(a, false, func(e ast.Expr) bool { return h.ObjOf(e) == errVar }) }) && !g.ReachableFrom(hv)[g.VertexOf(r)] {
					okRet = true
				}
			}
		}
		c.Check(okRet, "handle:meta-error-returned", h, nil, "a metadata validation error is returned before any dispatch")
		hguards := g.GuardsAt(hv)
		c.Check(hasAtom(hguards, func(a Atom) bool {
			return AtomSaysNil(a, true, func(e ast.Expr) bool { return errVar != nil && h.ObjOf(e) == errVar })
		}),
			"handle:dispatch-only-with-valid-meta", h, g.Node(hv), "handleReceive is reached only when validateRequestMeta returned no error, unconditionally (guards: %s)", atomsString(hguards))
		// unsupported version
		supp := c.Obj(pM, "supportedProtocolVersions")
		found := false
		for _, r := range h.Returns() {
			if len(r.Results) != 2 || errorCodeOf(h, r.Results[1]) != "-32022" {
				continue
			}
			found = true
			rv := g.VertexOf(r)
			guards := g.GuardsAt(rv)
			okG := hasAtom(guards, func(a Atom) bool { return a.Val && h.IsField(a.E, unp) }) && hasAtom(guards, func(a Atom) bool {
				ce, ok := a.E.(*ast.CallExpr)
				return ok && !a.Val && len(ce.Args) == 2 && h.ObjOf(ce.Args[0]) == supp
			})
			c.Check(okG && !g.ReachableFrom(hv)[rv], "handle:unsupported-version-rejected", h, r, "a new-protocol request naming a version outside supportedProtocolVersions is answered -32022 before dispatch (guards: %s)", atomsString(guards))
			// payload lists the supported versions
			lists := false
			inspectNoLit(h.Body, func(n ast.Node) {
				if kv, ok := n.(*ast.KeyValueExpr); ok && exprStr(kv.Key) == "Supported" && h.ObjOf(kv.Value) == supp {
					lists = true
				}
			})
			c.Check(lists, "handle:unsupported-version-lists-supported", h, r, "the -32022 payload lists supportedProtocolVersions")
		}
		c.Check(found, "handle:unsupported-version-return", h, nil, "a return with CodeUnsupportedProtocolVersion exists")
		// the complementary test: dispatch of a new-protocol request implies the version is supported
		// (every other condition left open — in particular whether the session already counts as initialized)
		reach := g.ReachUnder(func(e ast.Expr) tri {
			if h.IsField(e, unp) {
				return triTrue
			}
			if ce, ok := e.(*ast.CallExpr); ok && len(ce.Args) == 2 && h.ObjOf(ce.Args[0]) == supp {
				return triFalse
			}
			return triUnknown
		}, nil)
		c.Check(!reach[hv], "handle:unsupported-version-never-dispatched", h, g.Node(hv), "with usesNewProtocol and a version outside supportedProtocolVersions the dispatch is unreachable whatever else holds (initialized or not)")
		// validateRequestMeta's own returns
		v := c.Fn(pM, "", "validateRequestMeta")
		vg := v.Graph()
		nTrue := 0
		for i, r := range v.Returns() {
			if len(r.Results) != 2 {
				continue
			}
			if !isNilIdent(r.Results[1]) {
				c.Check(errorCodeOf(v, r.Results[1]) == "-32602" && isNilIdent(r.Results[0]), "validateRequestMeta:return#"+itoa(i), v, r, "a failure return carries CodeInvalidParams and no metadata")
				continue
			}
			// usesNewProtocol: true only after clientCapabilities decoded
			isTrue := false
			ast.Inspect(r.Results[0], func(n ast.Node) bool {
				if kv, ok := n.(*ast.KeyValueExpr); ok && v.ObjOf(kv.Key) == types.Object(unp) && exprStr(kv.Value) == "true" {
					isTrue = true
				}
				return true
			})
			if isTrue {
				nTrue++
				decode := c.FnObj(pM, "", "decodeMetaValue")
				okDom := false
				for _, dv := range vg.callVertices(decode) {
					for _, call := range v.CallsIn(vg.Node(dv), decode, false) {
						if len(call.Args) == 2 && v.ObjOf(call.Args[1]) == c.Obj(pM, "MetaKeyClientCapabilities") && vg.Dominates(dv, vg.VertexOf(r)) {
							okDom = true
						}
					}
				}
				guards := vg.GuardsAt(vg.VertexOf(r))
				// the ok result of the capabilities decode holds
				var okVar types.Object
				for _, dv := range vg.callVertices(decode) {
					for _, call := range v.CallsIn(vg.Node(dv), decode, false) {
						if len(call.Args) == 2 && v.ObjOf(call.Args[1]) == c.Obj(pM, "MetaKeyClientCapabilities") {
							if as, ok := vg.Node(dv).(*ast.AssignStmt); ok && len(as.Lhs) == 2 {
								okVar = v.ObjOf(as.Lhs[1])
							}
						}
					}
				}
				c.Check(okVar != nil && hasAtom(guards, func(a Atom) bool { return a.Val && v.ObjOf(a.E) == okVar }), "validateRequestMeta:capabilities-decoded", v, r,
					"the new-protocol return is guarded by the success flag of the clientCapabilities decode (guards: %s): incomplete metadata must be answered -32602, not served", atomsString(guards))
				c.Check(okDom && hasAtom(guards, func(a Atom) bool {
					x, y, op, ok := binaryCmp(a.E)
					return ok && op == token.LSS && !a.Val && v.ObjOf(y) == c.Obj(pM, "protocolVersion20260728") && x != nil
				}), "validateRequestMeta:new-protocol-only-when-complete", v, r, "usesNewProtocol:true is returned only for version >= 2026-07-28 and after clientCapabilities decoded successfully (guards: %s)", atomsString(guards))
			}
		}
		c.Pin("usesNewProtocol:true returns", nTrue, 1)
		// a _meta entry counts as present only if the key exists and its value is not JSON null (a null would otherwise
		// decode into a nil pointer that is reported as "present" and dereferenced by the validation that follows)
		dm := c.Fn(pM, "", "decodeMetaValue")
		dmg := dm.Graph()
		var rawV, okV types.Object
		for _, w := range Writes(dm.Body, false) {
			if as, isAs := w.Stmt.(*ast.AssignStmt); isAs && len(as.Lhs) == 2 && len(as.Rhs) == 1 {
				if mm, _, isIx := indexOf(as.Rhs[0]); isIx && dm.ObjOf(mm) == types.Object(dm.NonRecvParams()[0]) {
					rawV, okV = dm.ObjOf(as.Lhs[0]), dm.ObjOf(as.Lhs[1])
				}
			}
		}
		c.Need(rawV != nil && okV != nil, "decodeMetaValue: raw, ok := m[key]")
		nP := 0
		for i, r := range dm.Returns() {
			if len(r.Results) != 2 || exprStr(r.Results[1]) != "true" {
				continue
			}
			nP++
			guards := dmg.GuardsAt(dmg.VertexOf(r))
			present := hasAtom(guards, func(a Atom) bool { return a.Val && dm.ObjOf(a.E) == okV })
			nonNull := hasAtom(guards, func(a Atom) bool { return AtomSaysNil(a, false, func(e ast.Expr) bool { return dm.ObjOf(e) == rawV }) })
			c.Check(present && nonNull, "decodeMetaValue:present-means-key-and-non-null#"+itoa(i), dm, r, "(value, true) is returned only when the key exists and its value is not nil (guards: %s)", atomsString(guards))
		}
		c.Pin("decodeMetaValue 'present' returns", nP, 2)
	})

	c.Import("R-C06-6", "what a session's server/discover advertises (and therefore whether per-request metadata is accepted on it) depends on that session's own transport: the filtered version list is per-session state, and the flag that admits 2026-07-28 over HTTP is the configured Stateless option and nothing else", "C07", "R-C07-2", func(k string) bool {
		return strings.Contains(k, "per-session") || strings.HasPrefix(k, "Stateless") || strings.HasPrefix(k, "stateless") || strings.HasPrefix(k, "discover:")
	})
	c.Import("R-C06-4", "the HTTP transport cannot be used to smuggle per-request metadata past the stateful endpoint: the body's _meta.protocolVersion is read unconditionally and triggers the header/body cross-check", "C12", "R-C12-1", func(k string) bool { return strings.Contains(k, "mirror-gate") })
	c.Import("R-C06-5", "the _meta member that opens the per-request path is matched case-sensitively, like every other wire decode (a differently-cased key must not count as metadata)", "C19", "R-C19-5", nil)

	c.Rule("R-C06-3", "lifecycle state changes only through guarded transitions; rejected initialize/initialized leave the state untouched", func() {
		type wsite struct {
			f *Func
			n ast.Node
		}
		writers := map[*types.Var][]wsite{}
		for _, f := range c.funcsWithLits(pM) {
			for _, fld := range []*types.Var{initParamsF, initdParamsF} {
				for _, w := range f.FieldWrites(f.Body, fld, false) {
					writers[fld] = append(writers[fld], wsite{f, w})
				}
			}
		}
		// extractRequestMeta (what the gate sees of a request's _meta) decides by decoding the params, like the typed
		// decoder does: it gives up only for empty params or a failed decode — not on a textual shortcut that can
		// disagree with the decoder about what the params contain
		if erm := c.P.FuncOf(c.P.LookupFuncObj(pM, "", "extractRequestMeta")); erm != nil {
			c.touch(erm)
			eg := erm.Graph()
			rawP := erm.NonRecvParams()
			for i, r := range erm.Returns() {
				if len(r.Results) != 1 || !isNilIdent(r.Results[0]) {
					continue
				}
				gs := eg.GuardsAt(eg.VertexOf(r))
				okEmpty := len(rawP) == 1 && hasAtom(gs, func(a Atom) bool {
					x, y, op, ok := binaryCmp(a.E)
					if !ok || !a.Val || op != token.EQL {
						return false
					}
					ce, isC := ast.Unparen(x).(*ast.CallExpr)
					z, isZ := erm.ConstInt(y)
					return isC && erm.BuiltinName(ce) == "len" && erm.ObjOf(ce.Args[0]) == types.Object(rawP[0]) && isZ && z == 0
				})
				okErr := hasAtom(gs, func(a Atom) bool {
					x, trueWhenNil, isNil := NilTest(a.E)
					if !isNil || a.Val == trueWhenNil {
						return false
					}
					_, isErr := erm.TypeOf(x).(*types.Named)
					return isErr && erm.TypeOf(x).String() == "error"
				})
				nl, what := eg.gateLeaves(eg.VertexOf(r), true)
				c.Check((okEmpty || okErr) && nl <= 1, "extractRequestMeta:nil-only-for-empty-or-undecodable#"+itoa(i), erm, r, "the request is treated as carrying no _meta only when its params are empty or do not decode (guards: %s; %d tests: %s)", atomsString(gs), nl, what)
			}
		}
		us := c.FnObj(pM, "ServerSession", "updateState")
		inUpdateState := func(f *Func) bool {
			call := litParentCall(f)
			return call != nil && f.Parent.IsCallTo(call, us)
		}
		for _, w := range writers[initParamsF] {
			root := w.f.Root()
			key := "InitializeParams-writer:" + w.f.Name()
			fg := w.f.Graph()
			guards := fg.GuardsAt(fg.VertexOf(w.n))
			switch root.Name() {
			case "(*ServerSession).initialize":
				wi, _ := phaseFlags(root, initParamsF, initdParamsF)
				ok := inUpdateState(w.f) && wi != nil && hasAtom(guards, func(a Atom) bool { return !a.Val && w.f.ObjOf(a.E) == wi })
				// wasInit is computed from the same state in the same closure
				c.Check(ok, key, w.f, w.n, "initialize stores its params only under !wasInit inside updateState (guards: %s): a second initialize cannot overwrite the session", atomsString(guards))
				// ... and a second initialize is refused whatever it carries: with wasInit true no successful return is
				// reachable (no retransmission, same-params or not-yet-confirmed exception)
				if wi != nil {
					rg := root.Graph()
					reach := rg.ReachUnder(func(e ast.Expr) tri {
						if root.ObjOf(ast.Unparen(e)) == wi {
							return triTrue
						}
						return triUnknown
					}, nil)
					for i, r := range root.Returns() {
						if len(r.Results) == 2 && isNilIdent(r.Results[1]) {
							c.Check(!reach[rg.VertexOf(r)], "initialize:second-initialize-always-refused#"+itoa(i), root, r, "with the session already initialized no successful return of initialize is reachable")
						}
					}
				}
			case "(*ServerSession).handle":
				og := root.Graph()
				ogd := og.GuardsAt(og.VertexOf(litParentCall(w.f)))
				ok := inUpdateState(w.f) && hasAtom(ogd, func(a Atom) bool {
					return !a.Val && phaseVar(root, initParamsF) != nil && root.ObjOf(a.E) == phaseVar(root, initParamsF)
				}) && hasAtom(ogd, func(a Atom) bool { return a.Val && root.IsField(a.E, unp) })
				c.Check(ok, key, w.f, w.n, "handle adopts per-request metadata as session parameters only when not yet initialized and the request uses the new protocol (guards: %s)", atomsString(ogd))
				// ... and only after the request passed the version gate: a rejected request must not change the phase
				supp := c.Obj(pM, "supportedProtocolVersions")
				// under the conditions of the -32022 refusal (the request uses the new protocol and names a version that is
				// not in the supported table) the adoption is unreachable: decided by evaluating the branch conditions under
				// those assumptions, so one `if a && !b` and two nested ifs are the same gate
				okV := false
				for _, r := range root.Returns() {
					rv := og.VertexOf(r)
					gs := og.GuardsAt(rv)
					if !hasAtom(gs, func(a Atom) bool {
						ce, isC := ast.Unparen(a.E).(*ast.CallExpr)
						return !a.Val && isC && len(ce.Args) == 2 && root.ObjOf(ce.Args[0]) == supp
					}) {
						continue
					}
					okV = !og.ReachAssuming(gs)[og.VertexOf(litParentCall(w.f))]
				}
				// ... and after every other refusal too: once the metadata is adopted the request goes to its handler. No
				// return that refuses the request (an error result, before the dispatch) can follow the adoption; otherwise
				// a request that is answered "method not found" has already opened the gate for the next one
				av := og.VertexOf(litParentCall(w.f))
				var dispatchV []int
				if hr := c.FnObj(pM, "", "handleReceive"); hr != nil {
					dispatchV = og.callVertices(hr)
				}
				c.Must(len(dispatchV) > 0, key+":dispatch-found", root, nil, "handle dispatches through handleReceive")
				if len(dispatchV) > 0 && av >= 0 {
					after := og.ReachableFromAvoiding(av, dispatchV[0])
					okNoRefusal := true
					var bad ast.Node
					for _, r := range root.Returns() {
						if len(r.Results) == 2 && !isNilIdent(r.Results[1]) && after[og.VertexOf(r)] {
							okNoRefusal = false
							bad = r
						}
					}
					c.Check(okNoRefusal, key+":no-refusal-after-adoption", root, bad, "between the adoption of the request's metadata and the dispatch to the handler no return refuses the request: a refused request leaves the session's phase as it was")
				}
				c.Check(okV, key+":after-version-gate", w.f, w.n, "the session adopts the request's metadata only after the unsupported-version test has passed (guards: %s); otherwise a request answered -32022 still flips the session to initialized", atomsString(ogd))
			case "(*Server).discover":
				og := root.Graph()
				ogd := og.GuardsAt(og.VertexOf(litParentCall(w.f)))
				ok := inUpdateState(w.f) && hasAtom(ogd, func(a Atom) bool {
					x, y, op, ok := binaryCmp(a.E)
					return ok && op == token.GEQ && a.Val && root.ObjOf(y) == c.Obj(pM, "protocolVersion20260728") && x != nil
				})
				c.Check(ok, key, w.f, w.n, "discover persists parameters only when the transport can serve 2026-07-28 (guards: %s)", atomsString(ogd))
			case "(*StreamableHTTPHandler).ephemeralConnectOpts":
				c.Ok(key, w.f, w.n, "constructor of the state of a fresh stateless session (unpublished object)")
			default:
				c.Fail(key, w.f, w.n, "unexpected writer of ServerSessionState.InitializeParams: the lifecycle phase can change outside the guarded transitions")
			}
		}
		c.Pin("InitializeParams writers", len(writers[initParamsF]), 4)
		for _, w := range writers[initdParamsF] {
			root := w.f.Root()
			key := "InitializedParams-writer:" + w.f.Name()
			fg := w.f.Graph()
			guards := fg.GuardsAt(fg.VertexOf(w.n))
			switch root.Name() {
			case "(*ServerSession).initialized":
				wi, wd := phaseFlags(root, initParamsF, initdParamsF)
				ok := inUpdateState(w.f) && wi != nil && wd != nil && hasAtom(guards, func(a Atom) bool { return a.Val && w.f.ObjOf(a.E) == wi }) && hasAtom(guards, func(a Atom) bool { return !a.Val && w.f.ObjOf(a.E) == wd })
				// the same two facts tested on the state itself, in the closure that stores
				if !ok && inUpdateState(w.f) {
					ok = hasAtom(guards, func(a Atom) bool {
						return AtomSaysNil(a, false, func(e ast.Expr) bool { return w.f.IsField(e, initParamsF) })
					}) &&
						hasAtom(guards, func(a Atom) bool {
							return AtomSaysNil(a, true, func(e ast.Expr) bool { return w.f.IsField(e, initdParamsF) })
						})
				}
				c.Check(ok, key, w.f, w.n, "initialized stores only under wasInit && !wasInitd (guards: %s)", atomsString(guards))
			case "(*StreamableHTTPHandler).ephemeralConnectOpts":
				c.Ok(key, w.f, w.n, "constructor of a fresh stateless session")
			default:
				c.Fail(key, w.f, w.n, "unexpected writer of ServerSessionState.InitializedParams")
			}
		}
		c.Pin("InitializedParams writers", len(writers[initdParamsF]), 2)
		// the flags are computed from the state inside the same updateState closure, before the store
		for _, name := range []string{"initialize", "initialized"} {
			f := c.Fn(pM, "ServerSession", name)
			for _, l := range f.Lits() {
				if !inUpdateState(l) {
					continue
				}
				lg := l.Graph()
				for _, w := range Writes(l.Body, false) {
					wi, wd := phaseFlags(f, initParamsF, initdParamsF)
					if w.RHS == nil || (l.ObjOf(w.LHS) != wi && l.ObjOf(w.LHS) != wd) || l.ObjOf(w.LHS) == nil {
						continue
					}
					x, twn, ok := NilTest(w.RHS)
					want := initParamsF
					if l.ObjOf(w.LHS) == wd {
						want = initdParamsF
					}
					okSrc := ok && !twn && l.IsField(x, want)
					// precedes any store
					okOrder := true
					for _, fw := range append(l.FieldWrites(l.Body, initParamsF, false), l.FieldWrites(l.Body, initdParamsF, false)...) {
						if !lg.Dominates(lg.VertexOf(w.Stmt), lg.VertexOf(fw)) {
							okOrder = false
						}
					}
					c.Check(okSrc && okOrder, name+":phase-flag("+want.Name()+")-from-state", l, w.Stmt, "the flag recording whether %s was already set is computed from the session state in the same locked closure, before the store", want.Name())
				}
			}
			// error returns are on the non-writing branches
			fg := f.Graph()
			nErr := 0
			for _, r := range f.Returns() {
				if len(r.Results) != 2 || isNilIdent(r.Results[1]) {
					continue
				}
				guards := fg.GuardsAt(fg.VertexOf(r))
				wi, wd := phaseFlags(f, initParamsF, initdParamsF)
				paramsP := f.NonRecvParams()[len(f.NonRecvParams())-1]
				ok := hasAtom(guards, func(a Atom) bool {
					o := f.ObjOf(a.E)
					return (o != nil && o == wi && ((name == "initialize" && a.Val) || (name == "initialized" && !a.Val))) || (o != nil && o == wd && a.Val) || AtomSaysNil(a, true, func(e ast.Expr) bool { return f.ObjOf(e) == types.Object(paramsP) })
				})
				nErr++
				if !ok {
					// the closure reports its refusal through a captured error: every assignment of a non-nil value to it lies on
					// a path of the closure that cannot reach a store any more, and the rejection is returned under "that error is set"
					for _, l := range f.Lits() {
						if !inUpdateState(l) {
							continue
						}
						lg := l.Graph()
						stores := append(l.FieldWrites(l.Body, initParamsF, false), l.FieldWrites(l.Body, initdParamsF, false)...)
						for _, w := range Writes(l.Body, false) {
							ev, isV := l.ObjOf(w.LHS).(*types.Var)
							if !isV || ev.IsField() || w.RHS == nil || isNilIdent(w.RHS) || types.TypeString(ev.Type(), nil) != "error" {
								continue
							}
							clean := len(stores) > 0
							for _, st := range stores {
								if lg.ReachableFrom(lg.VertexOf(w.Stmt))[lg.VertexOf(st)] {
									clean = false
								}
							}
							if clean && hasAtom(guards, func(a Atom) bool {
								return AtomSaysNil(a, false, func(e ast.Expr) bool { o := f.ObjOf(e); return o != nil && f.aliasesOf(o)[types.Object(ev)] })
							}) {
								ok = true
							}
						}
					}
				}
				c.Check(ok, name+":reject-on-non-writing-branch", f, r, "the rejection is returned exactly on a branch where the closure did not store (guards: %s)", atomsString(guards))
			}
			c.Pin(name+" rejections", nErr, map[string]int{"initialize": 2, "initialized": 2}[name])
		}
		// updateState runs its mutator under ss.mu
		usf := c.Fn(pM, "ServerSession", "updateState")
		mut := usf.Params()[1]
		for _, call := range usf.AllCalls(usf.Body, false) {
			if usf.ObjOf(call.Fun) == mut {
				c.Check(usf.heldLocal(call)["ServerSession.mu"], "updateState:mutator-under-mu", usf, call, "the state mutator runs with ss.mu held")
			}
		}
	})
}

func boolTri(b bool) tri {
	if b {
		return triTrue
	}
	return triFalse
}

// phaseFlags returns the local flags of f (searched in f and its literals) that are assigned from
// `<state>.InitializeParams != nil` and `<state>.InitializedParams != nil`.
func phaseFlags(f *Func, initF, initdF *types.Var) (wasInit, wasInitd types.Object) {
	fs := append([]*Func{f}, f.AllLits()...)
	for _, g := range fs {
		for _, w := range Writes(g.Body, false) {
			if w.RHS == nil {
				continue
			}
			if x, twn, ok := NilTest(w.RHS); ok && !twn {
				if g.IsField(x, initF) {
					wasInit = g.ObjOf(w.LHS)
				}
				if g.IsField(x, initdF) {
					wasInitd = g.ObjOf(w.LHS)
				}
			}
		}
	}
	return
}

// phaseVar is the local of f assigned from `<state>.<fld> != nil`.
func phaseVar(f *Func, fld *types.Var) types.Object {
	a, _ := phaseFlags(f, fld, nil)
	return a
}

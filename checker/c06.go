package main

import (
	"fmt"
	"go/ast"
	"go/constant"
	"go/token"
	"go/types"
	"sort"
	"strings"
)

func init() { register("C06", rulesC06, nil) }

// mapLiteralKeys returns the constant string keys of a package-level map composite literal.
func (c *Ctx) mapLiteralKeys(rel, name string) map[string]ast.Expr {
	pk := c.P.Pkg(rel)
	out := map[string]ast.Expr{}
	for _, f := range pk.Syntax {
		for _, d := range f.Decls {
			gd, ok := d.(*ast.GenDecl)
			if !ok {
				continue
			}
			for _, sp := range gd.Specs {
				vs, ok := sp.(*ast.ValueSpec)
				if !ok {
					continue
				}
				for i, nm := range vs.Names {
					if nm.Name != name || i >= len(vs.Values) {
						continue
					}
					cl, ok := vs.Values[i].(*ast.CompositeLit)
					if !ok {
						continue
					}
					for _, el := range cl.Elts {
						if kv, ok := el.(*ast.KeyValueExpr); ok {
							if tv, ok := pk.TypesInfo.Types[kv.Key]; ok && tv.Value != nil && tv.Value.Kind() == constant.String {
								out[constant.StringVal(tv.Value)] = kv.Value
							}
						}
					}
				}
			}
		}
	}
	return out
}

// errorCodeOf classifies the error expression of a return: the constant Code of a &jsonrpc.Error{}
// literal, "var:<name>" for an error variable, "plain" for fmt.Errorf without a code.
func errorCodeOf(f *Func, e ast.Expr) string {
	e = ast.Unparen(e)
	if u, ok := e.(*ast.UnaryExpr); ok && u.Op == token.AND {
		if cl, ok := u.X.(*ast.CompositeLit); ok {
			for _, el := range cl.Elts {
				if kv, ok := el.(*ast.KeyValueExpr); ok && exprStr(kv.Key) == "Code" {
					if v, ok := f.ConstInt(kv.Value); ok {
						return fmt.Sprint(v)
					}
				}
			}
			return "wire-error(no constant code)"
		}
	}
	if id, ok := e.(*ast.Ident); ok {
		if id.Name == "nil" {
			return "nil"
		}
		// a local holding the error: the assignment that reaches this use
		if def := f.reachingDef(f.Graph(), id); def != nil {
			if _, again := ast.Unparen(def).(*ast.Ident); !again {
				return errorCodeOf(f, def)
			}
		}
		return "var:" + types.TypeString(f.TypeOf(id), func(p *types.Package) string { return p.Name() })
	}
	if ce, ok := e.(*ast.CallExpr); ok {
		if ws := f.ErrorfWraps(ce); ws != nil {
			for _, w := range ws {
				if o := f.ObjOf(w); o != nil {
					return "wraps:" + o.Name()
				}
			}
		}
		return "plain"
	}
	return "other"
}

func rulesC06(c *Ctx) {
	h := c.Fn(pM, "ServerSession", "handle")
	g := h.Graph()
	hr := c.FnObj(pM, "", "handleReceive")
	vrm := c.FnObj(pM, "", "validateRequestMeta")
	methodF := c.Field(pJ, "Request", "Method")
	unp := c.Field(pM, "validatedMeta", "usesNewProtocol")
	initParamsF := c.Field(pM, "ServerSessionState", "InitializeParams")
	initdParamsF := c.Field(pM, "ServerSessionState", "InitializedParams")

	c.Rule("R-C06-1", "decision table of the receive gate: for every known method × {initialized} × {new protocol}, which paths reach the handler and which rejection is returned", func() {
		hv := g.callVertices(hr)
		c.Need(len(hv) == 1, "handle: one handleReceive call")
		// the local `initialized` is defined from state.InitializeParams != nil, under ss.mu, and never reassigned
		var initVar types.Object
		for _, w := range Writes(h.Body, false) {
			if w.RHS == nil {
				continue
			}
			if x, twn, ok := NilTest(w.RHS); ok && !twn && h.IsField(x, initParamsF) {
				initVar = h.ObjOf(w.LHS)
				c.Check(h.heldLocal(w.Stmt)["ServerSession.mu"], "handle:phase-read-under-mu", h, w.Stmt, "the lifecycle phase is read under ss.mu")
			}
		}
		if initVar == nil {
			// the phase is read through a helper (a locked accessor, a phase enumeration): the local that is false without
			// InitializeParams and true with them, whatever its defining expression
			initVar = c.c06PhaseVar(h)
		}
		c.Need(initVar != nil, "handle: local `initialized` := state.InitializeParams != nil")
		// (a declaration without a value, `var initialized bool`, assigns nothing)
		nPhaseWrites := 0
		for _, w := range Writes(h.Body, true) {
			if id, isID := ast.Unparen(w.LHS).(*ast.Ident); isID && h.ObjOf(id) == initVar {
				if vs, isVS := w.Stmt.(*ast.ValueSpec); isVS && len(vs.Values) == 0 {
					continue
				}
				nPhaseWrites++
			}
		}
		c.Check(nPhaseWrites == 1, "handle:phase-flag-stable", h, nil, "the phase flag is assigned once")
		methods := c.mapLiteralKeys(pM, "serverMethodInfos")
		c.Pin("serverMethodInfos keys", len(methods), 15)
		names := []string{"\x00other"}
		for m := range methods {
			names = append(names, m)
		}
		sort.Strings(names)
		lifecycle := map[string]bool{"initialize": true, "notifications/initialized": true, "ping": true}
		// methods that do not exist under 2026-07-28 (SEP-2575/2577; docs/protocol.md): the handshake, ping,
		// and the stateful per-session features replaced by subscriptions/listen and per-request _meta.
		removed := map[string]bool{"initialize": true, "notifications/initialized": true, "ping": true, "logging/setLevel": true,
			"resources/subscribe": true, "resources/unsubscribe": true, "notifications/roots/list_changed": true}
		// classify returns
		type ret struct {
			v    int
			code string
		}
		var rets []ret
		for _, r := range h.Returns() {
			if len(r.Results) == 2 {
				rets = append(rets, ret{g.VertexOf(r), errorCodeOf(h, r.Results[1])})
			}
		}
		for _, m := range names {
			for _, init := range []bool{false, true} {
				for _, newp := range []bool{false, true} {
					rowEnv := c.c06NewEnv(boolTri(!init), triUnknown, boolTri(newp), m)
					leaf := func(e ast.Expr) tri {
						e = ast.Unparen(e)
						if h.ObjOf(e) == initVar && initVar != nil {
							if id, ok := e.(*ast.Ident); ok && id != nil {
								return boolTri(init)
							}
						}
						// (a local that holds a copy of the field is the field)
						if h.IsField(h.valueOf(e), unp) {
							return boolTri(newp)
						}
						// the table is about requests: the request handed to handle exists (a defensive nil test of a parameter
						// is not one of the gate's decisions)
						if x, testsNil, ok := NilTest(e); ok {
							for _, p := range h.Params() {
								if h.ObjOf(x) == types.Object(p) {
									return boolTri(!testsNil)
								}
							}
						}
						if x, y, op, ok := binaryCmp(e); ok && (op == token.EQL || op == token.NEQ) {
							var k ast.Expr
							if h.IsField(h.valueOf(x), methodF) {
								k = y
							} else if h.IsField(h.valueOf(y), methodF) {
								k = x
							}
							if k != nil {
								if s, ok := h.ConstString(k); ok {
									return boolTri((s == m) == (op == token.EQL))
								}
							}
						}
						// anything else (a named predicate over the method, a local with several assignments, a phase read through
						// an accessor): its value under this row's valuation, if it has one
						return rowEnv.leaf(h)(e)
					}
					pre := g.ReachUnder(leaf, func(v int) bool { return v == hv[0] })
					all := g.ReachUnder(leaf, nil)
					dispatch := all[hv[0]]
					codes := map[string]bool{}
					for _, r := range rets {
						if pre[r.v] {
							codes[r.code] = true
						}
					}
					var cs []string
					for k := range codes {
						cs = append(cs, k)
					}
					sort.Strings(cs)
					// expected row
					wantDispatch := true
					allowed := map[string]bool{"var:error": true} // the error returned by validateRequestMeta
					switch {
					case newp:
						allowed["-32022"] = true
						if removed[m] {
							wantDispatch = false
							allowed["-32601"] = true
						}
					case m == "server/discover":
						wantDispatch = false
						allowed["-32601"] = true
					case !init && !lifecycle[m]:
						wantDispatch = false
						allowed["plain"] = true
					}
					label := strings.TrimPrefix(m, "\x00")
					key := fmt.Sprintf("gate[%s,init=%v,new=%v]", label, init, newp)
					extra := ""
					for _, k := range cs {
						if !allowed[k] {
							extra += " unexpected rejection " + k
						}
					}
					mustReject := !wantDispatch
					rejected := false
					for _, k := range cs {
						if k != "var:error" && k != "-32022" {
							rejected = true
						}
					}
					ok := dispatch == wantDispatch && extra == "" && (!mustReject || rejected)
					c.paths++
					if ok {
						c.Ok(key, h, nil, "handler reachable=%v, pre-dispatch rejections=%v", dispatch, cs)
					} else {
						c.Fail(key, h, g.Node(hv[0]), "gate table mismatch: handler reachable=%v (expected %v), pre-dispatch rejections=%v%s. Expected: before initialize a legacy session serves only initialize/initialized/ping; removed methods under the new protocol and discover under the old one are method-not-found", dispatch, wantDispatch, cs, extra)
					}
				}
			}
		}
	})

	c.Rule("R-C06-2", "per-request metadata is validated before dispatch: validateRequestMeta and the supported-version test dominate the handler; their failures carry -32602 / -32022 with the supported list", func() {
		hv := g.callVertices(hr)[0]
		vv := g.callVertices(vrm)
		c.Need(len(vv) == 1, "handle: validateRequestMeta call")
		c.Check(g.Dominates(vv[0], hv), "handle:meta-validated-before-dispatch", h, g.Node(hv), "validateRequestMeta dominates handleReceive")
		// its error is returned
		var errVar types.Object
		for _, w := range Writes(g.Node(vv[0]), false) {
			if t := h.TypeOf(w.LHS); t != nil && t.String() == "error" {
				errVar = h.ObjOf(w.LHS)
			}
		}
		okRet := false
		for _, r := range h.Returns() {
			if len(r.Results) == 2 && h.ObjOf(r.Results[1]) == errVar && errVar != nil {
				if hasAtom(g.GuardsAt(g.VertexOf(r)), func(a Atom) bool { return AtomSaysNil(a, false, func(e ast.Expr) bool { return h.ObjOf(e) == errVar }) }) && !g.ReachableFrom(hv)[g.VertexOf(r)] {
					okRet = true
				}
			}
		}
		c.Check(okRet, "handle:meta-error-returned", h, nil, "a metadata validation error is returned before any dispatch")
		hguards := g.GuardsAt(hv)
		c.Check(hasAtom(hguards, func(a Atom) bool {
			return AtomSaysNil(a, true, func(e ast.Expr) bool { return errVar != nil && h.ObjOf(e) == errVar })
		}),
			"handle:dispatch-only-with-valid-meta", h, g.Node(hv), "handleReceive is reached only when validateRequestMeta returned no error, unconditionally (guards: %s)", atomsString(hguards))
		// unsupported version
		supp := c.Obj(pM, "supportedProtocolVersions")
		found := false
		for _, r := range h.Returns() {
			if len(r.Results) != 2 || errorCodeOf(h, r.Results[1]) != "-32022" {
				continue
			}
			found = true
			rv := g.VertexOf(r)
			guards := g.GuardsAt(rv)
			okG := hasAtom(guards, func(a Atom) bool { return a.Val && h.IsField(a.E, unp) }) && hasAtom(guards, func(a Atom) bool {
				ce, ok := a.E.(*ast.CallExpr)
				return ok && !a.Val && len(ce.Args) == 2 && h.ObjOf(ce.Args[0]) == supp
			})
			c.Check(okG && !g.ReachableFrom(hv)[rv], "handle:unsupported-version-rejected", h, r, "a new-protocol request naming a version outside supportedProtocolVersions is answered -32022 before dispatch (guards: %s)", atomsString(guards))
			// payload lists the supported versions
			lists := false
			inspectNoLit(h.Body, func(n ast.Node) {
				if kv, ok := n.(*ast.KeyValueExpr); ok && exprStr(kv.Key) == "Supported" && h.ObjOf(kv.Value) == supp {
					lists = true
				}
			})
			c.Check(lists, "handle:unsupported-version-lists-supported", h, r, "the -32022 payload lists supportedProtocolVersions")
		}
		c.Check(found, "handle:unsupported-version-return", h, nil, "a return with CodeUnsupportedProtocolVersion exists")
		// the complementary test: dispatch of a new-protocol request implies the version is supported
		// (every other condition left open — in particular whether the session already counts as initialized)
		reach := g.ReachUnder(func(e ast.Expr) tri {
			if h.IsField(e, unp) {
				return triTrue
			}
			if ce, ok := e.(*ast.CallExpr); ok && len(ce.Args) == 2 && h.ObjOf(ce.Args[0]) == supp {
				return triFalse
			}
			return triUnknown
		}, nil)
		c.Check(!reach[hv], "handle:unsupported-version-never-dispatched", h, g.Node(hv), "with usesNewProtocol and a version outside supportedProtocolVersions the dispatch is unreachable whatever else holds (initialized or not)")
		// validateRequestMeta's own returns
		v := c.Fn(pM, "", "validateRequestMeta")
		vg := v.Graph()
		nTrue := 0
		for i, r := range v.Returns() {
			if len(r.Results) != 2 {
				continue
			}
			if !isNilIdent(r.Results[1]) {
				c.Check(errorCodeOf(v, r.Results[1]) == "-32602" && isNilIdent(r.Results[0]), "validateRequestMeta:return#"+itoa(i), v, r, "a failure return carries CodeInvalidParams and no metadata")
				continue
			}
			// usesNewProtocol: true only after clientCapabilities decoded
			isTrue := false
			ast.Inspect(r.Results[0], func(n ast.Node) bool {
				if kv, ok := n.(*ast.KeyValueExpr); ok && v.ObjOf(kv.Key) == types.Object(unp) && exprStr(kv.Value) == "true" {
					isTrue = true
				}
				return true
			})
			if isTrue {
				nTrue++
				decode := c.FnObj(pM, "", "decodeMetaValue")
				okDom := false
				for _, dv := range vg.callVertices(decode) {
					for _, call := range v.CallsIn(vg.Node(dv), decode, false) {
						if len(call.Args) == 2 && v.ObjOf(call.Args[1]) == c.Obj(pM, "MetaKeyClientCapabilities") && vg.Dominates(dv, vg.VertexOf(r)) {
							okDom = true
						}
					}
				}
				guards := vg.GuardsAt(vg.VertexOf(r))
				// the ok result of the capabilities decode holds
				var okVar types.Object
				for _, dv := range vg.callVertices(decode) {
					for _, call := range v.CallsIn(vg.Node(dv), decode, false) {
						if len(call.Args) == 2 && v.ObjOf(call.Args[1]) == c.Obj(pM, "MetaKeyClientCapabilities") {
							if as, ok := vg.Node(dv).(*ast.AssignStmt); ok && len(as.Lhs) == 2 {
								okVar = v.ObjOf(as.Lhs[1])
							}
						}
					}
				}
				c.Check(okVar != nil && hasAtom(guards, func(a Atom) bool { return a.Val && v.ObjOf(a.E) == okVar }), "validateRequestMeta:capabilities-decoded", v, r,
					"the new-protocol return is guarded by the success flag of the clientCapabilities decode (guards: %s): incomplete metadata must be answered -32602, not served", atomsString(guards))
				c.Check(okDom && hasAtom(guards, func(a Atom) bool {
					x, y, op, ok := binaryCmp(a.E)
					return ok && op == token.LSS && !a.Val && v.ObjOf(y) == c.Obj(pM, "protocolVersion20260728") && x != nil
				}), "validateRequestMeta:new-protocol-only-when-complete", v, r, "usesNewProtocol:true is returned only for version >= 2026-07-28 and after clientCapabilities decoded successfully (guards: %s)", atomsString(guards))
			}
		}
		c.Pin("usesNewProtocol:true returns", nTrue, 1)
		// a _meta entry counts as present only if the key exists and its value is not JSON null (a null would otherwise
		// decode into a nil pointer that is reported as "present" and dereferenced by the validation that follows)
		dm := c.Fn(pM, "", "decodeMetaValue")
		dmg := dm.Graph()
		var rawV, okV types.Object
		for _, w := range Writes(dm.Body, false) {
			if as, isAs := w.Stmt.(*ast.AssignStmt); isAs && len(as.Lhs) == 2 && len(as.Rhs) == 1 {
				if mm, _, isIx := indexOf(as.Rhs[0]); isIx && dm.ObjOf(mm) == types.Object(dm.NonRecvParams()[0]) {
					rawV, okV = dm.ObjOf(as.Lhs[0]), dm.ObjOf(as.Lhs[1])
				}
			}
		}
		c.Need(rawV != nil && okV != nil, "decodeMetaValue: raw, ok := m[key]")
		nP := 0
		for i, r := range dm.Returns() {
			if len(r.Results) != 2 || exprStr(r.Results[1]) != "true" {
				continue
			}
			nP++
			guards := dmg.GuardsAt(dmg.VertexOf(r))
			present := hasAtom(guards, func(a Atom) bool { return a.Val && dm.ObjOf(a.E) == okV })
			nonNull := hasAtom(guards, func(a Atom) bool { return AtomSaysNil(a, false, func(e ast.Expr) bool { return dm.ObjOf(e) == rawV }) })
			c.Check(present && nonNull, "decodeMetaValue:present-means-key-and-non-null#"+itoa(i), dm, r, "(value, true) is returned only when the key exists and its value is not nil (guards: %s)", atomsString(guards))
		}
		c.Pin("decodeMetaValue 'present' returns", nP, 2)
	})

	c.Import("R-C06-6", "what a session's server/discover advertises (and therefore whether per-request metadata is accepted on it) depends on that session's own transport: the filtered version list is per-session state, and the flag that admits 2026-07-28 over HTTP is the configured Stateless option and nothing else", "C07", "R-C07-2", func(k string) bool {
		return strings.Contains(k, "per-session") || strings.HasPrefix(k, "Stateless") || strings.HasPrefix(k, "stateless") || strings.HasPrefix(k, "discover:")
	})
	c.Import("R-C06-4", "the HTTP transport cannot be used to smuggle per-request metadata past the stateful endpoint: the body's _meta.protocolVersion is read unconditionally and triggers the header/body cross-check", "C12", "R-C12-1", func(k string) bool { return strings.Contains(k, "mirror-gate") })
	c.Import("R-C06-5", "the _meta member that opens the per-request path is matched case-sensitively, like every other wire decode (a differently-cased key must not count as metadata)", "C19", "R-C19-5", nil)

	c.Rule("R-C06-3", "lifecycle state changes only through guarded transitions; rejected initialize/initialized leave the state untouched", func() {
		type wsite struct {
			f *Func
			n ast.Node
		}
		writers := map[*types.Var][]wsite{}
		for _, f := range c.funcsWithLits(pM) {
			for _, fld := range []*types.Var{initParamsF, initdParamsF} {
				for _, w := range f.FieldWrites(f.Body, fld, false) {
					writers[fld] = append(writers[fld], wsite{f, w})
				}
			}
		}
		// extractRequestMeta (what the gate sees of a request's _meta) decides by decoding the params, like the typed
		// decoder does: it gives up only for empty params or a failed decode — not on a textual shortcut that can
		// disagree with the decoder about what the params contain
		if erm := c.P.FuncOf(c.P.LookupFuncObj(pM, "", "extractRequestMeta")); erm != nil {
			c.touch(erm)
			eg := erm.Graph()
			rawP := erm.NonRecvParams()
			for i, r := range erm.Returns() {
				if len(r.Results) != 1 || !isNilIdent(r.Results[0]) {
					continue
				}
				gs := eg.GuardsAt(eg.VertexOf(r))
				okEmpty := len(rawP) == 1 && hasAtom(gs, func(a Atom) bool {
					x, y, op, ok := binaryCmp(a.E)
					if !ok || !a.Val || op != token.EQL {
						return false
					}
					ce, isC := ast.Unparen(x).(*ast.CallExpr)
					z, isZ := erm.ConstInt(y)
					return isC && erm.BuiltinName(ce) == "len" && erm.ObjOf(ce.Args[0]) == types.Object(rawP[0]) && isZ && z == 0
				})
				okErr := hasAtom(gs, func(a Atom) bool {
					x, trueWhenNil, isNil := NilTest(a.E)
					if !isNil || a.Val == trueWhenNil {
						return false
					}
					_, isErr := erm.TypeOf(x).(*types.Named)
					return isErr && erm.TypeOf(x).String() == "error"
				})
				nl, what := eg.gateLeaves(eg.VertexOf(r), true)
				c.Check((okEmpty || okErr) && nl <= 1, "extractRequestMeta:nil-only-for-empty-or-undecodable#"+itoa(i), erm, r, "the request is treated as carrying no _meta only when its params are empty or do not decode (guards: %s; %d tests: %s)", atomsString(gs), nl, what)
			}
		}
		us := c.FnObj(pM, "ServerSession", "updateState")
		inUpdateState := func(f *Func) bool {
			call := litParentCall(f)
			return call != nil && f.Parent.IsCallTo(call, us)
		}
		for _, w := range writers[initParamsF] {
			root := w.f.Root()
			key := "InitializeParams-writer:" + w.f.Name()
			fg := w.f.Graph()
			guards := fg.GuardsAt(fg.VertexOf(w.n))
			switch root.Name() {
			case "(*ServerSession).initialize":
				wi, _ := phaseFlags(root, initParamsF, initdParamsF)
				ok := inUpdateState(w.f) && wi != nil && hasAtom(guards, func(a Atom) bool { return !a.Val && w.f.ObjOf(a.E) == wi })
				// the phase is spelled another way (an enumeration derived from the state, a flag per phase): the same fact by
				// evaluation — in every phase but the first the closure cannot store and no successful return is reachable
				if !ok && inUpdateState(w.f) {
					if rows, decided := c.c06Lifecycle(root, inUpdateState); decided {
						ok = true
						for _, row := range rows {
							if row.phase == "new" {
								continue
							}
							ok = ok && !row.stores
							c.Check(!row.success, "initialize:second-initialize-always-refused("+row.phase+")", root, nil, "with the session in phase %q (an initialize has been accepted) no successful return of initialize is reachable", row.phase)
						}
					}
				}
				// wasInit is computed from the same state in the same closure
				c.Check(ok, key, w.f, w.n, "initialize stores its params only under !wasInit inside updateState (guards: %s): a second initialize cannot overwrite the session", atomsString(guards))
				// ... and a second initialize is refused whatever it carries: with wasInit true no successful return is
				// reachable (no retransmission, same-params or not-yet-confirmed exception)
				if wi != nil {
					rg := root.Graph()
					reach := rg.ReachUnder(func(e ast.Expr) tri {
						if root.ObjOf(ast.Unparen(e)) == wi {
							return triTrue
						}
						return triUnknown
					}, nil)
					for i, r := range root.Returns() {
						if len(r.Results) == 2 && isNilIdent(r.Results[1]) {
							c.Check(!reach[rg.VertexOf(r)], "initialize:second-initialize-always-refused#"+itoa(i), root, r, "with the session already initialized no successful return of initialize is reachable")
						}
					}
				}
			case "(*ServerSession).handle":
				if litParentCall(w.f) == nil {
					// the store stands in handle itself (not in a state-mutating closure): decided by evaluation
					if w.f == root {
						c06Adoption(c, key, root, nil, w.f, w.n)
					} else {
						c.Fail(key, w.f, w.n, "handle stores ServerSessionState.InitializeParams in a function literal that is not a state mutator")
					}
					continue
				}
				og := root.Graph()
				ogd := og.GuardsAt(og.VertexOf(litParentCall(w.f)))
				pv := phaseVar(root, initParamsF)
				if pv == nil {
					pv = c.c06PhaseVar(root)
				}
				ok := inUpdateState(w.f) && hasAtom(ogd, func(a Atom) bool {
					return !a.Val && pv != nil && root.ObjOf(a.E) == pv
				}) && hasAtom(ogd, func(a Atom) bool { return a.Val && root.IsField(a.E, unp) })
				c.Check(ok, key, w.f, w.n, "handle adopts per-request metadata as session parameters only when not yet initialized and the request uses the new protocol (guards: %s)", atomsString(ogd))
				// ... and only after the request passed the version gate: a rejected request must not change the phase
				supp := c.Obj(pM, "supportedProtocolVersions")
				// under the conditions of the -32022 refusal (the request uses the new protocol and names a version that is
				// not in the supported table) the adoption is unreachable: decided by evaluating the branch conditions under
				// those assumptions, so one `if a && !b` and two nested ifs are the same gate
				okV := false
				for _, r := range root.Returns() {
					rv := og.VertexOf(r)
					gs := og.GuardsAt(rv)
					if !hasAtom(gs, func(a Atom) bool {
						ce, isC := ast.Unparen(a.E).(*ast.CallExpr)
						return !a.Val && isC && len(ce.Args) == 2 && root.ObjOf(ce.Args[0]) == supp
					}) {
						continue
					}
					okV = !og.ReachAssuming(gs)[og.VertexOf(litParentCall(w.f))]
				}
				// ... and after every other refusal too: once the metadata is adopted the request goes to its handler. No
				// return that refuses the request (an error result, before the dispatch) can follow the adoption; otherwise
				// a request that is answered "method not found" has already opened the gate for the next one
				av := og.VertexOf(litParentCall(w.f))
				var dispatchV []int
				if hr := c.FnObj(pM, "", "handleReceive"); hr != nil {
					dispatchV = og.callVertices(hr)
				}
				c.Must(len(dispatchV) > 0, key+":dispatch-found", root, nil, "handle dispatches through handleReceive")
				if len(dispatchV) > 0 && av >= 0 {
					after := og.ReachableFromAvoiding(av, dispatchV[0])
					okNoRefusal := true
					var bad ast.Node
					for _, r := range root.Returns() {
						if len(r.Results) == 2 && !isNilIdent(r.Results[1]) && after[og.VertexOf(r)] {
							okNoRefusal = false
							bad = r
						}
					}
					c.Check(okNoRefusal, key+":no-refusal-after-adoption", root, bad, "between the adoption of the request's metadata and the dispatch to the handler no return refuses the request: a refused request leaves the session's phase as it was")
				}
				c.Check(okV, key+":after-version-gate", w.f, w.n, "the session adopts the request's metadata only after the unsupported-version test has passed (guards: %s); otherwise a request answered -32022 still flips the session to initialized", atomsString(ogd))
			case "(*Server).discover":
				og := root.Graph()
				ogd := og.GuardsAt(og.VertexOf(litParentCall(w.f)))
				ok := inUpdateState(w.f) && hasAtom(ogd, func(a Atom) bool {
					x, y, op, ok := binaryCmp(a.E)
					return ok && op == token.GEQ && a.Val && root.ObjOf(y) == c.Obj(pM, "protocolVersion20260728") && x != nil
				})
				c.Check(ok, key, w.f, w.n, "discover persists parameters only when the transport can serve 2026-07-28 (guards: %s)", atomsString(ogd))
			case "(*StreamableHTTPHandler).ephemeralConnectOpts":
				c.Ok(key, w.f, w.n, "constructor of the state of a fresh stateless session (unpublished object)")
			default:
				// a helper of the receive gate: a function whose only caller is handle, called once, before the dispatch. The
				// adoption of the request's metadata then happens in that call; decided by evaluation of both functions
				if w.f == root && root.Obj != nil {
					var sites []*Func
					for _, f := range c.funcsWithLits(pM) {
						if len(f.CallsIn(f.Body, root.Obj, false)) > 0 {
							sites = append(sites, f)
						}
					}
					if len(sites) == 1 && sites[0] == h && len(h.CallsIn(h.Body, root.Obj, false)) == 1 {
						c06Adoption(c, key, h, root, w.f, w.n)
						continue
					}
				}
				c.Fail(key, w.f, w.n, "unexpected writer of ServerSessionState.InitializeParams: the lifecycle phase can change outside the guarded transitions")
			}
		}
		c.Pin("InitializeParams writers", len(writers[initParamsF]), 4)
		for _, w := range writers[initdParamsF] {
			root := w.f.Root()
			key := "InitializedParams-writer:" + w.f.Name()
			fg := w.f.Graph()
			guards := fg.GuardsAt(fg.VertexOf(w.n))
			switch root.Name() {
			case "(*ServerSession).initialized":
				wi, wd := phaseFlags(root, initParamsF, initdParamsF)
				ok := inUpdateState(w.f) && wi != nil && wd != nil && hasAtom(guards, func(a Atom) bool { return a.Val && w.f.ObjOf(a.E) == wi }) && hasAtom(guards, func(a Atom) bool { return !a.Val && w.f.ObjOf(a.E) == wd })
				// the same two facts tested on the state itself, in the closure that stores
				if !ok && inUpdateState(w.f) {
					ok = hasAtom(guards, func(a Atom) bool {
						return AtomSaysNil(a, false, func(e ast.Expr) bool { return w.f.IsField(e, initParamsF) })
					}) &&
						hasAtom(guards, func(a Atom) bool {
							return AtomSaysNil(a, true, func(e ast.Expr) bool { return w.f.IsField(e, initdParamsF) })
						})
				}
				// ... or decided by evaluation: before an accepted initialize and after an accepted initialized the closure cannot
				// store and the notification is not accepted
				if !ok && inUpdateState(w.f) {
					if rows, decided := c.c06Lifecycle(root, inUpdateState); decided {
						ok = true
						for _, row := range rows {
							if row.phase == "initializing" {
								continue
							}
							ok = ok && !row.stores
							c.Check(!row.success, "initialized:premature-or-repeated-refused("+row.phase+")", root, nil, "with the session in phase %q the initialized notification is not accepted", row.phase)
						}
					}
				}
				c.Check(ok, key, w.f, w.n, "initialized stores only under wasInit && !wasInitd (guards: %s)", atomsString(guards))
			case "(*StreamableHTTPHandler).ephemeralConnectOpts":
				c.Ok(key, w.f, w.n, "constructor of a fresh stateless session")
			default:
				c.Fail(key, w.f, w.n, "unexpected writer of ServerSessionState.InitializedParams")
			}
		}
		c.Pin("InitializedParams writers", len(writers[initdParamsF]), 2)
		// the flags are computed from the state inside the same updateState closure, before the store
		for _, name := range []string{"initialize", "initialized"} {
			f := c.Fn(pM, "ServerSession", name)
			for _, l := range f.Lits() {
				if !inUpdateState(l) {
					continue
				}
				lg := l.Graph()
				for _, w := range Writes(l.Body, false) {
					wi, wd := phaseFlags(f, initParamsF, initdParamsF)
					if w.RHS == nil || (l.ObjOf(w.LHS) != wi && l.ObjOf(w.LHS) != wd) || l.ObjOf(w.LHS) == nil {
						continue
					}
					x, twn, ok := NilTest(w.RHS)
					want := initParamsF
					if l.ObjOf(w.LHS) == wd {
						want = initdParamsF
					}
					okSrc := ok && !twn && l.IsField(x, want)
					// precedes any store
					okOrder := true
					for _, fw := range append(l.FieldWrites(l.Body, initParamsF, false), l.FieldWrites(l.Body, initdParamsF, false)...) {
						if !lg.Dominates(lg.VertexOf(w.Stmt), lg.VertexOf(fw)) {
							okOrder = false
						}
					}
					c.Check(okSrc && okOrder, name+":phase-flag("+want.Name()+")-from-state", l, w.Stmt, "the flag recording whether %s was already set is computed from the session state in the same locked closure, before the store", want.Name())
				}
			}
			// error returns are on the non-writing branches
			fg := f.Graph()
			nErr := 0
			for _, r := range f.Returns() {
				if len(r.Results) != 2 || isNilIdent(r.Results[1]) {
					continue
				}
				guards := fg.GuardsAt(fg.VertexOf(r))
				wi, wd := phaseFlags(f, initParamsF, initdParamsF)
				paramsP := f.NonRecvParams()[len(f.NonRecvParams())-1]
				ok := hasAtom(guards, func(a Atom) bool {
					o := f.ObjOf(a.E)
					return (o != nil && o == wi && ((name == "initialize" && a.Val) || (name == "initialized" && !a.Val))) || (o != nil && o == wd && a.Val) || AtomSaysNil(a, true, func(e ast.Expr) bool { return f.ObjOf(e) == types.Object(paramsP) })
				})
				nErr++
				if !ok {
					// the closure reports its refusal through a captured error: every assignment of a non-nil value to it lies on
					// a path of the closure that cannot reach a store any more, and the rejection is returned under "that error is set"
					for _, l := range f.Lits() {
						if !inUpdateState(l) {
							continue
						}
						lg := l.Graph()
						stores := append(l.FieldWrites(l.Body, initParamsF, false), l.FieldWrites(l.Body, initdParamsF, false)...)
						for _, w := range Writes(l.Body, false) {
							ev, isV := l.ObjOf(w.LHS).(*types.Var)
							if !isV || ev.IsField() || w.RHS == nil || isNilIdent(w.RHS) || types.TypeString(ev.Type(), nil) != "error" {
								continue
							}
							clean := len(stores) > 0
							for _, st := range stores {
								if lg.ReachableFrom(lg.VertexOf(w.Stmt))[lg.VertexOf(st)] {
									clean = false
								}
							}
							if clean && hasAtom(guards, func(a Atom) bool {
								return AtomSaysNil(a, false, func(e ast.Expr) bool { o := f.ObjOf(e); return o != nil && f.aliasesOf(o)[types.Object(ev)] })
							}) {
								ok = true
							}
						}
					}
				}
				if !ok {
					// decided by evaluation: in no phase in which this return is reachable can the closure have stored
					if rows, decided := c.c06Lifecycle(f, inUpdateState); decided {
						ok = true
						for _, row := range rows {
							if rv := fg.VertexOf(r); rv >= 0 && row.reach[rv] && row.stores {
								ok = false
							}
						}
					}
				}
				c.Check(ok, name+":reject-on-non-writing-branch", f, r, "the rejection is returned exactly on a branch where the closure did not store (guards: %s)", atomsString(guards))
			}
			c.Pin(name+" rejections", nErr, map[string]int{"initialize": 2, "initialized": 2}[name])
		}
		// updateState runs its mutator under ss.mu
		usf := c.Fn(pM, "ServerSession", "updateState")
		mut := usf.Params()[1]
		for _, call := range usf.AllCalls(usf.Body, false) {
			if usf.ObjOf(call.Fun) == mut {
				c.Check(usf.heldLocal(call)["ServerSession.mu"], "updateState:mutator-under-mu", usf, call, "the state mutator runs with ss.mu held")
			}
		}
	})
}

func boolTri(b bool) tri {
	if b {
		return triTrue
	}
	return triFalse
}

// phaseFlags returns the local flags of f (searched in f and its literals) that are assigned from
// `<state>.InitializeParams != nil` and `<state>.InitializedParams != nil`.
func phaseFlags(f *Func, initF, initdF *types.Var) (wasInit, wasInitd types.Object) {
	fs := append([]*Func{f}, f.AllLits()...)
	for _, g := range fs {
		for _, w := range Writes(g.Body, false) {
			if w.RHS == nil {
				continue
			}
			if x, twn, ok := NilTest(w.RHS); ok && !twn {
				if g.IsField(x, initF) {
					wasInit = g.ObjOf(w.LHS)
				}
				if g.IsField(x, initdF) {
					wasInitd = g.ObjOf(w.LHS)
				}
			}
		}
	}
	return
}

// phaseVar is the local of f assigned from `<state>.<fld> != nil`.
func phaseVar(f *Func, fld *types.Var) types.Object {
	a, _ := phaseFlags(f, fld, nil)
	return a
}

// ---- evaluation of the lifecycle gate under a concrete valuation --------------------------------
//
// c06Env is an abstract valuation of what the lifecycle gate can depend on: the nil-ness of the two lifecycle fields of
// the session state, whether the request uses per-request metadata, and the request's method. Expressions are evaluated to
// constants under it (unknown = nil): constants, nil tests of the lifecycle fields, reads of the two request roles,
// single-assignment locals (their definition), comparisons and boolean connectives, and calls of functions of the SDK
// with one result (the callee's own graph is walked under the same valuation with the parameters bound to the values of
// the operands; the call has a value when every return that stays reachable yields the same constant). So a phase that is
// spelled `state.InitializeParams != nil`, `ss.phase() != phaseNew` or `ss.beginRequest(…)` is the same phase, and a
// method set spelled as case list or as named predicate is the same set.
type c06Env struct {
	c                          *Ctx
	initF, initdF, unpF, methF *types.Var
	ipNil, idpNil, newp        tri
	method                     string // "" = unknown
	vars                       map[types.Object]constant.Value
	suppFalse                  types.Object // a two-operand call whose first operand is this object yields false
	depth                      int
	multi                      map[types.Object]constant.Value // locals with several assignments: nil while being computed / unknown
}

// evalMulti: a local of f's own body with several assignments has a value under the valuation when every assignment that
// stays reachable under it assigns the same constant (and at least one does).
func (ev *c06Env) evalMulti(f *Func, o types.Object) constant.Value {
	v, isV := o.(*types.Var)
	if !isV || v.IsField() || v.Pkg() == nil || v.Parent() == v.Pkg().Scope() || f.Root().addressTaken(v) || f.Body == nil {
		return nil
	}
	if v.Pos() < f.Body.Pos() || v.Pos() > f.Body.End() {
		return nil // parameters, captured variables: not decided here
	}
	if ev.multi == nil {
		ev.multi = map[types.Object]constant.Value{}
	}
	if val, seen := ev.multi[o]; seen {
		return val
	}
	ev.multi[o] = nil
	var ws []Write
	for _, w := range Writes(f.Body, true) {
		if f.ObjOf(w.LHS) == o {
			if _, isID := ast.Unparen(w.LHS).(*ast.Ident); isID {
				ws = append(ws, w)
			}
		}
	}
	g := f.Graph()
	ev.depth++
	defer func() { ev.depth-- }()
	reach := g.ReachUnder(ev.leaf(f), nil)
	var out constant.Value
	for _, w := range ws {
		wv := g.VertexOf(w.Stmt)
		if wv < 0 {
			return nil // assigned in a literal
		}
		if !reach[wv] {
			continue
		}
		if w.RHS == nil {
			if _, isVS := w.Stmt.(*ast.ValueSpec); isVS || w.Tok == token.DEFINE {
				continue
			}
			return nil
		}
		val := ev.eval(f, w.RHS)
		if val == nil || (out != nil && (out.Kind() != val.Kind() || !constant.Compare(out, token.EQL, val))) {
			return nil
		}
		out = val
	}
	ev.multi[o] = out
	return out
}

func c06TriVal(t tri) constant.Value {
	switch t {
	case triTrue:
		return constant.MakeBool(true)
	case triFalse:
		return constant.MakeBool(false)
	}
	return nil
}

func c06ValTri(v constant.Value) tri {
	if v == nil || v.Kind() != constant.Bool {
		return triUnknown
	}
	return boolTri(constant.BoolVal(v))
}

func (ev *c06Env) leaf(f *Func) func(ast.Expr) tri {
	return func(e ast.Expr) tri { return c06ValTri(ev.eval(f, e)) }
}

func (ev *c06Env) eval(f *Func, e ast.Expr) constant.Value {
	e = ast.Unparen(e)
	if e == nil || ev.depth > 12 {
		return nil
	}
	if v := f.ConstVal(e); v != nil {
		return v
	}
	if x, twn, ok := NilTest(e); ok {
		var t tri
		switch {
		case f.IsField(x, ev.initF):
			t = ev.ipNil
		case f.IsField(x, ev.initdF):
			t = ev.idpNil
		default:
			return nil
		}
		if !twn {
			t = triNot(t)
		}
		return c06TriVal(t)
	}
	switch x := e.(type) {
	case *ast.Ident:
		o := f.ObjOf(x)
		if o == nil {
			return nil
		}
		if v, ok := ev.vars[o]; ok {
			return v
		}
		if d := f.valueOf(x); d != ast.Expr(x) {
			ev.depth++
			v := ev.eval(f, d)
			ev.depth--
			return v
		}
		return ev.evalMulti(f, o)
	case *ast.SelectorExpr:
		if f.IsField(x, ev.unpF) {
			return c06TriVal(ev.newp)
		}
		if f.IsField(x, ev.methF) && ev.method != "" {
			return constant.MakeString(ev.method)
		}
	case *ast.UnaryExpr:
		if x.Op == token.NOT {
			return c06TriVal(triNot(c06ValTri(ev.eval(f, x.X))))
		}
	case *ast.BinaryExpr:
		switch x.Op {
		case token.LAND, token.LOR:
			return c06TriVal(evalTri(x, ev.leaf(f)))
		case token.EQL, token.NEQ:
			a, b := ev.eval(f, x.X), ev.eval(f, x.Y)
			if a == nil || b == nil || a.Kind() != b.Kind() || a.Kind() == constant.Unknown {
				return nil
			}
			return constant.MakeBool(constant.Compare(a, x.Op, b))
		}
	case *ast.CallExpr:
		if ev.suppFalse != nil && len(x.Args) == 2 && f.ObjOf(x.Args[0]) == ev.suppFalse {
			return constant.MakeBool(false)
		}
		callee := f.Callee(x)
		if callee == nil || ev.depth > 8 {
			return nil
		}
		cf := ev.c.P.FuncOf(callee)
		if cf == nil || cf.Body == nil || cf.Type == nil {
			return nil
		}
		if sig, ok := callee.Type().(*types.Signature); !ok || sig.Results().Len() != 1 || sig.Variadic() {
			return nil
		}
		sub := ev.bind(f, x, cf)
		if sub == nil {
			return nil
		}
		g := cf.Graph()
		reach := g.ReachUnder(sub.leaf(cf), nil)
		var out constant.Value
		for _, r := range cf.Returns() {
			if rv := g.VertexOf(r); rv < 0 || !reach[rv] {
				continue
			}
			if len(r.Results) != 1 {
				return nil
			}
			v := sub.eval(cf, r.Results[0])
			if v == nil || (out != nil && (out.Kind() != v.Kind() || !constant.Compare(out, token.EQL, v))) {
				return nil
			}
			out = v
		}
		return out
	}
	return nil
}

// bind: the valuation inside callee cf for the call `call` read in f: the same state and request, the parameters bound to
// the values of the operands (as far as they have one).
func (ev *c06Env) bind(f *Func, call *ast.CallExpr, cf *Func) *c06Env {
	sub := *ev
	sub.vars = map[types.Object]constant.Value{}
	sub.multi = nil
	sub.depth = ev.depth + 1
	i := 0
	for _, fld := range cf.Type.Params.List {
		n := len(fld.Names)
		if n == 0 {
			n = 1
		}
		for j := 0; j < n; j++ {
			if i >= len(call.Args) {
				return nil
			}
			if j < len(fld.Names) {
				if p, ok := cf.Info().Defs[fld.Names[j]].(*types.Var); ok && p != nil {
					if v := ev.eval(f, call.Args[i]); v != nil {
						sub.vars[p] = v
					}
				}
			}
			i++
		}
	}
	if i != len(call.Args) {
		return nil
	}
	return &sub
}

func (c *Ctx) c06NewEnv(ipNil, idpNil, newp tri, method string) *c06Env {
	return &c06Env{c: c,
		initF:  c.Field(pM, "ServerSessionState", "InitializeParams"),
		initdF: c.Field(pM, "ServerSessionState", "InitializedParams"),
		unpF:   c.Field(pM, "validatedMeta", "usesNewProtocol"),
		methF:  c.Field(pJ, "Request", "Method"),
		ipNil:  ipNil, idpNil: idpNil, newp: newp, method: method,
		vars: map[types.Object]constant.Value{}}
}

// c06PhaseVar: the boolean local of f that holds "an initialize has been accepted": whatever its defining expression is, it
// evaluates to false for a state without InitializeParams and to true for every state with them.
func (c *Ctx) c06PhaseVar(f *Func) types.Object {
	for _, w := range Writes(f.Body, false) {
		if w.RHS == nil {
			continue
		}
		id, isID := ast.Unparen(w.LHS).(*ast.Ident)
		if !isID || id.Name == "_" {
			continue
		}
		if b, ok := f.TypeOf(w.RHS).Underlying().(*types.Basic); !ok || b.Info()&types.IsBoolean == 0 {
			continue
		}
		if f.ConstVal(w.RHS) != nil {
			continue
		}
		v1 := c06ValTri(c.c06NewEnv(triTrue, triTrue, triUnknown, "").eval(f, w.RHS))
		v2 := c06ValTri(c.c06NewEnv(triFalse, triTrue, triUnknown, "").eval(f, w.RHS))
		v3 := c06ValTri(c.c06NewEnv(triFalse, triFalse, triUnknown, "").eval(f, w.RHS))
		if v1 == triFalse && v2 == triTrue && v3 == triTrue {
			return f.ObjOf(id)
		}
	}
	return nil
}

// closure walks a state-mutating closure under the valuation: the enclosing function's locals it assigns are bound to the
// value they leave with (ok=false when such a local has no single value under the valuation), and stores reports whether
// a store to one of the lifecycle fields stays reachable.
func (ev *c06Env) closure(lit *Func) (stores, ok bool) {
	g := lit.Graph()
	captured := map[types.Object][]Write{}
	var order []types.Object
	for _, w := range Writes(lit.Body, false) {
		id, isID := ast.Unparen(w.LHS).(*ast.Ident)
		if !isID || w.RHS == nil {
			continue
		}
		v, isV := lit.ObjOf(id).(*types.Var)
		if !isV || v.IsField() || (v.Pos() >= lit.Body.Pos() && v.Pos() <= lit.Body.End()) {
			continue
		}
		if lit.Lit != nil && v.Pos() >= lit.Lit.Pos() && v.Pos() <= lit.Lit.End() {
			continue // the closure's own parameters
		}
		if captured[v] == nil {
			order = append(order, v)
		}
		captured[v] = append(captured[v], w)
	}
	ok = true
	reach := g.ReachUnder(ev.leaf(lit), nil)
	for _, o := range order {
		var val constant.Value
		single := true
		isW := map[int]bool{}
		for _, w := range captured[o] {
			wv := g.VertexOf(w.Stmt)
			isW[wv] = true
			if wv < 0 || !reach[wv] {
				continue
			}
			v := ev.eval(lit, w.RHS)
			if v == nil || (val != nil && (val.Kind() != v.Kind() || !constant.Compare(val, token.EQL, v))) {
				single = false
				break
			}
			val = v
		}
		if single && val != nil {
			// every path through the closure assigns it
			skip := g.ReachUnder(ev.leaf(lit), func(v int) bool { return isW[v] })
			for _, x := range g.Exits {
				if skip[x] {
					single = false
				}
			}
		}
		if !single || val == nil {
			ok = false
			continue
		}
		ev.vars[o] = val
	}
	reach = g.ReachUnder(ev.leaf(lit), nil)
	for _, fld := range []*types.Var{ev.initF, ev.initdF} {
		for _, st := range lit.FieldWrites(lit.Body, fld, false) {
			if sv := g.VertexOf(st); sv >= 0 && reach[sv] {
				stores = true
			}
		}
	}
	return
}

// c06Row: what a lifecycle handler does in one phase of the session.
type c06Row struct {
	phase   string
	stores  bool   // a store to a lifecycle field is reachable
	success bool   // a return without error is reachable
	reach   []bool // the handler's vertices reachable in this phase
}

// c06Lifecycle evaluates a lifecycle handler (initialize / initialized) in each of the three phases; ok=false when some
// phase cannot be decided (no state-mutating closure, or a flag without a single value).
func (c *Ctx) c06Lifecycle(f *Func, mutating func(*Func) bool) (rows []c06Row, ok bool) {
	ok = true
	for _, ph := range []struct {
		name    string
		ip, idp tri
	}{{"new", triTrue, triTrue}, {"initializing", triFalse, triTrue}, {"ready", triFalse, triFalse}} {
		ev := c.c06NewEnv(ph.ip, ph.idp, triUnknown, "")
		row := c06Row{phase: ph.name}
		n := 0
		for _, l := range f.Lits() {
			if !mutating(l) {
				continue
			}
			n++
			s, lok := ev.closure(l)
			row.stores = row.stores || s
			ok = ok && lok
		}
		if n == 0 {
			ok = false
		}
		g := f.Graph()
		row.reach = g.ReachUnder(ev.leaf(f), nil)
		for _, r := range f.Returns() {
			if rv := g.VertexOf(r); rv >= 0 && row.reach[rv] && len(r.Results) == 2 && isNilIdent(r.Results[1]) {
				row.success = true
			}
		}
		rows = append(rows, row)
	}
	return
}

// c06Adoption decides the adoption of a request's metadata as session parameters when the store does not stand in a
// state-mutating closure of handle: it stands in handle itself (helper == nil) or in a helper that only handle calls.
// For every method × {an initialize was accepted} × {new protocol}: if the store is reachable under that valuation (in the
// helper: with its parameters bound to the operands of the call), then the session was not initialized and the request
// uses the new protocol, and no return that refuses the request is reachable behind it, before the dispatch, under the
// same valuation. And the store is unreachable for a request that the version gate refuses.
func c06Adoption(c *Ctx, key string, h, helper, sf *Func, store ast.Node) {
	og := h.Graph()
	hr := c.FnObj(pM, "", "handleReceive")
	dispatchV := og.callVertices(hr)
	c.Must(len(dispatchV) > 0, key+":dispatch-found", h, nil, "handle dispatches through handleReceive")
	var call *ast.CallExpr
	av := og.VertexOf(store)
	if helper != nil {
		call = h.CallsIn(h.Body, helper.Obj, false)[0]
		av = og.VertexOf(call)
	}
	sg := sf.Graph()
	sv := sg.VertexOf(store)
	if av < 0 || sv < 0 {
		c.Undecided(key, sf, store, "the store is not a vertex of the gate's graph")
		return
	}
	c.Check(sf.heldLocal(store)["ServerSession.mu"], key+":under-mu", sf, store, "the session parameters are stored with ss.mu held")
	c.Check(og.Dominates(av, dispatchV[0]) || !og.ReachableFrom(dispatchV[0])[av], key+":before-dispatch", h, og.Node(av), "the adoption does not follow the dispatch")
	names := []string{"\x00other"}
	for m := range c.mapLiteralKeys(pM, "serverMethodInfos") {
		names = append(names, m)
	}
	sort.Strings(names)
	after := og.ReachableFromAvoiding(av, dispatchV[0])
	var badGuard, badRefusal []string
	var badNode ast.Node
	nStored := 0
	for _, m := range names {
		for _, ip := range []tri{triTrue, triFalse} {
			for _, np := range []tri{triTrue, triFalse} {
				ev := c.c06NewEnv(ip, triUnknown, np, m)
				reach := og.ReachUnder(ev.leaf(h), nil)
				if !reach[av] {
					continue
				}
				if helper != nil {
					sub := ev.bind(h, call, helper)
					if sub == nil || !sg.ReachUnder(sub.leaf(helper), nil)[sv] {
						continue
					}
				}
				nStored++
				c.paths++
				label := fmt.Sprintf("[%s,init=%v,new=%v]", strings.TrimPrefix(m, "\x00"), ip == triFalse, np == triTrue)
				if ip != triTrue || np != triTrue {
					badGuard = append(badGuard, label)
				}
				pre := og.ReachUnder(ev.leaf(h), func(v int) bool { return v == dispatchV[0] })
				for _, r := range h.Returns() {
					rv := og.VertexOf(r)
					if len(r.Results) == 2 && !isNilIdent(r.Results[1]) && rv >= 0 && after[rv] && pre[rv] {
						badRefusal = append(badRefusal, label+"→"+errorCodeOf(h, r.Results[1]))
						badNode = r
					}
				}
			}
		}
	}
	c.Check(len(badGuard) == 0 && nStored > 0, key, sf, store, "handle adopts per-request metadata as session parameters only when not yet initialized and the request uses the new protocol (stored under: %v of %d valuations that store)", badGuard, nStored)
	c.Check(len(badRefusal) == 0, key+":no-refusal-after-adoption", h, badNode, "between the adoption of the request's metadata and the dispatch to the handler no return refuses the request: a refused request leaves the session's phase as it was (refused after adoption: %v)", badRefusal)
	ev := c.c06NewEnv(triUnknown, triUnknown, triTrue, "")
	ev.suppFalse = c.Obj(pM, "supportedProtocolVersions")
	reach := og.ReachUnder(ev.leaf(h), nil)
	stored := reach[av]
	if stored && helper != nil {
		sub := ev.bind(h, call, helper)
		stored = sub == nil || sg.ReachUnder(sub.leaf(helper), nil)[sv]
	}
	c.Check(!stored, key+":after-version-gate", sf, store, "the session adopts the request's metadata only after the unsupported-version test has passed; otherwise a request answered -32022 still flips the session to initialized")
}

package main

import (
	"encoding/json"
	"fmt"
	"os"
	"os/exec"
	"path/filepath"
	"sort"
	"strings"
	"sync"
)

// altConfigs re-loads the program for other GOOS/GOARCH values and re-runs the property's rules, so
// that build-constrained files are covered. Non-ok obligations are merged into c (key prefixed by
// the configuration).
func altConfigs(c *Ctx, repo string) []map[string]any {
	pr := registry[c.Prop]
	var out []map[string]any
	for _, cfg := range [][2]string{{"linux", "386"}, {"windows", "amd64"}, {"darwin", "arm64"}} {
		p2, err := Load(repo, pr.whole, "GOOS="+cfg[0], "GOARCH="+cfg[1], "CGO_ENABLED=0")
		rec := map[string]any{"GOOS": cfg[0], "GOARCH": cfg[1]}
		if err != nil {
			rec["error"] = err.Error()
			c.add("alt-config", cfg[0]+"/"+cfg[1], "", vViolation, "load failure: "+err.Error())
			out = append(out, rec)
			continue
		}
		c2 := newCtx(p2, c.Prop, c.Tier)
		pr.rules(c2)
		bad := 0
		for _, o := range c2.Obls {
			if o.Verdict != vOK {
				bad++
				o.Key = "[" + cfg[0] + "/" + cfg[1] + "] " + o.Key
				// merge only findings that the default configuration does not already report
				dup := false
				for _, o1 := range c.Obls {
					if o1.Rule == o.Rule && "["+cfg[0]+"/"+cfg[1]+"] "+o1.Key == o.Key && o1.Verdict == o.Verdict {
						dup = true
					}
				}
				if !dup {
					c.Obls = append(c.Obls, o)
				}
			}
		}
		rec["obligations"] = len(c2.Obls)
		rec["not_ok"] = bad
		rec["packages"] = len(p2.All)
		out = append(out, rec)
	}
	return out
}

type mutantMeta struct {
	Property string   `json:"property"`
	Also     []string `json:"also_detected_by,omitempty"`
	Name     string   `json:"name,omitempty"`
	Expect   string   `json:"expect,omitempty"` // "detected" (default) | "out-of-reach"
	Why      string   `json:"why,omitempty"`
}

type mutant struct {
	name, patch string
	meta        mutantMeta
}

// findMutants lists the patches that target property id: my own catalogue under
// mutants/<id>/*.diff and the independently seeded changes under seeded/*/ (meta.json names the property).
func findMutants(root, id string) []mutant {
	var out []mutant
	ms, _ := filepath.Glob(filepath.Join(root, "mutants", id, "*.diff"))
	for _, m := range ms {
		mu := mutant{name: "mutants/" + id + "/" + filepath.Base(m), patch: m, meta: mutantMeta{Property: id}}
		if b, err := os.ReadFile(strings.TrimSuffix(m, ".diff") + ".json"); err == nil {
			json.Unmarshal(b, &mu.meta)
		}
		out = append(out, mu)
	}
	ss, _ := filepath.Glob(filepath.Join(root, "seeded", "*", "meta.json"))
	for _, s := range ss {
		b, err := os.ReadFile(s)
		if err != nil {
			continue
		}
		var meta mutantMeta
		if json.Unmarshal(b, &meta) != nil {
			continue
		}
		if meta.Property != id {
			continue
		}
		dir := filepath.Dir(s)
		out = append(out, mutant{name: "seeded/" + filepath.Base(dir), patch: filepath.Join(dir, "patch.diff"), meta: meta})
	}
	sort.Slice(out, func(i, j int) bool { return out[i].name < out[j].name })
	return out
}

// runMutants applies each mutant of the property to a scratch copy of the current tree and runs
// the quick rules on it in a subprocess. The result is a statement about the checker, not about
// /repo: it never changes the exit code.
func runMutants(id, repo, root string) *sensitivity {
	ms := findMutants(root, id)
	s := &sensitivity{Mutants: len(ms)}
	if len(ms) == 0 {
		return s
	}
	self, err := os.Executable()
	if err != nil {
		return s
	}
	// reports already present on the unmutated tree do not count as detections
	baseline := map[string]bool{}
	{
		cmd := exec.Command(self, "-property", id, "-tier", "quick", "-repo", repo, "-root", root, "-no-evidence", "-whole")
		cmd.Env = os.Environ()
		out, _ := cmd.CombinedOutput()
		for _, l := range strings.Split(string(out), "\n") {
			if strings.HasPrefix(l, "MUTANT-REPORT ") {
				f := strings.Fields(strings.TrimPrefix(l, "MUTANT-REPORT "))
				if len(f) >= 3 {
					baseline[f[1]+" "+mutantKey(l)] = true
				}
			}
		}
	}
	tmp := os.Getenv("TMPDIR")
	if tmp == "" {
		tmp = "/tmp"
	}
	var mu sync.Mutex
	var wg sync.WaitGroup
	sem := make(chan struct{}, 6)
	for _, m := range ms {
		wg.Add(1)
		go func(m mutant) {
			defer wg.Done()
			sem <- struct{}{}
			defer func() { <-sem }()
			rec := map[string]any{"mutant": m.name, "expect": m.meta.Expect}
			dir, err := os.MkdirTemp(tmp, "mcpcheck-mut-")
			if err == nil {
				defer os.RemoveAll(dir)
				err = copyTree(repo, dir)
			}
			status := ""
			if err != nil {
				status = "skipped: " + err.Error()
			} else if out, err := exec.Command("git", "-C", dir, "apply", "--whitespace=nowarn", m.patch).CombinedOutput(); err != nil {
				status = "skipped: patch does not apply to the current tree: " + firstLine(string(out))
			} else {
				cmd := exec.Command(self, "-property", id, "-tier", "quick", "-repo", dir, "-root", root, "-no-evidence", "-whole")
				cmd.Env = os.Environ()
				out, _ := cmd.CombinedOutput()
				var hits []string
				for _, l := range strings.Split(string(out), "\n") {
					if strings.HasPrefix(l, "MUTANT-REPORT ") {
						f := strings.Fields(strings.TrimPrefix(l, "MUTANT-REPORT "))
						if len(f) >= 3 && baseline[f[1]+" "+mutantKey(l)] {
							continue
						}
						hits = append(hits, strings.TrimPrefix(l, "MUTANT-REPORT "))
					}
				}
				if strings.Contains(string(out), "load failure") {
					status = "skipped: mutant does not type-check"
				} else if len(hits) > 0 {
					status = "detected"
					if len(hits) > 4 {
						hits = hits[:4]
					}
					rec["reports"] = hits
				} else {
					status = "missed"
				}
			}
			rec["status"] = status
			mu.Lock()
			defer mu.Unlock()
			switch {
			case status == "detected":
				s.Detected++
			case status == "missed":
				s.Missed++
			default:
				s.Skipped++
			}
			s.Detail = append(s.Detail, rec)
		}(m)
	}
	wg.Wait()
	sort.Slice(s.Detail, func(i, j int) bool { return fmt.Sprint(s.Detail[i]["mutant"]) < fmt.Sprint(s.Detail[j]["mutant"]) })
	return s
}

// refactorKinds are the behaviour-preserving transformations of refactor.go.
var refactorKinds = []string{"rename-locals", "shift-lines", "swap-operands", "invert-if", "hoist-init", "wrap-else", "add-calls", "split-and", "split-or", "extract-cond", "if-to-switch", "switch-to-if"}

// runRefactorings is the converse self-test: each behaviour-preserving transformation is applied to a
// scratch copy of the current tree and the quick rules are run on it; any report that the
// untransformed tree does not produce is a false alarm of the checker. Like runMutants this is a
// statement about the checker and never changes the exit code.
func runRefactorings(id, repo, root string) map[string]any {
	self, err := os.Executable()
	if err != nil {
		return nil
	}
	reportsOf := func(dir string) (map[string]string, string) {
		cmd := exec.Command(self, "-property", id, "-tier", "quick", "-repo", dir, "-root", root, "-no-evidence", "-whole")
		cmd.Env = os.Environ()
		out, _ := cmd.CombinedOutput()
		m := map[string]string{}
		for _, l := range strings.Split(string(out), "\n") {
			if strings.HasPrefix(l, "MUTANT-REPORT ") {
				f := strings.Fields(strings.TrimPrefix(l, "MUTANT-REPORT "))
				if len(f) >= 3 {
					m[f[1]+" "+mutantKey(l)] = strings.TrimPrefix(l, "MUTANT-REPORT ")
				}
			}
		}
		return m, string(out)
	}
	baseline, _ := reportsOf(repo)
	tmp := os.Getenv("TMPDIR")
	if tmp == "" {
		tmp = "/tmp"
	}
	type res struct {
		kind   string
		status string
		edits  string
		alarms []string
	}
	out := make([]res, len(refactorKinds))
	var wg sync.WaitGroup
	for i, kind := range refactorKinds {
		wg.Add(1)
		go func(i int, kind string) {
			defer wg.Done()
			r := res{kind: kind}
			defer func() { out[i] = r }()
			dir, err := os.MkdirTemp(tmp, "mcpcheck-ref-")
			if err != nil {
				r.status = "skipped: " + err.Error()
				return
			}
			defer os.RemoveAll(dir)
			if err := copyTree(repo, dir); err != nil {
				r.status = "skipped: " + err.Error()
				return
			}
			cmd := exec.Command(self, "-refactor", kind, "-repo", dir)
			cmd.Env = os.Environ()
			o, err := cmd.CombinedOutput()
			if err != nil {
				r.status = "skipped: " + firstLine(string(o))
				return
			}
			r.edits = strings.TrimSpace(firstLine(string(o)))
			reps, raw := reportsOf(dir)
			if strings.Contains(raw, "load failure") {
				r.status = "skipped: transformed tree does not type-check"
				return
			}
			if strings.Contains(raw, "\npanic:") || strings.HasPrefix(raw, "panic:") || strings.Contains(raw, "goroutine 1 [") {
				r.status = "false-alarm"
				r.alarms = []string{"the checker crashed on the transformed tree: " + firstLine(raw)}
				return
			}
			for k, l := range reps {
				if _, ok := baseline[k]; !ok {
					r.alarms = append(r.alarms, l)
				}
			}
			sort.Strings(r.alarms)
			if len(r.alarms) == 0 {
				r.status = "silent"
			} else {
				r.status = "false-alarm"
			}
		}(i, kind)
	}
	wg.Wait()
	var detail []map[string]any
	silent := 0
	for _, r := range out {
		d := map[string]any{"transformation": r.kind, "status": r.status, "applied": r.edits}
		if len(r.alarms) > 0 {
			if len(r.alarms) > 4 {
				r.alarms = r.alarms[:4]
			}
			d["false_alarms"] = r.alarms
		}
		if r.status == "silent" {
			silent++
		}
		detail = append(detail, d)
	}
	return map[string]any{
		"what":            "behaviour-preserving transformations of the whole SDK source applied to a scratch copy; the quick rules must stay silent on each",
		"transformations": len(refactorKinds),
		"silent":          silent,
		"detail":          detail,
	}
}

// runSystematic samples the systematic mutants (mutgen.go) of the functions this property's rules analysed, applies
// each to a scratch copy and runs the property's quick rules on it. It measures how much of the analysed code the rules
// are sensitive to; like the other self-tests it never changes the exit code. The sample is deterministic (stride over
// the site list, offset by VERIF_SEED).
func runSystematic(c *Ctx, id, repo, root string, seed int64, max int) map[string]any {
	self, err := os.Executable()
	if err != nil {
		return nil
	}
	touched := map[*Func]bool{}
	for f := range c.funcs {
		if f != nil {
			touched[f.Root()] = true
		}
	}
	sites := mutSites(c.P, touched, repo)
	if len(sites) == 0 {
		return nil
	}
	stride := len(sites)/max + 1
	var sample []mutSite
	for i := int(seed) % stride; i < len(sites) && len(sample) < max; i += stride {
		if i >= 0 {
			sample = append(sample, sites[i])
		}
	}
	tmp := os.Getenv("TMPDIR")
	if tmp == "" {
		tmp = "/tmp"
	}
	type res struct{ status, what string }
	out := make([]res, len(sample))
	var wg sync.WaitGroup
	sem := make(chan struct{}, 6)
	for i, m := range sample {
		wg.Add(1)
		go func(i int, m mutSite) {
			defer wg.Done()
			sem <- struct{}{}
			defer func() { <-sem }()
			what := fmt.Sprintf("%s %s:%d %s", m.Op, m.File, m.Line, firstLine(m.Old))
			dir, err := os.MkdirTemp(tmp, "mcpcheck-sys-")
			if err != nil {
				out[i] = res{"skipped", what}
				return
			}
			defer os.RemoveAll(dir)
			if err := copyTree(repo, dir); err != nil {
				out[i] = res{"skipped", what}
				return
			}
			path := filepath.Join(dir, m.File)
			src, err := os.ReadFile(path)
			if err != nil || m.End > len(src) || string(src[m.Start:m.End]) != m.Old {
				out[i] = res{"skipped", what}
				return
			}
			mut := append(append(append([]byte{}, src[:m.Start]...), []byte(m.New)...), src[m.End:]...)
			if err := os.WriteFile(path, mut, 0o644); err != nil {
				out[i] = res{"skipped", what}
				return
			}
			cmd := exec.Command(self, "-property", id, "-tier", "quick", "-repo", dir, "-root", root, "-no-evidence", "-whole")
			cmd.Env = os.Environ()
			o, _ := cmd.CombinedOutput()
			switch {
			case strings.Contains(string(o), "load failure"):
				out[i] = res{"does-not-type-check", what}
			case strings.Contains(string(o), "MUTANT-REPORT "):
				out[i] = res{"reported", what}
			default:
				out[i] = res{"silent", what}
			}
		}(i, m)
	}
	wg.Wait()
	cnt := map[string]int{}
	var silent []string
	for _, r := range out {
		cnt[r.status]++
		if r.status == "silent" && len(silent) < 8 {
			silent = append(silent, r.what)
		}
	}
	return map[string]any{
		"what":                        "systematic single-edit mutants (delete a statement or a return guard, negate a condition, drop a conjunct) of the functions this property's rules analysed; a deterministic sample is applied to scratch copies and the quick rules are run on each",
		"sites_in_analysed_functions": len(sites),
		"sampled":                     len(sample),
		"reported":                    cnt["reported"],
		"silent":                      cnt["silent"],
		"does_not_type_check":         cnt["does-not-type-check"],
		"skipped":                     cnt["skipped"],
		"silent_examples":             silent,
		"note":                        "silent mutants are not violations: most edit logging, error texts or behaviour outside this property; the number bounds from above how much of the analysed code the rules are blind to",
	}
}

func firstLine(s string) string {
	if i := strings.IndexByte(s, '\n'); i >= 0 {
		return s[:i]
	}
	return s
}

// copyTree copies the working tree of repo (without .git) into dst.
func copyTree(repo, dst string) error {
	cmd := exec.Command("rsync", "-a", "--exclude", ".git", repo+"/", dst+"/")
	if out, err := cmd.CombinedOutput(); err != nil {
		return fmt.Errorf("rsync: %v: %s", err, firstLine(string(out)))
	}
	return nil
}

// mutantKey extracts the obligation key (between the rule id and the bracketed verdict) of a report line.
func mutantKey(l string) string {
	l = strings.TrimPrefix(l, "MUTANT-REPORT ")
	f := strings.SplitN(l, " ", 3)
	if len(f) < 3 {
		return l
	}
	rest := f[2]
	if i := strings.Index(rest, " ["); i >= 0 {
		return rest[:i]
	}
	return rest
}

// runBenign replays the behaviour-preserving changes written by independent sub-agents (benign-small/: eight small edits
// per property; benign/: four refactorings per property) against this property's rules. A violation reported on one of
// them is a false alarm of the checker. Like the mutant catalogue this is a statement about the checker, not about /repo:
// the counts go into the evidence and never change the exit code.
func runBenign(id, repo, root string) map[string]any {
	self, err := os.Executable()
	if err != nil {
		return nil
	}
	tmp := os.Getenv("TMPDIR")
	if tmp == "" {
		tmp = "/tmp"
	}
	out := map[string]any{}
	for _, corpus := range []struct{ key, glob string }{
		{"small_edits", filepath.Join(root, "benign-small", "*", "small-*.diff")},
		{"refactorings", filepath.Join(root, "benign", "*", "benign-*.diff")},
	} {
		ps, _ := filepath.Glob(corpus.glob)
		sort.Strings(ps)
		var mu sync.Mutex
		var wg sync.WaitGroup
		sem := make(chan struct{}, 8)
		silent, alarmed, undecided, skipped := 0, 0, 0, 0
		var alarms []string
		for _, pth := range ps {
			wg.Add(1)
			go func(pth string) {
				defer wg.Done()
				sem <- struct{}{}
				defer func() { <-sem }()
				dir, err := os.MkdirTemp(tmp, "mcpcheck-benign-")
				if err != nil {
					return
				}
				defer os.RemoveAll(dir)
				st := ""
				if err := copyTree(repo, dir); err != nil {
					st = "skipped"
				} else if _, err := exec.Command("git", "-C", dir, "apply", "--whitespace=nowarn", pth).CombinedOutput(); err != nil {
					st = "skipped"
				} else {
					cmd := exec.Command(self, "-property", id, "-tier", "quick", "-repo", dir, "-root", root, "-no-evidence", "-whole")
					cmd.Env = os.Environ()
					o, _ := cmd.CombinedOutput()
					switch {
					case strings.Contains(string(o), "MUTANT-REPORT "):
						st = "alarmed"
					case strings.Contains(string(o), "MUTANT-UNDECIDED "):
						st = "undecided"
					default:
						st = "silent"
					}
				}
				mu.Lock()
				defer mu.Unlock()
				switch st {
				case "alarmed":
					alarmed++
					rel, _ := filepath.Rel(root, pth)
					alarms = append(alarms, rel)
				case "undecided":
					undecided++
				case "silent":
					silent++
				default:
					skipped++
				}
			}(pth)
		}
		wg.Wait()
		sort.Strings(alarms)
		out[corpus.key] = map[string]any{"patches": len(ps), "silent": silent, "undecided_only": undecided, "false_alarms": alarmed, "skipped": skipped, "alarmed_patches": alarms}
	}
	return out
}

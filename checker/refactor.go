package main

import (
	"bytes"
	"fmt"
	"go/ast"
	"go/format"
	"go/token"
	"go/types"
	"os"
	"strings"
)

// Behaviour-preserving source transformations, used only to test the checker for robustness
// (a rule that fires on such a copy is a false alarm in waiting). They operate on a scratch copy.
//
//	rename-locals : every local variable, parameter, receiver and named result of the SDK packages gets a new name
//	shift-lines   : a comment block is inserted at the top of every file (all line numbers move)
//	invert-if     : `if c {A} else {B}` becomes `if !(c) {B} else {A}`
//	hoist-init    : `if x := f(); c {…}` becomes `{ x := f(); if c {…} }`
//	wrap-else     : `if c {…; return}; rest` becomes `if c {…; return} else {rest}`
//	swap-operands : `a == b` / `a != b` comparisons are mirrored (b == a), `a < b` becomes `b > a`, etc.
func refactorTree(dir, kind string) error {
	normaliseCmp = false
	p, err := Load(dir, true) // from source: nothing of the scratch copy is compiled into the build cache
	if err != nil {
		return err
	}
	n := 0
	for _, rel := range sdkPkgs {
		pk := p.Pkg(rel)
		if pk == nil {
			continue
		}
		for i, file := range pk.Syntax {
			path := pk.CompiledGoFiles[i]
			if !strings.HasPrefix(path, dir) || strings.HasSuffix(path, "_test.go") {
				continue
			}
			changed := false
			switch kind {
			case "rename-locals":
				// the symbolic variable of a type switch has no object of its own (one implicit object per clause)
				ast.Inspect(file, func(x ast.Node) bool {
					if ts, ok := x.(*ast.TypeSwitchStmt); ok {
						if as, ok := ts.Assign.(*ast.AssignStmt); ok && len(as.Lhs) == 1 {
							if id, ok := as.Lhs[0].(*ast.Ident); ok && id.Name != "_" {
								id.Name += "Zq"
							}
						}
					}
					return true
				})
				ast.Inspect(file, func(x ast.Node) bool {
					id, ok := x.(*ast.Ident)
					if !ok || id.Name == "_" {
						return true
					}
					var obj types.Object
					if o := pk.TypesInfo.Defs[id]; o != nil {
						obj = o
					} else if o := pk.TypesInfo.Uses[id]; o != nil {
						obj = o
					}
					v, isVar := obj.(*types.Var)
					if !isVar || v.IsField() || v.Pkg() == nil || v.Parent() == nil || v.Parent() == v.Pkg().Scope() || v.Parent() == types.Universe {
						return true
					}
					if v.Pkg() != pk.Types {
						return true
					}
					id.Name = id.Name + "Zq"
					changed = true
					n++
					return true
				})
				// struct-literal keys and selectors are fields, untouched; but `x := x` style shadowing stays consistent by object.
			case "swap-operands":
				ast.Inspect(file, func(x ast.Node) bool {
					b, ok := x.(*ast.BinaryExpr)
					if !ok {
						return true
					}
					var op token.Token
					switch b.Op {
					case token.EQL, token.NEQ:
						op = b.Op
					case token.LSS:
						op = token.GTR
					case token.GTR:
						op = token.LSS
					case token.LEQ:
						op = token.GEQ
					case token.GEQ:
						op = token.LEQ
					default:
						return true
					}
					// keep nil / constant comparisons readable but still mirrored
					b.X, b.Y, b.Op = b.Y, b.X, op
					changed = true
					n++
					return true
				})
			case "invert-if":
				// if c { A } else { B }  →  if !(c) { B } else { A }   (else-if chains are left alone)
				ast.Inspect(file, func(x ast.Node) bool {
					is, ok := x.(*ast.IfStmt)
					if !ok || is.Else == nil {
						return true
					}
					eb, ok := is.Else.(*ast.BlockStmt)
					if !ok {
						return true
					}
					is.Cond = &ast.UnaryExpr{Op: token.NOT, X: &ast.ParenExpr{X: is.Cond}}
					is.Body, is.Else = eb, is.Body
					changed = true
					n++
					return true
				})
			case "hoist-init":
				// if x := f(); c { … }  →  { x := f(); if c { … } }
				hoist := func(list []ast.Stmt) {
					for i, st := range list {
						if is, ok := st.(*ast.IfStmt); ok && is.Init != nil {
							init := is.Init
							is.Init = nil
							list[i] = &ast.BlockStmt{List: []ast.Stmt{init, is}}
							changed = true
							n++
						}
					}
				}
				ast.Inspect(file, func(x ast.Node) bool {
					switch b := x.(type) {
					case *ast.BlockStmt:
						hoist(b.List)
					case *ast.CaseClause:
						hoist(b.Body)
					case *ast.CommClause:
						hoist(b.Body)
					}
					return true
				})
			case "wrap-else":
				// if c { …; return }; rest…   →   if c { …; return } else { rest… }
				ast.Inspect(file, func(x ast.Node) bool {
					b, ok := x.(*ast.BlockStmt)
					if !ok {
						return true
					}
					for i, st := range b.List {
						is, ok := st.(*ast.IfStmt)
						if !ok || is.Else != nil || len(is.Body.List) == 0 || i == len(b.List)-1 {
							continue
						}
						if _, isRet := is.Body.List[len(is.Body.List)-1].(*ast.ReturnStmt); !isRet {
							continue
						}
						hasLabel := false
						for _, r := range b.List[i+1:] {
							if _, ok := r.(*ast.LabeledStmt); ok {
								hasLabel = true
							}
						}
						if hasLabel {
							continue
						}
						is.Else = &ast.BlockStmt{List: append([]ast.Stmt(nil), b.List[i+1:]...)}
						b.List = b.List[:i+1]
						changed = true
						n++
						break
					}
					return true
				})
			case "shift-lines":
				changed = true
			default:
				return fmt.Errorf("unknown refactoring %q", kind)
			}
			if !changed {
				continue
			}
			var buf bytes.Buffer
			if kind == "shift-lines" {
				src, err := os.ReadFile(path)
				if err != nil {
					return err
				}
				buf.WriteString("// shifted\n//\n//\n//\n//\n//\n//\n\n")
				buf.Write(src)
				n++
			} else {
				if err := format.Node(&buf, p.Fset, file); err != nil {
					return fmt.Errorf("%s: %v", path, err)
				}
			}
			if err := os.WriteFile(path, buf.Bytes(), 0o644); err != nil {
				return err
			}
		}
	}
	fmt.Printf("refactor %s: %d edits\n", kind, n)
	return nil
}

package main

import (
	"bytes"
	"fmt"
	"go/ast"
	"go/format"
	"go/token"
	"go/types"
	"os"
	"strings"
)

// Behaviour-preserving source transformations, used only to test the checker for robustness
// (a rule that fires on such a copy is a false alarm in waiting). They operate on a scratch copy.
//
//	rename-locals : every local variable, parameter, receiver and named result of the SDK packages gets a new name
//	shift-lines   : a comment block is inserted at the top of every file (all line numbers move)
//	invert-if     : `if c {A} else {B}` becomes `if !(c) {B} else {A}`
//	hoist-init    : `if x := f(); c {…}` becomes `{ x := f(); if c {…} }`
//	wrap-else     : `if c {…; return}; rest` becomes `if c {…; return} else {rest}`
//	swap-operands : `a == b` / `a != b` comparisons are mirrored (b == a), `a < b` becomes `b > a`, etc.
func refactorTree(dir, kind string) error {
	normaliseCmp = false
	keepLogging = true
	p, err := Load(dir, true) // from source: nothing of the scratch copy is compiled into the build cache
	if err != nil {
		return err
	}
	n := 0
	for _, rel := range sdkPkgs {
		pk := p.Pkg(rel)
		if pk == nil {
			continue
		}
		for i, file := range pk.Syntax {
			path := pk.CompiledGoFiles[i]
			if !strings.HasPrefix(path, dir) || strings.HasSuffix(path, "_test.go") {
				continue
			}
			changed := false
			switch kind {
			case "rename-locals":
				// the symbolic variable of a type switch has no object of its own (one implicit object per clause)
				ast.Inspect(file, func(x ast.Node) bool {
					if ts, ok := x.(*ast.TypeSwitchStmt); ok {
						if as, ok := ts.Assign.(*ast.AssignStmt); ok && len(as.Lhs) == 1 {
							if id, ok := as.Lhs[0].(*ast.Ident); ok && id.Name != "_" {
								id.Name += "Zq"
							}
						}
					}
					return true
				})
				ast.Inspect(file, func(x ast.Node) bool {
					id, ok := x.(*ast.Ident)
					if !ok || id.Name == "_" {
						return true
					}
					var obj types.Object
					if o := pk.TypesInfo.Defs[id]; o != nil {
						obj = o
					} else if o := pk.TypesInfo.Uses[id]; o != nil {
						obj = o
					}
					v, isVar := obj.(*types.Var)
					if !isVar || v.IsField() || v.Pkg() == nil || v.Parent() == nil || v.Parent() == v.Pkg().Scope() || v.Parent() == types.Universe {
						return true
					}
					if v.Pkg() != pk.Types {
						return true
					}
					id.Name = id.Name + "Zq"
					changed = true
					n++
					return true
				})
				// struct-literal keys and selectors are fields, untouched; but `x := x` style shadowing stays consistent by object.
			case "swap-operands":
				ast.Inspect(file, func(x ast.Node) bool {
					b, ok := x.(*ast.BinaryExpr)
					if !ok {
						return true
					}
					var op token.Token
					switch b.Op {
					case token.EQL, token.NEQ:
						op = b.Op
					case token.LSS:
						op = token.GTR
					case token.GTR:
						op = token.LSS
					case token.LEQ:
						op = token.GEQ
					case token.GEQ:
						op = token.LEQ
					default:
						return true
					}
					// keep nil / constant comparisons readable but still mirrored
					b.X, b.Y, b.Op = b.Y, b.X, op
					changed = true
					n++
					return true
				})
			case "invert-if":
				// if c { A } else { B }  →  if !(c) { B } else { A }   (else-if chains are left alone)
				ast.Inspect(file, func(x ast.Node) bool {
					is, ok := x.(*ast.IfStmt)
					if !ok || is.Else == nil {
						return true
					}
					eb, ok := is.Else.(*ast.BlockStmt)
					if !ok {
						return true
					}
					is.Cond = &ast.UnaryExpr{Op: token.NOT, X: &ast.ParenExpr{X: is.Cond}}
					is.Body, is.Else = eb, is.Body
					changed = true
					n++
					return true
				})
			case "hoist-init":
				// if x := f(); c { … }  →  { x := f(); if c { … } }
				hoist := func(list []ast.Stmt) {
					for i, st := range list {
						if is, ok := st.(*ast.IfStmt); ok && is.Init != nil {
							init := is.Init
							is.Init = nil
							list[i] = &ast.BlockStmt{List: []ast.Stmt{init, is}}
							changed = true
							n++
						}
					}
				}
				ast.Inspect(file, func(x ast.Node) bool {
					switch b := x.(type) {
					case *ast.BlockStmt:
						hoist(b.List)
					case *ast.CaseClause:
						hoist(b.Body)
					case *ast.CommClause:
						hoist(b.Body)
					}
					return true
				})
			case "wrap-else":
				// if c { …; return }; rest…   →   if c { …; return } else { rest… }
				ast.Inspect(file, func(x ast.Node) bool {
					b, ok := x.(*ast.BlockStmt)
					if !ok {
						return true
					}
					for i, st := range b.List {
						is, ok := st.(*ast.IfStmt)
						if !ok || is.Else != nil || len(is.Body.List) == 0 || i == len(b.List)-1 {
							continue
						}
						if _, isRet := is.Body.List[len(is.Body.List)-1].(*ast.ReturnStmt); !isRet {
							continue
						}
						hasLabel := false
						for _, r := range b.List[i+1:] {
							if _, ok := r.(*ast.LabeledStmt); ok {
								hasLabel = true
							}
						}
						if hasLabel {
							continue
						}
						is.Else = &ast.BlockStmt{List: append([]ast.Stmt(nil), b.List[i+1:]...)}
						b.List = b.List[:i+1]
						changed = true
						n++
						break
					}
					return true
				})
			case "add-calls":
				nBefore := n
				// a log.Printf call is inserted before every statement of every block (what a maintainer does when adding tracing)
				ins := func(list []ast.Stmt) []ast.Stmt {
					var out []ast.Stmt
					for _, st := range list {
						if _, lab := st.(*ast.LabeledStmt); !lab {
							out = append(out, &ast.ExprStmt{X: &ast.CallExpr{
								Fun:  &ast.SelectorExpr{X: ast.NewIdent("logZq"), Sel: ast.NewIdent("Printf")},
								Args: []ast.Expr{&ast.BasicLit{Kind: token.STRING, Value: `"trace"`}}}})
							n++
						}
						out = append(out, st)
					}
					return out
				}
				ast.Inspect(file, func(x ast.Node) bool {
					switch b := x.(type) {
					case *ast.BlockStmt:
						if len(b.List) > 0 {
							switch b.List[0].(type) {
							case *ast.CaseClause, *ast.CommClause:
								return true
							}
						}
						b.List = ins(b.List)
					case *ast.CaseClause:
						b.Body = ins(b.Body)
					case *ast.CommClause:
						b.Body = ins(b.Body)
					}
					return true
				})
				if n > nBefore {
					file.Decls = append([]ast.Decl{&ast.GenDecl{Tok: token.IMPORT, Specs: []ast.Spec{
						&ast.ImportSpec{Name: ast.NewIdent("logZq"), Path: &ast.BasicLit{Kind: token.STRING, Value: `"log"`}}}}}, file.Decls...)
					changed = true
				}
			case "unwrap-else":
				// { …; if c { …; return } else { rest } }  →  { …; if c { …; return }; rest }   (the if is the last statement)
				ast.Inspect(file, func(x ast.Node) bool {
					b, ok := x.(*ast.BlockStmt)
					if !ok || len(b.List) == 0 {
						return true
					}
					is, ok := b.List[len(b.List)-1].(*ast.IfStmt)
					if !ok || is.Else == nil || is.Init != nil || len(is.Body.List) == 0 {
						return true
					}
					eb, ok := is.Else.(*ast.BlockStmt)
					if !ok {
						return true
					}
					if _, isRet := is.Body.List[len(is.Body.List)-1].(*ast.ReturnStmt); !isRet {
						return true
					}
					// a name declared at the top of the else block must not already be declared in the enclosing block
					sc := pk.TypesInfo.Scopes[b]
					clash := false
					for _, st := range eb.List {
						switch d := st.(type) {
						case *ast.AssignStmt:
							if d.Tok == token.DEFINE {
								for _, l := range d.Lhs {
									if id, ok := l.(*ast.Ident); ok && sc != nil && sc.Lookup(id.Name) != nil {
										clash = true
									}
								}
							}
						case *ast.DeclStmt:
							clash = true
						case *ast.LabeledStmt:
							clash = true
						}
					}
					if clash || sc == nil {
						return true
					}
					is.Else = nil
					b.List = append(b.List, eb.List...)
					changed = true
					n++
					return true
				})
			case "if-to-switch":
				// if a { A } else if b { B } else { C }   →   switch { case a: A; case b: B; default: C }
				// (no init statements; no unlabelled break inside the bodies, which would now leave the switch)
				conv := func(list []ast.Stmt) {
					for i, st := range list {
						is, ok := st.(*ast.IfStmt)
						if !ok || is.Else == nil || is.Init != nil {
							continue
						}
						var clauses []ast.Stmt
						okChain := true
						cur := is
						for {
							if cur.Init != nil || freeBreak(cur.Body) {
								okChain = false
								break
							}
							clauses = append(clauses, &ast.CaseClause{List: []ast.Expr{cur.Cond}, Body: cur.Body.List})
							if cur.Else == nil {
								break
							}
							if next, ok := cur.Else.(*ast.IfStmt); ok {
								cur = next
								continue
							}
							eb := cur.Else.(*ast.BlockStmt)
							if freeBreak(eb) {
								okChain = false
							}
							clauses = append(clauses, &ast.CaseClause{Body: eb.List})
							break
						}
						if !okChain {
							continue
						}
						list[i] = &ast.SwitchStmt{Body: &ast.BlockStmt{List: clauses}}
						changed = true
						n++
					}
				}
				ast.Inspect(file, func(x ast.Node) bool {
					switch b := x.(type) {
					case *ast.BlockStmt:
						conv(b.List)
					case *ast.CaseClause:
						conv(b.Body)
					case *ast.CommClause:
						conv(b.Body)
					}
					return true
				})
			case "switch-to-if":
				// switch { case a: A; case b: B; default: C }   →   if a { A } else if b { B } else { C }
				// (no init, no tag, one expression per case, default last or absent, no break/fallthrough that refers to the switch)
				conv := func(list []ast.Stmt) {
					for i, st := range list {
						sw, ok := st.(*ast.SwitchStmt)
						if !ok || sw.Tag != nil || sw.Init != nil || len(sw.Body.List) == 0 {
							continue
						}
						okSw := true
						for j, cs := range sw.Body.List {
							cc := cs.(*ast.CaseClause)
							if len(cc.List) > 1 || (len(cc.List) == 0 && j != len(sw.Body.List)-1) {
								okSw = false
							}
							for _, s := range cc.Body {
								if freeBreak(s) {
									okSw = false
								}
								if br, isBr := s.(*ast.BranchStmt); isBr && (br.Tok == token.FALLTHROUGH || br.Tok == token.BREAK) {
									okSw = false
								}
							}
						}
						if !okSw {
							continue
						}
						var head, cur *ast.IfStmt
						for _, cs := range sw.Body.List {
							cc := cs.(*ast.CaseClause)
							body := &ast.BlockStmt{List: cc.Body}
							if len(cc.List) == 0 {
								if cur == nil {
									okSw = false
									break
								}
								cur.Else = body
								break
							}
							next := &ast.IfStmt{Cond: cc.List[0], Body: body}
							if head == nil {
								head = next
							} else {
								cur.Else = next
							}
							cur = next
						}
						if !okSw || head == nil {
							continue
						}
						list[i] = head
						changed = true
						n++
					}
				}
				ast.Inspect(file, func(x ast.Node) bool {
					switch b := x.(type) {
					case *ast.BlockStmt:
						conv(b.List)
					case *ast.CaseClause:
						conv(b.Body)
					case *ast.CommClause:
						conv(b.Body)
					}
					return true
				})
			case "extract-cond":
				// if <cond> { … }   →   condZqN := <cond>; if condZqN { … }     (no init statement; not an else-if)
				ext := func(list []ast.Stmt) []ast.Stmt {
					var out []ast.Stmt
					for _, st := range list {
						if is, ok := st.(*ast.IfStmt); ok && is.Init == nil {
							if _, bare := ast.Unparen(is.Cond).(*ast.Ident); !bare {
								n++
								name := fmt.Sprintf("condZq%d", n)
								out = append(out, &ast.AssignStmt{Lhs: []ast.Expr{ast.NewIdent(name)}, Tok: token.DEFINE, Rhs: []ast.Expr{is.Cond}})
								is.Cond = ast.NewIdent(name)
								changed = true
							}
						}
						out = append(out, st)
					}
					return out
				}
				ast.Inspect(file, func(x ast.Node) bool {
					switch b := x.(type) {
					case *ast.BlockStmt:
						if len(b.List) > 0 {
							switch b.List[0].(type) {
							case *ast.CaseClause, *ast.CommClause:
								return true
							}
						}
						b.List = ext(b.List)
					case *ast.CaseClause:
						b.Body = ext(b.Body)
					case *ast.CommClause:
						b.Body = ext(b.Body)
					}
					return true
				})
			case "split-and":
				// if a && b { S }  →  if a { if b { S } }      (no else branch)
				ast.Inspect(file, func(x ast.Node) bool {
					is, ok := x.(*ast.IfStmt)
					if !ok || is.Else != nil {
						return true
					}
					be, ok := is.Cond.(*ast.BinaryExpr)
					if !ok || be.Op != token.LAND {
						return true
					}
					inner := &ast.IfStmt{Cond: be.Y, Body: is.Body}
					is.Cond = be.X
					is.Body = &ast.BlockStmt{List: []ast.Stmt{inner}}
					changed = true
					n++
					return true
				})
			case "split-or":
				// if a || b { …; return }  →  if a { …; return }; if b { …; return }     (no init, no else, short body without declarations)
				split := func(list []ast.Stmt) []ast.Stmt {
					var out []ast.Stmt
					for _, st := range list {
						is, ok := st.(*ast.IfStmt)
						if ok && is.Else == nil && is.Init == nil && len(is.Body.List) > 0 && len(is.Body.List) <= 3 {
							if be, ok := is.Cond.(*ast.BinaryExpr); ok && be.Op == token.LOR {
								last := is.Body.List[len(is.Body.List)-1]
								_, isRet := last.(*ast.ReturnStmt)
								if br, ok := last.(*ast.BranchStmt); ok && (br.Tok == token.CONTINUE || br.Tok == token.BREAK) && br.Label == nil {
									isRet = true
								}
								hasLit := false
								ast.Inspect(is.Body, func(y ast.Node) bool {
									if _, ok := y.(*ast.FuncLit); ok {
										hasLit = true
									}
									return true
								})
								if isRet && !hasLit {
									out = append(out, &ast.IfStmt{Cond: be.X, Body: is.Body}, &ast.IfStmt{Cond: be.Y, Body: is.Body})
									changed = true
									n++
									continue
								}
							}
						}
						out = append(out, st)
					}
					return out
				}
				ast.Inspect(file, func(x ast.Node) bool {
					switch b := x.(type) {
					case *ast.BlockStmt:
						b.List = split(b.List)
					case *ast.CaseClause:
						b.Body = split(b.Body)
					case *ast.CommClause:
						b.Body = split(b.Body)
					}
					return true
				})
			case "shift-lines":
				changed = true
			default:
				return fmt.Errorf("unknown refactoring %q", kind)
			}
			if !changed {
				continue
			}
			var buf bytes.Buffer
			if kind == "shift-lines" {
				src, err := os.ReadFile(path)
				if err != nil {
					return err
				}
				buf.WriteString("// shifted\n//\n//\n//\n//\n//\n//\n\n")
				buf.Write(src)
				n++
			} else {
				if err := format.Node(&buf, p.Fset, file); err != nil {
					return fmt.Errorf("%s: %v", path, err)
				}
			}
			if err := os.WriteFile(path, buf.Bytes(), 0o644); err != nil {
				return err
			}
		}
	}
	fmt.Printf("refactor %s: %d edits\n", kind, n)
	return nil
}

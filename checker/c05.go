package main

import (
	"fmt"
	"go/ast"
	"go/token"
	"go/types"
	"os"
	"sort"
	"strings"
)

func init() { register("C05", rulesC05, nil); registry["C05"].whole = true }

// guardedMaps: map field → the mutex (lock class) that guards it. Filled from the discovery run, each entry read.
var guardedMaps = map[string]string{
	"Client.sendMethods":                  "Client.mu",
	"ClientSession.pendingElicitations":   "ClientSession.pendingElicitationsMu",
	"ClientSession.resourceSubs":          "ClientSession.resourceSubsMu",
	"MemoryEventStore.store":              "MemoryEventStore.mu",
	"SSEHandler.sessions":                 "SSEHandler.mu",
	"Server.pendingNotifications":         "Server.mu",
	"Server.promptChangeSubscriptions":    "Server.mu",
	"Server.receiveMethods":               "Server.mu",
	"Server.resourceChangeSubscriptions":  "Server.mu",
	"Server.resourceSubscriptions":        "Server.mu",
	"Server.toolChangeSubscriptions":      "Server.mu",
	"StreamableHTTPHandler.sessions":      "StreamableHTTPHandler.mu",
	"ioConn.batches":                      "ioConn.batchMu",
	"methodCache.cachedValues":            "methodCache.mu",
	"stream.requests":                     "stream.mu",
	"streamableServerConn.requestStreams": "streamableServerConn.mu",
	"streamableServerConn.streams":        "streamableServerConn.mu",
	// slices that are re-sliced / appended under a mutex (a torn slice header is as fatal as a concurrent map write)
	"Client.sessions":                 "Client.mu",
	"Server.sessions":                 "Server.mu",
	"ServerSession.listenIDs":         "ServerSession.mu",
	"ServerSession.supportedVersions": "ServerSession.mu",
	"ioConn.outgoingBatch":            "ioConn.writeMu",
}

// guardedMapExempt: "<function>:<field>" → reason an unlocked access is in order.
var guardedMapExempt = map[string]string{
	"(*StreamableServerTransport).Connect:streamableServerConn.streams": "the connection was allocated by the preceding statement (into t.connection) and has not been returned to anybody yet",
}

func rulesC05(c *Ctx) {
	uif := c.Fn(pJ, "Connection", "updateInFlight")
	closerF := c.Field(pJ, "inFlightState", "closer")
	doneF := c.Field(pJ, "Connection", "done")
	readingF := c.Field(pJ, "inFlightState", "reading")
	idleObj := c.FnObj(pJ, "inFlightState", "idle")
	shutObj := c.FnObj(pJ, "inFlightState", "shuttingDown")

	c.Rule("R-C05-1", "the transport closer is consumed once and done is closed once, only inside updateInFlight, only when the connection is idle and shutting down, and done only after the reader is gone", func() {
		g := uif.Graph()
		closeM := c.P.StdFunc("io", "Closer", "Close")
		c.Need(closeM != nil, "io.Closer.Close")
		nClose, nDone := 0, 0
		for _, f := range c.funcsWithLits(pJ) {
			for _, call := range f.AllCalls(f.Body, false) {
				if sel, ok := ast.Unparen(call.Fun).(*ast.SelectorExpr); ok && f.IsField(sel.X, closerF) && sel.Sel.Name == "Close" {
					nClose++
					c.Check(f == uif, "closer.Close:"+f.Name(), f, call, "the transport is closed only from updateInFlight")
				}
				if f.BuiltinName(call) == "close" && len(call.Args) == 1 && f.IsField(call.Args[0], doneF) {
					nDone++
					c.Check(f == uif, "close(done):"+f.Name(), f, call, "Connection.done is closed only from updateInFlight")
				}
			}
			for _, w := range f.FieldWrites(f.Body, closerF, false) {
				c.Check(f == uif, "closer-write:"+f.Name(), f, w, "closer is reset only in updateInFlight")
			}
		}
		c.Pin("closer.Close sites", nClose, 1)
		c.Pin("close(done) sites", nDone, 1)
		idleAndShut := func(atoms []Atom) bool {
			i := hasAtom(atoms, func(a Atom) bool { ce, ok := a.E.(*ast.CallExpr); return ok && a.Val && uif.IsCallTo(ce, idleObj) })
			s := hasAtom(atoms, func(a Atom) bool {
				return AtomSaysNil(a, false, func(e ast.Expr) bool {
					ce, ok := ast.Unparen(e).(*ast.CallExpr)
					return ok && uif.IsCallTo(ce, shutObj)
				})
			})
			return i && s
		}
		for _, call := range uif.AllCalls(uif.Body, false) {
			if sel, ok := ast.Unparen(call.Fun).(*ast.SelectorExpr); ok && uif.IsField(sel.X, closerF) && sel.Sel.Name == "Close" {
				v := g.VertexOf(call)
				guards := g.GuardsAt(v)
				c.Check(idleAndShut(guards), "updateInFlight:close-only-when-idle-and-shutting-down", uif, call, "closer.Close() is control-dependent on idle() && shuttingDown() != nil (guards: %s): closing earlier cuts off running handlers / pending responses", atomsString(guards))
				c.Check(hasAtom(guards, func(a Atom) bool {
					return AtomSaysNil(a, false, func(e ast.Expr) bool { return uif.IsField(e, closerF) })
				}), "updateInFlight:close-once", uif, call, "closer.Close() is guarded by closer != nil")
				// closer = nil follows on all paths
				okn, _ := g.PostDominatedBy(v, func(u int) bool {
					for _, w := range Writes(g.Node(u), false) {
						if uif.IsField(w.LHS, closerF) && w.RHS != nil && isNilIdent(w.RHS) {
							return true
						}
					}
					return false
				})
				c.Check(okn, "updateInFlight:closer-consumed", uif, call, "closer = nil follows the Close call on every path (no duplicate Close)")
			}
			if uif.BuiltinName(call) == "close" && len(call.Args) == 1 && uif.IsField(call.Args[0], doneF) {
				v := g.VertexOf(call)
				guards := g.GuardsAt(v)
				c.Check(idleAndShut(guards), "updateInFlight:done-only-when-idle-and-shutting-down", uif, call, "close(done) is control-dependent on idle() && shuttingDown() != nil (guards: %s)", atomsString(guards))
				c.Check(hasAtom(guards, func(a Atom) bool { return !a.Val && uif.IsField(a.E, readingF) }), "updateInFlight:done-after-reader-gone", uif, call, "close(done) only on the !reading branch: Wait must not return while the reader goroutine is alive")
				// the already-done early return precedes (no double close)
				okd, _ := g.DominatedBy(v, func(u int) bool {
					es, ok := g.Node(u).(*ast.ExprStmt)
					return ok && isRecvFrom(uif, es.X, func(e ast.Expr) bool { return uif.IsField(e, doneF) })
				})
				c.Check(okd, "updateInFlight:done-closed-once", uif, call, "a select on <-c.done (returning when already closed) dominates close(done)")
			}
		}
		// idle() reads all four quantities
		idle := c.Fn(pJ, "inFlightState", "idle")
		for _, fn := range []string{"outgoingCalls", "outgoingNotifications", "incoming", "handlerRunning"} {
			fld := c.Field(pJ, "inFlightState", fn)
			ok := false
			for _, r := range idle.Returns() {
				if len(r.Results) == 1 && len(idle.FieldRefs(r.Results[0], fld, false)) > 0 {
					ok = true
				}
			}
			c.Check(ok, "idle:reads-"+fn, idle, nil, "idle() depends on %s (dropping it closes the transport under work that is still in flight)", fn)
		}
		// the user function runs before the close decision
		fparam := uif.Params()[1]
		var fv int = -1
		for _, call := range uif.AllCalls(uif.Body, false) {
			if uif.ObjOf(call.Fun) == fparam {
				fv = g.VertexOf(call)
			}
		}
		c.Need(fv >= 0, "updateInFlight: call of f")
		for _, v := range g.callVertices(idleObj) {
			c.Check(g.Dominates(fv, v), "updateInFlight:decide-after-update", uif, g.Node(v), "the idle/shutting-down decision is taken after the state update f(s)")
		}
		c.Check(uif.heldLocal(g.Node(fv))["Connection.stateMu"], "updateInFlight:update-under-stateMu", uif, g.Node(fv), "f(s) runs with stateMu held")
	})

	c.Rule("R-C05-2", "in-flight counters are paired on every path: outgoingNotifications, reading", func() {
		outN := c.Field(pJ, "inFlightState", "outgoingNotifications")
		nf := c.Fn(pJ, "Connection", "Notify")
		g := nf.Graph()
		var incSite *uifSite
		var incStmt ast.Node
		for _, s := range c.uifSites(nf) {
			s := s
			for _, w := range s.Lit.FieldWrites(s.Lit.Body, outN, false) {
				if id, ok := w.(*ast.IncDecStmt); ok && id.Tok == token.INC && s.In == nf {
					incSite, incStmt = &s, w
				}
			}
		}
		c.Need(incSite != nil, "Notify: closure incrementing outgoingNotifications")
		// flag set in the same block as the increment
		var flag types.Object
		lg := incSite.Lit.Graph()
		for _, w := range Writes(incSite.Lit.Body, false) {
			if w.RHS != nil && exprStr(w.RHS) == "true" {
				wv, iv := lg.VertexOf(w.Stmt), lg.VertexOf(incStmt)
				if lg.Dominates(iv, wv) && func() bool { ok, _ := lg.PostDominatedBy(iv, func(u int) bool { return u == wv }); return ok }() {
					flag = incSite.Lit.ObjOf(w.LHS)
				}
			}
		}
		// the other spelling of the same pairing: the closure leaves without incrementing only with a captured error set,
		// the caller returns at once on that error, and otherwise registers an unconditional deferred decrement before
		// anything else can leave the function
		pairedByReturn, whyNot := false, ""
		if flag == nil {
			pairedByReturn, whyNot = c.pairedByEarlyReturn(nf, incSite, incStmt, outN)
		}
		c.Check(flag != nil || pairedByReturn, "Notify:flag-with-increment", incSite.Lit, incStmt, "the increment is tied to the decrement: it sets a local flag that the deferred decrement tests, or the function returns at once when the closure did not increment and defers the decrement otherwise %s", whyNot)
		if pairedByReturn {
			nInc, nDec := 0, 0
			for _, f := range c.funcsWithLits(pJ) {
				for _, w := range f.FieldWrites(f.Body, outN, false) {
					if id, ok := w.(*ast.IncDecStmt); ok {
						if id.Tok == token.INC {
							nInc++
						} else {
							nDec++
						}
						c.Check(f.Root().Obj == nf.Obj, "outgoingNotifications-writer:"+f.Name(), f, w, "outgoingNotifications is only written by Notify")
					} else {
						c.Fail("outgoingNotifications-writer:"+f.Name(), f, w, "unexpected write")
					}
				}
			}
			c.Check(nInc == 1 && nDec == 1, "outgoingNotifications:one-inc-one-dec", nf, nil, "one increment and one decrement site (%d/%d)", nInc, nDec)
		}
		if flag != nil {
			ws := nf.writesToVar(nf.Body, flag, true)
			okW := len(ws) == 2
			for _, w := range ws {
				as, isAs := w.(*ast.AssignStmt)
				if !isAs || len(as.Rhs) != 1 {
					okW = false
					continue
				}
				inInc := encloses(incSite.Lit.Lit, w)
				if v := exprStr(as.Rhs[0]); !(v == "true" && inInc) && !(v == "false" && as.Tok == token.DEFINE && !inInc) {
					okW = false
				}
			}
			c.Check(okW, "Notify:flag-written-only-with-increment", nf, nil, "the flag is initialised false and set true only together with the increment; any other write unpairs the deferred decrement (the connection then never becomes idle and Close hangs)")
		}
		// deferred literal decrements under that flag, registered before the increment closure
		okDef := false
		for _, v := range g.Vertices(func(n ast.Node) bool { _, ok := n.(*ast.DeferStmt); return ok }) {
			lit := nf.LitOfDefer(g.Node(v).(*ast.DeferStmt))
			if lit == nil {
				continue
			}
			for _, s := range c.uifSites(lit) {
				for _, w := range s.Lit.FieldWrites(s.Lit.Body, outN, false) {
					if id, ok := w.(*ast.IncDecStmt); ok && id.Tok == token.DEC {
						dg := lit.Graph()
						guards := dg.GuardsAt(dg.VertexOf(s.Call))
						onlyFlag := hasAtom(guards, func(a Atom) bool { return a.Val && lit.ObjOf(a.E) == flag })
						if onlyFlag && g.Dominates(v, g.VertexOf(incSite.Call)) {
							okDef = true
						}
					}
				}
			}
		}
		if pairedByReturn {
			goto reading
		}
		c.Check(okDef, "Notify:deferred-decrement", nf, nil, "a deferred closure registered before the increment decrements outgoingNotifications exactly when the flag was set (all exits, including panics in the writer)")
		{
			nInc, nDec := 0, 0
			for _, f := range c.funcsWithLits(pJ) {
				for _, w := range f.FieldWrites(f.Body, outN, false) {
					if id, ok := w.(*ast.IncDecStmt); ok {
						if id.Tok == token.INC {
							nInc++
						} else {
							nDec++
						}
						c.Check(f.Root().Obj == nf.Obj, "outgoingNotifications-writer:"+f.Name(), f, w, "outgoingNotifications is only written by Notify")
					} else {
						c.Fail("outgoingNotifications-writer:"+f.Name(), f, w, "unexpected write")
					}
				}
			}
			c.Check(nInc == 1 && nDec == 1, "outgoingNotifications:one-inc-one-dec", nf, nil, "one increment and one decrement site (%d/%d)", nInc, nDec)
		}
	reading:
		// reading
		riObj := c.FnObj(pJ, "Connection", "readIncoming")
		for _, f := range c.funcsWithLits(pJ) {
			for _, w := range Writes(f.Body, false) {
				if !f.IsField(w.LHS, readingF) || w.RHS == nil {
					continue
				}
				switch exprStr(w.RHS) {
				case "true":
					fg := f.Graph()
					okGo := false
					for _, gs := range f.goStmts() {
						if f.IsCallTo(gs.Call, riObj) && fg.Dominates(fg.VertexOf(w.Stmt), fg.VertexOf(gs)) {
							okGo = true
						}
					}
					c.Check(okGo, "reading=true:"+f.Name(), f, w.Stmt, "reading is set exactly where the reader goroutine is started")
				case "false":
					c.Check(f.Root().Obj == riObj && c.inFlightContext(f) != "", "reading=false:"+f.Name(), f, w.Stmt, "reading is cleared only by the reader's exit closure")
				default:
					c.Fail("reading-write:"+f.Name(), f, w.Stmt, "unexpected write of reading")
				}
			}
		}
	})

	c.Rule("R-C05-3", "work admitted during shutdown only decreases: new calls are refused at registration, nothing is enqueued", func() {
		ar := c.Fn(pJ, "Connection", "acceptRequest")
		byID := c.Field(pJ, "inFlightState", "incomingByID")
		queue := c.Field(pJ, "inFlightState", "handlerQueue")
		eSrv := c.Obj(pJ, "ErrServerClosing")
		nReg, nEnq := 0, 0
		for _, s := range c.uifSites(ar) {
			l := s.Lit
			lg := l.Graph()
			sv := lg.callVertices(shutObj)
			if len(l.FieldWrites(l.Body, byID, false)) > 0 {
				nReg++
				ok := len(sv) == 1
				if ok {
					call := l.CallsIn(lg.Node(sv[0]), shutObj, false)[0]
					ok = l.ObjOf(call.Args[0]) == eSrv
					// reached on every path that registered the call
					for _, w := range l.FieldWrites(l.Body, byID, false) {
						if _, isAssign := w.(*ast.AssignStmt); isAssign {
							if m, _, isIx := indexOf(w.(*ast.AssignStmt).Lhs[0]); isIx && l.IsField(m, byID) {
								okp, _ := lg.PostDominatedBy(lg.VertexOf(w), func(u int) bool { return u == sv[0] })
								ok = ok && okp
							}
						}
					}
				}
				c.Check(ok, "acceptRequest:calls-refused-when-shutting-down", l, nil, "after indexing a call the closure always evaluates shuttingDown(ErrServerClosing) into err (→ answered with the closing error, never handed to preempter/handler)")
			}
			for _, w := range l.FieldWrites(l.Body, queue, false) {
				nEnq++
				okd, _ := lg.DominatedBy(lg.VertexOf(w), func(u int) bool { return len(sv) == 1 && u == sv[0] })
				guards := lg.GuardsAt(lg.VertexOf(w))
				c.Check(okd && hasAtom(guards, func(a Atom) bool { return AtomSaysNil(a, true, func(ast.Expr) bool { return true }) }), "acceptRequest:nothing-enqueued-when-shutting-down", l, w,
					"the enqueue is dominated by a shuttingDown test in the same closure and guarded by its nil result (guards: %s)", atomsString(guards))
			}
		}
		c.Pin("registration closure", nReg, 1)
		c.Pin("enqueue closure", nEnq, 1)
		// Notify: a refused notification is not counted and not sent
		nf := c.Fn(pJ, "Connection", "Notify")
		outN := c.Field(pJ, "inFlightState", "outgoingNotifications")
		nInc := 0
		for _, s := range c.uifSites(nf) {
			l := s.Lit
			lg := l.Graph()
			verdict := l.VarFromCall(shutObj, 0)
			for _, w := range l.FieldWrites(l.Body, outN, false) {
				if inc, ok := w.(*ast.IncDecStmt); !ok || inc.Tok != token.INC {
					continue
				}
				nInc++
				wv := lg.VertexOf(w)
				okRef := verdict != nil
				for _, t := range lg.edgesWhere(func(a Atom) bool {
					return AtomSaysNil(a, false, func(e ast.Expr) bool { return l.ObjOf(e) == verdict })
				}) {
					seen, _ := lg.reach([]int{t}, nil, nil)
					if seen[wv] || t == wv {
						okRef = false
					}
				}
				// there is such a test between the verdict and the increment
				okRef = okRef && len(lg.edgesWhere(func(a Atom) bool {
					return AtomSaysNil(a, false, func(e ast.Expr) bool { return l.ObjOf(e) == verdict })
				})) > 0
				c.Check(okRef, "Notify:refused-not-counted", l, w, "outgoingNotifications++ is unreachable from the branch on which shuttingDown returned an error")
			}
		}
		c.Pin("notification admissions", nInc, 1)
		ng := nf.Graph()
		wrV := ng.callVertices(c.FnObj(pJ, "Connection", "write"))
		okSend := len(wrV) == 1
		if okSend {
			// the write is not reached when the admission closure left an error
			for _, t := range ng.edgesWhere(func(a Atom) bool {
				return AtomSaysNil(a, false, func(e ast.Expr) bool { return nf.ObjOf(e) != nil && nf.ObjOf(e) == nf.NamedResult(0) })
			}) {
				if seen, _ := ng.reach([]int{t}, nil, nil); seen[wrV[0]] || t == wrV[0] {
					okSend = false
				}
			}
		}
		c.Check(okSend, "Notify:refused-not-written", nf, nil, "after a refusal Notify returns the error without writing")
	})

	c.Rule("R-C05-17", "Connection.Close returns only after the connection is done, for every caller: every path of Close passes c.wait (a second, concurrent Close that returns at once tells its caller the session is closed while handlers still run and the transport is open)", func() {
		cl := c.Fn(pJ, "Connection", "Close")
		g := cl.Graph()
		wv := g.callVertices(c.FnObj(pJ, "Connection", "wait"))
		c.Must(len(wv) >= 1, "Connection.Close:waits", cl, nil, "Connection.Close calls c.wait")
		ok, p := g.MustPassIncl(g.Entry, g.Exits, func(v int) bool {
			for _, u := range wv {
				if u == v {
					return true
				}
			}
			return false
		})
		c.Check(ok, "Connection.Close:every-path-waits", cl, nil, "every path from the entry of Close to a return passes c.wait %s", g.PathString(p))
	})

	c.Rule("R-C05-4", "session Close: stop keep-alive, cancel parked listens/subscriptions, then close the connection; onClose at most once", func() {
		connClose := c.FnObj(pJ, "Connection", "Close")
		connCancel := c.FnObj(pJ, "Connection", "Cancel")
		for _, side := range []struct{ typ, label string }{{"ServerSession", "ServerSession.Close"}, {"ClientSession", "ClientSession.Close"}} {
			f := c.Fn(pM, side.typ, "Close")
			g := f.Graph()
			cvs := g.callVertices(connClose)
			c.Need(len(cvs) == 1, side.label+": one conn.Close()")
			cv := cvs[0]
			ka := c.Field(pM, side.typ, "keepaliveCancel")
			before := func(pred func(n ast.Node) bool, what string) {
				vs := g.Vertices(pred)
				ok := len(vs) > 0
				for _, v := range vs {
					if g.ReachableFrom(cv)[v] || !g.ReachableFrom(v)[cv] {
						ok = false
					}
				}
				c.Check(ok, side.label+":"+what+"-before-conn.Close", f, nil, "%s happens before conn.Close() (which waits for in-flight handlers; a parked one would block it forever)", what)
			}
			before(func(n ast.Node) bool {
				for _, call := range f.AllCalls(n, false) {
					if f.IsField(call.Fun, ka) {
						return true
					}
				}
				return false
			}, "keepaliveCancel()")
			if side.typ == "ServerSession" {
				listen := c.Field(pM, "ServerSession", "listenIDs")
				// ids swapped out under ss.mu, then each cancelled
				var idsVar types.Object
				for _, w := range Writes(f.Body, false) {
					if w.RHS != nil && f.IsField(w.RHS, listen) {
						idsVar = f.ObjOf(w.LHS)
						c.Check(f.heldLocal(w.Stmt)["ServerSession.mu"], side.label+":listenIDs-read-under-mu", f, w.Stmt, "listenIDs is read under ss.mu")
					}
				}
				ok := false
				inspectNoLit(f.Body, func(n ast.Node) {
					rs, isR := n.(*ast.RangeStmt)
					if !isR || idsVar == nil || f.ObjOf(rs.X) != idsVar {
						return
					}
					for _, call := range f.CallsIn(rs.Body, connCancel, false) {
						if f.ObjOf(call.Args[0]) == f.ObjOf(rs.Value) && g.ReachableFrom(g.VertexOf(call))[cv] && !g.ReachableFrom(cv)[g.VertexOf(call)] {
							ok = true
						}
					}
				})
				c.Check(ok, side.label+":cancel-listens-before-conn.Close", f, nil, "every id taken from listenIDs is passed to conn.Cancel before conn.Close()")
			} else {
				lc := c.Field(pM, "ClientSession", "listenCancel")
				before(func(n ast.Node) bool {
					for _, call := range f.AllCalls(n, false) {
						if f.IsField(call.Fun, lc) {
							return true
						}
					}
					return false
				}, "listenCancel()")
				cars := c.FnObj(pM, "ClientSession", "cancelAllResourceSubscriptions")
				before(func(n ast.Node) bool { return f.ContainsCall(n, cars) }, "cancelAllResourceSubscriptions()")
			}
			// onClose under CompareAndSwap(false,true)
			oc := c.Field(pM, side.typ, "onClose")
			// the hook is called: on the edge where it is set and the once-flag was won, every path calls it; that test is
			// reached on every path after conn.Close (whatever conn.Close returned)
			calledOC := false
			for _, t := range g.edgesWhere(func(a Atom) bool {
				ce, isC := a.E.(*ast.CallExpr)
				if !isC || !a.Val {
					return false
				}
				sl, isS := ast.Unparen(ce.Fun).(*ast.SelectorExpr)
				return isS && sl.Sel.Name == "CompareAndSwap"
			}) {
				if g.allPathsPass(t, func(v int) bool {
					for _, call := range f.AllCalls(g.Node(v), false) {
						if f.IsField(call.Fun, oc) {
							return true
						}
					}
					return false
				}) {
					calledOC = true
				}
			}
			// the gate of the hook's call (is a hook set? did this caller win the once-flag?) is entered on every path after
			// conn.Close, and it consists of those two tests only
			casReached := false
			for _, call := range f.AllCalls(f.Body, false) {
				if !f.IsField(call.Fun, oc) {
					continue
				}
				ov := g.VertexOf(call)
				gate := g.gateOf(ov)
				nLeaves, _ := g.gateLeaves(ov, true)
				hasCAS := hasAtom(g.GuardsAt(ov), func(a Atom) bool {
					ce, isC := a.E.(*ast.CallExpr)
					if !isC || !a.Val {
						return false
					}
					sl, isS := ast.Unparen(ce.Fun).(*ast.SelectorExpr)
					return isS && sl.Sel.Name == "CompareAndSwap"
				})
				if len(gate) > 0 && hasCAS && nLeaves <= 2 {
					casReached, _ = g.MustPass(cv, g.Exits, func(v int) bool { return v == gate[0] })
				}
			}
			c.Check(calledOC && casReached, side.label+":onClose-is-called", f, nil, "after conn.Close every path reaches the once-test, and winning it always calls onClose: the owner (Client/Server/HTTP handler) forgets the session")
			for _, call := range f.AllCalls(f.Body, false) {
				if f.IsField(call.Fun, oc) {
					guards := g.GuardsAt(g.VertexOf(call))
					ok := hasAtom(guards, func(a Atom) bool {
						ce, isC := a.E.(*ast.CallExpr)
						if !isC || !a.Val {
							return false
						}
						s, isS := ast.Unparen(ce.Fun).(*ast.SelectorExpr)
						return isS && s.Sel.Name == "CompareAndSwap" && len(ce.Args) == 2 && exprStr(ce.Args[0]) == "false" && exprStr(ce.Args[1]) == "true"
					})
					c.Check(ok, side.label+":onClose-once", f, call, "onClose is called only through CompareAndSwap(false, true)")
					c.Check(g.ReachableFrom(cv)[g.VertexOf(call)], side.label+":onClose-after-conn.Close", f, call, "onClose runs after the connection is closed")
				}
			}
		}
		// subscriptions/listen ids are recorded before the handler can park
		h := c.Fn(pM, "ServerSession", "handle")
		hg := h.Graph()
		hr := c.FnObj(pM, "", "handleReceive")
		listen := c.Field(pM, "ServerSession", "listenIDs")
		// ... and a finished listen is taken out of the record without losing another one: where some function cuts
		// the record short (listenIDs = listenIDs[:n]) nothing may have been stored into slot n just before — a value put
		// into the slot that is cut off is gone, and the element that was there (the id of a listen that is still
		// parked, in a swap-with-last removal) is lost with it, so Close never cancels it
		for _, f := range c.P.FuncsIn(pM) {
			if f.Body == nil {
				continue
			}
			ast.Inspect(f.Body, func(x ast.Node) bool {
				as, ok := x.(*ast.AssignStmt)
				if !ok || len(as.Lhs) != 1 || len(as.Rhs) != 1 || !f.IsField(as.Lhs[0], listen) {
					return true
				}
				sl, ok := ast.Unparen(as.Rhs[0]).(*ast.SliceExpr)
				if !ok || sl.Low != nil || sl.High == nil || !f.IsField(sl.X, listen) {
					return true
				}
				cut := types.ExprString(sl.High)
				var dead ast.Node
				ast.Inspect(f.Body, func(y ast.Node) bool {
					st, ok := y.(*ast.AssignStmt)
					if !ok || st.Pos() >= as.Pos() {
						return true
					}
					for _, l := range st.Lhs {
						if ix, ok := ast.Unparen(l).(*ast.IndexExpr); ok && f.IsField(ix.X, listen) && types.ExprString(ix.Index) == cut {
							dead = st
						}
					}
					return true
				})
				c.Check(dead == nil, "listen-ids:removal-keeps-the-others:"+f.Name(), f, as, "listenIDs is cut to [:%s] and nothing was stored into slot %s before (a store there is cut off at once; the id that was in that slot — a listen still parked — would be lost and never cancelled by Close)", cut, cut)
				return true
			})
		}
		ws := h.FieldWrites(h.Body, listen, false)
		c.Need(len(ws) == 1, "handle: append to listenIDs")
		wv := hg.VertexOf(ws[0])
		hv := hg.callVertices(hr)
		c.Need(len(hv) == 1, "handle: handleReceive call")
		guards := hg.GuardsAt(wv)
		mF := c.Field(pJ, "Request", "Method")
		mL := c.Obj(pM, "methodSubscriptionsListen")
		c.Check(hg.ReachableFrom(wv)[hv[0]] && !hg.ReachableFrom(hv[0])[wv] && hasAtom(guards, func(a Atom) bool {
			x, y, op, ok := binaryCmp(a.E)
			return ok && op == token.EQL && a.Val && h.IsField(x, mF) && h.ObjOf(y) == mL
		}) && h.heldLocal(ws[0])["ServerSession.mu"], "handle:listen-id-recorded-before-dispatch", h, ws[0], "the id of a subscriptions/listen request is appended to listenIDs (under ss.mu) before handleReceive runs")
		// ... for every listen request: the method test is the only test in front of the recording (a further conjunct —
		// "and the session is initialized", "and the id is not known yet" — leaves some parked listen that Close cannot
		// cancel, and Close then waits for it forever)
		if nl, what := hg.semanticLeaves(wv); true {
			c.Check(nl == 1, "handle:listen-id-recorded-for-every-listen", h, ws[0], "one test guards the recording of a listen id (found %d: %s)", nl, what)
		}
	})

	c.Rule("R-C05-5", "disconnect forgets the session everywhere: every Server/Client field that can hold a session is purged, and OnDone calls disconnect", func() {
		for _, side := range []struct{ owner, sess string }{{"Server", "ServerSession"}, {"Client", "ClientSession"}} {
			owner := c.P.LookupType(pM, side.owner)
			sess := c.P.LookupType(pM, side.sess)
			c.Need(owner != nil && sess != nil, "types "+side.owner+"/"+side.sess)
			dis := c.Fn(pM, side.owner, "disconnect")
			param := dis.Params()[1]
			n := 0
			for _, fld := range structFields(owner) {
				if !typeMentions(fld.Type(), sess, 0) {
					continue
				}
				n++
				// some statement in disconnect removes `param` from this field
				ok := false
				for _, w := range dis.FieldWrites(dis.Body, fld, true) {
					if dis.Mentions(w, param) {
						ok = true
					}
				}
				// nested map: for _, m := range s.fld { delete(m, cc) }
				inspectNoLit(dis.Body, func(x ast.Node) {
					rs, isR := x.(*ast.RangeStmt)
					if !isR || !dis.IsField(rs.X, fld) {
						return
					}
					for _, call := range dis.AllCalls(rs.Body, false) {
						if dis.BuiltinName(call) == "delete" && len(call.Args) == 2 && dis.ObjOf(call.Args[0]) == dis.ObjOf(rs.Value) && dis.ObjOf(call.Args[1]) == param {
							ok = true
						}
					}
				})
				c.Check(ok, side.owner+".disconnect:purges-"+fld.Name(), dis, nil, "%s.%s (type %s) can hold a *%s and is purged of the session in disconnect; a per-session structure without cleanup keeps closed sessions (and their subscriptions) alive", side.owner, fld.Name(), fld.Type(), side.sess)
			}
			c.Pin(side.owner+" session-holding fields", n, map[string]int{"Server": 5, "Client": 1}[side.owner])
			g := dis.Graph()
			var lockCall ast.Node
			for _, call := range dis.AllCalls(dis.Body, false) {
				if op, ok := dis.lockOpOf(call); ok && op.acquire {
					lockCall = call
				}
			}
			c.Check(lockCall != nil && g.VertexOf(lockCall) == g.Entry, side.owner+".disconnect:under-mu", dis, nil, "disconnect holds %s.mu throughout", side.owner)
		}
		conn := c.Fn(pM, "", "connect")
		ok := false
		inspectNoLit(conn.Body, func(n ast.Node) {
			kv, isKV := n.(*ast.KeyValueExpr)
			if !isKV || exprStr(kv.Key) != "OnDone" {
				return
			}
			if l, isL := ast.Unparen(kv.Value).(*ast.FuncLit); isL {
				lf := conn.LitFor(l)
				for _, call := range lf.AllCalls(lf.Body, false) {
					if s, isS := ast.Unparen(call.Fun).(*ast.SelectorExpr); isS && s.Sel.Name == "disconnect" {
						ok = true
					}
				}
			}
		})
		c.Check(ok, "connect:OnDone-disconnects", conn, nil, "the connection's OnDone callback calls binder.disconnect(session)")
		// onDone is invoked where done is closed
		onDone := c.Field(pJ, "Connection", "onDone")
		g := uif.Graph()
		okOD := false
		for _, call := range uif.AllCalls(uif.Body, false) {
			if uif.IsField(call.Fun, onDone) {
				for _, dc := range uif.AllCalls(uif.Body, false) {
					if uif.BuiltinName(dc) == "close" && uif.IsField(dc.Args[0], doneF) && g.ReachableFrom(g.VertexOf(call))[g.VertexOf(dc)] && !g.ReachableFrom(g.VertexOf(dc))[g.VertexOf(call)] &&
						hasAtom(g.GuardsAt(g.VertexOf(call)), func(a Atom) bool { return !a.Val && uif.IsField(a.E, readingF) }) {
						okOD = true
					}
				}
			}
		}
		c.Check(okOD, "updateInFlight:onDone-before-done", uif, nil, "onDone() runs right before close(done): when Wait returns the session is already removed from its Client/Server")
	})

	c.Rule("R-C05-6", "the lock-order graph over all SDK mutexes is acyclic (necessary for deadlock freedom)", func() {
		lg := c.lockGraph()
		cyc := lg.cycles()
		var es []string
		for h, m := range lg.edges {
			for l := range m {
				es = append(es, h+"→"+l)
			}
		}
		sort.Strings(es)
		c.notes = append(c.notes, "lock classes are (struct type, mutex field); instances of one class are not distinguished; lock-order edges: "+strings.Join(es, ", "))
		for _, e := range es {
			p := strings.Split(e, "→")
			c.Ok("edge:"+e, nil, nil, "acquired while held at %s", lg.edges[p[0]][p[1]])
		}
		if len(cyc) == 0 {
			c.Ok("acyclic", uif, nil, "%d lock-order edges over %d call sites under lock, no cycle", len(es), lg.sites)
		}
		for _, cy := range cyc {
			var w []string
			for i := 0; i+1 < len(cy); i++ {
				w = append(w, cy[i]+"→"+cy[i+1]+" ("+lg.edges[cy[i]][cy[i+1]]+")")
			}
			c.Fail("cycle:"+strings.Join(cy, "→"), nil, nil, "lock-order cycle: %s", strings.Join(w, "; "))
		}
		c.Pin("lock-order edges", len(es), 6)
	})

	c.Rule("R-C05-7", "no peer I/O or connection shutdown while Server.mu / Client.mu is held", func() {
		le := c.lockEnv()
		sinks := map[*types.Func]bool{}
		for _, n := range []string{"write", "Call", "Notify", "Close", "Wait", "wait"} {
			sinks[c.FnObj(pJ, "Connection", n)] = true
		}
		r := c.resolver()
		n := 0
		for _, f := range le.all {
			if f.Pkg != c.P.Pkg(pM) {
				continue
			}
			for _, call := range f.AllCalls(f.Body, false) {
				if _, isGo := f.ParentOf(call).(*ast.GoStmt); isGo {
					continue
				}
				held := le.heldAt(f, call)
				if !held["Server.mu"] && !held["Client.mu"] {
					continue
				}
				if _, isLock := f.lockOpOf(call); isLock {
					continue
				}
				n++
				key := f.Name() + ":" + exprStr(call.Fun)
				if fn := f.Callee(call); fn != nil && sinks[fn] {
					c.Fail(key, f, call, "direct connection I/O under %s", setString(held))
					continue
				}
				var chain []string
				for _, t := range r.targets(f, call) {
					if ch := c.reachesAny(t, sinks, 6); ch != nil {
						chain = ch
						break
					}
				}
				if chain != nil {
					c.Fail(key, f, call, "under %s this call reaches connection I/O: %s (OnDone takes the same lock from under stateMu → deadlock; see the comment in notifySessions)", setString(held), strings.Join(chain, " → "))
				} else {
					c.Ok(key, f, call, "call under %s does not reach connection I/O (depth ≤ 6)", setString(held))
				}
			}
		}
		c.Pin("call sites under Server.mu/Client.mu", n, 30)
	})

	c.Rule("R-C05-8", "goroutines can always exit and timers/contexts are released: no exit-less loop, every hand-off select has a close arm, bare channel operations are a closed table, tickers stopped, cancel funcs used", func() {
		c.goroutineRules([]string{pJ, pM})
	})

	c.Rule("R-C05-15", "no unsynchronised access to shared maps and slices (a concurrent map read/write is a fatal error, a torn slice header an out-of-range panic): every access to a map or slice field listed in the table (fields of mutex-carrying SDK structs, each confirmed by reading) holds the mutex that guards it, except in the function that allocated the struct", func() {
		// field → guarding lock class (Type.mutexField)
		guard := map[string]string{}
		for k, v := range guardedMaps {
			guard[k] = v
		}
		seen := map[string]int{}
		for _, a := range guardedMapAccesses(c, []string{pM, pJ}) {
			g, ok := guard[a.field]
			if !ok {
				if os.Getenv("MCPCHECK_DISCOVER") != "" {
					fmt.Fprintf(os.Stderr, "DISCOVER %s at %s held=%v\n", a.field, a.f.At(a.n), keysOf(a.held))
				}
				continue
			}
			seen[a.field]++
			if why, ex := guardedMapExempt[a.f.Root().Name()+":"+a.field]; ex {
				c.Ok("map-under-lock:"+a.field+":"+a.f.Name()+":exempt", a.f, a.n, "exempt: %s", why)
				continue
			}
			c.Check(a.held[g], "map-under-lock:"+a.field+":"+a.f.Name()+"#"+itoa(seen[a.field]), a.f, a.n, "%s is accessed with %s held (held: %v)", a.field, g, keysOf(a.held))
		}
		for k := range guard {
			c.Pin("accesses of "+k, seen[k], 1)
		}
	})
	c.Rule("R-C05-16", "Close can cancel every listen stream the session has opened: ClientSession.Subscribe records the stream's cancel function (under resourceSubsMu) before the subscriptions/listen request goes out — recorded afterwards, a Close that runs in between finds nothing to cancel and waits for ever for a call the server answers only when it is cancelled", func() {
		sub := c.Fn(pM, "ClientSession", "Subscribe")
		g := sub.Graph()
		rsF := c.Field(pM, "ClientSession", "resourceSubs")
		listen := c.FnObj(pM, "ClientSession", "subscriptionsListen")
		lv := g.callVertices(listen)
		c.Pin("Subscribe: subscriptions/listen calls", len(lv), 1)
		var stores []int
		for _, w := range Writes(sub.Body, false) {
			if m, _, ok := indexOf(w.LHS); ok && sub.IsField(m, rsF) {
				stores = append(stores, g.VertexOf(w.Stmt))
				c.Check(sub.heldLocal(w.Stmt)["ClientSession.resourceSubsMu"], "Subscribe:cancel-stored-under-lock", sub, w.Stmt, "the cancel function is stored with resourceSubsMu held")
			}
		}
		c.Pin("Subscribe: stores into resourceSubs", len(stores), 1)
		for _, v := range lv {
			// the context given to the listen is created together with its registration: between every assignment of that
			// context variable and the listen call the cancel function is stored, and the call is reached only with the
			// variable set
			call := sub.CallsIn(g.Node(v), listen, false)
			if len(call) != 1 || len(call[0].Args) == 0 {
				c.Fail("Subscribe:listen-call-shape", sub, g.Node(v), "subscriptionsListen(ctx, …)")
				continue
			}
			ctxVar := sub.ObjOf(call[0].Args[0])
			isStore := func(u int) bool {
				for _, sv := range stores {
					if u == sv {
						return true
					}
				}
				return false
			}
			nw := 0
			for _, w := range sub.writesToVar(sub.Body, ctxVar, false) {
				as, isAs := w.(*ast.AssignStmt)
				if !isAs || len(as.Rhs) == 0 {
					continue
				}
				nw++
				ok, path := g.MustPass(g.VertexOf(w), []int{v}, isStore)
				c.Check(ok, "Subscribe:cancel-registered-before-listen", sub, w, "between the creation of the listen context and the subscriptions/listen call the cancel function is stored %s", g.PathString(path))
			}
			c.Check(nw >= 1 && ctxVar != nil, "Subscribe:listen-context-is-a-local", sub, g.Node(v), "the listen context is a local created by Subscribe (%d assignments)", nw)
		}
	})
	c.Import("R-C05-14", "Close waits for exactly the handlers that are running: every accepted request is counted on all paths of the accepting closure and un-counted once by processResult (a request refused without having been counted would un-count a running handler: Close returns, and closes the transport, under it)", "C02", "R-C02-1", func(k string) bool {
		return strings.HasPrefix(k, "acceptRequest:count") || strings.HasPrefix(k, "processResult:decrement") || strings.HasPrefix(k, "incoming--")
	})
	c.Import("R-C05-11", "Close cannot be held up by a call that was abandoned: cancelCall retires the call on every path (the long-lived subscriptions/listen call is retired only this way)", "C04", "R-C04-1", func(k string) bool { return strings.HasPrefix(k, "cancelCall:retire") })
	c.Import("R-C05-12", "no idle timer survives its session: start/end are paired, stopTimer stops and forgets the timer, the callback only closes the session", "C11", "R-C11-4", func(k string) bool {
		return strings.HasPrefix(k, "stopTimer") || strings.HasPrefix(k, "startPOST") || strings.HasPrefix(k, "endPOST") || strings.HasPrefix(k, "idle-timer")
	})

	c.Rule("R-C05-10", "Close announces shutdown and then waits; Wait and Close return only after done is closed; shuttingDown says no exactly when Close was called or either direction is broken", func() {
		cl := c.Fn(pJ, "Connection", "Close")
		cg := cl.Graph()
		wt := c.Fn(pJ, "Connection", "wait")
		wg := wt.Graph()
		closing := c.Field(pJ, "inFlightState", "connClosing")
		doneF := c.Field(pJ, "Connection", "done")
		// Close: a locked closure sets connClosing = true, and that call dominates the wait whose result is returned
		setV := -1
		for _, s := range c.uifSites(cl) {
			for _, w := range Writes(s.Lit.Body, false) {
				if s.Lit.IsField(w.LHS, closing) && w.RHS != nil && exprStr(w.RHS) == "true" && len(s.Lit.Graph().GuardsAt(s.Lit.Graph().VertexOf(w.Stmt))) == 0 {
					setV = cg.VertexOf(s.Call)
				}
			}
		}
		waits := cg.callVertices(wt.Obj)
		okClose := setV >= 0 && len(waits) == 1 && cg.Dominates(setV, waits[0])
		if okClose {
			okClose = false
			for _, r := range cl.Returns() {
				if len(r.Results) == 1 && cg.VertexOf(r) == waits[0] {
					okClose = true
				}
			}
		}
		c.Check(okClose, "Close:announce-then-wait", cl, nil, "Close unconditionally sets connClosing = true inside updateInFlight and then returns c.wait(…)")
		// nobody else resets the flag
		nSet := 0
		for _, f := range c.funcsWithLits(pJ) {
			for _, w := range f.FieldWrites(f.Body, closing, false) {
				nSet++
				c.Check(f.Root() == cl, "connClosing-writer:"+f.Name(), f, w, "connClosing is written only by Close")
			}
		}
		c.Pin("writes of connClosing", nSet, 1)
		// wait: the receive from done dominates every return
		recvV := -1
		inspectNoLit(wt.Body, func(n ast.Node) {
			if u, ok := n.(*ast.UnaryExpr); ok && u.Op == token.ARROW && wt.IsField(u.X, doneF) {
				recvV = wg.VertexOf(u)
			}
		})
		okWait := recvV >= 0
		for _, r := range wt.Returns() {
			if okWait && !wg.Dominates(recvV, wg.VertexOf(r)) {
				okWait = false
			}
		}
		c.Check(okWait, "wait:after-done", wt, nil, "every return of wait is dominated by the receive from c.done (Close and Wait do not return while the transport is still open)")
		// shuttingDown decision table
		sd := c.Fn(pJ, "inFlightState", "shuttingDown")
		sg := sd.Graph()
		readErr, writeErr := c.Field(pJ, "inFlightState", "readErr"), c.Field(pJ, "inFlightState", "writeErr")
		table := []struct {
			name             string
			closing, rd, wr  tri
			wantNil, wantErr bool
		}{
			{"closing", triTrue, triUnknown, triUnknown, false, true},
			{"read-broken", triFalse, triTrue, triUnknown, false, true},
			{"write-broken", triFalse, triFalse, triTrue, false, true},
			{"healthy", triFalse, triFalse, triFalse, true, false},
		}
		for _, row := range table {
			seen := sg.ReachUnder(func(e ast.Expr) tri {
				e = ast.Unparen(e)
				if sd.IsField(e, closing) {
					return row.closing
				}
				if x, twn, ok := NilTest(e); ok {
					var v tri = triUnknown
					if sd.IsField(x, readErr) {
						v = row.rd // "is set"
					} else if sd.IsField(x, writeErr) {
						v = row.wr
					} else {
						return triUnknown
					}
					if twn { // x == nil
						return triNot(v)
					}
					return v
				}
				return triUnknown
			}, nil)
			gotNil, gotErr := false, false
			for _, r := range sd.Returns() {
				if seen[sg.VertexOf(r)] && len(r.Results) == 1 {
					if isNilIdent(r.Results[0]) {
						gotNil = true
					} else {
						gotErr = true
					}
				}
			}
			c.Check(gotNil == row.wantNil && gotErr == row.wantErr, "shuttingDown["+row.name+"]", sd, nil, "reachable verdicts: nil=%v error=%v (expected nil=%v error=%v)", gotNil, gotErr, row.wantNil, row.wantErr)
		}
	})

	c.Rule("R-C05-13", "no channel field is closed twice (Close is idempotent and concurrent closes never panic): every close(x.ch) is inside a sync.Once, or on the not-yet edge of a boolean that the same branch sets, or paired with setting the channel field to nil behind a non-nil test — under a lock in the last two cases", func() { closeOnceRule(c) })

	c.Rule("R-C05-9", "no function of the connection, session and transport layers returns with a mutex it acquired still held: every path from a Lock to an exit passes the matching Unlock or a deferred Unlock (hand-offs are a closed table)", func() {
		// functions that return with a lock held on purpose, confirmed by reading: "<function>:<lock class>" → reason
		handoff := map[string]string{}
		n, nDefer := 0, 0
		for _, rel := range []string{pJ, pM} {
			for _, f := range c.funcsWithLits(rel) {
				g := f.Graph()
				type op struct {
					v        int
					key      string
					acquire  bool
					deferred bool
				}
				var ops []op
				for v := 0; v < g.N; v++ {
					node := g.Node(v)
					if node == nil {
						continue
					}
					for _, call := range f.AllCalls(node, false) {
						lo, ok := f.lockOpOf(call)
						if !ok {
							continue
						}
						k := lo.key
						if lo.read {
							k += "(R)"
						}
						_, isDefer := f.ParentOf(call).(*ast.DeferStmt)
						ops = append(ops, op{v, k, lo.acquire, isDefer})
					}
					// defer func() { …; mu.Unlock() }()
					if ds, ok := node.(*ast.DeferStmt); ok {
						if l := f.LitOfDefer(ds); l != nil {
							for _, call := range l.AllCalls(l.Body, false) {
								if lo, ok := l.lockOpOf(call); ok && !lo.acquire {
									k := lo.key
									if lo.read {
										k += "(R)"
									}
									ops = append(ops, op{v, k, false, true})
								}
							}
						}
					}
				}
				for _, a := range ops {
					if !a.acquire || a.deferred {
						continue
					}
					n++
					cls := f.Name() + ":" + a.key
					okp, path := g.MustPass(a.v, g.Exits, func(v int) bool {
						for _, r := range ops {
							if !r.acquire && r.key == a.key && r.v == v {
								return true
							}
						}
						return false
					})
					// a deferred unlock registered before the Lock (defer at the top, Lock later) also covers it
					if !okp {
						for _, r := range ops {
							if !r.acquire && r.deferred && r.key == a.key && g.Dominates(r.v, a.v) {
								okp = true
							}
						}
					}
					for _, r := range ops {
						if !r.acquire && r.deferred && r.key == a.key {
							nDefer++
							break
						}
					}
					if why, isHandoff := handoff[cls]; isHandoff {
						c.Ok("lock-handoff:"+cls, f, g.Node(a.v), "returns holding the lock by design: %s", why)
						continue
					}
					if okp {
						c.Ok("lock-paired:"+cls+"#"+itoa(n), f, g.Node(a.v), "every path from this Lock to an exit unlocks")
					} else {
						c.Fail("lock-paired:"+cls+"#"+itoa(n), f, g.Node(a.v), "a path from this Lock reaches an exit without the matching Unlock (%s): the next acquirer blocks forever", g.PathString(path))
					}
				}
			}
		}
		c.Pin("Lock sites in the connection, session and transport layers", n, 100)
	})
}

// typeMentions reports whether t structurally contains *target (as map key/value, slice elem, pointer).
func typeMentions(t types.Type, target *types.Named, depth int) bool {
	if depth > 6 {
		return false
	}
	switch x := t.(type) {
	case *types.Pointer:
		if n, ok := x.Elem().(*types.Named); ok && n.Obj() == target.Obj() {
			return true
		}
		return false
	case *types.Slice:
		return typeMentions(x.Elem(), target, depth+1)
	case *types.Array:
		return typeMentions(x.Elem(), target, depth+1)
	case *types.Map:
		return typeMentions(x.Key(), target, depth+1) || typeMentions(x.Elem(), target, depth+1)
	case *types.Alias:
		return typeMentions(types.Unalias(x), target, depth)
	}
	return false
}

// bareChanOps is the closed table of blocking channel operations outside a select in SDK code, each
// with the reason it cannot block forever (given the property's provisos).
var bareChanOps = map[string]string{
	"(*Connection).wait:recv Connection.done":           "the API's blocking point: Wait/Close block until the connection is done",
	"(*Connection).handleAsync:recv releaser.ch":        "released by the deferred release(true) of the handler goroutine started in the same iteration (R-C03-3)",
	"(*Server).subscriptionsListen:recv context.Done()": "handler context: cancelled by the peer's cancel, by reader exit, or by ServerSession.Close (R-C05-4)",
	"callSubscriptionsListen$1:recv context.Done()":     "cancelled by ClientSession.Close via listenCancel (R-C05-4)",
	"(*Server).Run$1:send local(chan error)":            "received on both arms of Run's select",
	"(*Server).Run:recv local(chan error)":              "the goroutine above sends exactly once after Wait returns; Close was just called",
	"(*pipeRWC).Close$1:send local(chan error)":         "buffered channel of capacity 1",
}

func (c *Ctx) goroutineRules(rels []string) {
	nGo, nSel, nBare := 0, 0, 0
	ticker := c.Std("time", "", "NewTicker")
	for _, rel := range rels {
		for _, f := range c.funcsWithLits(rel) {
			g := f.Graph()
			// (a) go statements: the started body must be able to exit from every loop
			for _, gs := range f.goStmts() {
				nGo++
				var body *Func
				if l := f.LitArgOfGo(gs); l != nil {
					body = l
				} else if fn := f.Callee(gs.Call); fn != nil {
					body = c.P.FuncOf(fn)
				}
				key := "go:" + f.Name() + ":" + exprStr(gs.Call.Fun)
				if len(key) > 90 {
					key = key[:90]
				}
				if body == nil {
					c.Ok(key, f, gs, "goroutine runs a function value / external function (no SDK loop to analyse)")
					continue
				}
				c.touch(body)
				bg := body.Graph()
				bad := ""
				inspectNoLit(body.Body, func(n ast.Node) {
					var head ast.Node
					switch l := n.(type) {
					case *ast.ForStmt:
						if l.Cond != nil {
							return
						}
						head = l.Body
					default:
						return
					}
					// an unconditional for: some exit (return/panic) or a statement after the loop must be reachable from its body
					hv := -1
					if bl, ok := head.(*ast.BlockStmt); ok && len(bl.List) > 0 {
						hv = bg.VertexOf(bl.List[0])
					}
					if hv < 0 {
						return
					}
					seen, _ := bg.reach([]int{hv}, nil, nil)
					can := false
					for _, x := range append(append([]int{}, bg.Exits...), bg.NoRet...) {
						if seen[x] {
							can = true
						}
					}
					if !can {
						bad = body.At(n)
					}
				})
				c.Check(bad == "", key, f, gs, "every unconditional loop of the goroutine body has a reachable exit %s", bad)
			}
			// (b) selects
			inspectNoLit(f.Body, func(n ast.Node) {
				sel, ok := n.(*ast.SelectStmt)
				if !ok {
					return
				}
				hasDefault, data, wake := false, 0, 0
				var what []string
				for _, cl := range sel.Body.List {
					cc := cl.(*ast.CommClause)
					if cc.Comm == nil {
						hasDefault = true
						continue
					}
					ch, isSend := commChan(cc.Comm)
					if ch == nil {
						continue
					}
					if !isSend && isWakeChan(f, ch) {
						wake++
					} else {
						data++
						what = append(what, exprStr(ch))
					}
				}
				if hasDefault || data == 0 {
					return
				}
				nSel++
				key := "select:" + f.Name() + ":" + strings.Join(what, ",")
				c.Check(wake > 0, key, f, sel, "a select that blocks on %s also has an arm on a close/cancel/timer channel, so the goroutine cannot be parked past Close", strings.Join(what, ", "))
			})
			// (c) bare channel operations
			for v := 0; v < g.N; v++ {
				n := g.Node(v)
				if n == nil {
					continue
				}
				var op ast.Node
				var desc string
				// the channel is described by owner type and field (or by its element type for locals), not by variable names
				switch s := n.(type) {
				case *ast.SendStmt:
					op, desc = s, "send "+f.FieldPath(s.Chan)
				case *ast.ExprStmt:
					if u, ok := ast.Unparen(s.X).(*ast.UnaryExpr); ok && u.Op == token.ARROW {
						op, desc = s, "recv "+f.FieldPath(u.X)
					}
				case *ast.AssignStmt:
					if len(s.Rhs) == 1 {
						if u, ok := ast.Unparen(s.Rhs[0]).(*ast.UnaryExpr); ok && u.Op == token.ARROW {
							op, desc = s, "recv "+f.FieldPath(u.X)
						}
					}
				}
				if op == nil {
					continue
				}
				if cc, inSel := f.ParentOf(op).(*ast.CommClause); inSel && cc.Comm == op {
					continue
				}
				nBare++
				key := f.Name() + ":" + desc
				if why, ok := bareChanOps[key]; ok && why != "?" {
					c.Ok("bare:"+key, f, op, "classified: %s", why)
				} else if chanOfOp(op) != nil && isLocalSemaphore(f, chanOfOp(op)) {
					c.Ok("bare:"+key, f, op, "a slot of a local counting semaphore (buffered channel made in this function; every goroutine that takes a slot gives it back in a deferred receive): it blocks only while that many goroutines of this very call are running")
				} else {
					c.Fail("bare:"+key, f, op, "a blocking channel operation outside any select that is not in the classified table: an unconditional blocking point that Close does not release keeps its goroutine (and whoever waits for it) forever")
				}
			}
			// (d) tickers
			for _, call := range f.CallsIn(f.Body, ticker, false) {
				var tv types.Object
				if as, ok := f.ParentOf(call).(*ast.AssignStmt); ok {
					tv = f.ObjOf(as.Lhs[0])
				}
				okStop := false
				inspectNoLit(f.Body, func(n ast.Node) {
					if d, ok := n.(*ast.DeferStmt); ok {
						if s, ok := ast.Unparen(d.Call.Fun).(*ast.SelectorExpr); ok && s.Sel.Name == "Stop" && tv != nil && f.ObjOf(s.X) == tv {
							okStop = true
						}
					}
				})
				c.Check(okStop, "ticker:"+f.Name(), f, call, "time.NewTicker is followed by a deferred Stop")
			}
			// (e) cancel functions of derived contexts
			for _, call := range f.AllCalls(f.Body, false) {
				fn := f.Callee(call)
				if fn == nil || fn.Pkg() == nil || fn.Pkg().Path() != "context" {
					continue
				}
				switch fn.Name() {
				case "WithCancel", "WithTimeout", "WithDeadline", "WithCancelCause":
				default:
					continue
				}
				as, ok := f.ParentOf(call).(*ast.AssignStmt)
				key := "cancel:" + f.Name() + ":" + fn.Name()
				if !ok || len(as.Lhs) != 2 {
					c.Undecided(key, f, call, "result of context.%s is not bound to two variables", fn.Name())
					continue
				}
				cv := f.ObjOf(as.Lhs[1])
				if id, isId := as.Lhs[1].(*ast.Ident); isId && id.Name == "_" {
					c.Fail(key, f, call, "the cancel function of context.%s is discarded (timer/goroutine leak)", fn.Name())
					continue
				}
				used := false
				ast.Inspect(f.Root().Body, func(n ast.Node) bool {
					if id, ok := n.(*ast.Ident); ok && f.Info().Uses[id] == cv {
						used = true
					}
					return true
				})
				c.Check(used, key, f, call, "the cancel function of context.%s is called, deferred, stored or passed on", fn.Name())
			}
		}
	}
	c.Pin("go statements", nGo, 14)
	c.Pin("blocking selects", nSel, 8)
	c.Pin("bare channel operations", nBare, 6)
}

// commChan returns the channel expression of a select communication and whether it is a send.
func commChan(s ast.Stmt) (ast.Expr, bool) {
	switch x := s.(type) {
	case *ast.SendStmt:
		return x.Chan, true
	case *ast.ExprStmt:
		if u, ok := ast.Unparen(x.X).(*ast.UnaryExpr); ok && u.Op == token.ARROW {
			return u.X, false
		}
	case *ast.AssignStmt:
		if len(x.Rhs) == 1 {
			if u, ok := ast.Unparen(x.Rhs[0]).(*ast.UnaryExpr); ok && u.Op == token.ARROW {
				return u.X, false
			}
		}
	}
	return nil, false
}

// isWakeChan: a channel whose readiness signals termination/cancellation/timeout rather than data:
// ctx.Done(), time.After(..), ticker.C / timer.C, and struct{} channels (close-only signals).
func isWakeChan(f *Func, ch ast.Expr) bool {
	ch = ast.Unparen(ch)
	if ce, ok := ch.(*ast.CallExpr); ok {
		if fn := f.Callee(ce); fn != nil && fn.Pkg() != nil {
			if fn.Pkg().Path() == "context" && fn.Name() == "Done" {
				return true
			}
			if fn.Pkg().Path() == "time" && fn.Name() == "After" {
				return true
			}
		}
	}
	t := f.TypeOf(ch)
	if t == nil {
		return false
	}
	if cht, ok := t.Underlying().(*types.Chan); ok {
		if st, ok := cht.Elem().Underlying().(*types.Struct); ok && st.NumFields() == 0 {
			return true
		}
		if n := namedOf(cht.Elem()); n != nil && n.Obj().Pkg() != nil && n.Obj().Pkg().Path() == "time" && n.Obj().Name() == "Time" {
			return true
		}
	}
	return false
}

// closeOnceRule is R-C05-13, shared with C11 as R-C11-7 (a transport whose done channel is not closed on some path of
// Close leaves its session registered and its requests hanging).
func closeOnceRule(c *Ctx) {
	onceDo := c.Std("sync", "Once", "Do")
	n := 0
	for _, rel := range []string{pJ, pM} {
		for _, f := range c.funcsWithLits(rel) {
			g := f.Graph()
			for _, call := range f.AllCalls(f.Body, false) {
				if f.BuiltinName(call) != "close" || len(call.Args) != 1 {
					continue
				}
				chF, isField := f.ObjOf(call.Args[0]).(*types.Var)
				if !isField || !chF.IsField() {
					continue // local channels are owned by the function that made them
				}
				n++
				key := "close-once:" + f.Name() + ":" + f.FieldPath(call.Args[0])
				if why, ok := map[string]string{
					"close-once:(*Connection).updateInFlight:Connection.done": "decided by R-C05-1: the close sits behind the consumption of the closer (set to nil in the same locked section), which happens once",
					"close-once:(*AsyncCall).retire:AsyncCall.ready":          "decided by R-C01-2/-6: retire is reached only where the call's table entry is removed, under the state lock (single completion typestate)",
				}[key]; ok {
					c.Ok(key, f, call, "%s", why)
					continue
				}
				// (a) inside a literal passed to (*sync.Once).Do
				inOnce := false
				for p := f; p != nil && p.Lit != nil; p = p.Parent {
					if pc, ok := p.Parent.ParentOf(p.Lit).(*ast.CallExpr); ok && p.Parent.IsCallTo(pc, onceDo) {
						inOnce = true
					}
				}
				if inOnce {
					c.Ok(key, f, call, "inside a sync.Once")
					continue
				}
				cv := g.VertexOf(call)
				guards := g.GuardsAt(cv)
				held := f.heldLocal(call)
				locked := len(held) > 0 || len(c.lockEnv().heldAt(f, call)) > 0
				// (b) !flag … flag = true
				okFlag := false
				flagSetButCloseSkipped := false
				for _, a := range guards {
					fl, isF := f.ObjOf(a.E).(*types.Var)
					if !isF || !fl.IsField() || a.Val {
						continue
					}
					for _, t := range g.edgesWhere(func(b Atom) bool { return !b.Val && f.ObjOf(b.E) == types.Object(fl) }) {
						if g.allPathsPass(t, func(v int) bool {
							for _, w := range Writes(g.Node(v), false) {
								if f.ObjOf(w.LHS) == types.Object(fl) && w.RHS != nil && exprStr(w.RHS) == "true" {
									return true
								}
							}
							return false
						}) && !g.allPathsPass(t, func(v int) bool { return v == cv }) {
							flagSetButCloseSkipped = true
						}
						if g.allPathsPass(t, func(v int) bool {
							for _, w := range Writes(g.Node(v), false) {
								if f.ObjOf(w.LHS) == types.Object(fl) && w.RHS != nil && exprStr(w.RHS) == "true" {
									return true
								}
							}
							return false
						}) && g.allPathsPass(t, func(v int) bool { return v == cv }) {
							// (every path of the not-yet edge sets the flag AND reaches this close: a path that sets the flag but
							// leaves before closing — an error return in between — makes the close impossible for ever after)
							okFlag = true
						}
					}
				}
				// (c) ch != nil … ch = nil
				okNil := false
				if hasAtom(guards, func(a Atom) bool {
					return AtomSaysNil(a, false, func(e ast.Expr) bool { return f.ObjOf(e) == types.Object(chF) })
				}) || f.Lit != nil {
					// the nil-ing may sit in the same (deferred) literal
					scope := f
					sg := scope.Graph()
					for _, w := range Writes(scope.Body, false) {
						if scope.ObjOf(w.LHS) == types.Object(chF) && w.RHS != nil && isNilIdent(w.RHS) && (sg.ReachableFrom(sg.VertexOf(call))[sg.VertexOf(w.Stmt)]) {
							okNil = true
						}
					}
				}
				switch {
				case okFlag && locked:
					c.Ok(key, f, call, "guarded by a not-yet flag that the branch sets, under a lock")
				case okNil:
					c.Ok(key, f, call, "paired with setting the field to nil (the non-nil test is made by the caller or the guard)")
				case flagSetButCloseSkipped:
					c.Fail(key, f, call, "the not-yet flag is set on every path of its branch, but some path leaves before this close (an error return in between): the channel is then never closed, and whoever waits on it waits for ever")
				default:
					c.Undecided(key, f, call, "no once-idiom recognised for this close (guards: %s; lock held: %v)", atomsString(guards), locked)
				}
			}
		}
	}
	c.Pin("closes of channel fields", n, 8)
}

// guardedMapAccesses lists, for every map-typed field of an SDK struct that also has a mutex field, the accesses to
// the map (outside the function that allocated the struct) with the must-lockset at the access.
type mapAccess struct {
	field string // Type.field
	f     *Func
	n     ast.Node
	held  map[string]bool
}

func guardedMapAccesses(c *Ctx, rels []string) []mapAccess {
	le := c.lockEnv()
	var out []mapAccess
	for _, rel := range rels {
		for _, f := range c.funcsWithLits(rel) {
			if f.Body == nil {
				continue
			}
			inspectNoLit(f.Body, func(n ast.Node) {
				sel, ok := n.(*ast.SelectorExpr)
				if !ok {
					return
				}
				fld, _ := f.ObjOf(sel).(*types.Var)
				if fld == nil || !fld.IsField() {
					return
				}
				_, isMap := fld.Type().Underlying().(*types.Map)
				_, isSlice := fld.Type().Underlying().(*types.Slice)
				if !isMap && !isSlice {
					return
				}
				owner := namedOf(f.TypeOf(sel.X))
				if owner == nil {
					return
				}
				st, _ := owner.Underlying().(*types.Struct)
				if st == nil {
					return
				}
				hasMu := false
				for i := 0; i < st.NumFields(); i++ {
					if n := namedOf(st.Field(i).Type()); n != nil && n.Obj().Pkg() != nil && n.Obj().Pkg().Path() == "sync" && (n.Obj().Name() == "Mutex" || n.Obj().Name() == "RWMutex") {
						hasMu = true
					}
				}
				if !hasMu || f.baseIsLocalAlloc(sel) {
					return
				}
				out = append(out, mapAccess{owner.Obj().Name() + "." + fld.Name(), f, sel, le.heldAt(f, sel)})
			})
		}
	}
	return out
}

// pairedByEarlyReturn recognises the second spelling of "decrement exactly when incremented" (see R-C05-2).
func (c *Ctx) pairedByEarlyReturn(nf *Func, incSite *uifSite, incStmt ast.Node, outN *types.Var) (bool, string) {
	lit := incSite.Lit
	lg := lit.Graph()
	isInc := func(v int) bool { return lg.Node(v) != nil && lg.VertexOf(incStmt) == v }
	nilLeaf := func(f *Func, cand types.Object, isNil bool) func(ast.Expr) tri {
		return func(e ast.Expr) tri {
			if x, trueWhenNil, ok := NilTest(e); ok && f.ObjOf(x) == cand {
				if trueWhenNil == isNil {
					return triTrue
				}
				return triFalse
			}
			return triUnknown
		}
	}
	// candidates: error variables of the enclosing function that the closure assigns
	var cands []types.Object
	for _, w := range Writes(lit.Body, false) {
		o := lit.ObjOf(w.LHS)
		v, ok := o.(*types.Var)
		if !ok || v.IsField() || (lit.Lit.Pos() <= v.Pos() && v.Pos() < lit.Lit.End()) {
			continue
		}
		if types.TypeString(v.Type(), nil) != "error" {
			continue
		}
		dup := false
		for _, c0 := range cands {
			if c0 == o {
				dup = true
			}
		}
		if !dup {
			cands = append(cands, o)
		}
	}
	if len(cands) == 0 {
		return false, "(the closure sets no error variable of the enclosing function)"
	}
	g := nf.Graph()
	callV := g.VertexOf(incSite.Call)
	// the unconditional deferred decrement
	deferV := -1
	for _, v := range g.Vertices(func(n ast.Node) bool { _, ok := n.(*ast.DeferStmt); return ok }) {
		ds := g.Node(v).(*ast.DeferStmt)
		dl := nf.LitOfDefer(ds)
		if dl == nil {
			// `defer c.updateInFlight(func(s) { s.outgoingNotifications-- })`: the locked closure is deferred directly
			for _, s := range c.uifSites(nf) {
				if s.Call != ds.Call {
					continue
				}
				for _, w := range s.Lit.FieldWrites(s.Lit.Body, outN, false) {
					if id, ok := w.(*ast.IncDecStmt); ok && id.Tok == token.DEC {
						sg := s.Lit.Graph()
						if always, _ := sg.MustPassIncl(sg.Entry, sg.Exits, func(u int) bool { return u == sg.VertexOf(w) }); always {
							deferV = v
						}
					}
				}
			}
			continue
		}
		for _, s := range c.uifSites(dl) {
			for _, w := range s.Lit.FieldWrites(s.Lit.Body, outN, false) {
				id, ok := w.(*ast.IncDecStmt)
				if !ok || id.Tok != token.DEC {
					continue
				}
				dg, sg := dl.Graph(), s.Lit.Graph()
				always1, _ := dg.MustPassIncl(dg.Entry, dg.Exits, func(u int) bool { return u == dg.VertexOf(s.Call) })
				always2, _ := sg.MustPassIncl(sg.Entry, sg.Exits, func(u int) bool { return u == sg.VertexOf(w) })
				if always1 && always2 {
					deferV = v
				}
			}
		}
	}
	if deferV < 0 {
		return false, "(no deferred closure that always decrements)"
	}
	for _, cand := range cands {
		// 1. with the error nil, the closure always increments
		avoid := lg.ReachUnder(nilLeaf(lit, cand, true), isInc)
		ok1 := true
		for _, x := range lg.Exits {
			if avoid[x] && !isInc(x) {
				ok1 = false
			}
		}
		// ... and with the error set it never does
		if lg.ReachUnder(nilLeaf(lit, cand, false), nil)[lg.VertexOf(incStmt)] {
			// the increment may still be reachable syntactically when the error is assigned after it; require that no
			// assignment of the error follows the increment
			for _, w := range Writes(lit.Body, false) {
				if lit.ObjOf(w.LHS) == cand && lg.ReachableFrom(lg.VertexOf(incStmt))[lg.VertexOf(w.Stmt)] {
					ok1 = false
				}
			}
			// (the error is nil when the closure starts: its tests before the first assignment are unknown, not false)
		}
		if !ok1 {
			continue
		}
		// 2. in the function: error nil after the closure => every way out passes the defer; error set => the defer is not reached
		after := g.ReachableFrom(callV)
		avoidD := g.ReachUnder(nilLeaf(nf, cand, true), func(v int) bool { return v == deferV })
		ok2 := g.Dominates(callV, deferV)
		for _, x := range g.Exits {
			if avoidD[x] && after[x] && x != deferV {
				ok2 = false
			}
		}
		if g.ReachUnder(nilLeaf(nf, cand, false), nil)[deferV] {
			ok2 = false
		}
		// nothing that can fail or block stands between the closure and the defer
		for v := 0; v < g.N; v++ {
			if g.Node(v) == nil || v == callV || v == deferV || !after[v] || !g.ReachableFrom(v)[deferV] || g.ReachableFrom(deferV)[v] {
				continue
			}
			if len(nf.AllCalls(g.Node(v), false)) > 0 {
				ok2 = false
			}
		}
		if ok2 {
			return true, ""
		}
	}
	return false, "(no captured error separates the incrementing outcome from the refusing one on every path)"
}

// chanOfOp: the channel expression of a send or receive statement.
func chanOfOp(op ast.Node) ast.Expr {
	switch s := op.(type) {
	case *ast.SendStmt:
		return s.Chan
	case *ast.ExprStmt:
		if u, ok := ast.Unparen(s.X).(*ast.UnaryExpr); ok && u.Op == token.ARROW {
			return u.X
		}
	case *ast.AssignStmt:
		if len(s.Rhs) == 1 {
			if u, ok := ast.Unparen(s.Rhs[0]).(*ast.UnaryExpr); ok && u.Op == token.ARROW {
				return u.X
			}
		}
	}
	return nil
}

// isLocalSemaphore: ch is a local of the enclosing declared function, defined once as make(chan T, n) with a capacity, and
// a receive from it sits in a defer (directly or in a deferred literal) somewhere in that function.
func isLocalSemaphore(f *Func, ch ast.Expr) bool {
	v, ok := f.ObjOf(ch).(*types.Var)
	if !ok || v.IsField() {
		return false
	}
	root := f.Root()
	def := root.valueOf(&ast.Ident{Name: v.Name()})
	_ = def
	buffered := false
	n := 0
	for _, w := range Writes(root.Body, true) {
		if root.ObjOf(w.LHS) != types.Object(v) {
			continue
		}
		n++
		if ce, isC := ast.Unparen(w.RHS).(*ast.CallExpr); w.RHS != nil && isC && root.BuiltinName(ce) == "make" && len(ce.Args) == 2 {
			buffered = true
		}
	}
	if n != 1 || !buffered {
		return false
	}
	released := false
	ast.Inspect(root.Body, func(x ast.Node) bool {
		d, isD := x.(*ast.DeferStmt)
		if !isD {
			return true
		}
		ast.Inspect(d, func(y ast.Node) bool {
			if u, isU := y.(*ast.UnaryExpr); isU && u.Op == token.ARROW && root.ObjOf(u.X) == types.Object(v) {
				released = true
			}
			return true
		})
		return true
	})
	return released
}

package main

import (
	"go/ast"
	"go/token"
	"go/types"
	"strings"

	"golang.org/x/tools/go/cfg"
)

func init() { register("C09", rulesC09, nil) }

func rulesC09(c *Ctx) {
	c.Import("R-C09-11", "the streamable client tells transient failures from fatal ones by errors.Is(err, ErrRejected) / errMalformedEvent with the sentinel as target: asked the other way round every wrapped rejection looks fatal and fails the connection", "C02", "R-C02-13", nil)
	errIs := c.Std("errors", "", "Is")

	c.Rule("R-C09-1", "the SSE scanner dispatches an event only when it has seen the terminating blank line; end of input never dispatches pending fields; only a clean io.EOF counts as end of input", func() {
		se := c.Fn(pM, "", "scanEvents")
		// the iterator body is the literal returned by scanEvents; the dispatch helper is a local closure
		var body *Func
		for _, l := range se.Lits() {
			if _, ok := se.ParentOf(l.Lit).(*ast.ReturnStmt); ok {
				body = l
			}
		}
		c.Need(body != nil, "scanEvents: returned iterator literal")
		c.touch(body)
		g := body.Graph()
		// the dispatch of an event is a call of yield without error: written in place, or inside a local closure (optional)
		var dispatch types.Object
		var dispatchLit *Func
		yieldParam := body.Params()[0]
		for _, w := range Writes(body.Body, false) {
			if l, ok := ast.Unparen(w.RHS).(*ast.FuncLit); ok && w.RHS != nil {
				lf := se.LitFor(l)
				for _, call := range lf.AllCalls(lf.Body, false) {
					if lf.ObjOf(call.Fun) == types.Object(yieldParam) {
						dispatch, dispatchLit = body.ObjOf(w.LHS), lf
					}
				}
			}
		}
		if dispatchLit != nil {
			c.touch(dispatchLit)
		}
		// isEOF and line variables
		var isEOF, lineVar, errVar types.Object
		var readStmt ast.Node
		isEOFExact := false
		ioEOF := c.Std("io", "", "ReadAll").Pkg().Scope().Lookup("EOF")
		for _, w := range Writes(body.Body, false) {
			if w.RHS == nil {
				if as, ok := w.Stmt.(*ast.AssignStmt); ok && len(as.Lhs) == 2 && len(as.Rhs) == 1 {
					if ce, ok := ast.Unparen(as.Rhs[0]).(*ast.CallExpr); ok {
						if fn := body.Callee(ce); fn != nil && fn.Name() == "ReadBytes" {
							lineVar, errVar = body.ObjOf(as.Lhs[0]), body.ObjOf(as.Lhs[1])
							readStmt = as
						}
					}
				}
				continue
			}
			mentionsEOF := false
			ast.Inspect(w.RHS, func(n ast.Node) bool {
				if ce, ok := n.(*ast.CallExpr); ok && body.IsCallTo(ce, errIs) && len(ce.Args) == 2 && body.ObjOf(ce.Args[1]) == ioEOF {
					mentionsEOF = true
				}
				return true
			})
			if id, ok := w.LHS.(*ast.Ident); ok && mentionsEOF {
				if b, isBasic := body.TypeOf(id).Underlying().(*types.Basic); !isBasic || b.Kind() != types.Bool {
					continue
				}
				isEOF = body.ObjOf(id)
				ce, isC := ast.Unparen(w.RHS).(*ast.CallExpr)
				exact := isC && body.IsCallTo(ce, errIs) && len(ce.Args) == 2 && body.ObjOf(ce.Args[0]) == errVar && body.ObjOf(ce.Args[1]) == ioEOF
				isEOFExact = exact && w.Tok == token.DEFINE
				c.Check(exact, "scanEvents:end-of-input-is-io.EOF-only", body, w.Stmt, "end of input is recognised as errors.Is(err, io.EOF) exactly (got %s): a torn connection (unexpected EOF, reset) is a read error, not the end of the stream, and must not flush a half-received event", exprStr(w.RHS))
			}
		}
		// whatever shape the loop has: the read error is compared with io.EOF and with no other sentinel (a test against
		// io.ErrUnexpectedEOF, net.ErrClosed, … is how a torn connection gets treated as the end of the stream)
		if errVar != nil {
			ast.Inspect(body.Body, func(n ast.Node) bool {
				if ce, ok := n.(*ast.CallExpr); ok && body.IsCallTo(ce, errIs) && len(ce.Args) == 2 && body.ObjOf(ce.Args[0]) == errVar {
					c.Check(body.ObjOf(ce.Args[1]) == ioEOF, "scanEvents:read-error-compared-with-io.EOF-only", body, ce, "the read error is tested against io.EOF only (got %s): any other read error is a broken stream, not its end, and must not flush a half-received event", exprStr(ce.Args[1]))
				}
				if x, y, op, ok := binaryCmp2(n); ok && (op == token.EQL || op == token.NEQ) && body.ObjOf(x) == errVar && !isNilIdent(y) {
					c.Check(body.ObjOf(y) == ioEOF, "scanEvents:read-error-compared-with-io.EOF-only", body, n, "the read error is compared with io.EOF only (got %s)", exprStr(y))
				}
				return true
			})
		}
		c.Need(lineVar != nil && errVar != nil && readStmt != nil, "scanEvents: line, err := ReadBytes")
		isDispatch := func(n ast.Node) bool {
			for _, call := range body.AllCalls(n, false) {
				if dispatch != nil && body.ObjOf(call.Fun) == dispatch {
					return true
				}
				if body.ObjOf(call.Fun) == types.Object(yieldParam) && len(call.Args) == 2 && isNilIdent(call.Args[1]) {
					return true
				}
			}
			return false
		}
		dispatchVs := g.Vertices(isDispatch)
		c.Need(len(dispatchVs) > 0, "scanEvents: a dispatch (yield of an event without error)")
		readV := g.VertexOf(readStmt)
		// "the line": the variable the read fills and every variable that is computed from it (the trimmed line, its copy
		// in the variables that received the results of an expanded helper)
		lineVars := map[types.Object]bool{lineVar: true}
		for changed := true; changed; {
			changed = false
			for _, w := range Writes(body.Body, false) {
				o := body.ObjOf(w.LHS)
				if w.RHS == nil || o == nil || lineVars[o] || !types.Identical(o.Type(), lineVar.Type()) {
					continue
				}
				for lv := range lineVars {
					if body.Mentions(w.RHS, lv) {
						lineVars[o], changed = true, true
					}
				}
			}
		}
		// a flag: a boolean local that some statement sets to a constant (or declares without value), or a copy of one —
		// what it says depends on the path taken, which a valuation of the conditions cannot express
		var isFlag func(o types.Object, depth int) bool
		isFlag = func(o types.Object, depth int) bool {
			v, ok := o.(*types.Var)
			if !ok || v.IsField() || depth > 3 {
				return false
			}
			if b, isB := v.Type().Underlying().(*types.Basic); !isB || b.Info()&types.IsBoolean == 0 {
				return false
			}
			for _, w := range Writes(body.Body, false) {
				if body.ObjOf(w.LHS) != o {
					continue
				}
				if w.RHS == nil {
					if _, isVS := w.Stmt.(*ast.ValueSpec); isVS {
						return true
					}
					continue
				}
				if _, isC := body.ConstBool(w.RHS); isC {
					return true
				}
				if id, isID := ast.Unparen(w.RHS).(*ast.Ident); isID && body.ObjOf(id) != o && isFlag(body.ObjOf(id), depth+1) {
					return true
				}
			}
			return false
		}
		// what the code does with one line is decided by evaluating the branch conditions from the read onward (until the
		// next read) under a valuation of the read's outcome: errState 0 = a line was read (err == nil), 1 = clean end of
		// input (io.EOF), 2 = any other read error; blank = the (trimmed) line is empty
		outcome := func(errState int, blank tri) func(ast.Expr) tri {
			return func(e ast.Expr) tri {
				b2t := func(b bool) tri {
					if b {
						return triTrue
					}
					return triFalse
				}
				if x, trueWhenNil, isNil := NilTest(e); isNil && body.ObjOf(x) == errVar {
					return b2t(trueWhenNil == (errState == 0))
				}
				if id, isID := ast.Unparen(e).(*ast.Ident); isID && isEOF != nil && isEOFExact && body.ObjOf(id) == isEOF {
					return b2t(errState == 1)
				}
				if ce, isC := ast.Unparen(e).(*ast.CallExpr); isC && body.IsCallTo(ce, errIs) && len(ce.Args) == 2 && body.ObjOf(ce.Args[0]) == errVar && body.ObjOf(ce.Args[1]) == ioEOF {
					return b2t(errState == 1)
				}
				if x, y, op, ok := binaryCmp(ast.Unparen(e)); ok {
					if op == token.EQL && body.ObjOf(x) == errVar && body.ObjOf(y) == ioEOF {
						return b2t(errState == 1)
					}
					if ce, isC := ast.Unparen(x).(*ast.CallExpr); isC && body.BuiltinName(ce) == "len" && len(ce.Args) == 1 && lineVars[body.ObjOf(ce.Args[0])] && blank != triUnknown {
						if z, isZ := body.ConstInt(y); isZ && z == 0 {
							switch op {
							case token.EQL:
								return blank
							case token.GTR:
								return triNot(blank)
							}
						}
					}
				}
				return triUnknown
			}
		}
		reread := func(v int) bool { return v == readV }
		// opaque: the vertex is guarded by a flag the valuation says nothing about (its name), so "reachable" proves nothing
		opaque := func(v int, leaf func(ast.Expr) tri) string {
			for _, a := range g.GuardsAt(v) {
				e := ast.Unparen(a.E)
				if u, isU := e.(*ast.UnaryExpr); isU && u.Op == token.NOT {
					e = ast.Unparen(u.X)
				}
				if id, isID := e.(*ast.Ident); isID && leaf(id) == triUnknown && isFlag(body.ObjOf(id), 0) {
					return id.Name
				}
			}
			return ""
		}
		// read errors other than EOF are yielded as errors and end the iteration
		// decided by evaluating the branch conditions under "err is non-nil and is not io.EOF": whatever is reachable then
		// contains no dispatch, and no exit is reachable without yielding a non-nil error first
		yieldsErr := func(v int) bool {
			for _, call := range body.AllCalls(g.Node(v), false) {
				if body.ObjOf(call.Fun) == types.Object(yieldParam) && len(call.Args) == 2 && !isNilIdent(call.Args[1]) {
					return true
				}
			}
			return false
		}
		underErr := c09ReachFrom(g, readV, outcome(2, triUnknown), reread)
		noYield := c09ReachFrom(g, readV, outcome(2, triUnknown), func(v int) bool { return reread(v) || yieldsErr(v) })
		okErr := false
		for v, in := range underErr {
			if in && yieldsErr(v) {
				okErr = true
			}
		}
		var errDispatch ast.Node
		errOpaque := ""
		for _, v2 := range dispatchVs {
			if underErr[v2] {
				if fl := opaque(v2, outcome(2, triUnknown)); fl != "" {
					errOpaque = fl
					continue
				}
				okErr = false
				errDispatch = g.Node(v2)
			}
		}
		for _, x := range g.Exits {
			if noYield[x] && !yieldsErr(x) {
				okErr = false
			}
		}
		if okErr && errOpaque != "" {
			c.Undecided("scanEvents:read-error-is-terminal", body, nil, "a dispatch behind the flag %s: whether a read error can reach it is not decided by evaluating the conditions", errOpaque)
		} else {
			c.Check(okErr, "scanEvents:read-error-is-terminal", body, errDispatch, "a read error other than io.EOF is yielded as an error and ends the iteration without dispatching (the fields of an event whose blank line never arrived are dropped, not flushed)")
		}
		// dispatch sites
		n := 0
		for _, v := range dispatchVs {
			n++
			key := "scanEvents:dispatch"
			if dispatch == nil || isEOF == nil {
				// no named end-of-input flag / no dispatch closure: the same classification by evaluation
				at := func(errState int, blank tri) bool { return c09ReachFrom(g, readV, outcome(errState, blank), reread)[v] }
				if fl := opaque(v, outcome(0, triUnknown)); fl != "" {
					c.Undecided(key+"#site", body, g.Node(v), "a dispatch behind the flag %s, which is set along the way: which outcome of the read leads here is not decided by evaluating the conditions", fl)
					continue
				}
				switch {
				case at(0, triFalse):
					c.Fail(key+"#unguarded", body, g.Node(v), "dispatch that is not tied to a blank line: it is reached behind a non-empty line that was read completely")
				case at(1, triFalse):
					c.Fail(key+"#at-end-of-input", body, g.Node(v), "the pending (unterminated) event is dispatched on the end-of-input path: a body cut inside an event surfaces a truncated event, and its id advances the resume cursor although the message was never delivered (the SSE rule is to discard pending data at EOF)")
				case at(1, triTrue):
					c.Fail(key+"#blank-line-or-end-of-input", body, g.Node(v), "the blank-line branch is also taken for the empty read that signals end of input (len(line)==0 at io.EOF): an event whose terminating blank line never arrived (e.g. body ends after \"id: x\\n\") is dispatched")
				case at(0, triTrue):
					c.Ok(key+"#blank-line", body, g.Node(v), "dispatch on a blank line that was actually read")
				default:
					c.Undecided(key+"#site", body, g.Node(v), "a dispatch that no outcome of the read reaches in this function's own flow")
				}
				continue
			}
			guards := g.GuardsAt(v)
			blank := hasAtom(guards, func(a Atom) bool {
				x, y, op, ok := binaryCmp(a.E)
				if !ok || op != token.EQL || !a.Val {
					return false
				}
				ce, isC := ast.Unparen(x).(*ast.CallExpr)
				z, isZ := body.ConstInt(y)
				return isC && body.BuiltinName(ce) == "len" && body.ObjOf(ce.Args[0]) == lineVar && isZ && z == 0
			})
			atEOF := hasAtom(guards, func(a Atom) bool { return a.Val && body.ObjOf(a.E) == isEOF })
			notEOF := hasAtom(guards, func(a Atom) bool { return !a.Val && body.ObjOf(a.E) == isEOF })
			switch {
			case atEOF:
				c.Fail(key+"#at-end-of-input", body, g.Node(v), "the pending (unterminated) event is dispatched on the end-of-input path: a body cut inside an event surfaces a truncated event, and its id advances the resume cursor although the message was never delivered (the SSE rule is to discard pending data at EOF)")
			case blank && notEOF:
				c.Ok(key+"#blank-line", body, g.Node(v), "dispatch on a blank line that was actually read")
			case blank:
				c.Fail(key+"#blank-line-or-end-of-input", body, g.Node(v), "the blank-line branch is also taken for the empty read that signals end of input (len(line)==0 with isEOF): an event whose terminating blank line never arrived (e.g. body ends after \"id: x\\n\") is dispatched")
			default:
				c.Fail(key+"#unguarded", body, g.Node(v), "dispatch that is not tied to a blank line (guards: %s)", atomsString(guards))
			}
		}
		c.Pin("dispatch sites", n, 1)
	})

	ps := c.Fn(pM, "streamableClientConn", "processStream")
	hs := c.Fn(pM, "streamableClientConn", "handleSSE")
	connectSSE := c.FnObj(pM, "streamableClientConn", "connectSSE")
	doneF := c.Field(pM, "streamableClientConn", "done")

	c.Rule("R-C09-2", "the resume cursor is the id of the last completely received event, and it is what the reconnect presents as Last-Event-ID", func() {
		g := ps.Graph()
		var cursor types.Object
		if res := ps.Type.Results; res != nil && len(res.List) > 0 && len(res.List[0].Names) > 0 {
			cursor = ps.Info().Defs[res.List[0].Names[0]]
		}
		c.Need(cursor != nil, "processStream: named result lastEventID")
		var rng *ast.RangeStmt
		inspectNoLit(ps.Body, func(n ast.Node) {
			if r, ok := n.(*ast.RangeStmt); ok {
				if ce, ok := ast.Unparen(r.X).(*ast.CallExpr); ok && ps.Callee(ce) != nil && ps.Callee(ce).Name() == "scanEvents" {
					rng = r
				}
			}
		})
		c.Need(rng != nil, "processStream: range over scanEvents")
		evt, errv := ps.ObjOf(rng.Key), ps.ObjOf(rng.Value)
		idF := c.Field(pM, "Event", "ID")
		n := 0
		for _, w := range ps.writesToVar(ps.Body, cursor, false) {
			n++
			as, ok := w.(*ast.AssignStmt)
			src := false
			if ok && len(as.Rhs) == 1 {
				if s, isS := ast.Unparen(as.Rhs[0]).(*ast.SelectorExpr); isS && ps.IsField(s, idF) && ps.ObjOf(s.X) == evt {
					src = true
				}
			}
			guards := g.GuardsAt(g.VertexOf(w))
			nonEmpty := hasAtom(guards, func(a Atom) bool {
				x, y, op, isCmp := binaryCmp(a.E)
				s, isC := ps.ConstString(y)
				return isCmp && op == token.NEQ && a.Val && ps.IsField(x, idF) && isC && s == ""
			})
			noErr := hasAtom(guards, func(a Atom) bool { return AtomSaysNil(a, true, func(e ast.Expr) bool { return ps.ObjOf(e) == errv }) })
			// ... and for *every* such event: the gate in front of the assignment is the non-empty test and nothing else
			if nl, what := g.semanticLeaves(g.VertexOf(w)); true {
				c.Check(nl == 1, "processStream:cursor-follows-every-event", ps, w, "the cursor advances on every complete event that has an id: one test guards the assignment (%d: %s)", nl, what)
			}
			c.Check(src && nonEmpty && noErr, "processStream:cursor-from-complete-event", ps, w, "lastEventID is assigned only from the id of an event the scanner yielded without error, when that id is non-empty (guards: %s)", atomsString(guards))
		}
		c.Pin("cursor assignments", n, 1)
		// every message event reaches the session: the hand-off is skipped for events without data and for events named
		// other than "message", and for nothing else
		incF := c.Field(pM, "streamableClientConn", "incoming")
		nSend := 0
		for _, sd := range sendsOn(ps, incF) {
			if !encloses(rng, sd) {
				continue
			}
			nSend++
			nl, what := g.semanticLeaves(g.VertexOf(sd))
			c.Check(nl == 3, "processStream:every-message-event-is-delivered", ps, sd, "three tests stand between a complete event and its delivery (data empty; name set; name not \"message\") — found %d: %s", nl, what)
		}
		c.Pin("processStream deliveries", nSend, 1)
		// handleSSE passes processStream's result to connectSSE
		hg := hs.Graph()
		var got types.Object
		for _, w := range Writes(hs.Body, false) {
			if as, ok := w.Stmt.(*ast.AssignStmt); ok && len(as.Rhs) == 1 && len(as.Lhs) == 3 {
				if ce, ok := ast.Unparen(as.Rhs[0]).(*ast.CallExpr); ok && hs.IsCallTo(ce, ps.Obj) {
					got = hs.ObjOf(as.Lhs[0])
				}
			}
		}
		okPass := false
		for _, call := range hs.CallsIn(hs.Body, connectSSE, false) {
			if got != nil && hs.ObjOf(call.Args[1]) == got {
				okPass = true
			}
		}
		_ = hg
		c.Check(okPass, "handleSSE:reconnect-with-cursor", hs, nil, "the reconnect is given exactly the cursor returned by processStream")
		cs := c.Fn(pM, "streamableClientConn", "connectSSE")
		cg := cs.Graph()
		cursorParam := cs.ParamWhere(func(t types.Type) bool { b, ok := t.(*types.Basic); return ok && b.Kind() == types.String })
		c.Need(cursorParam != nil, "connectSSE: the string parameter carrying the resume cursor")
		lei := c.Obj(pM, "lastEventIDHeader")
		okHdr := false
		for _, call := range cs.AllCalls(cs.Body, false) {
			if fn := cs.Callee(call); fn != nil && fn.Name() == "Set" && len(call.Args) == 2 && cs.ObjOf(call.Args[0]) == lei && cs.ObjOf(call.Args[1]) == types.Object(cursorParam) {
				guards := cg.GuardsAt(cg.VertexOf(call))
				okHdr = hasAtom(guards, func(a Atom) bool {
					x, y, op, isCmp := binaryCmp(a.E)
					s, isC := cs.ConstString(y)
					return isCmp && op == token.NEQ && a.Val && cs.ObjOf(x) == types.Object(cursorParam) && isC && s == ""
				})
			}
		}
		for _, call := range cs.AllCalls(cs.Body, false) {
			if fn := cs.Callee(call); fn != nil && fn.Name() == "Set" && len(call.Args) == 2 && cs.ObjOf(call.Args[0]) == lei {
				nl, what := cg.semanticLeaves(cg.VertexOf(call))
				c.Check(nl == 2, "connectSSE:Last-Event-ID:not-narrowed", cs, call, "the header depends on the retry budget and on the cursor being non-empty, and on nothing else (%d tests: %s)", nl, what)
			}
		}
		c.Check(okHdr, "connectSSE:Last-Event-ID", cs, nil, "Last-Event-ID is set from the lastEventID parameter whenever it is non-empty")
	})

	c.Rule("R-C09-3", "a broken stream never ends silently: either the client closed, or the call was given a synthetic error, or the connection is failed", func() { ruleStreamNeverSilent(c) })

	c.Rule("R-C09-4", "every hand-off of a received message to the session can be abandoned when the connection closes", func() {
		type ch struct{ typ, fld, done string }
		n := 0
		for _, x := range []ch{{"streamableClientConn", "incoming", "done"}, {"sseClientConn", "incoming", "done"}, {"streamableServerConn", "incoming", "done"}, {"SSEServerTransport", "incoming", "done"}} {
			fld := c.Field(pM, x.typ, x.fld)
			dn := c.Field(pM, x.typ, x.done)
			for _, f := range c.funcsWithLits(pM) {
				for _, s := range sendsOn(f, fld) {
					n++
					cc, _ := f.ParentOf(s).(*ast.CommClause)
					ok := false
					if cc != nil && cc.Comm == ast.Stmt(s) {
						sel := f.ParentOf(f.ParentOf(cc)).(*ast.SelectStmt)
						for _, cl := range sel.Body.List {
							o := cl.(*ast.CommClause)
							if es, isE := o.Comm.(*ast.ExprStmt); isE && isRecvFrom(f, es.X, func(e ast.Expr) bool { return f.IsField(e, dn) }) {
								ok = true
							}
						}
					}
					c.Check(ok, "handoff:"+f.Name()+":"+x.typ, f, s, "the send on %s.incoming is a select arm next to a receive from %s.done", x.typ, x.typ)
				}
			}
		}
		c.Pin("hand-off sends", n, 7)
	})

	c.Rule("R-C09-8", "an event that carries only an id is still an event: Event.Empty is true only when every field of Event is empty, so a priming event (id, no data) is yielded and its id becomes the resume cursor", func() {
		em := c.Fn(pM, "Event", "Empty")
		evT := c.P.LookupType(pM, "Event")
		c.Need(evT != nil, "mcp.Event")
		st := evT.Underlying().(*types.Struct)
		rets := em.Returns()
		c.Need(len(rets) == 1 && len(rets[0].Results) == 1, "Event.Empty: a single return expression")
		var atoms []Atom
		splitAtoms(rets[0].Results[0], true, &atoms)
		for i := 0; i < st.NumFields(); i++ {
			fld := st.Field(i)
			tested := hasAtom(atoms, func(a Atom) bool {
				if !a.Val || isCompound(a.E) {
					return false
				}
				found := false
				ast.Inspect(a.E, func(n ast.Node) bool {
					if sel, ok := n.(*ast.SelectorExpr); ok && em.IsField(sel, fld) {
						found = true
					}
					return true
				})
				return found
			})
			c.Check(tested, "Event.Empty:tests-"+fld.Name(), em, rets[0], "Empty() is a conjunction with one conjunct about %s", fld.Name())
		}
		c.Pin("fields of Event", st.NumFields(), 4)
	})
	c.Import("R-C09-9", "what a resumed stream replays in one burst is still handed to the session one notification at a time: only calls declare themselves asynchronous in ClientSession.handle", "C03", "R-C03-5", func(k string) bool { return strings.Contains(k, "ClientSession") })

	c.Import("R-C09-6", "the client's event reader accepts events of any size (a line-length limit turns every large message into a dead stream and an endless resume loop)", "C19", "R-C19-6", func(k string) bool { return strings.HasPrefix(k, "scanEvents") })
	c.Import("R-C09-7", "a failed POST or a transient status is a per-message rejection, not a broken connection: the session survives to resume", "C13", "R-C13-5", nil)

	c.Rule("R-C09-5", "the retry budget: the counter is reset only on progress, incremented otherwise, checked before every reconnect; reconnect attempts are bounded and abortable", func() {
		g := hs.Graph()
		cursorVar := hs.VarFromCall(ps.Obj, 0)
		maxRetries := c.Field(pM, "streamableClientConn", "maxRetries")
		var ctr types.Object
		for _, w := range Writes(hs.Body, false) {
			// the retry counter is the local that is incremented in handleSSE
			if _, isInc := w.Stmt.(*ast.IncDecStmt); isInc {
				if id, ok := w.LHS.(*ast.Ident); ok {
					ctr = hs.ObjOf(id)
				}
			}
		}
		c.Must(ctr != nil, "handleSSE:retry-budget-counter", hs, nil, "handleSSE counts consecutive reconnections without progress: without the counter the retry budget is not enforced")
		nReset, nInc := 0, 0
		var incV int
		for _, w := range hs.writesToVar(hs.Body, ctr, false) {
			wv := g.VertexOf(w)
			guards := g.GuardsAt(wv)
			// "progress" = the cursor returned by processStream is non-empty and differs from the previous cursor. Decided by
			// evaluating the branch conditions under assumptions about those two comparisons, so `if a && b {reset} else {inc}`
			// and `if !a || !b {inc} else {reset}` are the same thing:
			//   reset site: unreachable when the cursor is empty, and unreachable when it equals the previous one;
			//   increment site: unreachable when both hold.
			cmpLeaf := func(nonEmpty, differs tri) func(ast.Expr) tri {
				return func(e ast.Expr) tri {
					isCur := func(x ast.Expr) bool { return cursorVar != nil && hs.ObjOf(x) == cursorVar }
					x, y, op, ok := cmpOn(ast.Unparen(e), isCur)
					if !ok || hs.ObjOf(x) != cursorVar || (op != token.EQL && op != token.NEQ) {
						return triUnknown
					}
					var t tri = triUnknown
					if sv, isC := hs.ConstString(y); isC && sv == "" {
						t = nonEmpty
					} else if prev, isLocal := hs.ObjOf(y).(*types.Var); isLocal && !prev.IsField() && types.Object(prev) != cursorVar {
						t = differs
					}
					if t == triUnknown || op == token.NEQ {
						return t
					}
					if t == triTrue {
						return triFalse
					}
					return triTrue
				}
			}
			progress := func(val bool) bool {
				if cursorVar == nil {
					return false
				}
				if val {
					return !g.ReachUnder(cmpLeaf(triFalse, triUnknown), nil)[wv] && !g.ReachUnder(cmpLeaf(triUnknown, triFalse), nil)[wv] && g.ReachUnder(cmpLeaf(triTrue, triTrue), nil)[wv]
				}
				return !g.ReachUnder(cmpLeaf(triTrue, triTrue), nil)[wv] && g.ReachUnder(cmpLeaf(triFalse, triUnknown), nil)[wv] && g.ReachUnder(cmpLeaf(triUnknown, triFalse), nil)[wv]
			}
			switch st := w.(type) {
			case *ast.AssignStmt:
				if v, ok := hs.ConstInt(st.Rhs[0]); ok && v == 0 {
					if st.Tok == token.DEFINE {
						continue
					}
					nReset++
					c.Check(progress(true), "handleSSE:reset-only-on-progress", hs, w, "the retry counter is reset only when the cursor advanced (guards: %s)", atomsString(guards))
					continue
				}
				c.Fail("handleSSE:counter-write", hs, w, "unexpected assignment to the retry counter")
			case *ast.IncDecStmt:
				nInc++
				incV = wv
				c.Check(st.Tok == token.INC && progress(false), "handleSSE:increment-without-progress", hs, w, "the counter is incremented exactly when no progress was made (guards: %s)", atomsString(guards))
			}
		}
		c.Check(nReset == 1 && nInc == 1, "handleSSE:one-reset-one-increment", hs, nil, "one reset and one increment site (%d/%d)", nReset, nInc)
		// budget test after the increment, before reconnect
		okBudget := false
		for _, cv := range g.condVertices() {
			cond := g.Node(cv - 1).(ast.Expr)
			x, y, op, ok := cmpOn(cond, func(e ast.Expr) bool { return hs.ObjOf(e) == ctr })
			if ok && op == token.GTR && hs.ObjOf(x) == ctr && hs.IsField(y, maxRetries) && nInc == 1 && g.Dominates(incV, cv-1) {
				t, _ := g.BranchTargets(cv - 1)
				seen, _ := g.reach([]int{t}, nil, nil)
				reRec := false
				for _, v := range g.callVertices(connectSSE) {
					if seen[v] {
						reRec = true
					}
				}
				okBudget = !reRec
			}
		}
		c.Check(okBudget, "handleSSE:budget-checked-before-reconnect", hs, nil, "after the increment the counter is compared with maxRetries (>) and the exhausted branch never reconnects")
		cs := c.Fn(pM, "streamableClientConn", "connectSSE")
		okLoop := false
		inspectNoLit(cs.Body, func(n ast.Node) {
			fs, ok := n.(*ast.ForStmt)
			if !ok || fs.Cond == nil {
				return
			}
			post, _ := fs.Post.(*ast.IncDecStmt)
			x, y, op, isCmp := cmpOn(fs.Cond, func(e ast.Expr) bool { return !cs.IsField(e, maxRetries) })
			if isCmp && (op == token.LEQ || op == token.LSS) && post != nil && post.Tok == token.INC && cs.ObjOf(x) != nil && cs.ObjOf(x) == cs.ObjOf(post.X) && cs.IsField(y, maxRetries) {
				// select with done and ctx.Done arms
				hasDone, hasCtx := false, false
				ast.Inspect(fs.Body, func(m ast.Node) bool {
					if cc, ok := m.(*ast.CommClause); ok && cc.Comm != nil {
						if ch, isSend := commChan(cc.Comm); ch != nil && !isSend {
							if cs.IsField(ch, doneF) {
								hasDone = true
							}
							if ce, ok := ast.Unparen(ch).(*ast.CallExpr); ok && cs.Callee(ce) != nil && cs.Callee(ce).Name() == "Done" {
								hasCtx = true
							}
						}
					}
					return true
				})
				okLoop = hasDone && hasCtx && fs.Post != nil
			}
		})
		// one failed connection costs one attempt: the loop counter is written only by the loop's own post statement (and its
		// initialisation before the loop)
		inspectNoLit(cs.Body, func(n ast.Node) {
			fs, ok := n.(*ast.ForStmt)
			post, _ := func() (*ast.IncDecStmt, bool) {
				if !ok || fs.Post == nil {
					return nil, false
				}
				p, isInc := fs.Post.(*ast.IncDecStmt)
				return p, isInc
			}()
			if post == nil {
				return
			}
			ctr := cs.ObjOf(post.X)
			extra := 0
			for _, w := range cs.writesToVar(fs.Body, ctr, true) {
				_ = w
				extra++
			}
			// every attempt waits on a timer of its own: the channel the select waits on is produced inside the loop body
			// (time.After(delay)), or a timer created outside is Reset inside; a timer armed once fires once, and the second
			// attempt would wait for ever
			fresh := false
			for _, call := range cs.AllCalls(fs.Body, true) {
				if fn := cs.Callee(call); fn != nil && fn.Pkg() != nil && fn.Pkg().Path() == "time" && (fn.Name() == "After" || fn.Name() == "NewTimer" || fn.Name() == "Reset") {
					fresh = true
				}
			}
			c.Check(fresh, "connectSSE:a-timer-per-attempt", cs, fs, "the back-off wait is armed anew in every iteration (time.After / NewTimer / Reset inside the loop)")
			// a connection attempt that failed is followed by the next attempt — whatever the transport error was; the
			// budget (and nothing else) decides when to give up
			cg := cs.Graph()
			do := c.Std("net/http", "Client", "Do")
			nDo := 0
			for _, call := range cs.CallsIn(fs.Body, do, false) {
				for _, t := range cs.failureEdges(call) {
					nDo++
					okNext, p := cg.MustPassIncl(t, cg.Exits, func(v int) bool { return v == cg.VertexOf(fs.Post) })
					c.Check(okNext, "connectSSE:failed-attempt-is-retried", cs, call, "behind a failed client.Do every path reaches the loop's next attempt (no early return by kind of error) %s", cg.PathString(p))
				}
			}
			c.Pin("connectSSE: failure edges of client.Do", nDo, 1)
			c.Check(extra == 0 && ctr != nil, "connectSSE:one-attempt-per-failure", cs, fs, "the attempt counter is not modified inside the loop body (%d extra writes): with the default budget of 5 a client must survive 5 failed reconnects, not 3", extra)
		})
		c.Check(okLoop, "connectSSE:bounded-abortable", cs, nil, "reconnect attempts are bounded by maxRetries and each wait can be aborted by Close or by the caller's context")
	})
}

// callVerticesOfVar returns vertices whose node calls the function value held in variable v.
func (g *Graph) callVerticesOfVar(v types.Object) []int {
	return g.Vertices(func(n ast.Node) bool {
		for _, call := range g.F.AllCalls(n, false) {
			if g.F.ObjOf(call.Fun) == v {
				return true
			}
		}
		return false
	})
}

// ruleStreamNeverSilent is R-C09-3, shared with C01 as R-C01-9: on the streamable client a call whose response
// stream breaks is always completed (synthetic error, failed connection) unless the client itself closed.
func ruleStreamNeverSilent(c *Ctx) {
	ps := c.Fn(pM, "streamableClientConn", "processStream")
	hs := c.Fn(pM, "streamableClientConn", "handleSSE")
	failObj := c.FnObj(pM, "streamableClientConn", "fail")
	inF := c.Field(pM, "streamableClientConn", "incoming")
	_, _, _, _ = ps, hs, failObj, inF
	g := ps.Graph()
	// processStream: returns with clientClosed=false must come after the unresumable test
	var unresumable = -1
	for _, cv := range g.condVertices() {
		cond := g.Node(cv - 1).(ast.Expr)
		b, isB := ast.Unparen(cond).(*ast.BinaryExpr)
		if isB && b.Op == token.LAND {
			x, y, op, ok1 := binaryCmp(b.X)
			s, isC := ps.ConstString(y)
			fx, twn, ok2 := NilTest(b.Y)
			if ok1 && op == token.EQL && ps.ObjOf(x) == ps.NamedResult(0) && ps.NamedResult(0) != nil && isC && s == "" && ok2 && !twn && ps.ObjOf(fx) == types.Object(ps.ParamOfNamed(pJ, "Request")) {
				unresumable = cv - 1
			}
		}
	}
	c.Must(unresumable >= 0, "processStream:unresumable-call-is-failed", ps, nil, "processStream tests `lastEventID == \"\" && forCall != nil` (a call whose stream ended before any event id cannot be resumed and must be failed with a synthetic error); the test is gone")
	nFalse := 0
	for i, r := range ps.Returns() {
		if len(r.Results) != 3 {
			continue
		}
		if exprStr(r.Results[2]) == "true" {
			// "do not resume" must be justified: the caller's context ended, the connection was closed by the client, the
			// call's own response was just delivered, or the connection was failed on the way here
			rv := g.VertexOf(r)
			guards := g.GuardsAt(rv)
			ctxP := ps.CtxParam()
			doneF := c.Field(pM, "streamableClientConn", "done")
			just := hasAtom(guards, func(a Atom) bool {
				// ctx.Err() != nil
				return AtomSaysNil(a, false, func(e ast.Expr) bool {
					ce, ok := ast.Unparen(e).(*ast.CallExpr)
					if !ok {
						return false
					}
					sel, ok := ast.Unparen(ce.Fun).(*ast.SelectorExpr)
					return ok && sel.Sel.Name == "Err" && ps.ObjOf(sel.X) == types.Object(ctxP)
				})
			})
			// inside the `case <-c.done` arm
			if cc, ok := ps.Enclosing(r, func(n ast.Node) bool { _, ok := n.(*ast.CommClause); return ok }).(*ast.CommClause); ok && cc.Comm != nil {
				if ch, isSend := commChan(cc.Comm); ch != nil && !isSend && ps.IsField(ch, doneF) {
					just = true
				}
			}
			// the response of the call itself: guarded by jsonResp.ID == forCall.ID
			if hasAtom(guards, func(a Atom) bool {
				x, y, op, ok := binaryCmp(a.E)
				return ok && op == token.EQL && a.Val && strings.HasSuffix(ps.FieldPath(x), ".ID") && strings.HasSuffix(ps.FieldPath(y), ".ID")
			}) {
				just = true
			}
			// c.fail(...) on every path from the branch that leads here
			if !just {
				for _, fv := range g.callVertices(failObj) {
					if g.Dominates(fv, rv) {
						just = true
					}
				}
			}
			c.Check(just, "processStream:return#"+itoa(i)+"-no-resume-is-justified", ps, r, "a return that tells handleSSE not to resume happens only when the caller's context ended, the client closed the connection, the call's response was delivered, or the connection was marked failed (guards: %s); otherwise the pending call is left without response and without error", atomsString(guards))
			continue
		}
		nFalse++
		c.Check(g.Dominates(unresumable, g.VertexOf(r)), "processStream:return#"+itoa(i)+"-after-unresumable-test", ps, r, "every return that asks the caller to resume (clientClosed=false) is dominated by the unresumable test; a return that bypasses it leaves a call without event ids waiting forever")
	}
	c.Pin("resume-requesting returns", nFalse, 1)
	// the true branch sends a synthetic error response for forCall.ID
	t, _ := g.BranchTargets(unresumable)
	okSend := false
	seen, _ := g.reach([]int{t}, nil, nil)
	for _, s := range sendsOn(ps, inF) {
		sv := g.VertexOf(s)
		if !(seen[sv] || sv == t) {
			continue
		}
		v := ps.ObjOf(s.Value)
		for _, w := range Writes(ps.Body, false) {
			if ps.ObjOf(w.LHS) != v || w.RHS == nil {
				continue
			}
			u, ok := ast.Unparen(w.RHS).(*ast.UnaryExpr)
			if !ok {
				continue
			}
			cl, ok := u.X.(*ast.CompositeLit)
			if !ok {
				continue
			}
			idOK, errOK := false, false
			for _, el := range cl.Elts {
				kv, ok := el.(*ast.KeyValueExpr)
				if !ok {
					continue
				}
				if name, on := ps.SelectorOn(kv.Value, ps.ParamOfNamed(pJ, "Request")); exprStr(kv.Key) == "ID" && on && name == "ID" {
					idOK = true
				}
				if exprStr(kv.Key) == "Error" && !isNilIdent(kv.Value) {
					errOK = true
				}
			}
			okSend = idOK && errOK
		}
	}
	okAll, _ := g.MustPassIncl(t, g.Exits, func(v int) bool {
		_, isSend := g.Node(v).(*ast.SendStmt)
		return isSend
	})
	if n := g.Node(t); n != nil {
		if _, isSend := n.(*ast.SendStmt); isSend {
			okAll = true
		}
	}
	c.Check(okSend && okAll, "processStream:synthetic-error-for-unresumable-call", ps, g.Node(unresumable), "when the stream ends with no event id and a call is pending, a Response{ID: forCall.ID, Error: …} is handed to the session on every path")
	// handleSSE returns
	hg := hs.Graph()
	var closedVar, cursorVar types.Object
	for _, w := range Writes(hs.Body, false) {
		if as, ok := w.Stmt.(*ast.AssignStmt); ok && len(as.Lhs) == 3 {
			cursorVar, closedVar = hs.ObjOf(as.Lhs[0]), hs.ObjOf(as.Lhs[2])
		}
	}
	fvs := hg.callVertices(failObj)
	for i, r := range hs.Returns() {
		rv := hg.VertexOf(r)
		if r.Pos() == hs.Body.End()-1 {
			continue
		}
		guards := hg.GuardsAt(rv)
		byClient := hasAtom(guards, func(a Atom) bool { return a.Val && hs.ObjOf(a.E) == closedVar })
		unres := hasAtom(guards, func(a Atom) bool {
			x, y, op, ok := binaryCmp(a.E)
			s, isC := hs.ConstString(y)
			return ok && op == token.EQL && a.Val && hs.ObjOf(x) == cursorVar && isC && s == ""
		}) && hasAtom(guards, func(a Atom) bool {
			return AtomSaysNil(a, false, func(e ast.Expr) bool { return hs.ObjOf(e) == types.Object(hs.ParamOfNamed(pJ, "Request")) })
		})
		failed := false
		for _, fv := range fvs {
			if hg.Dominates(fv, rv) {
				failed = true
			}
		}
		if !failed && !byClient && !unres {
			// in any spelling (one condition with ||, several ifs, `if ctx.Err() == nil { c.fail(…) }; return`): assuming
			// the caller's context is alive and the client is not closed, and assuming in turn that the cursor is
			// non-empty / that there is no call, this return is unreachable without passing a fail call
			hctx := hs.CtxParam()
			reqParam := types.Object(hs.ParamOfNamed(pJ, "Request"))
			base := func(e ast.Expr) tri {
				e = ast.Unparen(e)
				if hs.ObjOf(e) == closedVar {
					return triFalse
				}
				x, twn, ok := NilTest(e)
				if !ok {
					return triUnknown
				}
				ce, isC := ast.Unparen(x).(*ast.CallExpr)
				if !isC {
					return triUnknown
				}
				sel, isS := ast.Unparen(ce.Fun).(*ast.SelectorExpr)
				if !isS || sel.Sel.Name != "Err" || hs.ObjOf(sel.X) != types.Object(hctx) {
					return triUnknown
				}
				if twn {
					return triTrue
				}
				return triFalse
			}
			blocked := func(v int) bool {
				for _, fv := range fvs {
					if v == fv {
						return true
					}
				}
				return false
			}
			cursorSet := func(e ast.Expr) tri {
				if t := base(e); t != triUnknown {
					return t
				}
				if x, y, op, ok := binaryCmp(ast.Unparen(e)); ok && hs.ObjOf(x) == cursorVar {
					if s, isC := hs.ConstString(y); isC && s == "" {
						if op == token.EQL {
							return triFalse
						}
						if op == token.NEQ {
							return triTrue
						}
					}
				}
				return triUnknown
			}
			noCall := func(e ast.Expr) tri {
				if t := base(e); t != triUnknown {
					return t
				}
				if x, twn, ok := NilTest(ast.Unparen(e)); ok && hs.ObjOf(x) == reqParam {
					if twn {
						return triTrue
					}
					return triFalse
				}
				return triUnknown
			}
			failed = !hg.ReachUnder(cursorSet, blocked)[rv] && !hg.ReachUnder(noCall, blocked)[rv]
		}
		c.Check(byClient || unres || failed, "handleSSE:return#"+itoa(i), hs, r, "handleSSE stops only because the client closed, because the call was already failed as unresumable, or after marking the connection failed (unless the caller's ctx ended) (guards: %s)", atomsString(guards))
	}
	// the application/json twin: a body that cannot be read or decoded fails the connection (unless the caller is gone)
	hj := c.Fn(pM, "streamableClientConn", "handleJSON")
	jg := hj.Graph()
	jctx := hj.CtxParam()
	nj := 0
	for i, r := range hj.Returns() {
		rv := jg.VertexOf(r)
		if r.Pos() == hj.Body.End()-1 {
			continue // falling off the end after the hand-off select
		}
		nj++
		ok := false
		for _, fv := range jg.callVertices(failObj) {
			if jg.Dominates(fv, rv) {
				ok = true
			}
		}
		if jctx != nil && hasAtom(jg.GuardsAt(rv), func(a Atom) bool {
			return AtomSaysNil(a, false, func(e ast.Expr) bool {
				ce, isC := ast.Unparen(e).(*ast.CallExpr)
				if !isC {
					return false
				}
				sel, isS := ast.Unparen(ce.Fun).(*ast.SelectorExpr)
				return isS && sel.Sel.Name == "Err" && hj.ObjOf(sel.X) == types.Object(jctx)
			})
		}) {
			ok = true
		}
		c.Check(ok, "handleJSON:return#"+itoa(i), hj, r, "an early return of handleJSON (unreadable or undecodable body) happens after c.fail, or because the caller's context ended: the call the body belonged to is never left pending")
	}
	c.Pin("handleJSON early returns", nj, 2)
	// ... and both failures are looked at: behind a failed read or a failed decode nothing is handed to the session
	// (a nil message would be dropped by the reader and the call would wait for ever)
	incomingF := c.Field(pM, "streamableClientConn", "incoming")
	var sends []int
	ast.Inspect(hj.Body, func(n ast.Node) bool {
		if ss, ok := n.(*ast.SendStmt); ok && hj.IsField(ss.Chan, incomingF) {
			sends = append(sends, jg.VertexOf(ss))
		}
		return true
	})
	c.Pin("handleJSON hand-offs", len(sends), 1)
	nTested := 0
	for _, call := range hj.AllCalls(hj.Body, false) {
		fn := hj.Callee(call)
		if fn == nil || (fn.Name() != "ReadAll" && fn.Name() != "DecodeMessage") {
			continue
		}
		nTested++
		edges := hj.failureEdges(call)
		okT := len(edges) > 0
		for _, e := range edges {
			seen, _ := jg.reach([]int{e}, nil, nil)
			seen[e] = true
			for _, sv := range sends {
				if seen[sv] {
					okT = false
				}
			}
		}
		c.Check(okT, "handleJSON:"+fn.Name()+"-failure-stops-the-hand-off", hj, call, "the error of %s is tested and its failure branch never reaches the hand-off to the session", fn.Name())
	}
	c.Pin("handleJSON fallible steps", nTested, 2)

}

// c09ReachFrom is Graph.ReachUnder started at a vertex other than the entry: the vertices reachable from start when the
// branch conditions are evaluated in three-valued logic under the valuation leaf0 (start itself is entered even when
// blocked says otherwise, so blocking start means "until control comes back to it").
func c09ReachFrom(g *Graph, start int, leaf0 func(ast.Expr) tri, blocked func(int) bool) []bool {
	pruned := map[[2]int]bool{}
	for i, b := range g.C.Blocks {
		if !b.Live || len(b.Succs) != 2 || len(b.Nodes) == 0 {
			continue
		}
		cond, ok := b.Nodes[len(b.Nodes)-1].(ast.Expr)
		if !ok {
			continue
		}
		ev := g.off[i] + len(b.Nodes)
		depth := 0
		var leaf func(ast.Expr) tri
		leaf = func(e ast.Expr) tri {
			if t := leaf0(e); t != triUnknown {
				return t
			}
			if _, isID := ast.Unparen(e).(*ast.Ident); isID && depth < 4 {
				if def := g.boolLocalValue(e, ev-1); def != nil {
					depth++
					t := evalTri(def, leaf)
					depth--
					return t
				}
			}
			return triUnknown
		}
		var val tri
		switch b.Succs[0].Kind {
		case cfg.KindIfThen, cfg.KindForBody:
			val = evalTri(cond, leaf)
		case cfg.KindSwitchCaseBody:
			cc, _ := b.Succs[0].Stmt.(*ast.CaseClause)
			var sw *ast.SwitchStmt
			if cc != nil {
				if blk, ok := g.F.ParentOf(cc).(*ast.BlockStmt); ok {
					sw, _ = g.F.ParentOf(blk).(*ast.SwitchStmt)
				}
			}
			if sw == nil || sw.Tag != nil {
				continue
			}
			val = evalTri(cond, leaf)
		default:
			continue
		}
		switch val {
		case triTrue:
			pruned[[2]int{ev, 1}] = true
		case triFalse:
			pruned[[2]int{ev, 0}] = true
		}
	}
	seen, _ := g.reach([]int{start}, blocked, func(u, k int) bool { return pruned[[2]int{u, k}] })
	return seen
}

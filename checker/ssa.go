package main

import (
	"go/types"
	"sort"
	"strconv"

	"golang.org/x/tools/go/callgraph"
	"golang.org/x/tools/go/callgraph/cha"
	"golang.org/x/tools/go/callgraph/vta"
	"golang.org/x/tools/go/ssa"
	"golang.org/x/tools/go/ssa/ssautil"
)

func itoa(i int) string { return strconv.Itoa(i) }

type ssaState struct {
	prog *ssa.Program
	cg   *callgraph.Graph
	fns  map[*ssa.Function]bool
}

// SSA builds (once) the SSA program and the VTA call graph over all loaded packages.
// Requires a Load with deps=true.
func (p *Prog) SSA() *ssaState {
	if p.ssa != nil {
		return p.ssa
	}
	if !p.allSyntax {
		panic("SSA requested without a whole-program load")
	}
	prog, _ := ssautil.AllPackages(p.All, ssa.InstantiateGenerics)
	prog.Build()
	fns := ssautil.AllFunctions(prog)
	cg := vta.CallGraph(fns, cha.CallGraph(prog))
	p.ssa = &ssaState{prog: prog, cg: cg, fns: fns}
	return p.ssa
}

// CallerInfo describes one caller function in the whole-program call graph.
type CallerInfo struct {
	Name    string
	PkgPath string
	Pos     string
	Fn      *ssa.Function
}

// ssaFuncsFor returns the SSA functions (including generic instances) whose origin object is obj.
func (s *ssaState) funcsFor(obj *types.Func) []*ssa.Function {
	var out []*ssa.Function
	for fn := range s.fns {
		if o, ok := fn.Object().(*types.Func); ok && o.Origin() == obj.Origin() {
			out = append(out, fn)
		}
	}
	return out
}

// CallersOf returns the distinct functions with a call edge to obj in the VTA graph. Callers that
// are function literals are reported by their enclosing declared function's package.
func (p *Prog) CallersOf(obj *types.Func) []CallerInfo {
	s := p.SSA()
	seen := map[*ssa.Function]bool{}
	var out []CallerInfo
	for _, fn := range s.funcsFor(obj) {
		n := s.cg.Nodes[fn]
		if n == nil {
			continue
		}
		for _, e := range n.In {
			cf := e.Caller.Func
			if seen[cf] {
				continue
			}
			seen[cf] = true
			pk := ""
			if cf.Package() != nil {
				pk = cf.Package().Pkg.Path()
			} else if cf.Parent() != nil {
				for q := cf; q != nil; q = q.Parent() {
					if q.Package() != nil {
						pk = q.Package().Pkg.Path()
						break
					}
				}
			}
			out = append(out, CallerInfo{Name: cf.String(), PkgPath: pk, Pos: p.Rel(cf.Pos()), Fn: cf})
		}
	}
	sort.Slice(out, func(i, j int) bool { return out[i].Name < out[j].Name })
	return out
}

// Reaches reports whether some function in `targets` is reachable from `from` in the call graph,
// returning one call chain (function names) as a witness.
func (p *Prog) Reaches(from *types.Func, targets map[*types.Func]bool, maxDepth int) []string {
	s := p.SSA()
	tset := map[*ssa.Function]bool{}
	for t := range targets {
		for _, fn := range s.funcsFor(t) {
			tset[fn] = true
		}
	}
	type item struct {
		fn    *ssa.Function
		depth int
	}
	parent := map[*ssa.Function]*ssa.Function{}
	var q []item
	for _, fn := range s.funcsFor(from) {
		q = append(q, item{fn, 0})
		parent[fn] = nil
	}
	for len(q) > 0 {
		it := q[0]
		q = q[1:]
		if tset[it.fn] && it.depth > 0 {
			var chain []string
			for f := it.fn; f != nil; f = parent[f] {
				chain = append([]string{f.String()}, chain...)
			}
			return chain
		}
		if it.depth >= maxDepth {
			continue
		}
		n := s.cg.Nodes[it.fn]
		if n == nil {
			continue
		}
		for _, e := range n.Out {
			cf := e.Callee.Func
			if _, ok := parent[cf]; ok {
				continue
			}
			parent[cf] = it.fn
			q = append(q, item{cf, it.depth + 1})
		}
	}
	return nil
}

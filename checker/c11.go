package main

import (
	"go/ast"
	"go/constant"
	"go/token"
	"go/types"
	"strings"
)

func init() { register("C11", rulesC11, nil) }

const lkHandler = "StreamableHTTPHandler.mu"

// httpStatusOf returns the constant status passed to http.Error / WriteHeader in node n (0 if none).
func (c *Ctx) httpStatusIn(f *Func, n ast.Node) int64 {
	httpErr := c.Std("net/http", "", "Error")
	var st int64
	inspectNoLit(n, func(x ast.Node) {
		call, ok := x.(*ast.CallExpr)
		if !ok {
			return
		}
		if f.IsCallTo(call, httpErr) && len(call.Args) == 3 {
			if v, ok := f.ConstInt(call.Args[2]); ok {
				st = v
			}
		}
		if fn := f.Callee(call); fn != nil && fn.Name() == "WriteHeader" && len(call.Args) == 1 {
			if v, ok := f.ConstInt(call.Args[0]); ok {
				st = v
			}
		}
	})
	return st
}

func rulesC11(c *Ctx) {
	lookup := c.FnObj(pM, "StreamableHTTPHandler", "lookupSession")
	sessionsF := c.Field(pM, "StreamableHTTPHandler", "sessions")
	sidHeader := c.Obj(pM, "sessionIDHeader")

	c.Rule("R-C11-1", "every request that names a session id goes through lookup + owner check before the session is touched; unknown id → 404, foreign user → 403", func() {
		n := 0
		for _, name := range []string{"serveStatefulGET", "serveStatefulPOST", "serveStatefulDELETE"} {
			f := c.Fn(pM, "StreamableHTTPHandler", name)
			g := f.Graph()
			for _, lv := range g.callVertices(lookup) {
				as, ok := g.Node(lv).(*ast.AssignStmt)
				c.Need(ok && len(as.Lhs) == 2, name+": info, ok := lookupSession(...)")
				info, okv := f.ObjOf(as.Lhs[0]), f.ObjOf(as.Lhs[1])
				// the id looked up is the request's header value
				call := f.CallsIn(as, lookup, false)[0]
				idv := f.ObjOf(call.Args[2])
				fromHeader := false
				for _, w := range Writes(f.Body, false) {
					if f.ObjOf(w.LHS) == idv && w.RHS != nil {
						if ce, isC := ast.Unparen(w.RHS).(*ast.CallExpr); isC && len(ce.Args) == 1 && f.ObjOf(ce.Args[0]) == sidHeader {
							fromHeader = true
						}
					}
				}
				c.Check(fromHeader, name+":looks-up-header-id", f, call, "the id looked up is the Mcp-Session-Id header of this request")
				uses := 0
				inspectNoLit(f.Body, func(x ast.Node) {
					id, isId := x.(*ast.Ident)
					if !isId || f.Info().Uses[id] != info {
						return
					}
					uses++
					n++
					guards := g.GuardsAt(g.VertexOf(id))
					c.Check(hasAtom(guards, func(a Atom) bool { return a.Val && f.ObjOf(a.E) == okv }), name+":use-of-session-after-check", f, id, "the session obtained for a request-supplied id is used only after lookupSession reported ok (guards: %s)", atomsString(guards))
				})
				c.Check(uses > 0, name+":session-used", f, as, "the looked-up session is used")
			}
		}
		c.MustPin("uses of looked-up sessions", n, 5, "a request path no longer takes its session from lookupSession (which checks existence and the user binding)")
		ls := c.Fn(pM, "StreamableHTTPHandler", "lookupSession")
		g := ls.Graph()
		userID := c.Field(pM, "sessionInfo", "userID")
		tokUser := c.P.StdFunc(modPath+"/auth", "", "TokenInfoFromContext")
		c.Need(tokUser != nil, "auth.TokenInfoFromContext")
		// reads of the table under h.mu
		for _, sel := range ls.FieldRefs(ls.Body, sessionsF, false) {
			c.Check(ls.heldLocal(sel)[lkHandler], "lookupSession:table-read-under-mu", ls, sel, "the session table is read under h.mu")
		}
		var infoVar types.Object
		if res := ls.Type.Results; res != nil && len(res.List) > 0 && len(res.List[0].Names) > 0 {
			infoVar = ls.Info().Defs[res.List[0].Names[0]]
		}
		c.Need(infoVar != nil, "lookupSession: named result info")
		type scen struct {
			name          string
			nilInfo       tri
			hasOwner      tri
			noToken, diff tri
			wantOK        bool
			status        int64
		}
		for _, sc := range []scen{
			{"unknown-id", triTrue, triUnknown, triUnknown, triUnknown, false, 404},
			{"owned,no-token", triFalse, triTrue, triTrue, triUnknown, false, 403},
			{"owned,other-user", triFalse, triTrue, triFalse, triTrue, false, 403},
			{"owned,same-user", triFalse, triTrue, triFalse, triFalse, true, 0},
			{"unowned", triFalse, triFalse, triUnknown, triUnknown, true, 0},
		} {
			leaf := func(e ast.Expr) tri {
				if x, twn, ok := NilTest(e); ok {
					if ls.ObjOf(x) == infoVar {
						if twn {
							return sc.nilInfo
						}
						return triNot(sc.nilInfo)
					}
					if namedOf(ls.TypeOf(x)) != nil && namedOf(ls.TypeOf(x)).Obj().Name() == "TokenInfo" {
						if twn {
							return sc.noToken
						}
						return triNot(sc.noToken)
					}
				}
				if x, y, op, ok := binaryCmp(e); ok && (op == token.EQL || op == token.NEQ) {
					if ls.IsField(x, userID) || ls.IsField(y, userID) {
						other := y
						if ls.IsField(y, userID) {
							other = x
						}
						if s, isC := ls.reachingConstString(g, other); isC && s == "" {
							if op == token.NEQ {
								return sc.hasOwner
							}
							return triNot(sc.hasOwner)
						}
						// tokenInfo.UserID vs info.userID
						if op == token.NEQ {
							return sc.diff
						}
						return triNot(sc.diff)
					}
				}
				return triUnknown
			}
			seen := g.ReachUnder(leaf, nil)
			okRet, badRet, status := false, false, int64(0)
			for _, r := range ls.Returns() {
				if !seen[g.VertexOf(r)] || len(r.Results) != 2 {
					continue
				}
				if exprStr(r.Results[1]) == "true" {
					okRet = true
				} else {
					badRet = true
					// status written on the way: the http.Error immediately preceding in the same block
					if blk, ok := ls.ParentOf(r).(*ast.BlockStmt); ok {
						status = c.httpStatusIn(ls, blk)
					}
				}
			}
			c.paths++
			c.Check(okRet == sc.wantOK && badRet == !sc.wantOK && (sc.wantOK || status == sc.status), "lookupSession["+sc.name+"]", ls, nil, "admitted=%v rejected=%v status=%d (expected admitted=%v status=%d)", okRet, badRet, status, sc.wantOK, sc.status)
		}
	})

	c.Rule("R-C11-2", "the session table has three writers: creation on the header-less POST path, removal in the session's onClose, closeAll; all under h.mu; the owner is captured from the creating request", func() {
		sp := c.Fn(pM, "StreamableHTTPHandler", "serveStatefulPOST")
		g := sp.Graph()
		n := 0
		for _, f := range c.funcsWithLits(pM) {
			for _, w := range f.FieldWrites(f.Body, sessionsF, false) {
				n++
				key := "sessions-writer:" + f.Name()
				held := c.lockEnv().heldAt(f, w)[lkHandler] || f.heldLocal(w)[lkHandler]
				switch {
				case f == sp:
					wv := g.VertexOf(w)
					notAfterLookup := true
					for _, lv := range g.callVertices(lookup) {
						if g.ReachableFrom(lv)[wv] {
							notAfterLookup = false
						}
					}
					// key is the new transport's id, minted by GetSessionID on this path
					as, _ := w.(*ast.AssignStmt)
					okKey := false
					if as != nil {
						if _, k, ok := indexOf(as.Lhs[0]); ok && sp.FieldPath(k) == "StreamableServerTransport.SessionID" {
							okKey = true
						}
					}
					c.Check(held && notAfterLookup && okKey, key, f, w, "a session is inserted only on the path without a session-id header (not reachable from lookupSession), keyed by the new transport's id, under h.mu")
					// owner captured before insertion
					okOwner := false
					inspectNoLit(sp.Body, func(x ast.Node) {
						if kv, ok := x.(*ast.KeyValueExpr); ok && exprStr(kv.Key) == "userID" {
							uv := sp.ObjOf(kv.Value)
							for _, w2 := range Writes(sp.Body, false) {
								if sp.ObjOf(w2.LHS) == uv && w2.RHS != nil && sp.FieldPath(w2.RHS) == "TokenInfo.UserID" && g.ReachableFrom(g.VertexOf(w2.Stmt))[wv] {
									okOwner = true
									// ... whenever the request carries token info: nothing but the presence test stands in front of it (an owner
									// recorded only for, say, tokens with an expiration leaves the other sessions open to every user)
									// (conditions that guard the insertion into the table as well are the conditions of creating a
									// session at all, not of recording its owner)
									ins := map[string]bool{}
									for _, a := range g.GuardsAt(wv) {
										ins[a.String()] = true
									}
									extra := ""
									for _, a := range g.GuardsAt(g.VertexOf(w2.Stmt)) {
										if ins[a.String()] || isCompound(a.E) {
											continue
										}
										if u, isU := a.E.(*ast.UnaryExpr); isU && u.Op == token.NOT {
											continue
										}
										if _, _, isNil := NilTest(a.E); isNil {
											continue
										}
										extra = a.String()
									}
									if extra != "" {
										c.Fail(key+":owner-captured-for-every-authenticated-creator", f, w2.Stmt, "the owner is recorded under a condition beyond the presence of token info (%s)", extra)
									}
								}
							}
						}
					})
					c.Check(okOwner, key+":owner-captured", f, w, "sessionInfo.userID is taken from the creating request's token info before the session becomes addressable")
				case f.Root() == sp && f.Lit != nil:
					// onClose literal: delete + stopTimer
					isDel := false
					if call, ok := w.(*ast.CallExpr); ok && f.BuiltinName(call) == "delete" {
						isDel = true
					}
					stop := c.FnObj(pM, "sessionInfo", "stopTimer")
					c.Check(held && isDel && len(f.CallsIn(f.Body, stop, false)) == 1, key, f, w, "onClose removes the table entry under h.mu and stops the idle timer")
				case f.Name() == "(*StreamableHTTPHandler).closeAll":
					c.Check(held, key, f, w, "closeAll clears the table under h.mu")
				default:
					// a request path may take the session it terminates out of the table itself (so that requests arriving while
					// Close drains get 404) — but only the session the request was admitted to: the removal is a delete of the id
					// that lookupSession (existence + owner check) has just accepted, and the session is then closed on every path
					// (an entry removed without Close is a session that is neither reachable nor ever reaped)
					del, isCall := w.(*ast.CallExpr)
					if f.Lit == nil && isCall && f.BuiltinName(del) == "delete" && len(del.Args) == 2 && f.ParamWhere(isHTTPResponseWriter) != nil {
						fg := f.Graph()
						wv := fg.VertexOf(w)
						keyObj := f.ObjOf(del.Args[1])
						admitted := false
						for _, lv := range fg.callVertices(lookup) {
							as, isAs := fg.Node(lv).(*ast.AssignStmt)
							if !isAs || len(as.Lhs) != 2 {
								continue
							}
							lcalls := f.CallsIn(as, lookup, false)
							if len(lcalls) != 1 || len(lcalls[0].Args) != 3 {
								continue
							}
							okv := f.ObjOf(as.Lhs[1])
							if keyObj != nil && okv != nil && f.ObjOf(lcalls[0].Args[2]) == keyObj && fg.Dominates(lv, wv) &&
								hasAtom(fg.GuardsAt(wv), func(a Atom) bool { return a.Val && f.ObjOf(a.E) == okv }) {
								admitted = true
							}
						}
						closeObj := c.FnObj(pM, "ServerSession", "Close")
						closed := fg.allPathsPass(wv, func(v int) bool { return fg.Node(v) != nil && f.ContainsCall(fg.Node(v), closeObj) })
						c.Check(held && admitted && closed, key, f, w, "a request removes a session from the table only after lookupSession admitted it for that very id (existence and owner check passed; a removal in front of the check lets any user erase another user's session while being answered 403), under h.mu, and then closes it on every path (held=%v admitted=%v closed=%v)", held, admitted, closed)
						break
					}
					c.Fail(key, f, w, "unexpected writer of the session table")
				}
			}
		}
		c.Pin("session table writers", n, 3)
		// the onClose literal is what is passed to Connect for addressable sessions
		okPass := false
		inspectNoLit(sp.Body, func(x ast.Node) {
			if kv, ok := x.(*ast.KeyValueExpr); ok && exprStr(kv.Key) == "onClose" {
				if l, ok := ast.Unparen(kv.Value).(*ast.FuncLit); ok && len(sp.LitFor(l).FieldWrites(l.Body, sessionsF, false)) > 0 {
					okPass = true
				}
			}
		})
		c.Check(okPass, "serveStatefulPOST:onClose-wired", sp, nil, "the removing closure is the session's onClose")
	})

	c.Rule("R-C11-11", "a POST that finds its session closing is told so with 404 (the status that means 'this session id is dead' to the client): wherever servePOST abandons the hand-off because c.done is closed, and nothing has been written yet, the answer is http.StatusNotFound", func() {
		sp := c.Fn(pM, "streamableServerConn", "servePOST")
		g := sp.Graph()
		doneF := c.Field(pM, "streamableServerConn", "done")
		n := 0
		ast.Inspect(sp.Body, func(x ast.Node) bool {
			cc, ok := x.(*ast.CommClause)
			if !ok || cc.Comm == nil {
				return true
			}
			es, isE := cc.Comm.(*ast.ExprStmt)
			if !isE {
				return true
			}
			u, isU := ast.Unparen(es.X).(*ast.UnaryExpr)
			if !isU || u.Op != token.ARROW || !sp.IsField(u.X, doneF) {
				return true
			}
			// arms that answer (http.Error) must answer 404
			for _, st := range cc.Body {
				for _, call := range sp.AllCalls(st, false) {
					if fn := sp.Callee(call); fn != nil && fn.Pkg() != nil && fn.Pkg().Path() == "net/http" && fn.Name() == "Error" && len(call.Args) == 3 {
						n++
						cv := sp.ConstVal(call.Args[2])
						okS := cv != nil && cv.Kind() == constant.Int && cv.ExactString() == "404"
						c.Check(okS, "servePOST:closing-session-is-404#"+itoa(n), sp, call, "the refusal on a closing session carries status 404 (got %s)", exprStr(call.Args[2]))
					}
				}
			}
			return true
		})
		_ = g
		c.Pin("servePOST refusals on a closing session", n, 1)
	})

	c.Rule("R-C11-3", "a session id is minted only for a POST without one and announced only on the initialize response", func() {
		getSID := c.Field(pM, "ServerOptions", "GetSessionID")
		n := 0
		for _, f := range c.funcsWithLits(pM) {
			for _, call := range f.AllCalls(f.Body, false) {
				if !f.IsField(call.Fun, getSID) {
					continue
				}
				n++
				g := f.Graph()
				v := g.VertexOf(call)
				key := "GetSessionID:" + f.Name()
				switch f.Name() {
				case "(*StreamableHTTPHandler).serveStatefulPOST":
					after := false
					for _, lv := range g.callVertices(lookup) {
						if g.ReachableFrom(lv)[v] {
							after = true
						}
					}
					c.Check(!after, key, f, call, "a new id is minted only on the path that did not look up an existing session")
				case "(*StreamableHTTPHandler).serveStateless":
					guards := g.GuardsAt(v)
					c.Check(underCompatSwitch(f, guards), key, f, call, "stateless: ids exist only under the allowsessionsinstateless compatibility switch (guards: %s)", atomsString(guards))
				default:
					c.Fail(key, f, call, "unexpected caller of GetSessionID")
				}
			}
		}
		c.Pin("GetSessionID call sites", n, 2)
		// header announced
		m := 0
		for _, f := range c.funcsWithLits(pM) {
			for _, call := range f.AllCalls(f.Body, false) {
				fn := f.Callee(call)
				if fn == nil || fn.Name() != "Set" || len(call.Args) != 2 || f.ObjOf(call.Args[0]) != sidHeader {
					continue
				}
				// only response headers (<ResponseWriter param>.Header().Set) matter on the server side
				hc, isHC := ast.Unparen(ast.Unparen(call.Fun).(*ast.SelectorExpr).X).(*ast.CallExpr)
				if !isHC {
					continue
				}
				hs, isHS := ast.Unparen(hc.Fun).(*ast.SelectorExpr)
				wp := f.Root().ParamWhere(isHTTPResponseWriter)
				if !isHS || hs.Sel.Name != "Header" || wp == nil || f.ObjOf(hs.X) != types.Object(wp) {
					continue
				}
				m++
				g := f.Graph()
				guards := g.GuardsAt(g.VertexOf(call))
				sid := c.Field(pM, "streamableServerConn", "sessionID")
				ok := f.Name() == "(*streamableServerConn).servePOST" && hasAtom(guards, func(a Atom) bool {
					return a.Val && f.ObjOf(a.E) != nil && f.ObjOf(a.E) == flagSetUnderMethod(f, c.Obj(pM, "methodInitialize"))
				}) && hasAtom(guards, func(a Atom) bool {
					x, y, op, isCmp := binaryCmp(a.E)
					s, isC := f.ConstString(y)
					return isCmp && op == token.NEQ && a.Val && f.IsField(x, sid) && isC && s == ""
				})
				c.Check(ok, "announce-session-id:"+f.Name(), f, call, "Mcp-Session-Id is set on a response only for an initialize request on a connection that has an id (guards: %s)", atomsString(guards))
			}
		}
		c.Pin("Mcp-Session-Id announcements", m, 1)
	})

	c.Rule("R-C11-4", "the idle timer never runs during a POST: start/end are paired by defer, the ref count and timer are only touched under timerMu, the timer is re-armed only when the last POST ends", func() {
		start := c.FnObj(pM, "sessionInfo", "startPOST")
		end := c.FnObj(pM, "sessionInfo", "endPOST")
		n := 0
		for _, f := range c.funcsWithLits(pM) {
			for _, call := range f.CallsIn(f.Body, start, false) {
				n++
				// next statement in the same block is `defer <same receiver>.endPOST()`
				es, _ := f.ParentOf(call).(*ast.ExprStmt)
				blk, _ := f.ParentOf(es).(*ast.BlockStmt)
				ok := false
				if blk != nil {
					for i, st := range blk.List {
						if st == ast.Stmt(es) && i+1 < len(blk.List) {
							if d, isD := blk.List[i+1].(*ast.DeferStmt); isD && f.IsCallTo(d.Call, end) {
								r1 := exprStr(ast.Unparen(call.Fun).(*ast.SelectorExpr).X)
								r2 := exprStr(ast.Unparen(d.Call.Fun).(*ast.SelectorExpr).X)
								ok = r1 == r2
							}
						}
					}
				}
				c.Check(ok, "startPOST-paired:"+f.Name()+"#"+itoa(n), f, call, "startPOST() is immediately followed by defer endPOST() on the same session: the count is released on every exit, including panics")
			}
		}
		c.MustPin("startPOST sites", n, 2, "a POST path no longer holds the session against its idle timer (startPOST/endPOST)")
		// the idle-timer state is found by role: the struct (sessionInfo itself, or a struct it embeds by value/pointer as a
		// field) that holds the *time.Timer; its integer field is the count of POSTs in flight, its Duration the timeout,
		// its mutex the lock
		refs, timer, timeoutF, timerLock := c11timerState(c)
		c.Need(refs != nil && timer != nil && timeoutF != nil && timerLock != "", "sessionInfo: idle-timer state (a *time.Timer with its count, timeout and mutex)")
		k := c.guardedFields("timer-state", []*types.Var{refs, timer}, timerLock, func(f *Func, sel *ast.SelectorExpr) string {
			// before the session is inserted into the table
			beforeInsert := func(f *Func, at ast.Node, base ast.Expr) bool {
				if f.Name() != "(*StreamableHTTPHandler).serveStatefulPOST" || !c11baseLocalAlloc(f, base) {
					return false
				}
				g := f.Graph()
				for _, w := range f.FieldWrites(f.Body, sessionsF, false) {
					if g.ReachableFrom(g.VertexOf(at))[g.VertexOf(w)] && !g.ReachableFrom(g.VertexOf(w))[g.VertexOf(at)] {
						return true
					}
				}
				return false
			}
			if beforeInsert(f, sel, sel.X) {
				return "constructor: the sessionInfo is not yet in the table"
			}
			// the same constructor step as a method of the timer state: every call of the method is made on the sessionInfo
			// under construction, before it is inserted
			if f.Lit == nil && f.Recv() != nil && f.Obj != nil && f.ObjOf(sel.X) == types.Object(f.Recv()) {
				calls, all := 0, true
				for _, cf := range c.funcsWithLits(pM) {
					for _, call := range cf.CallsIn(cf.Body, f.Obj, false) {
						calls++
						fs, isSel := ast.Unparen(call.Fun).(*ast.SelectorExpr)
						if !isSel || !beforeInsert(cf, call, fs.X) {
							all = false
						}
					}
				}
				if calls > 0 && all {
					return "constructor: the method is only called on a sessionInfo that is not yet in the table"
				}
			}
			return ""
		})
		c.Pin("refs/timer accesses", k, 10)
		// startPOST and endPOST are judged by what they do for a given number of POSTs already in flight, not by how the
		// test is spelled: the branch conditions are evaluated with refs = that number (adjusted by the ++/-- that precede
		// the test), timeout > 0 and an existing timer; everything else is unknown and follows both edges
		// startPOST/endPOST may hand the work to one routine that takes the direction as a constant argument
		// (adjust(+1) / adjust(-1)): the routine is then judged with its parameters bound to those constants
		bind := map[types.Object]int64{}
		var ival func(f *Func, g *Graph, before int64, e ast.Expr, at int, depth int) (int64, bool)
		refsChange := func(f *Func, g *Graph, w ast.Node) (int64, bool) {
			switch st := w.(type) {
			case *ast.IncDecStmt:
				if st.Tok == token.INC {
					return 1, true
				}
				return -1, true
			case *ast.AssignStmt:
				if len(st.Rhs) == 1 && len(st.Lhs) == 1 && (st.Tok == token.ADD_ASSIGN || st.Tok == token.SUB_ASSIGN) {
					if v, ok := ival(f, g, 0, st.Rhs[0], -1, 1); ok {
						if st.Tok == token.SUB_ASSIGN {
							v = -v
						}
						return v, true
					}
				}
			}
			return 0, false
		}
		ival = func(f *Func, g *Graph, before int64, e ast.Expr, at int, depth int) (int64, bool) {
			if depth > 4 {
				return 0, false
			}
			if v, ok := f.ConstInt(e); ok {
				return v, true
			}
			if o := f.ObjOf(e); o != nil {
				if v, ok := bind[o]; ok {
					if len(f.writesToVar(f.Body, o, true)) > 0 {
						return 0, false
					}
					return v, true
				}
			}
			if f.IsField(e, timeoutF) {
				return 1 << 40, true
			}
			if f.IsField(e, refs) {
				if at < 0 {
					return 0, false
				}
				v := before
				for _, w := range f.FieldWrites(f.Body, refs, false) {
					d, ok := refsChange(f, g, w)
					if !ok {
						return 0, false
					}
					wv := g.VertexOf(w)
					if wv == at || !g.Dominates(wv, at) {
						if g.ReachableFrom(wv)[at] {
							return 0, false // changed on some paths only
						}
						continue
					}
					v += d
				}
				return v, true
			}
			// a local that holds a copy (prev := refs): its single definition, evaluated where it is made
			if id, ok := ast.Unparen(e).(*ast.Ident); ok && at >= 0 {
				if lv, isV := f.ObjOf(id).(*types.Var); isV && !lv.IsField() {
					var def *Write
					n := 0
					for _, w := range Writes(f.Body, true) {
						if f.ObjOf(w.LHS) == types.Object(lv) {
							n++
							w := w
							def = &w
						}
					}
					if n == 1 && def.RHS != nil {
						return ival(f, g, before, def.RHS, g.VertexOf(def.Stmt), depth+1)
					}
				}
			}
			return 0, false
		}
		countLeaf := func(f *Func, g *Graph, before int64) func(ast.Expr) tri {
			cmp := func(v int64, op token.Token, z int64) tri {
				var r bool
				switch op {
				case token.EQL:
					r = v == z
				case token.NEQ:
					r = v != z
				case token.LSS:
					r = v < z
				case token.LEQ:
					r = v <= z
				case token.GTR:
					r = v > z
				case token.GEQ:
					r = v >= z
				default:
					return triUnknown
				}
				if r {
					return triTrue
				}
				return triFalse
			}
			return func(e ast.Expr) tri {
				if x, trueWhenNil, isNil := NilTest(e); isNil && f.IsField(x, timer) {
					if trueWhenNil {
						return triFalse
					}
					return triTrue
				}
				x, y, op, ok := binaryCmp(e)
				if !ok {
					return triUnknown
				}
				at := g.VertexOf(x)
				xv, okX := ival(f, g, before, x, at, 0)
				yv, okY := ival(f, g, before, y, at, 0)
				if !okX || !okY {
					return triUnknown
				}
				return cmp(xv, op, yv)
			}
		}
		timeCall := func(f *Func, g *Graph, name string) func(int) bool {
			return func(v int) bool {
				for _, call := range f.AllCalls(g.Node(v), false) {
					if fn := f.Callee(call); fn != nil && fn.Name() == name && fn.Pkg() != nil && fn.Pkg().Path() == "time" {
						return true
					}
				}
				return false
			}
		}
		incDec := func(f *Func, g *Graph, tok token.Token) func(int) bool {
			return func(v int) bool {
				for _, w := range f.FieldWrites(g.Node(v), refs, false) {
					if d, ok := refsChange(f, g, w); ok && ((d == 1 && tok == token.INC) || (d == -1 && tok == token.DEC)) {
						return true
					}
				}
				return false
			}
		}
		allExitsBehind := func(g *Graph, leaf func(ast.Expr) tri, via func(int) bool) bool {
			avoid := g.ReachUnder(leaf, via)
			all := g.ReachUnder(leaf, nil)
			some := false
			for _, x := range g.Exits {
				if all[x] {
					some = true
				}
				if avoid[x] && !via(x) {
					return false
				}
			}
			return some
		}
		ep := c11delegate(c, c.Fn(pM, "sessionInfo", "endPOST"), bind)
		eg := ep.Graph()
		nReset := 0
		for v := range eg.node {
			if eg.node[v] != nil && timeCall(ep, eg, "Reset")(v) {
				nReset++
			}
		}
		c.Pin("endPOST timer.Reset", nReset, 1)
		okLast := allExitsBehind(eg, countLeaf(ep, eg, 1), timeCall(ep, eg, "Reset"))
		okOthers := true
		for _, before := range []int64{2, 3, 7} {
			reach := eg.ReachUnder(countLeaf(ep, eg, before), nil)
			for v := range eg.node {
				if eg.node[v] != nil && reach[v] && timeCall(ep, eg, "Reset")(v) {
					okOthers = false
				}
			}
		}
		c.Check(okOthers, "endPOST:rearm-only-when-last", ep, nil, "with two or more POSTs in flight before the call, endPOST does not reach timer.Reset (branch conditions evaluated for refs = 2, 3, 7 before the call); re-arming while another POST is running lets the timeout close the session mid-request")
		c.Check(okLast, "endPOST:last-POST-rearms", ep, nil, "when the last POST ends (refs = 1 before the call) every path of endPOST re-arms the idle timer: otherwise an idle session is never reaped")
		okDec := true
		for _, before := range []int64{1, 2, 3} {
			if !allExitsBehind(eg, countLeaf(ep, eg, before), incDec(ep, eg, token.DEC)) {
				okDec = false
			}
		}
		c.Check(okDec, "endPOST:always-uncounts", ep, nil, "endPOST decrements refs on every path (timeout set, timer alive)")
		for o := range bind {
			delete(bind, o)
		}
		st := c11delegate(c, c.Fn(pM, "sessionInfo", "startPOST"), bind)
		sg := st.Graph()
		okPause := allExitsBehind(sg, countLeaf(st, sg, 0), timeCall(st, sg, "Stop"))
		c.Check(okPause, "startPOST:first-POST-stops-the-timer", st, nil, "when no other POST is running (refs = 0 before the call) every path of startPOST stops the idle timer")
		okInc := true
		for _, before := range []int64{0, 1, 2} {
			if !allExitsBehind(sg, countLeaf(st, sg, before), incDec(st, sg, token.INC)) {
				okInc = false
			}
		}
		c.Check(okInc, "startPOST:always-counts", st, nil, "startPOST counts the POST on every path (timeout set, timer alive), whether or not it had to stop the timer")
		// stopTimer (called when the session goes away) stops the timer and forgets it, unconditionally once it exists: a timer
		// that stays in the field is re-armed by the endPOST of a request that was still in flight when the session closed
		for o := range bind {
			delete(bind, o)
		}
		stp := c11delegate(c, c.Fn(pM, "sessionInfo", "stopTimer"), bind)
		tg := stp.Graph()
		okStop := false
		for _, t := range tg.edgesWhere(func(a Atom) bool {
			return AtomSaysNil(a, false, func(e ast.Expr) bool { return stp.IsField(e, timer) })
		}) {
			stops := func(v int) bool {
				for _, call := range stp.AllCalls(tg.Node(v), false) {
					if fn := stp.Callee(call); fn != nil && fn.Name() == "Stop" && fn.Pkg() != nil && fn.Pkg().Path() == "time" {
						return true
					}
				}
				return false
			}
			nils := func(v int) bool {
				for _, w := range Writes(tg.Node(v), false) {
					if stp.IsField(w.LHS, timer) && w.RHS != nil && isNilIdent(w.RHS) {
						return true
					}
				}
				return false
			}
			okStop = tg.allPathsPass(t, stops) && tg.allPathsPass(t, nils)
			// ... in that order: Stop is called on the timer, not on the nil that replaced it
			for _, w := range Writes(stp.Body, false) {
				if stp.IsField(w.LHS, timer) && w.RHS != nil && isNilIdent(w.RHS) {
					if ok, _ := tg.DominatedBy(tg.VertexOf(w.Stmt), stops); !ok {
						okStop = false
					}
				}
			}
			// the branch is entered on `timer != nil` alone
			for _, w := range Writes(stp.Body, false) {
				if stp.IsField(w.LHS, timer) && w.RHS != nil && isNilIdent(w.RHS) {
					for _, a := range tg.GuardsAt(tg.VertexOf(w.Stmt)) {
						if !isCompound(a.E) && !AtomSaysNil(a, false, func(e ast.Expr) bool { return stp.IsField(e, timer) }) {
							okStop = false
						}
					}
				}
			}
		}
		c.Check(okStop, "stopTimer:stops-and-forgets", stp, nil, "when a timer exists, stopTimer always calls Stop and always sets the field to nil (whatever Stop returned)")
		// the timer callback only closes the session
		sp := c.Fn(pM, "StreamableHTTPHandler", "serveStatefulPOST")
		af := c.Std("time", "", "AfterFunc")
		closeObj := c.FnObj(pM, "ServerSession", "Close")
		for _, call := range sp.CallsIn(sp.Body, af, false) {
			l := sp.LitArg(call, 1)
			ok := l != nil && len(l.AllCalls(l.Body, false)) == 1 && len(l.CallsIn(l.Body, closeObj, false)) == 1
			c.Check(ok, "idle-timer-callback", sp, call, "the idle timer's callback does nothing but close the session (which removes it from the table through onClose)")
			// the timer is armed with the configured timeout: either the option itself, or the per-session field after it was
			// assigned (an AfterFunc evaluated before that assignment is armed with 0 and fires at once, under the first POST)
			toF := timeoutF
			optF := c.Field(pM, "StreamableHTTPOptions", "SessionTimeout")
			okDur := sp.IsField(call.Args[0], optF)
			if sp.IsField(call.Args[0], toF) {
				spg := sp.Graph()
				for _, w := range sp.FieldWrites(sp.Body, toF, false) {
					if spg.Dominates(spg.VertexOf(w), spg.VertexOf(call)) && spg.VertexOf(w) != spg.VertexOf(call) {
						okDur = true
					}
				}
			}
			c.Check(okDur, "idle-timer-duration", sp, call, "time.AfterFunc is given the session timeout after it has been set")
		}
	})

	c.Rule("R-C11-5", "terminating a session forgets it: DELETE closes the session, Close always runs onClose, a failed initialize is cleaned up", func() {
		del := c.Fn(pM, "StreamableHTTPHandler", "serveStatefulDELETE")
		closeObj := c.FnObj(pM, "ServerSession", "Close")
		dg := del.Graph()
		cvs := dg.callVertices(closeObj)
		sync := len(cvs) == 1
		if sync {
			_, isGo := dg.Node(cvs[0]).(*ast.GoStmt)
			_, isDefer := dg.Node(cvs[0]).(*ast.DeferStmt)
			sync = !isGo && !isDefer
		}
		c.Check(sync, "DELETE:closes-session", del, nil, "DELETE calls session.Close() synchronously: when 204 is answered the id is already dead")
		if len(cvs) == 1 {
			okp := true
			for _, x := range dg.Exits {
				// every exit on the ok path passes Close
				if hasAtom(dg.GuardsAt(x), func(a Atom) bool {
					return a.Val && del.ObjOf(a.E) != nil && del.ObjOf(a.E) == del.VarFromCall(lookup, 1)
				}) {
					if ok2, _ := dg.DominatedBy(x, func(v int) bool { return v == cvs[0] }); !ok2 {
						okp = false
					}
				}
			}
			c.Check(okp, "DELETE:close-on-every-admitted-path", del, dg.Node(cvs[0]), "every admitted DELETE closes the session before answering")
		}
		for _, typ := range []string{"ServerSession", "ClientSession"} {
			f := c.Fn(pM, typ, "Close")
			g := f.Graph()
			connClose := c.FnObj(pJ, "Connection", "Close")
			cv := g.callVertices(connClose)
			c.Need(len(cv) == 1, typ+".Close: conn.Close()")
			oc := c.Field(pM, typ, "onClose")
			// the branch that decides onClose post-dominates conn.Close()
			var condV = -1
			for _, cvx := range g.condVertices() {
				if len(f.FieldRefs(g.Node(cvx-1), oc, false)) > 0 {
					condV = cvx - 1
				}
			}
			okp := condV >= 0
			if okp {
				okp, _ = g.PostDominatedBy(cv[0], func(v int) bool { return v == condV })
			}
			// nobody returns from Close before the connection was closed (a concurrent second closer that returns at once
			// would answer its DELETE while the session is still registered and serving)
			waits := true
			for _, r := range f.Returns() {
				if !g.Dominates(cv[0], g.VertexOf(r)) {
					waits = false
				}
			}
			c.Check(waits, typ+".Close:every-return-after-conn.Close", f, g.Node(cv[0]), "every return of Close is dominated by conn.Close()")
			c.Check(okp, typ+".Close:onClose-on-every-path", f, g.Node(cv[0]), "after conn.Close() every path reaches the onClose decision, whatever conn.Close returned (an error from the transport's Close must not leave the session in the handler's table)")
		}
		sp := c.Fn(pM, "StreamableHTTPHandler", "serveStatefulPOST")
		okDefer := false
		g := sp.Graph()
		for _, v := range g.Vertices(func(n ast.Node) bool { _, ok := n.(*ast.DeferStmt); return ok }) {
			l := sp.LitOfDefer(g.Node(v).(*ast.DeferStmt))
			if l == nil {
				continue
			}
			lg := l.Graph()
			for _, call := range l.CallsIn(l.Body, closeObj, false) {
				if hasAtom(lg.GuardsAt(lg.VertexOf(call)), func(a Atom) bool {
					return AtomSaysNil(a, true, func(e ast.Expr) bool {
						ce, ok := ast.Unparen(e).(*ast.CallExpr)
						return ok && l.Callee(ce) != nil && l.Callee(ce).Name() == "InitializeParams"
					})
				}) {
					// registered after insertion into the table
					for _, w := range sp.FieldWrites(sp.Body, sessionsF, false) {
						if g.Dominates(g.VertexOf(w), v) {
							okDefer = true
						}
					}
				}
			}
		}
		c.Check(okDefer, "serveStatefulPOST:failed-initialize-cleanup", sp, nil, "a session whose creating POST did not initialize it is closed (and thereby forgotten) when the POST ends")
	})

	c.Rule("R-C11-7", "closing a session always releases what waits on it: the transports' done channels are closed exactly once and on every path of Close (shared with R-C05-13)", func() { closeOnceRule(c) })

	c.Rule("R-C11-8", "a client that closes a session tells the server (DELETE), which is what closes and forgets the server-side session and releases its stored events; the DELETE is skipped only when the server already said the session is gone (ErrSessionMissing)", func() {
		cl := c.Fn(pM, "streamableClientConn", "Close")
		missing := c.Obj(pM, "ErrSessionMissing")
		n := 0
		for _, f := range append([]*Func{cl}, cl.AllLits()...) {
			g := f.Graph()
			for _, call := range f.AllCalls(f.Body, false) {
				fn := f.Callee(call)
				if fn == nil || fn.Name() != "NewRequestWithContext" || len(call.Args) < 2 || exprStr(call.Args[1]) != "http.MethodDelete" {
					continue
				}
				n++
				extra := ""
				for _, a := range g.GuardsAt(g.VertexOf(call)) {
					if isCompound(a.E) {
						continue
					}
					// allowed: !errors.Is(failure, ErrSessionMissing); a session id exists; plain nil tests of errors
					if ce, ok := a.E.(*ast.CallExpr); ok && f.Callee(ce) != nil && f.Callee(ce).FullName() == "errors.Is" && len(ce.Args) == 2 && f.ObjOf(ce.Args[1]) == missing && !a.Val {
						continue
					}
					if x, y, op, isCmp := binaryCmp(a.E); isCmp && (op == token.NEQ || op == token.EQL) {
						if s, isS := f.ConstString(y); isS && s == "" && (strings.HasSuffix(f.FieldPath(x), ".sessionID") || strings.HasSuffix(f.FieldPath(x), ".SessionID()")) {
							continue // no session was ever established
						}
					}
					if _, _, isNil := NilTest(a.E); isNil {
						if x, _, _ := NilTest(a.E); !strings.Contains(exprStr(x), "failure") {
							continue
						}
					}
					extra = a.String()
				}
				c.Check(extra == "", "client-Close:DELETE-not-narrowed", f, call, "the DELETE is sent unless the failure is ErrSessionMissing (unexpected condition: %s)", extra)
			}
		}
		c.Pin("DELETE requests built in streamableClientConn.Close", n, 1)
	})

	c.Rule("R-C11-6", "stateless endpoints neither read nor issue session ids (outside the compatibility switch) and answer non-POST methods with 405 + Allow", func() {
		f := c.Fn(pM, "StreamableHTTPHandler", "serveStateless")
		g := f.Graph()
		n := 0
		inspectNoLit(f.Body, func(x ast.Node) {
			id, ok := x.(*ast.Ident)
			if !ok || f.Info().Uses[id] != sidHeader {
				return
			}
			n++
			guards := g.GuardsAt(g.VertexOf(id))
			c.Check(underCompatSwitch(f, guards), "serveStateless:header-read#"+itoa(n), f, id, "the session-id header is read only under the compatibility switch (guards: %s)", atomsString(guards))
		})
		// the transport's SessionID is the local that stays "" on the default path
		var sidVar types.Object
		inspectNoLit(f.Body, func(x ast.Node) {
			if kv, ok := x.(*ast.KeyValueExpr); ok && exprStr(kv.Key) == "SessionID" {
				sidVar = f.ObjOf(kv.Value)
			}
		})
		okSid := sidVar != nil
		if okSid {
			for _, w := range f.writesToVar(f.Body, sidVar, false) {
				if _, isDecl := w.(*ast.ValueSpec); isDecl {
					continue
				}
				if as, isAs := w.(*ast.AssignStmt); isAs && len(as.Rhs) == 1 {
					if sv, isC := f.ConstString(as.Rhs[0]); isC && sv == "" {
						continue // "" is no session id
					}
				}
				if !underCompatSwitch(f, g.GuardsAt(g.VertexOf(w))) {
					okSid = false
				}
			}
		}
		c.Check(okSid, "serveStateless:no-session-id-by-default", f, nil, "the ephemeral transport's SessionID is assigned only under the compatibility switch (\"\" otherwise, so no Mcp-Session-Id is ever announced)")
		// 405
		ok405 := false
		{
			// decided by evaluation: with a method that is none of those the handler names (every comparison of the
			// method with a constant fails), the transport is unreachable, 405 is the only status and Allow is set
			seen := g.ReachUnder(anyOf(methodIs("\x00other"))(f), nil)
			c.paths++
			statuses := map[int64]bool{}
			allow, serve := false, false
			for v := 0; v < g.N; v++ {
				if !seen[v] || g.Node(v) == nil {
					continue
				}
				if st := c.httpStatusIn(f, g.Node(v)); st != 0 {
					statuses[st] = true
				}
				for _, call := range f.AllCalls(g.Node(v), false) {
					if fn := f.Callee(call); fn != nil && fn.Name() == "Set" && len(call.Args) == 2 {
						if s, ok := f.ConstString(call.Args[0]); ok && s == "Allow" {
							allow = true
						}
					}
					if fn := f.Callee(call); fn != nil && (fn.Name() == "ServeHTTP" || fn.Name() == "connectStreamable") {
						serve = true
					}
				}
			}
			ok405 = len(statuses) == 1 && statuses[405] && allow && !serve
		}
		for _, cv := range g.condVertices() {
			if ok405 {
				break
			}
			cond := g.Node(cv - 1).(ast.Expr)
			if x, y, op, isCmp := binaryCmp(cond); isCmp && op == token.NEQ && f.FieldPath(x) == "Request.Method" {
				if s, isC := f.ConstString(y); isC && s == "POST" {
					t, _ := g.BranchTargets(cv - 1)
					blkStatus := int64(0)
					allow := false
					seen, _ := g.reach([]int{t}, nil, nil)
					reachServe := false
					for v := 0; v < g.N; v++ {
						if !seen[v] || g.Node(v) == nil {
							continue
						}
						if st := c.httpStatusIn(f, g.Node(v)); st != 0 {
							blkStatus = st
						}
						for _, call := range f.AllCalls(g.Node(v), false) {
							if fn := f.Callee(call); fn != nil && fn.Name() == "Set" && len(call.Args) == 2 {
								if s, ok := f.ConstString(call.Args[0]); ok && s == "Allow" {
									allow = true
								}
							}
							if fn := f.Callee(call); fn != nil && fn.Name() == "ServeHTTP" {
								reachServe = true
							}
						}
					}
					ok405 = blkStatus == 405 && allow && !reachServe
				}
			}
		}
		c.Check(ok405, "serveStateless:405-for-non-POST", f, nil, "any method other than POST is answered 405 with an Allow header and never reaches the transport")
	})
	c.Import("R-C11-10", "a 405 from a stateless endpoint (and every other refusal) carries its headers: they are set before the status is written", "C12", "R-C12-11", func(k string) bool {
		return strings.Contains(k, "serveStateless") || strings.Contains(k, "serveStateful") || strings.Contains(k, "Header().Set sites")
	})
	c.Import("R-C11-9", "a dead or foreign session id is refused with a status the client can see: no return of the session-serving HTTP functions leaves the response untouched (a forgotten http.Error is an empty 200 — the request looks accepted)", "C12", "R-C12-10", func(k string) bool {
		return strings.Contains(k, "lookupSession") || strings.Contains(k, "serveStateful") || strings.Contains(k, "serveStateless") || strings.Contains(k, "servePOST") || strings.Contains(k, "serveGET") || strings.Contains(k, "functions holding") || strings.Contains(k, "their returns")
	})
}

// underCompatSwitch: the guards establish that the MCPGODEBUG compatibility option is "1" — through the boolean local the
// handler derives from it, or through a comparison of the option itself.
func underCompatSwitch(f *Func, guards []Atom) bool {
	flag := compatFlagVar(f)
	return hasAtom(guards, func(a Atom) bool {
		if flag != nil && a.Val && f.ObjOf(a.E) == flag {
			return true
		}
		x, y, op, ok := binaryCmp(a.E)
		if !ok {
			return false
		}
		v, isV := f.ObjOf(x).(*types.Var)
		sv, isC := f.ConstString(y)
		if !isV || v.Pkg() == nil || v.Parent() != v.Pkg().Scope() || !isC || sv != "1" {
			return false
		}
		return (op == token.EQL && a.Val) || (op == token.NEQ && !a.Val)
	})
}

// compatFlagVar returns the local of f that is assigned from a comparison of an MCPGODEBUG package
// variable with "1" (e.g. legacySessions := allowsessionsinstateless == "1").
func compatFlagVar(f *Func) types.Object {
	var out types.Object
	for _, w := range Writes(f.Body, false) {
		if w.RHS == nil {
			continue
		}
		x, y, op, ok := binaryCmp(w.RHS)
		if !ok || op != token.EQL {
			continue
		}
		v, isV := f.ObjOf(x).(*types.Var)
		s, isC := f.ConstString(y)
		if isV && v.Pkg() != nil && v.Parent() == v.Pkg().Scope() && isC && s == "1" {
			out = f.ObjOf(w.LHS)
		}
	}
	return out
}

// flagSetUnderMethod returns the boolean local that f sets to true under the guard
// `<request>.Method == method`.
func flagSetUnderMethod(f *Func, method types.Object) types.Object {
	g := f.Graph()
	var out types.Object
	for _, w := range Writes(f.Body, false) {
		if w.RHS == nil || exprStr(w.RHS) != "true" {
			continue
		}
		if hasAtom(g.GuardsAt(g.VertexOf(w.Stmt)), func(a Atom) bool {
			_, y, op, ok := binaryCmp(a.E)
			return ok && op == token.EQL && a.Val && f.ObjOf(y) == method
		}) {
			out = f.ObjOf(w.LHS)
		}
	}
	return out
}

// c11timerState finds the idle-timer state of a session by role: the struct — sessionInfo, or the struct type of one
// of its fields — that declares a *time.Timer; in it the integer field (POSTs in flight), the time.Duration (timeout)
// and the sync.Mutex (whose lock class is "<struct>.<field>").
func c11timerState(c *Ctx) (refs, timer, timeout *types.Var, lock string) {
	si := c.P.LookupType(pM, "sessionInfo")
	if si == nil {
		return
	}
	cands := []*types.Named{si}
	for _, f := range structFields(si) {
		if n := namedOf(f.Type()); n != nil && n.Obj().Pkg() != nil && n.Obj().Pkg().Path() == modPath+"/"+pM {
			if _, isS := n.Underlying().(*types.Struct); isS {
				cands = append(cands, n)
			}
		}
	}
	isStd := func(t types.Type, pkg, name string) bool {
		n := namedOf(t)
		return n != nil && n.Obj().Pkg() != nil && n.Obj().Pkg().Path() == pkg && n.Obj().Name() == name
	}
	for _, n := range cands {
		var r, tm, to, mu *types.Var
		for _, f := range structFields(n) {
			switch {
			case isStd(f.Type(), "time", "Timer"):
				tm = f
			case isStd(f.Type(), "time", "Duration"):
				if to == nil {
					to = f
				}
			case isStd(f.Type(), "sync", "Mutex") || isStd(f.Type(), "sync", "RWMutex"):
				if mu == nil {
					mu = f
				}
			default:
				if b, ok := f.Type().Underlying().(*types.Basic); ok && b.Info()&types.IsInteger != 0 && r == nil {
					r = f
				}
			}
		}
		if tm != nil && r != nil && to != nil && mu != nil {
			return r, tm, to, n.Obj().Name() + "." + mu.Name()
		}
	}
	return
}

// c11delegate: when f does nothing but call one SDK routine with constant integer arguments (or none), the routine is
// what the rule has to judge; its parameters are bound to those constants.
func c11delegate(c *Ctx, f *Func, bind map[types.Object]int64) *Func {
	for depth := 0; depth < 2; depth++ {
		if f.Body == nil || len(f.Body.List) != 1 {
			return f
		}
		es, ok := f.Body.List[0].(*ast.ExprStmt)
		if !ok {
			return f
		}
		call, ok := es.X.(*ast.CallExpr)
		if !ok {
			return f
		}
		fn := f.Callee(call)
		if fn == nil || fn.Pkg() == nil || fn.Pkg().Path() != modPath+"/"+pM {
			return f
		}
		var target *Func
		for _, g := range c.P.FuncsIn(pM) {
			if g.Obj != nil && g.Obj.Origin() == fn {
				target = g
			}
		}
		if target == nil || target.Body == nil {
			return f
		}
		ps := target.NonRecvParams()
		if len(ps) != len(call.Args) {
			return f
		}
		vals := make([]int64, len(ps))
		for i, a := range call.Args {
			v, ok := f.ConstInt(a)
			if !ok {
				return f
			}
			vals[i] = v
		}
		for i, p := range ps {
			bind[p] = vals[i]
		}
		c.touch(target)
		f = target
	}
	return f
}

// c11baseLocalAlloc: e is a chain of field selections on a local variable that was allocated in this function.
func c11baseLocalAlloc(f *Func, e ast.Expr) bool {
	for {
		switch x := ast.Unparen(e).(type) {
		case *ast.SelectorExpr:
			e = x.X
		case *ast.Ident:
			return f.baseIsLocalAlloc(&ast.SelectorExpr{X: x, Sel: x})
		default:
			return false
		}
	}
}

package main

import (
	"go/ast"
	"go/token"
	"go/types"
	"sort"
	"strings"
)

const (
	pJ  = "internal/jsonrpc2"
	pM  = "mcp"
	pIJ = "internal/json"
)

// uifSite is one call of (*Connection).updateInFlight with a literal argument.
type uifSite struct {
	In   *Func // function containing the call
	Call *ast.CallExpr
	Lit  *Func
}

// uifSites returns every updateInFlight(func literal) call in f (including nested literals).
func (c *Ctx) uifSites(f *Func) []uifSite {
	uif := c.FnObj(pJ, "Connection", "updateInFlight")
	var out []uifSite
	scan := func(in *Func) {
		for _, call := range in.CallsIn(in.Body, uif, false) {
			if l := in.LitArg(call, 0); l != nil {
				out = append(out, uifSite{in, call, l})
			}
		}
	}
	scan(f)
	for _, l := range f.AllLits() {
		scan(l)
	}
	return out
}

// funcsWithLits returns each declared function of a package followed by all of its literals.
func (c *Ctx) funcsWithLits(rel string) []*Func {
	var out []*Func
	for _, f := range c.P.FuncsIn(rel) {
		out = append(out, f)
		out = append(out, f.AllLits()...)
	}
	return out
}

// litParentCall returns the call expression of which literal l is a direct argument (nil otherwise).
func litParentCall(l *Func) *ast.CallExpr {
	if l.Lit == nil || l.Parent == nil {
		return nil
	}
	root := l.Root()
	if call, ok := root.ParentOf(l.Lit).(*ast.CallExpr); ok {
		for _, a := range call.Args {
			if ast.Unparen(a) == ast.Expr(l.Lit) {
				return call
			}
		}
	}
	return nil
}

// structFields lists the fields of a named struct type.
func structFields(n *types.Named) []*types.Var {
	st, ok := n.Underlying().(*types.Struct)
	if !ok {
		return nil
	}
	var out []*types.Var
	for i := 0; i < st.NumFields(); i++ {
		out = append(out, st.Field(i))
	}
	return out
}

// fmtVerbArgs maps each formatting verb of a constant format string to its argument index
// (relative to the variadic args). Only the simple verbs used in this code base are handled.
func fmtVerbs(format string) []byte {
	var vs []byte
	for i := 0; i < len(format); i++ {
		if format[i] != '%' {
			continue
		}
		i++
		for i < len(format) && strings.ContainsRune("+-# 0123456789.", rune(format[i])) {
			i++
		}
		if i < len(format) {
			if format[i] != '%' {
				vs = append(vs, format[i])
			}
		}
	}
	return vs
}

// ErrorfWraps returns the expressions wrapped with %w in a fmt.Errorf call (nil if call is not
// fmt.Errorf with a constant format).
func (f *Func) ErrorfWraps(call *ast.CallExpr) []ast.Expr {
	fn := f.Callee(call)
	if fn == nil || fn.Pkg() == nil || fn.Pkg().Path() != "fmt" || fn.Name() != "Errorf" || len(call.Args) == 0 {
		return nil
	}
	format, ok := f.ConstString(call.Args[0])
	if !ok {
		return nil
	}
	var out []ast.Expr
	for i, v := range fmtVerbs(format) {
		if v == 'w' && 1+i < len(call.Args) {
			out = append(out, call.Args[1+i])
		}
	}
	return out
}

// WrapsObj reports whether e is obj itself or a fmt.Errorf(...) that wraps obj with %w.
func (f *Func) WrapsObj(e ast.Expr, obj types.Object) bool {
	e = ast.Unparen(e)
	if o := f.ObjOf(e); o != nil && sameObj(o, obj) {
		return true
	}
	if call, ok := e.(*ast.CallExpr); ok {
		for _, w := range f.ErrorfWraps(call) {
			if o := f.ObjOf(w); o != nil && sameObj(o, obj) {
				return true
			}
		}
	}
	return false
}

// Returns lists the return statements of f's own body (not of nested literals).
func (f *Func) Returns() []*ast.ReturnStmt {
	var out []*ast.ReturnStmt
	inspectNoLit(f.Body, func(n ast.Node) {
		if r, ok := n.(*ast.ReturnStmt); ok {
			out = append(out, r)
		}
	})
	return out
}

// hasAtom reports whether some atom satisfies pred.
func hasAtom(atoms []Atom, pred func(Atom) bool) bool {
	for _, a := range atoms {
		if pred(a) {
			return true
		}
		// a comparison also counts in its complementary spelling: !(x != y) is x == y, !(n < k) is n >= k. Rules ask for
		// one spelling; which one the source uses (an early `if x != y { return }` or an enclosing `if x == y {`) does
		// not matter
		if b, ok := ast.Unparen(a.E).(*ast.BinaryExpr); ok {
			var flip token.Token
			switch b.Op {
			case token.EQL:
				flip = token.NEQ
			case token.NEQ:
				flip = token.EQL
			case token.LSS:
				flip = token.GEQ
			case token.GEQ:
				flip = token.LSS
			case token.GTR:
				flip = token.LEQ
			case token.LEQ:
				flip = token.GTR
			}
			if flip != token.ILLEGAL && pred(Atom{&ast.BinaryExpr{X: b.X, OpPos: b.OpPos, Op: flip, Y: b.Y}, !a.Val}) {
				return true
			}
		}
	}
	return false
}

func atomsString(atoms []Atom) string {
	var s []string
	seen := map[string]bool{}
	for _, a := range atoms {
		if t := a.String(); !seen[t] {
			seen[t] = true
			s = append(s, t)
		}
	}
	return strings.Join(s, " ∧ ")
}

// vertexHasCall builds a vertex predicate: the CFG node at v contains (outside literals) a call to fn.
// Deferred calls count (the defer statement is the node).
func (g *Graph) hasCall(fn *types.Func) func(int) bool {
	return func(v int) bool {
		n := g.node[v]
		return n != nil && g.F.ContainsCall(n, fn)
	}
}

// callVertices returns vertices whose node contains a call to fn, with the calls.
func (g *Graph) callVertices(fn *types.Func) []int {
	return g.Vertices(func(n ast.Node) bool { return g.F.ContainsCall(n, fn) })
}

// binaryCmp decomposes x OP y for a comparison operator.
func binaryCmp(e ast.Expr) (x, y ast.Expr, op token.Token, ok bool) {
	b, isB := ast.Unparen(e).(*ast.BinaryExpr)
	if !isB {
		return nil, nil, 0, false
	}
	switch b.Op {
	case token.EQL, token.NEQ, token.LSS, token.LEQ, token.GTR, token.GEQ:
		return b.X, b.Y, b.Op, true
	}
	return nil, nil, 0, false
}

// cmpOn is binaryCmp oriented so that left(x) holds (the operator is mirrored when the operands
// are exchanged); comparisons of two non-constant operands have no canonical order in the source.
func cmpOn(e ast.Expr, left func(ast.Expr) bool) (x, y ast.Expr, op token.Token, ok bool) {
	x, y, op, ok = binaryCmp(e)
	if !ok || left(x) {
		return
	}
	if left(y) {
		switch op {
		case token.LSS:
			op = token.GTR
		case token.GTR:
			op = token.LSS
		case token.LEQ:
			op = token.GEQ
		case token.GEQ:
			op = token.LEQ
		}
		return y, x, op, true
	}
	return
}

// indexOf decomposes m[k].
func indexOf(e ast.Expr) (m, k ast.Expr, ok bool) {
	ix, isIx := ast.Unparen(e).(*ast.IndexExpr)
	if !isIx {
		return nil, nil, false
	}
	return ix.X, ix.Index, true
}

// sameExpr compares two expressions structurally by their printed form (operands already resolved
// by the caller where identity matters).
func sameExpr(a, b ast.Expr) bool { return exprStr(ast.Unparen(a)) == exprStr(ast.Unparen(b)) }

// goStmtsIn lists go statements in f's body (not nested literals).
func (f *Func) goStmts() []*ast.GoStmt {
	var out []*ast.GoStmt
	inspectNoLit(f.Body, func(n ast.Node) {
		if g, ok := n.(*ast.GoStmt); ok {
			out = append(out, g)
		}
	})
	return out
}

// writesToVar returns statements (in f's own body and, if deep, in nested literals) that assign to
// variable v.
func (f *Func) writesToVar(n ast.Node, v types.Object, deep bool) []ast.Node {
	var out []ast.Node
	for _, w := range Writes(n, deep) {
		if id, ok := ast.Unparen(w.LHS).(*ast.Ident); ok {
			if o := f.ObjOf(id); o != nil && o == v {
				out = append(out, w.Stmt)
			}
		}
	}
	return dedupNodes(out)
}

// LitArgOfGo returns the function literal started by `go func(){...}()` (nil if the go statement
// starts a named function).
func (f *Func) LitArgOfGo(gs *ast.GoStmt) *Func {
	if l, ok := ast.Unparen(gs.Call.Fun).(*ast.FuncLit); ok {
		return f.Root().LitFor(l)
	}
	return nil
}

// LitOfDefer returns the literal of `defer func(){...}()`.
func (f *Func) LitOfDefer(ds *ast.DeferStmt) *Func {
	if l, ok := ast.Unparen(ds.Call.Fun).(*ast.FuncLit); ok {
		return f.Root().LitFor(l)
	}
	return nil
}

// ReachableFromAvoiding: vertices reachable from v without entering `avoid`.
func (g *Graph) ReachableFromAvoiding(v, avoid int) []bool {
	seen, _ := g.reach(g.succ[v], func(u int) bool { return u == avoid }, nil)
	for _, s := range g.succ[v] {
		if s == avoid {
			seen[s] = false
		}
	}
	return seen
}

// failureReturnsError reports whether a non-nil error result of call (bound by the enclosing
// assignment or if-initialiser) leads only to returns whose last result is not nil: some branch tests
// that error variable, no write to it lies between the call and the test, and every return reachable
// from the test's non-nil edge returns an error. The shape of the statement (if-init or separate
// assignment, == or != with an else) does not matter.
func (f *Func) failureReturnsError(call *ast.CallExpr) bool {
	as, ok := f.ParentOf(call).(*ast.AssignStmt)
	if !ok || len(as.Rhs) != 1 {
		return false
	}
	errObj := f.ObjOf(as.Lhs[len(as.Lhs)-1])
	if errObj == nil {
		return false
	}
	g := f.Graph()
	cv := g.VertexOf(call)
	for _, ev := range g.condVertices() {
		cond := g.node[ev-1].(ast.Expr)
		if !g.Dominates(cv, ev-1) {
			// the call may sit in a branch (`if err == nil { err = step() }`) that rejoins before the test: what counts is
			// that every path from the call to an exit passes the test
			if through, _ := g.MustPass(cv, g.Exits, func(v int) bool { return v == ev-1 }); !through {
				continue
			}
		}
		for k := 0; k < 2; k++ {
			// edge k is where *every* failure goes exactly when the other edge implies err == nil: `if err != nil {…}` and
			// `if err != nil || other {…}` qualify, `if err != nil && other {…}` does not (with other false the failure
			// falls through)
			var other []Atom
			splitAtoms(cond, k != 0, &other)
			says := false
			for _, a := range other {
				if AtomSaysNil(a, true, func(e ast.Expr) bool { return f.ObjOf(e) == errObj }) {
					says = true
				}
			}
			if !says || g.writtenBetween(errObj, cv, ev-1) {
				continue
			}
			seen, _ := g.reach([]int{g.succ[ev][k]}, nil, nil)
			seen[g.succ[ev][k]] = true
			okAll, n := true, 0
			for _, x := range g.Exits {
				if !seen[x] {
					continue
				}
				n++
				r, isR := g.node[x].(*ast.ReturnStmt)
				if !isR || len(r.Results) == 0 || isNilIdent(r.Results[len(r.Results)-1]) {
					okAll = false
				}
			}
			if okAll && n > 0 {
				return true
			}
		}
	}
	return false
}

// writtenBetween: some assignment to obj other than the one at vertex from lies on a path from → to.
func (g *Graph) writtenBetween(obj types.Object, from, to int) bool {
	// paths from → write → to that do not come back through either end (in a loop everything is "between" everything
	// otherwise: the next iteration's writes are not between this iteration's call and its test)
	after := g.ReachableFromAvoiding(from, to)
	for _, w := range Writes(g.F.Body, false) {
		if g.F.ObjOf(w.LHS) != obj {
			continue
		}
		wv := g.VertexOf(w.Stmt)
		if wv < 0 || wv == from || !after[wv] {
			continue
		}
		if wv == to || g.ReachableFromAvoiding(wv, from)[to] {
			return true
		}
	}
	return false
}

// failureWraps reports whether a non-nil error result of call leads only to returns whose error wraps
// obj with %w (directly, or through the error variable after an assignment of such a wrapping value
// on every path from the failure branch). Same statement-shape independence as failureReturnsError.
func (f *Func) failureWraps(call *ast.CallExpr, obj types.Object) (bool, string) {
	as, ok := f.ParentOf(call).(*ast.AssignStmt)
	if !ok || len(as.Rhs) != 1 {
		return false, "the call's error is not bound to a variable"
	}
	errObj := f.ObjOf(as.Lhs[len(as.Lhs)-1])
	if errObj == nil {
		return false, "the call's error is discarded"
	}
	g := f.Graph()
	cv := g.VertexOf(call)
	wrapsAt := func(v int, target types.Object) bool {
		for _, w := range Writes(g.Node(v), false) {
			if f.ObjOf(w.LHS) == target && w.RHS != nil && f.WrapsObj(w.RHS, obj) {
				return true
			}
		}
		return false
	}
	found := false
	for _, ev := range g.condVertices() {
		cond := g.node[ev-1].(ast.Expr)
		if !g.Dominates(cv, ev-1) || g.writtenBetween(errObj, cv, ev-1) {
			continue
		}
		for k := 0; k < 2; k++ {
			var atoms []Atom
			splitAtoms(cond, k == 0, &atoms)
			says := false
			for _, a := range atoms {
				if AtomSaysNil(a, false, func(e ast.Expr) bool { return f.ObjOf(e) == errObj }) {
					says = true
				}
			}
			if !says {
				continue
			}
			found = true
			t := g.succ[ev][k]
			// exits reachable from the failure edge without passing a wrapping assignment to the error variable
			blocked := func(v int) bool { return g.node[v] != nil && wrapsAt(v, errObj) }
			starts := []int{t}
			if blocked(t) {
				starts = nil
			}
			seen, _ := g.reach(starts, blocked, nil)
			for _, x := range g.Exits {
				if !seen[x] && !(len(starts) > 0 && x == t) {
					continue
				}
				r, isR := g.node[x].(*ast.ReturnStmt)
				if !isR || len(r.Results) == 0 {
					return false, "a path from the failure branch falls off the function at " + f.At(g.node[x])
				}
				if !f.WrapsObj(r.Results[len(r.Results)-1], obj) {
					return false, "the return at " + f.At(r) + " does not wrap it"
				}
			}
		}
	}
	if !found {
		return false, "no branch tests the call's error"
	}
	return true, ""
}

// edgesWhere returns the first vertices of the branch edges on which some atom of the branch condition
// satisfies pred (independent of how the condition is spelled: `x`, `!x`, `x == nil`, conjunctions).
func (g *Graph) edgesWhere(pred func(Atom) bool) []int {
	var out []int
	for _, ev := range g.condVertices() {
		cond := g.node[ev-1].(ast.Expr)
		for k := 0; k < 2; k++ {
			var atoms []Atom
			splitAtoms(cond, k == 0, &atoms)
			if hasAtom(atoms, pred) {
				out = append(out, g.succ[ev][k])
			}
		}
	}
	return out
}

// allPathsPass: every path from vertex `from` (inclusive) to an exit passes a vertex satisfying pred.
func (g *Graph) allPathsPass(from int, pred func(int) bool) bool {
	ok, _ := g.MustPassIncl(from, g.Exits, pred)
	return ok
}

// MustPassIncl is MustPass with the start vertex included: a start that satisfies via passes, a start that is
// itself a target (e.g. the branch consists of a bare return) fails. Use it when `from` is the first vertex of a branch.
func (g *Graph) MustPassIncl(from int, to []int, via func(int) bool) (bool, []int) {
	if g.node[from] != nil && via(from) {
		return true, nil
	}
	for _, t := range to {
		if t == from {
			return false, []int{from}
		}
	}
	return g.MustPass(from, to, via)
}

// guardingConds returns the condition vertices one of whose outcome edges dominates v (every path from entry to v took
// that edge), outermost first.
func (g *Graph) guardingConds(v int) []int {
	var out []int
	for _, ev := range g.condVertices() {
		for k := 0; k < 2; k++ {
			seen, _ := g.reach([]int{g.Entry}, nil, func(u, kk int) bool { return u == ev && kk == k })
			if v != g.Entry && !seen[v] {
				out = append(out, ev-1)
				break
			}
		}
	}
	sort.Slice(out, func(i, j int) bool { return g.Dominates(out[i], out[j]) && out[i] != out[j] })
	return out
}

// failureEdges returns the first vertices of the branch edges taken when the error bound by `call`
// (`…, err := call(…)`) is non-nil, the error variable not having been reassigned in between. Empty when the
// error is never tested.
func (f *Func) failureEdges(call *ast.CallExpr) []int {
	as, ok := f.ParentOf(call).(*ast.AssignStmt)
	if !ok || len(as.Rhs) != 1 {
		return nil
	}
	errObj := f.ObjOf(as.Lhs[len(as.Lhs)-1])
	if errObj == nil {
		return nil
	}
	g := f.Graph()
	cv := g.VertexOf(call)
	var out []int
	for _, ev := range g.condVertices() {
		cond := g.node[ev-1].(ast.Expr)
		if !g.Dominates(cv, ev-1) || g.writtenBetween(errObj, cv, ev-1) {
			continue
		}
		for k := 0; k < 2; k++ {
			// as in failureReturnsError: the edge on which every failure travels is the one whose sibling implies err == nil
			var other []Atom
			splitAtoms(cond, k != 0, &other)
			says := hasAtom(other, func(a Atom) bool {
				return AtomSaysNil(a, true, func(e ast.Expr) bool { return f.ObjOf(e) == errObj })
			})
			if says {
				out = append(out, g.succ[ev][k])
			}
		}
	}
	return out
}

// boundErrorIsReturned: the error bound by `…, err = call(…)` is what every return reachable from the call hands back
// (`_, err = w.Write(data); return err`), without err being reassigned on the way.
func (f *Func) boundErrorIsReturned(call *ast.CallExpr) bool {
	as, ok := f.ParentOf(call).(*ast.AssignStmt)
	if !ok || len(as.Rhs) != 1 {
		return false
	}
	errObj := f.ObjOf(as.Lhs[len(as.Lhs)-1])
	if errObj == nil {
		return false
	}
	g := f.Graph()
	cv := g.VertexOf(call)
	seen, _ := g.reach([]int{cv}, nil, nil)
	n := 0
	for _, x := range g.Exits {
		if !seen[x] {
			continue
		}
		n++
		r, isR := g.node[x].(*ast.ReturnStmt)
		if !isR {
			return false
		}
		if len(r.Results) == 0 {
			nr := 0
			if f.Type.Results != nil {
				nr = f.Type.Results.NumFields()
			}
			if nr == 0 || f.NamedResult(nr-1) != errObj {
				return false
			}
		} else if f.ObjOf(r.Results[len(r.Results)-1]) != errObj {
			return false
		}
		if g.writtenBetween(errObj, cv, x) {
			return false
		}
	}
	return n > 0
}

// semanticLeaves counts the atomic tests (leaves of && / || / !) of all conditions that guard vertex v, leaving out
// nil tests (a defensive `x != nil` may come and go without changing behaviour). It is the size of the gate in front
// of v: a gate that grows by a test on some unrelated flag has been narrowed. Exit guards (conditions whose other outcome
// leaves without rejoining what follows v) are not counted.
func (g *Graph) semanticLeaves(v int) (int, string) { return g.gateLeaves(v, false) }

// gateLeaves is semanticLeaves with the choice of counting nil tests too (for gates in front of which no defensive nil
// test belongs).
func (g *Graph) gateLeaves(v int, countNil bool) (int, string) {
	n := 0
	var parts []string
	future := g.ReachableFrom(v)
	future[v] = true
	for _, ev := range g.condVertices() {
		e, ok := g.node[ev-1].(ast.Expr)
		if !ok {
			continue
		}
		// which outcome of this condition is needed to get to v?
		need := -1
		for k := 0; k < 2; k++ {
			seen, _ := g.reach([]int{g.Entry}, nil, func(u, kk int) bool { return u == ev && kk == k })
			if v != g.Entry && !seen[v] {
				need = k // with edge k removed v is unreachable: every path to v takes it
			}
		}
		if need < 0 {
			continue
		}
		// an exit guard (early return, the refusing arm of a validation) decides between reaching v and leaving: its other
		// outcome never rejoins anything that follows v. Such a condition is a different decision — and whether it sits in
		// front of v as a statement of its own or wraps v in an else makes no difference to this test.
		alt := g.succ[ev][1-need]
		altSeen, _ := g.reach([]int{alt}, nil, nil)
		altSeen[alt] = true
		rejoins := false
		for u, in := range altSeen {
			if in && future[u] {
				rejoins = true
				break
			}
		}
		if !rejoins {
			continue
		}
		// every atomic test of the condition counts, whether the condition is written with &&, || or !: the same
		// decision spread over several if statements or merged into one has the same number of tests
		var leaves []Atom
		var flat func(e ast.Expr)
		flat = func(e ast.Expr) {
			e = ast.Unparen(e)
			switch x := e.(type) {
			case *ast.UnaryExpr:
				if x.Op == token.NOT {
					if isCompound(ast.Unparen(x.X)) {
						flat(x.X)
						return
					}
				}
			case *ast.BinaryExpr:
				if x.Op == token.LAND || x.Op == token.LOR {
					flat(x.X)
					flat(x.Y)
					return
				}
			}
			leaves = append(leaves, Atom{e, true})
		}
		flat(e)
		for _, a := range leaves {
			if _, _, isNil := NilTest(a.E); isNil && !countNil {
				continue
			}
			if inner, neg := stripNot(a.E); neg && !countNil {
				if _, _, isNil := NilTest(inner); isNil {
					continue
				}
			}
			n++
			parts = append(parts, exprStr(a.E))
		}
	}
	return n, strings.Join(parts, " ; ")
}

// ReachAssuming computes reachability when the given atoms (conditions with a truth value) hold: a branch condition
// built from them is evaluated, everything else stays unknown. Atoms are matched structurally (sameExpr), so the same
// test written in one `if a && b` or in two nested ifs gives the same answer.
func (g *Graph) ReachAssuming(atoms []Atom) []bool {
	return g.ReachUnder(func(e ast.Expr) tri {
		for _, a := range atoms {
			if sameExpr(a.E, e) {
				if a.Val {
					return triTrue
				}
				return triFalse
			}
		}
		return triUnknown
	}, nil)
}

// gateOf returns the condition vertices that form the gate of v — the conditions whose outcome decides whether v
// runs and whose other outcome rejoins what follows v (exit guards are not part of it, see gateLeaves) — outermost
// first. `if a && b { v }` has one gate vertex, `if a { if b { v } }` has two; rules that ask whether "the test in
// front of v" is always evaluated ask it about the first.
func (g *Graph) gateOf(v int) []int {
	var out []int
	future := g.ReachableFrom(v)
	future[v] = true
	for _, ev := range g.condVertices() {
		need := -1
		for k := 0; k < 2; k++ {
			seen, _ := g.reach([]int{g.Entry}, nil, func(u, kk int) bool { return u == ev && kk == k })
			if v != g.Entry && !seen[v] {
				need = k
			}
		}
		if need < 0 {
			continue
		}
		alt := g.succ[ev][1-need]
		altSeen, _ := g.reach([]int{alt}, nil, nil)
		altSeen[alt] = true
		rejoins := false
		for u, in := range altSeen {
			if in && future[u] {
				rejoins = true
				break
			}
		}
		if rejoins {
			out = append(out, ev-1)
		}
	}
	sort.Slice(out, func(i, j int) bool { return g.Dominates(out[i], out[j]) && out[i] != out[j] })
	return out
}

// aliasesOf returns obj together with every local variable whose value reaches it through plain copies (`a = b`,
// `a, c = b, d`, `var a T = b`): the temporaries that stand for a helper's results after it was expanded in place, or a
// value handed on under another name. Rules that ask "where does this value come from" ask it of the whole set.
func (f *Func) aliasesOf(obj types.Object) map[types.Object]bool {
	set := map[types.Object]bool{obj: true}
	ws := Writes(f.Body, true)
	for changed := true; changed; {
		changed = false
		for _, w := range ws {
			if w.RHS == nil || !set[f.ObjOf(w.LHS)] {
				continue
			}
			if id, ok := ast.Unparen(w.RHS).(*ast.Ident); ok {
				if v, isVar := f.ObjOf(id).(*types.Var); isVar && !v.IsField() && !set[v] {
					set[v] = true
					changed = true
				}
			}
		}
	}
	return set
}

// binaryCmp2 is binaryCmp for an arbitrary node (false for non-expressions).
func binaryCmp2(n ast.Node) (x, y ast.Expr, op token.Token, ok bool) {
	e, isE := n.(ast.Expr)
	if !isE {
		return nil, nil, token.ILLEGAL, false
	}
	return binaryCmp(e)
}

// ---- linear comparisons --------------------------------------------------------------------

// linIneq is the normal form of an integer comparison:  Σ coef·term + K  Op  0  with Op one of <= (token.LEQ),
// == and !=. Strict and mirrored comparisons are brought to <= over the integers (a < b is a - b + 1 <= 0).
type linIneq struct {
	T  map[string]int64
	K  int64
	Op token.Token
}

// linExpand reduces an integer expression built from +, -, constants and opaque terms to coefficient form. Terms are
// keyed independently of local names: parameters by type, fields by owner type, len(x) by x's key; a local that is
// defined exactly once from such an expression stands for its definition.
func (f *Func) linExpand(e ast.Expr, depth int) (map[string]int64, int64, bool) {
	e = ast.Unparen(e)
	if v, ok := f.ConstInt(e); ok {
		return map[string]int64{}, v, true
	}
	switch x := e.(type) {
	case *ast.BinaryExpr:
		if x.Op != token.ADD && x.Op != token.SUB {
			return nil, 0, false
		}
		a, ca, ok1 := f.linExpand(x.X, depth)
		b, cb, ok2 := f.linExpand(x.Y, depth)
		if !ok1 || !ok2 {
			return nil, 0, false
		}
		sign := int64(1)
		if x.Op == token.SUB {
			sign = -1
		}
		for k, v := range b {
			a[k] += sign * v
		}
		return a, ca + sign*cb, true
	case *ast.Ident:
		v, ok := f.ObjOf(x).(*types.Var)
		if !ok {
			return nil, 0, false
		}
		for _, p := range f.Root().Params() {
			if p == v {
				return map[string]int64{"param(" + v.Type().String() + ")": 1}, 0, true
			}
		}
		if depth < 4 && !v.IsField() && !f.Root().addressTaken(v) {
			var def ast.Expr
			n := 0
			for _, w := range Writes(f.Root().Body, true) {
				if f.ObjOf(w.LHS) == types.Object(v) {
					n++
					def = w.RHS
				}
			}
			if n == 1 && def != nil && pureCond(def) {
				if t, k, ok := f.linExpand(def, depth+1); ok {
					return t, k, true
				}
			}
		}
		return map[string]int64{"local:" + v.Name(): 1}, 0, true
	case *ast.SelectorExpr:
		return map[string]int64{f.FieldPath(x): 1}, 0, true
	case *ast.CallExpr:
		if f.BuiltinName(x) == "len" && len(x.Args) == 1 {
			return map[string]int64{"len(" + f.FieldPath(x.Args[0]) + ")": 1}, 0, true
		}
		return map[string]int64{f.FieldPath(x): 1}, 0, true
	}
	return nil, 0, false
}

// linAtom: the normal form of a comparison atom (with its polarity).
func (f *Func) linAtom(a Atom) (linIneq, bool) {
	x, y, op, ok := binaryCmp(a.E)
	if !ok {
		return linIneq{}, false
	}
	if !a.Val {
		switch op {
		case token.EQL:
			op = token.NEQ
		case token.NEQ:
			op = token.EQL
		case token.LSS:
			op = token.GEQ
		case token.GEQ:
			op = token.LSS
		case token.GTR:
			op = token.LEQ
		case token.LEQ:
			op = token.GTR
		}
	}
	tx, kx, ok1 := f.linExpand(x, 0)
	ty, ky, ok2 := f.linExpand(y, 0)
	if !ok1 || !ok2 {
		return linIneq{}, false
	}
	// L = x - y
	for k, v := range ty {
		tx[k] -= v
	}
	L := linIneq{T: tx, K: kx - ky}
	neg := func() {
		for k := range L.T {
			L.T[k] = -L.T[k]
		}
		L.K = -L.K
	}
	switch op {
	case token.LEQ:
		L.Op = token.LEQ
	case token.LSS:
		L.Op = token.LEQ
		L.K++
	case token.GEQ:
		neg()
		L.Op = token.LEQ
	case token.GTR:
		neg()
		L.K++
		L.Op = token.LEQ
	default:
		L.Op = op
	}
	for k, v := range L.T {
		if v == 0 {
			delete(L.T, k)
		}
	}
	return L, true
}

// is: the inequality has exactly these coefficients (for == and != also their negation).
func (l linIneq) is(op token.Token, k int64, terms map[string]int64) bool {
	if l.Op != op {
		return false
	}
	same := func(sign int64) bool {
		if l.K != sign*k || len(l.T) != len(terms) {
			return false
		}
		for t, v := range terms {
			if l.T[t] != sign*v {
				return false
			}
		}
		return true
	}
	if same(1) {
		return true
	}
	return op != token.LEQ && same(-1)
}

// hasLinAtom: one of the atoms has the given normal form.
func (f *Func) hasLinAtom(atoms []Atom, op token.Token, k int64, terms map[string]int64) bool {
	return hasAtom(atoms, func(a Atom) bool {
		l, ok := f.linAtom(a)
		return ok && l.is(op, k, terms)
	})
}

// caseValues: the values a case clause compares its switch's subject with. A switch over a variable reaches the rules
// as a switch without tag (canonSwitch): `case v == a || v == b:`; the values are then a and b. Anything else in the
// list is returned as it stands.
func caseValues(cc *ast.CaseClause) []ast.Expr {
	var out []ast.Expr
	var walk func(e ast.Expr)
	walk = func(e ast.Expr) {
		e = ast.Unparen(e)
		if b, ok := e.(*ast.BinaryExpr); ok {
			switch b.Op {
			case token.LOR:
				walk(b.X)
				walk(b.Y)
				return
			case token.EQL:
				out = append(out, b.Y)
				return
			}
		}
		out = append(out, e)
	}
	for _, e := range cc.List {
		walk(e)
	}
	return out
}

// pureRead: the selector is only measured or compared where it stands (the operand of len/cap, of a comparison, or a
// value of basic type): nothing that could be modified through it is handed on.
func pureRead(f *Func, sel *ast.SelectorExpr) bool {
	if _, isBasic := f.TypeOf(sel).Underlying().(*types.Basic); isBasic {
		return true
	}
	switch p := f.ParentOf(sel).(type) {
	case *ast.CallExpr:
		name := f.BuiltinName(p)
		return name == "len" || name == "cap"
	case *ast.BinaryExpr:
		switch p.Op {
		case token.EQL, token.NEQ:
			return true
		}
	}
	return false
}

// constTable: what a package-level variable holds for the whole run: its initialiser, provided nothing in its package
// assigns to it, to one of its elements, or takes its address (a table like `var keys = [...]string{…}` is then as good
// as the literal written where it is used). nil otherwise.
func (c *Ctx) constTable(rel string, obj types.Object) ast.Expr {
	v, ok := obj.(*types.Var)
	if !ok || v.IsField() || v.Pkg() == nil || v.Parent() != v.Pkg().Scope() {
		return nil
	}
	pk := c.P.Pkg(rel)
	if pk == nil || pk.Types != v.Pkg() {
		return nil
	}
	var init ast.Expr
	for _, f := range pk.Syntax {
		for _, d := range f.Decls {
			gd, ok := d.(*ast.GenDecl)
			if !ok || gd.Tok != token.VAR {
				continue
			}
			for _, sp := range gd.Specs {
				vs := sp.(*ast.ValueSpec)
				for i, nm := range vs.Names {
					if pk.TypesInfo.Defs[nm] == obj && len(vs.Values) == len(vs.Names) {
						init = vs.Values[i]
					}
				}
			}
		}
	}
	if init == nil {
		return nil
	}
	for _, f := range c.funcsWithLits(rel) {
		if f.Lit != nil {
			continue // literals are covered by the deep walk of their root
		}
		bad := false
		for _, w := range Writes(f.Body, true) {
			e := w.LHS
			for {
				switch x := ast.Unparen(e).(type) {
				case *ast.IndexExpr:
					e = x.X
					continue
				case *ast.StarExpr:
					e = x.X
					continue
				}
				break
			}
			if f.ObjOf(e) == obj {
				bad = true
			}
		}
		ast.Inspect(f.Body, func(n ast.Node) bool {
			if u, ok := n.(*ast.UnaryExpr); ok && u.Op == token.AND && f.ObjOf(u.X) == obj {
				bad = true
			}
			if sl, ok := n.(*ast.SliceExpr); ok && f.ObjOf(sl.X) == obj {
				bad = true // a slice of an array aliases it
			}
			return !bad
		})
		if bad {
			return nil
		}
	}
	return init
}

// orOperands: the operands of a (possibly nested, parenthesised) || expression, left to right; e itself otherwise.
func orOperands(e ast.Expr) []ast.Expr {
	e = ast.Unparen(e)
	if b, ok := e.(*ast.BinaryExpr); ok && b.Op == token.LOR {
		return append(orOperands(b.X), orOperands(b.Y)...)
	}
	return []ast.Expr{e}
}

// pkgClosure returns root and every declared function of root's package that it reaches through static calls (literals
// included), in discovery order: "the code behind this entry point", whatever helpers it was split into.
func (c *Ctx) pkgClosure(root *Func) []*Func {
	seen := map[*Func]bool{root: true}
	out := []*Func{root}
	for i := 0; i < len(out); i++ {
		f := out[i]
		for _, call := range f.AllCalls(f.Body, true) {
			fn := f.Callee(call)
			if fn == nil || fn.Pkg() == nil || fn.Pkg() != root.Pkg.Types {
				continue
			}
			if g := c.P.FuncOf(fn); g != nil && !seen[g] {
				seen[g] = true
				out = append(out, g)
			}
		}
	}
	return out
}

// closureMentions: some function behind root mentions obj.
func (c *Ctx) closureMentions(root *Func, obj types.Object) bool {
	for _, f := range c.pkgClosure(root) {
		if f.Mentions(f.Body, obj) {
			return true
		}
	}
	return false
}

// reachingConstString: the value of e when it is a string constant, or a local variable whose last assignment before
// this use (the one that dominates the use with no other assignment in between) is a string constant.
func (f *Func) reachingConstString(g *Graph, e ast.Expr) (string, bool) {
	if s, ok := f.ConstString(e); ok {
		return s, true
	}
	id, ok := ast.Unparen(e).(*ast.Ident)
	if !ok {
		return "", false
	}
	v, isVar := f.ObjOf(id).(*types.Var)
	if !isVar || v.IsField() || f.addressTaken(v) {
		return "", false
	}
	uv := g.VertexOf(id)
	var ws []Write
	for _, w := range Writes(f.Root().Body, true) {
		if f.ObjOf(w.LHS) == types.Object(v) {
			if _, isID := ast.Unparen(w.LHS).(*ast.Ident); isID {
				ws = append(ws, w)
			}
		}
	}
	for _, w := range ws {
		if w.RHS == nil {
			continue
		}
		s, isC := f.ConstString(w.RHS)
		if !isC {
			continue
		}
		wv := g.VertexOf(w.Stmt)
		if wv == uv || !g.Dominates(wv, uv) {
			continue
		}
		// no other assignment can run between this one and the use
		clean := true
		fromW := g.ReachableFrom(wv)
		for _, o := range ws {
			if o.Stmt == w.Stmt {
				continue
			}
			ov := g.VertexOf(o.Stmt)
			if fromW[ov] && g.ReachableFrom(ov)[uv] {
				clean = false
			}
		}
		if clean {
			return s, true
		}
	}
	return "", false
}

// entryGuardedBy: every static call of fn in its package sits behind a test of the boolean field fld with the outcome
// want — directly, or because the calling function is itself only entered that way (three levels up at most).
func (c *Ctx) entryGuardedBy(fn *Func, fld *types.Var, want bool, depth int) bool {
	if depth > 3 || fn == nil || fn.Obj == nil {
		return false
	}
	n := 0
	for _, f := range c.P.SDKFuncs() {
		if f.Pkg != fn.Pkg {
			continue
		}
		for _, holder := range append([]*Func{f}, f.AllLits()...) {
			for _, call := range holder.CallsIn(holder.Body, fn.Obj, false) {
				n++
				g := holder.Graph()
				if hasAtom(g.GuardsAt(g.VertexOf(call)), func(a Atom) bool { return holder.IsField(a.E, fld) && a.Val == want }) {
					continue
				}
				if !c.entryGuardedBy(holder.Root(), fld, want, depth+1) {
					return false
				}
			}
		}
	}
	return n > 0
}

// resolveValue follows an expression to where its value is written down: a local with a single definition stands for
// that definition; a parameter of a literal that is invoked on the spot (go f(x), defer f(x), f(x) of an immediately
// invoked literal) stands for the argument, read in the enclosing function. It returns the function in which the
// resulting expression is to be read.
func (f *Func) resolveValue(e ast.Expr) (*Func, ast.Expr) {
	cur, x := f, e
	for depth := 0; depth < 6; depth++ {
		id, ok := ast.Unparen(x).(*ast.Ident)
		if !ok {
			return cur, x
		}
		o := cur.ObjOf(id)
		if o == nil {
			return cur, x
		}
		// a parameter of an on-the-spot literal (possibly of an enclosing literal)
		bound := false
		for lit := cur; lit != nil && lit.Lit != nil && lit.Parent != nil; lit = lit.Parent {
			call, isCall := lit.Parent.ParentOf(lit.Lit).(*ast.CallExpr)
			if !isCall {
				if pe, isP := lit.Parent.ParentOf(lit.Lit).(*ast.ParenExpr); isP {
					call, isCall = lit.Parent.ParentOf(pe).(*ast.CallExpr)
				}
			}
			if !isCall || ast.Unparen(call.Fun) != ast.Expr(lit.Lit) {
				continue
			}
			i := 0
			for _, fld := range lit.Type.Params.List {
				for _, nm := range fld.Names {
					if lit.Info().Defs[nm] == o && i < len(call.Args) {
						// assigned inside the literal? then only its first value is the argument: accept when the only writes
						// are redefinitions by `:=` tuples (ctx, stop := f(ctx)), which read the argument on their right side
						cur, x, bound = lit.Parent, call.Args[i], true
					}
					i++
				}
			}
			if bound {
				break
			}
		}
		if bound {
			continue
		}
		nx := cur.valueOf(x)
		if nx == x {
			return cur, x
		}
		x = nx
	}
	return cur, x
}

// isCondition: n lies inside a branch condition of the graph.
func (g *Graph) isCondition(n ast.Node) bool {
	for _, cv := range g.condVertices() {
		if encloses(g.node[cv-1], n) {
			return true
		}
	}
	return false
}

// reachingDef: for a local variable used at id, the right-hand side of the one assignment that dominates the use with no
// other assignment of that variable possible in between; nil when there is no such single definition.
func (f *Func) reachingDef(g *Graph, id *ast.Ident) ast.Expr {
	v, isVar := f.ObjOf(id).(*types.Var)
	if !isVar || v.IsField() || f.addressTaken(v) {
		return nil
	}
	uv := g.VertexOf(id)
	var ws []Write
	for _, w := range Writes(f.Body, false) {
		if f.ObjOf(w.LHS) == types.Object(v) {
			if _, isID := ast.Unparen(w.LHS).(*ast.Ident); isID {
				ws = append(ws, w)
			}
		}
	}
	for _, w := range ws {
		if w.RHS == nil {
			continue
		}
		wv := g.VertexOf(w.Stmt)
		if wv == uv || !g.Dominates(wv, uv) {
			continue
		}
		clean := true
		fromW := g.ReachableFrom(wv)
		for _, o := range ws {
			if o.Stmt == w.Stmt {
				continue
			}
			ov := g.VertexOf(o.Stmt)
			if fromW[ov] && g.ReachableFrom(ov)[uv] {
				clean = false
			}
		}
		if clean {
			return w.RHS
		}
	}
	return nil
}

// atomSaysIsCall: the atom establishes req.IsCall() == want — through the method, or through what the method is
// (`req.ID.value != nil` / ID.IsValid()), which is how it reads after a helper that used it was expanded in place.
func atomSaysIsCall(f *Func, a Atom, isCall *types.Func, want bool) bool {
	if ce, ok := ast.Unparen(a.E).(*ast.CallExpr); ok {
		if f.IsCallTo(ce, isCall) {
			return a.Val == want
		}
		if fn := f.Callee(ce); fn != nil && fn.Name() == "IsValid" {
			if sel, isSel := ast.Unparen(ce.Fun).(*ast.SelectorExpr); isSel && strings.HasSuffix(f.FieldPath(sel.X), "Request.ID") {
				return a.Val == want
			}
		}
	}
	if x, trueWhenNil, ok := NilTest(a.E); ok && strings.HasSuffix(f.FieldPath(x), "Request.ID.value") {
		isNil := trueWhenNil == a.Val
		return isNil != want
	}
	return false
}

// entryRefusesModern: every static call of fn in its package is unreachable when the protocol version tests of the calling
// function are evaluated for a version >= 2026-07-28 (the callee is a legacy-only path such as the resuming GET).
func (c *Ctx) entryRefusesModern(fn *Func) bool {
	if fn == nil || fn.Obj == nil {
		return false
	}
	v728 := c.P.LookupObj(pM, "protocolVersion20260728")
	n := 0
	for _, f := range c.P.SDKFuncs() {
		if f.Pkg != fn.Pkg {
			continue
		}
		for _, holder := range append([]*Func{f}, f.AllLits()...) {
			for _, call := range holder.CallsIn(holder.Body, fn.Obj, false) {
				n++
				g := holder.Graph()
				reach := g.ReachUnder(func(e ast.Expr) tri {
					_, y, op, ok := binaryCmp(e)
					if !ok || v728 == nil || holder.ObjOf(y) != v728 {
						return triUnknown
					}
					switch op {
					case token.LSS:
						return triFalse
					case token.GEQ:
						return triTrue
					}
					return triUnknown
				}, nil)
				if reach[g.VertexOf(call)] {
					return false
				}
			}
		}
	}
	return n > 0
}

// atomSaysEmpty: the atom establishes len(x) == 0 for an x accepted by match, in any spelling: == 0 / <= 0 / < 1 hold, or
// != 0 / > 0 / >= 1 do not.
func atomSaysEmpty(f *Func, a Atom, match func(ast.Expr) bool) bool {
	x, y, op, ok := binaryCmp(a.E)
	if !ok {
		return false
	}
	ce, isCe := ast.Unparen(x).(*ast.CallExpr)
	z, isZ := f.ConstInt(y)
	if !isCe || !isZ || f.BuiltinName(ce) != "len" || len(ce.Args) != 1 || !match(ce.Args[0]) {
		return false
	}
	if a.Val {
		return (op == token.EQL && z == 0) || (op == token.LEQ && z == 0) || (op == token.LSS && z == 1)
	}
	return (op == token.NEQ && z == 0) || (op == token.GTR && z == 0) || (op == token.GEQ && z == 1)
}

package main

import (
	"go/ast"
	"go/token"
	"go/types"
	"sort"
	"strings"

	"golang.org/x/tools/go/ssa"
)

// callTargets resolves the possible SDK-source targets of a call expression in f:
// the static callee; for interface method calls every SDK type implementing the interface (CHA);
// for calls of function values, the VTA call graph when available (thorough tier), else nothing
// (counted as unresolved).
type callResolver struct {
	c          *Ctx
	implCache  map[*types.Func][]*Func
	vtaByPos   map[token.Pos][]*Func
	Unresolved int
}

func (c *Ctx) resolver() *callResolver {
	if c.cr != nil {
		return c.cr
	}
	r := &callResolver{c: c, implCache: map[*types.Func][]*Func{}}
	if c.P.allSyntax {
		r.vtaByPos = map[token.Pos][]*Func{}
		s := c.P.SSA()
		litByPos := map[token.Pos]*Func{}
		for _, f := range c.lockEnv().all {
			if f.Lit != nil {
				litByPos[f.Lit.Type.Func] = f
			}
		}
		for fn, node := range s.cg.Nodes {
			if fn == nil || fn.Pkg == nil || !strings.HasPrefix(fn.Pkg.Pkg.Path(), modPath) {
				if fn == nil || fn.Parent() == nil {
					continue
				}
			}
			for _, e := range node.Out {
				if e.Site == nil {
					continue
				}
				pos := e.Site.Pos()
				var tgt *Func
				if o, ok := e.Callee.Func.Object().(*types.Func); ok {
					tgt = c.P.FuncOf(o)
				} else if e.Callee.Func.Parent() != nil {
					tgt = litByPos[e.Callee.Func.Pos()]
				}
				if tgt != nil {
					r.vtaByPos[pos] = append(r.vtaByPos[pos], tgt)
				}
			}
		}
	}
	c.cr = r
	return r
}

var _ = ssa.BuilderMode(0)

func (r *callResolver) targets(f *Func, call *ast.CallExpr) []*Func {
	fn := f.Callee(call)
	if fn != nil {
		if tf := r.c.P.FuncOf(fn); tf != nil {
			return []*Func{tf}
		}
		// interface method?
		if recv := fn.Type().(*types.Signature).Recv(); recv != nil {
			if it, ok := recv.Type().Underlying().(*types.Interface); ok {
				if r.vtaByPos != nil {
					return r.vtaByPos[call.Lparen] // VTA refines CHA by the types that actually flow to the receiver
				}
				return r.implementations(fn, it)
			}
		}
		return nil // external function without SDK source
	}
	// builtin / conversion?
	if f.BuiltinName(call) != "" {
		return nil
	}
	if tv, ok := f.Info().Types[call.Fun]; ok && tv.IsType() {
		return nil
	}
	// immediately-invoked literal
	if l, ok := ast.Unparen(call.Fun).(*ast.FuncLit); ok {
		if lf := f.Root().LitFor(l); lf != nil {
			return []*Func{lf}
		}
	}
	// local variable bound once to a literal
	if id, ok := ast.Unparen(call.Fun).(*ast.Ident); ok {
		if v := f.ObjOf(id); v != nil {
			var lit *Func
			n := 0
			for _, w := range Writes(f.Root().Body, true) {
				if f.ObjOf(w.LHS) == v {
					n++
					if w.RHS != nil {
						if l, ok := ast.Unparen(w.RHS).(*ast.FuncLit); ok {
							lit = f.Root().LitFor(l)
						}
					}
				}
			}
			if n == 1 && lit != nil {
				return []*Func{lit}
			}
		}
	}
	if r.vtaByPos != nil {
		if ts := r.vtaByPos[call.Lparen]; len(ts) > 0 {
			return ts
		}
	}
	r.Unresolved++
	return nil
}

func (r *callResolver) implementations(m *types.Func, it *types.Interface) []*Func {
	if v, ok := r.implCache[m]; ok {
		return v
	}
	var out []*Func
	for _, rel := range sdkPkgs {
		pk := r.c.P.Pkg(rel)
		if pk == nil {
			continue
		}
		sc := pk.Types.Scope()
		for _, name := range sc.Names() {
			tn, ok := sc.Lookup(name).(*types.TypeName)
			if !ok {
				continue
			}
			nt, ok := tn.Type().(*types.Named)
			if !ok || types.IsInterface(nt) {
				continue
			}
			for _, t := range []types.Type{nt, types.NewPointer(nt)} {
				if types.Implements(t, it) {
					obj, _, _ := types.LookupFieldOrMethod(t, true, m.Pkg(), m.Name())
					if mf, ok := obj.(*types.Func); ok {
						if tf := r.c.P.FuncOf(mf); tf != nil {
							out = append(out, tf)
						}
					}
					break
				}
			}
		}
	}
	r.implCache[m] = out
	return out
}

// lockGraph is the result of the interprocedural lock analysis.
type lockGraph struct {
	edges map[string]map[string]string // held -> acquired -> witness
	acq   map[*Func]map[string]bool
	sites int
}

func (c *Ctx) lockGraph() *lockGraph {
	if c.lg != nil {
		return c.lg
	}
	le := c.lockEnv()
	r := c.resolver()
	lg := &lockGraph{edges: map[string]map[string]string{}, acq: map[*Func]map[string]bool{}}
	// direct acquisitions
	direct := map[*Func]map[string]bool{}
	for _, f := range le.all {
		for _, call := range f.AllCalls(f.Body, false) {
			if op, ok := f.lockOpOf(call); ok && op.acquire {
				sel := ast.Unparen(call.Fun).(*ast.SelectorExpr)
				if k := f.lockClassOf(sel.X); k != "" && !strings.HasPrefix(k, "var:") {
					if direct[f] == nil {
						direct[f] = map[string]bool{}
					}
					direct[f][k] = true
				}
			}
		}
	}
	// transitive closure by fixpoint iteration (go statements excluded); deterministic and complete
	// irrespective of call-graph cycles.
	succs := map[*Func][]*Func{}
	for _, f := range le.all {
		lg.acq[f] = map[string]bool{}
		for k := range direct[f] {
			lg.acq[f][k] = true
		}
		for _, call := range f.AllCalls(f.Body, false) {
			if _, isGo := f.ParentOf(call).(*ast.GoStmt); isGo {
				continue
			}
			succs[f] = append(succs[f], r.targets(f, call)...)
		}
	}
	for changed := true; changed; {
		changed = false
		for _, f := range le.all {
			for _, t := range succs[f] {
				for k := range lg.acq[t] {
					if !lg.acq[f][k] {
						lg.acq[f][k] = true
						changed = true
					}
				}
			}
		}
	}
	add := func(h, l, w string) {
		if h == l {
			return
		}
		if lg.edges[h] == nil {
			lg.edges[h] = map[string]string{}
		}
		if old, ok := lg.edges[h][l]; !ok || w < old {
			lg.edges[h][l] = w
		}
	}
	for _, f := range le.all {
		for _, call := range f.AllCalls(f.Body, false) {
			if _, isGo := f.ParentOf(call).(*ast.GoStmt); isGo {
				continue
			}
			held := le.heldAt(f, call)
			if len(held) == 0 {
				continue
			}
			lg.sites++
			if op, ok := f.lockOpOf(call); ok {
				if op.acquire {
					sel := ast.Unparen(call.Fun).(*ast.SelectorExpr)
					if k := f.lockClassOf(sel.X); k != "" {
						for h := range held {
							add(h, k, f.At(call)+" "+f.Name())
						}
					}
				}
				continue
			}
			for _, t := range r.targets(f, call) {
				for k := range lg.acq[t] {
					for h := range held {
						add(h, k, f.At(call)+" "+f.Name()+" → "+t.Name())
					}
				}
			}
		}
	}
	c.lg = lg
	return lg
}

// cycles returns the elementary cycles found by DFS in the lock-order graph (as class paths).
func (lg *lockGraph) cycles() [][]string {
	var out [][]string
	color := map[string]int{}
	var stack []string
	var nodes []string
	for h := range lg.edges {
		nodes = append(nodes, h)
	}
	sort.Strings(nodes)
	var dfs func(n string)
	dfs = func(n string) {
		color[n] = 1
		stack = append(stack, n)
		var succ []string
		for l := range lg.edges[n] {
			succ = append(succ, l)
		}
		sort.Strings(succ)
		for _, l := range succ {
			switch color[l] {
			case 0:
				dfs(l)
			case 1:
				i := len(stack) - 1
				for i >= 0 && stack[i] != l {
					i--
				}
				cyc := append(append([]string{}, stack[i:]...), l)
				out = append(out, cyc)
			}
		}
		stack = stack[:len(stack)-1]
		color[n] = 2
	}
	for _, n := range nodes {
		if color[n] == 0 {
			dfs(n)
		}
	}
	return out
}

// reachesAny reports a call chain from f (through resolved targets, go statements excluded) to a
// function in sinks, bounded in depth.
func (c *Ctx) reachesAny(f *Func, sinks map[*types.Func]bool, maxDepth int) []string {
	r := c.resolver()
	type item struct {
		f     *Func
		chain []string
	}
	seen := map[*Func]bool{f: true}
	q := []item{{f, []string{f.Name()}}}
	for len(q) > 0 {
		it := q[0]
		q = q[1:]
		if len(it.chain) > maxDepth {
			continue
		}
		for _, call := range it.f.AllCalls(it.f.Body, false) {
			if _, isGo := it.f.ParentOf(call).(*ast.GoStmt); isGo {
				continue
			}
			if fn := it.f.Callee(call); fn != nil && sinks[fn] {
				return append(it.chain, fn.Name()+"@"+it.f.At(call))
			}
			for _, t := range r.targets(it.f, call) {
				if !seen[t] {
					seen[t] = true
					q = append(q, item{t, append(append([]string{}, it.chain...), t.Name())})
				}
			}
		}
	}
	return nil
}

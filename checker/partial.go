package main

import (
	"go/ast"
	"go/parser"
	"go/token"
	"os"
	"path/filepath"
	"strings"
)

// partialRun is the second pass of a property whose shared anchors (the lookups in front of its rules) did not all
// resolve. The first pass stopped at the first missing one, which leaves every rule unapplied. Here the rule set is run
// again with placeholders for missing anchors, and the rules that read one — directly or through another shared value
// computed from it — are skipped; which rules those are is read off the checker's own source (checker/c*.go under the
// verif root): a rule reads an anchor iff the identifier it was bound to occurs in the rule's registration. Without the
// source, or when a missing anchor cannot be tied to a statement, the first pass's answer stands (nothing applied).
func partialRun(c *Ctx, id string, body func()) {
	dir := filepath.Join(envOr("VERIF_ROOT", "/verif"), "checker")
	deps := ruleDeps(dir, id)
	if deps == nil {
		return
	}
	// dry pass: collect everything that is missing
	probe := newCtx(c.P, c.Prop, c.Tier)
	probe.tolerant = true
	probe.skip = map[string]string{}
	for _, r := range deps.rules {
		probe.skip[r.id] = "probe"
	}
	func() {
		defer func() { recover() }()
		body2 := registry[id].rules
		body2(probe)
	}()
	if len(probe.missing) == 0 {
		return
	}
	poisoned := map[string]string{}
	for _, what := range probe.missing {
		matched := false
		for _, st := range deps.setup {
			if st.matches(what) {
				matched = true
				for _, v := range st.lhs {
					poisoned[v] = what
				}
			}
		}
		if !matched {
			return // cannot tell which values are affected
		}
	}
	for changed := true; changed; {
		changed = false
		for _, st := range deps.setup {
			for _, u := range st.uses {
				if why, bad := poisoned[u]; bad {
					for _, v := range st.lhs {
						if _, already := poisoned[v]; !already {
							poisoned[v] = why
							changed = true
						}
					}
				}
			}
		}
	}
	skip := map[string]string{}
	for _, r := range deps.rules {
		for _, u := range r.uses {
			if why, bad := poisoned[u]; bad {
				skip[r.id] = why
			}
		}
	}
	// real pass
	run := newCtx(c.P, c.Prop, c.Tier)
	run.tolerant = true
	run.skip = skip
	ok := true
	func() {
		defer func() {
			if r := recover(); r != nil {
				ok = false
			}
		}()
		registry[id].rules(run)
	}()
	if !ok {
		return
	}
	// adopt its obligations next to the setup record of the first pass
	have := map[string]bool{}
	for _, o := range c.Obls {
		have[o.Rule+"\x00"+o.Key] = true
	}
	for _, o := range run.Obls {
		if have[o.Rule+"\x00"+o.Key] {
			continue // a rule registered in front of the failing lookup already ran in the first pass
		}
		c.Obls = append(c.Obls, o)
	}
	for k, v := range run.ruleDocs {
		c.ruleDocs[k] = v
	}
	for k, v := range run.pins {
		c.pins[k] = v
	}
	for f := range run.funcs {
		c.funcs[f] = true
	}
	c.sites += run.sites
	c.paths += run.paths
}

type setupStmt struct {
	lhs, uses []string
	calls     [][]string // string-literal arguments of each lookup call of the statement
}

func (s setupStmt) matches(what string) bool {
	// what: "field rel.Type.field" | "function rel.(Recv).name" | "function object rel.Recv.name" | "object rel.name";
	// a lookup call matches when its kind fits and its literal arguments are the trailing dot-separated names
	w := strings.NewReplacer("(", "", ")", "").Replace(what)
	for _, lits := range s.calls {
		if len(lits) < 2 {
			continue
		}
		kind, names := lits[0], lits[1:]
		switch {
		case strings.HasPrefix(what, "field "):
			if kind != "Field" && kind != "LookupField" {
				continue
			}
		case strings.HasPrefix(what, "function"):
			if kind != "Fn" && kind != "FnObj" && kind != "LookupFuncObj" {
				continue
			}
		case strings.HasPrefix(what, "object "):
			if kind != "Obj" && kind != "LookupObj" {
				continue
			}
		default:
			continue
		}
		if strings.HasSuffix(strings.ReplaceAll(w, "..", "."), "."+strings.Join(names, ".")) {
			return true
		}
	}
	return false
}

type ruleReg struct {
	id   string
	uses []string
}

type propDeps struct {
	setup []setupStmt
	rules []ruleReg
}

// ruleDeps parses the rule file of property id and returns its shared statements and rule registrations.
func ruleDeps(dir, id string) *propDeps {
	files, _ := filepath.Glob(filepath.Join(dir, "c*.go"))
	fset := token.NewFileSet()
	for _, fn := range files {
		src, err := os.ReadFile(fn)
		if err != nil {
			continue
		}
		f, err := parser.ParseFile(fset, fn, src, 0)
		if err != nil {
			continue
		}
		for _, d := range f.Decls {
			fd, ok := d.(*ast.FuncDecl)
			if !ok || fd.Name.Name != "rules"+id || fd.Body == nil {
				continue
			}
			out := &propDeps{}
			idents := func(n ast.Node) []string {
				var xs []string
				ast.Inspect(n, func(x ast.Node) bool {
					if i, ok := x.(*ast.Ident); ok {
						xs = append(xs, i.Name)
					}
					return true
				})
				return xs
			}
			lookups := func(n ast.Node) [][]string {
				var out [][]string
				ast.Inspect(n, func(x ast.Node) bool {
					ce, ok := x.(*ast.CallExpr)
					if !ok {
						return true
					}
					sel, ok := ce.Fun.(*ast.SelectorExpr)
					if !ok {
						return true
					}
					switch sel.Sel.Name {
					case "Field", "Fn", "FnObj", "Obj", "LookupField", "LookupFuncObj", "LookupType", "LookupObj":
						lits := []string{sel.Sel.Name}
						for _, a := range ce.Args {
							if bl, ok := a.(*ast.BasicLit); ok && bl.Kind == token.STRING {
								if v := strings.Trim(bl.Value, "\"`"); v != "" {
									lits = append(lits, v)
								}
							}
						}
						out = append(out, lits)
					}
					return true
				})
				return out
			}
			for _, st := range fd.Body.List {
				switch s := st.(type) {
				case *ast.AssignStmt:
					ss := setupStmt{calls: lookups(s)}
					for _, l := range s.Lhs {
						if i, ok := l.(*ast.Ident); ok {
							ss.lhs = append(ss.lhs, i.Name)
						}
					}
					for _, r := range s.Rhs {
						ss.uses = append(ss.uses, idents(r)...)
					}
					out.setup = append(out.setup, ss)
				case *ast.DeclStmt:
					ss := setupStmt{calls: lookups(s), uses: idents(s)}
					if gd, ok := s.Decl.(*ast.GenDecl); ok {
						for _, sp := range gd.Specs {
							if vs, ok := sp.(*ast.ValueSpec); ok {
								for _, n := range vs.Names {
									ss.lhs = append(ss.lhs, n.Name)
								}
							}
						}
					}
					out.setup = append(out.setup, ss)
				case *ast.ExprStmt:
					ce, ok := s.X.(*ast.CallExpr)
					if !ok {
						continue
					}
					rid := ""
					for _, a := range ce.Args {
						if bl, ok := a.(*ast.BasicLit); ok && bl.Kind == token.STRING && strings.HasPrefix(bl.Value, "\"R-C") && rid == "" {
							rid = strings.Trim(bl.Value, "\"")
						}
					}
					if rid != "" {
						out.rules = append(out.rules, ruleReg{id: rid, uses: idents(ce)})
					}
				}
			}
			return out
		}
	}
	return nil
}

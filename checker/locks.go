package main

import (
	"go/ast"
	"go/types"
	"sort"
	"strings"
)

// Lock classes: a mutex is identified by the struct type that owns it and the field name, e.g.
// "Server.mu". Instances are not distinguished (stated as an assumption in the evidence).

// lockClassOf resolves the receiver expression of X.Lock() to a class, "" if it is not a struct field.
func (f *Func) lockClassOf(recv ast.Expr) string {
	sel, ok := ast.Unparen(recv).(*ast.SelectorExpr)
	if !ok {
		if id, ok := ast.Unparen(recv).(*ast.Ident); ok {
			return "var:" + id.Name
		}
		return ""
	}
	fld, _ := f.ObjOf(sel).(*types.Var)
	if fld == nil || !fld.IsField() {
		return ""
	}
	owner := namedOf(f.TypeOf(sel.X))
	if s, ok := f.Info().Selections[sel]; ok {
		// walk the embedding path to the struct that declares the field
		t := s.Recv()
		for _, i := range s.Index()[:len(s.Index())-1] {
			if p, ok := t.Underlying().(*types.Pointer); ok {
				t = p.Elem()
			}
			t = t.Underlying().(*types.Struct).Field(i).Type()
		}
		owner = namedOf(t)
	}
	if owner == nil {
		return "anon." + fld.Name()
	}
	return owner.Obj().Name() + "." + fld.Name()
}

// LockClassesAt returns the classes held (must) just before vertex v executes, from f's own body.
func (g *Graph) lockClasses() []map[string]bool {
	if g.lockCls != nil {
		return g.lockCls
	}
	// re-run the lockset analysis with class keys
	sets := g.LockSetsBy(func(call *ast.CallExpr, op lockOp) string {
		sel := ast.Unparen(call.Fun).(*ast.SelectorExpr)
		k := g.F.lockClassOf(sel.X)
		if op.read && k != "" {
			return k // a read lock counts as holding the class
		}
		return k
	})
	g.lockCls = sets
	return sets
}

// heldLocal returns the lock classes held at the CFG node enclosing n in f's own graph.
func (f *Func) heldLocal(n ast.Node) map[string]bool {
	g := f.Graph()
	v := g.VertexOf(n)
	if v < 0 {
		return map[string]bool{}
	}
	s := g.lockClasses()[v]
	if s == nil {
		return map[string]bool{}
	}
	return s
}

// lockEnv computes locks held on entry to functions (requires-lock helpers, closures run under a
// caller's lock) across the SDK packages.
type lockEnv struct {
	c       *Ctx
	entry   map[*Func]map[string]bool
	busy    map[*Func]bool
	callers map[*types.Func][]callSite
	all     []*Func
}

type callSite struct {
	in   *Func
	call *ast.CallExpr
	kind string // "call" | "go" | "defer"
}

func (c *Ctx) lockEnv() *lockEnv {
	if c.le != nil {
		return c.le
	}
	le := &lockEnv{c: c, entry: map[*Func]map[string]bool{}, busy: map[*Func]bool{}, callers: map[*types.Func][]callSite{}}
	for _, rel := range sdkPkgs {
		if c.P.Pkg(rel) == nil {
			continue
		}
		le.all = append(le.all, c.funcsWithLits(rel)...)
	}
	for _, f := range le.all {
		for _, call := range f.AllCalls(f.Body, false) {
			if fn := f.Callee(call); fn != nil {
				kind := "call"
				switch f.ParentOf(call).(type) {
				case *ast.GoStmt:
					kind = "go"
				case *ast.DeferStmt:
					kind = "defer"
				}
				le.callers[fn] = append(le.callers[fn], callSite{f, call, kind})
			}
		}
		// method values / function values used as arguments (e.g. time.AfterFunc(d, s.method))
	}
	c.le = le
	return le
}

// heldAt returns the lock classes certainly held when node n of function f executes:
// locks held on entry to f plus f's own must-lockset at n.
func (le *lockEnv) heldAt(f *Func, n ast.Node) map[string]bool {
	out := map[string]bool{}
	for k := range le.entryLocks(f) {
		out[k] = true
	}
	for k := range f.heldLocal(n) {
		out[k] = true
	}
	return out
}

// paramInvokedUnder: for a declared SDK function callee and parameter index i (function-typed),
// the locks held at every invocation of that parameter inside callee (nil if never invoked directly
// or invoked in a goroutine).
func (le *lockEnv) paramInvokedUnder(callee *Func, i int) (map[string]bool, bool) {
	params := callee.Type.Params
	if params == nil {
		return nil, false
	}
	var pv types.Object
	idx := 0
	for _, fld := range params.List {
		for _, nm := range fld.Names {
			if idx == i {
				pv = callee.Info().Defs[nm]
			}
			idx++
		}
	}
	if pv == nil {
		return nil, false
	}
	var res map[string]bool
	found := false
	ok := true
	for _, call := range callee.AllCalls(callee.Body, true) {
		if callee.ObjOf(call.Fun) != pv {
			continue
		}
		// which function literally contains this call?
		owner := callee
		for _, l := range callee.AllLits() {
			if encloses(l.Lit, call) {
				owner = l
			}
		}
		if owner != callee {
			ok = false // invoked from a nested closure (possibly asynchronously): do not inherit
			continue
		}
		if _, isGo := callee.ParentOf(call).(*ast.GoStmt); isGo {
			ok = false
			continue
		}
		h := le.heldAt(callee, call)
		if !found {
			res = map[string]bool{}
			for k := range h {
				res[k] = true
			}
			found = true
		} else {
			for k := range res {
				if !h[k] {
					delete(res, k)
				}
			}
		}
	}
	return res, found && ok
}

// syncStdCallbacks are stdlib functions known to invoke their function argument synchronously.
var syncStdCallbacks = map[string]bool{
	"slices.DeleteFunc": true, "slices.SortFunc": true, "slices.IndexFunc": true, "slices.ContainsFunc": true,
	"sort.Slice": true, "maps.DeleteFunc": true, "slices.BinarySearchFunc": true, "slices.SortStableFunc": true,
	"(*sync.Once).Do": true,
}

func (le *lockEnv) entryLocks(f *Func) map[string]bool {
	if s, ok := le.entry[f]; ok {
		return s
	}
	if le.busy[f] {
		return map[string]bool{}
	}
	le.busy[f] = true
	defer func() { le.busy[f] = false }()
	res := map[string]bool{}
	if f.Lit != nil {
		root := f.Root()
		parent := root.ParentOf(f.Lit)
		switch p := parent.(type) {
		case *ast.CallExpr:
			isArg := false
			argIdx := -1
			for i, a := range p.Args {
				if ast.Unparen(a) == ast.Expr(f.Lit) {
					isArg, argIdx = true, i
				}
			}
			if isArg {
				if _, isGo := root.ParentOf(p).(*ast.GoStmt); isGo {
					break
				}
				fn := f.Parent.Callee(p)
				calleeF := le.c.P.FuncOf(fn)
				switch {
				case calleeF != nil:
					if under, ok := le.paramInvokedUnder(calleeF, argIdx); ok {
						for k := range le.heldAt(f.Parent, p) {
							res[k] = true
						}
						for k := range under {
							res[k] = true
						}
					}
				case fn != nil && syncStdCallbacks[strings.TrimPrefix(fn.FullName(), "")]:
					for k := range le.heldAt(f.Parent, p) {
						res[k] = true
					}
				}
			} else if ast.Unparen(p.Fun) == ast.Expr(f.Lit) {
				// immediately invoked literal: func(){...}()  (or deferred / go)
				switch root.ParentOf(p).(type) {
				case *ast.GoStmt:
				case *ast.DeferStmt:
					// runs at exit: locks with a deferred unlock registered earlier are still held
					for k := range le.heldAt(f.Parent, p) {
						res[k] = true
					}
				default:
					for k := range le.heldAt(f.Parent, p) {
						res[k] = true
					}
				}
			}
		}
		le.entry[f] = res
		return res
	}
	// declared function: intersection over all static call sites in SDK code; exported functions and
	// functions whose address is taken are assumed callable without locks.
	if f.Obj == nil || f.Obj.Exported() && f.Obj.Type().(*types.Signature).Recv() == nil {
		le.entry[f] = res
		return res
	}
	sites := le.callers[f.Obj]
	if len(sites) == 0 || le.addressTaken(f.Obj) || (f.Obj.Exported() && exportedRecv(f.Obj)) {
		le.entry[f] = res
		return res
	}
	first := true
	for _, s := range sites {
		var h map[string]bool
		if s.kind == "go" {
			h = map[string]bool{}
		} else {
			h = le.heldAt(s.in, s.call)
		}
		if first {
			for k := range h {
				res[k] = true
			}
			first = false
		} else {
			for k := range res {
				if !h[k] {
					delete(res, k)
				}
			}
		}
	}
	le.entry[f] = res
	return res
}

func exportedRecv(fn *types.Func) bool {
	r := fn.Type().(*types.Signature).Recv()
	if r == nil {
		return true
	}
	n := namedOf(r.Type())
	return n != nil && n.Obj().Exported()
}

// addressTaken reports whether fn is used as a value (method value, function value) anywhere in SDK code.
func (le *lockEnv) addressTaken(fn *types.Func) bool {
	if le.c.addrTaken == nil {
		le.c.addrTaken = map[*types.Func]bool{}
		for _, f := range le.all {
			inspectNoLit(f.Body, func(n ast.Node) {
				var id *ast.Ident
				switch x := n.(type) {
				case *ast.SelectorExpr:
					id = x.Sel
				case *ast.Ident:
					id = x
				default:
					return
				}
				o, ok := f.Info().Uses[id].(*types.Func)
				if !ok {
					return
				}
				// is this identifier the Fun of a call?
				var top ast.Node = n
				if p, ok := f.ParentOf(n).(*ast.SelectorExpr); ok && p.Sel == id {
					top = p
				}
				par := f.ParentOf(top)
				if pe, ok := par.(*ast.ParenExpr); ok {
					par = f.ParentOf(pe)
				}
				if call, ok := par.(*ast.CallExpr); ok && ast.Unparen(call.Fun) == top {
					return
				}
				if _, ok := par.(*ast.SelectorExpr); ok {
					return // qualifier of a longer selector
				}
				le.c.addrTaken[o.Origin()] = true
			})
		}
		// package-level initialisers (method tables such as serverMethodInfos)
		for _, rel := range sdkPkgs {
			pk := le.c.P.Pkg(rel)
			if pk == nil {
				continue
			}
			for _, file := range pk.Syntax {
				for _, d := range file.Decls {
					gd, ok := d.(*ast.GenDecl)
					if !ok {
						continue
					}
					ast.Inspect(gd, func(n ast.Node) bool {
						if id, ok := n.(*ast.Ident); ok {
							if o, ok := pk.TypesInfo.Uses[id].(*types.Func); ok {
								le.c.addrTaken[o.Origin()] = true
							}
						}
						return true
					})
				}
			}
		}
	}
	return le.c.addrTaken[fn.Origin()]
}

func setString(m map[string]bool) string {
	var ks []string
	for k := range m {
		ks = append(ks, k)
	}
	sort.Strings(ks)
	return "{" + strings.Join(ks, ",") + "}"
}

// guardedFields checks that every access to each of the given fields (anywhere in SDK code) happens
// with lock class `lock` held, except inside functions for which exempt returns a reason.
func (c *Ctx) guardedFields(rulePrefix string, fields []*types.Var, lock string, exempt func(f *Func, sel *ast.SelectorExpr) string) int {
	le := c.lockEnv()
	n := 0
	lock = c.relocatedLock(lock, fields)
	for _, f := range le.all {
		for _, fld := range fields {
			for _, sel := range f.FieldRefs(f.Body, fld, false) {
				n++
				key := rulePrefix + ":" + f.Name() + ":" + fld.Name()
				if why := exempt(f, sel); why != "" {
					c.Ok(key, f, sel, "exempt: %s", why)
					continue
				}
				h := le.heldAt(f, sel)
				c.touch(f)
				if h[lock] {
					c.Ok(key, f, sel, "%s accessed with %s held", fld.Name(), lock)
				} else {
					c.Fail(key, f, sel, "%s accessed without %s (held: %s)", fld.Name(), lock, setString(h))
				}
			}
		}
	}
	return n
}

// unpublished reports whether sel's base object is a local variable that was allocated in f (composite
// literal / new) — i.e. the access happens on an object f itself created. Publication is not tracked
// beyond that; callers add it only for constructors.
func (f *Func) baseIsLocalAlloc(sel *ast.SelectorExpr) bool {
	id, ok := ast.Unparen(sel.X).(*ast.Ident)
	if !ok {
		return false
	}
	v := f.ObjOf(id)
	if v == nil {
		return false
	}
	for _, w := range Writes(f.Root().Body, true) {
		if f.ObjOf(w.LHS) != v || w.RHS == nil {
			continue
		}
		r := ast.Unparen(w.RHS)
		if u, ok := r.(*ast.UnaryExpr); ok {
			r = u.X
		}
		if _, ok := r.(*ast.CompositeLit); ok {
			return true
		}
		if ce, ok := r.(*ast.CallExpr); ok && f.BuiltinName(ce) == "new" {
			return true
		}
	}
	return false
}

// relocatedLock: a lock class is written "Struct.mutexField". When the guarded fields and the mutex were moved together into
// a struct of their own (embedded where they used to be), the class is named after the struct that declares them now.
func (c *Ctx) relocatedLock(lock string, fields []*types.Var) string {
	i := strings.LastIndex(lock, ".")
	if i < 0 || len(fields) == 0 {
		return lock
	}
	typ, mu := lock[:i], lock[i+1:]
	for _, rel := range sdkPkgs {
		pk := c.P.Pkg(rel)
		if pk == nil {
			continue
		}
		n := c.P.LookupType(rel, typ)
		if n == nil {
			continue
		}
		st, ok := n.Underlying().(*types.Struct)
		if !ok {
			continue
		}
		for j := 0; j < st.NumFields(); j++ {
			if st.Field(j).Name() == mu {
				return lock // declared where the rule says
			}
		}
		v := c.P.LookupField(rel, typ, mu)
		if v == nil {
			continue
		}
		// the struct that declares the mutex also declares the guarded fields
		sc := pk.Types.Scope()
		for _, name := range sc.Names() {
			tn, ok := sc.Lookup(name).(*types.TypeName)
			if !ok {
				continue
			}
			ost, ok := tn.Type().Underlying().(*types.Struct)
			if !ok {
				continue
			}
			hasMu, hasAll := false, true
			for j := 0; j < ost.NumFields(); j++ {
				if ost.Field(j) == v {
					hasMu = true
				}
			}
			for _, f := range fields {
				found := false
				for j := 0; j < ost.NumFields(); j++ {
					if ost.Field(j) == f {
						found = true
					}
				}
				if !found {
					hasAll = false
				}
			}
			if hasMu && hasAll {
				return tn.Name() + "." + mu
			}
		}
	}
	return lock
}

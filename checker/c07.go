package main

import (
	"go/ast"
	"go/constant"
	"go/token"
	"go/types"
	"strings"
)

func init() { register("C07", rulesC07, nil) }

// stringSliceLiteral returns the constant elements of a package-level []string literal.
func (c *Ctx) stringSliceLiteral(rel, name string) ([]string, []ast.Expr) {
	pk := c.P.Pkg(rel)
	for _, f := range pk.Syntax {
		for _, d := range f.Decls {
			gd, ok := d.(*ast.GenDecl)
			if !ok {
				continue
			}
			for _, sp := range gd.Specs {
				vs, ok := sp.(*ast.ValueSpec)
				if !ok {
					continue
				}
				for i, nm := range vs.Names {
					if nm.Name != name || i >= len(vs.Values) {
						continue
					}
					cl, ok := vs.Values[i].(*ast.CompositeLit)
					if !ok {
						continue
					}
					var out []string
					for _, el := range cl.Elts {
						if tv, ok := pk.TypesInfo.Types[el]; ok && tv.Value != nil && tv.Value.Kind() == constant.String {
							out = append(out, constant.StringVal(tv.Value))
						} else {
							return nil, nil
						}
					}
					return out, cl.Elts
				}
			}
		}
	}
	return nil, nil
}

func rulesC07(c *Ctx) {
	ruleErrorDiscipline(c, "R-C07-8", "connecting either fails with an error or yields a session: no error of a step of Connect is dropped (a dropped one continues with a nil response, endpoint or connection)", map[string][]string{
		pM: {"(*SSEClientTransport).Connect", "(*StreamableClientTransport).Connect", "(*Client).Connect", "(*Client).discover", "(*Server).Connect", "connect", "(*CommandTransport).Connect", "(*StreamableServerTransport).Connect", "(*SSEServerTransport).Connect"},
	}, map[string]string{
		"(*Client).Connect:discover":  "a failed server/discover is the documented trigger of the fall-back to the initialize handshake (R-C07-3 pins when the fall-back is taken); it is not an error of Connect",
		"(*Client).Connect:Unmarshal": "the -32022 error data is advisory: when it cannot be decoded the client falls back to initialize exactly as for any other discover failure",
	}, false, 8, 14)
	supp := c.Obj(pM, "supportedProtocolVersions")
	v2026 := c.Obj(pM, "protocolVersion20260728")
	modern := constant.StringVal(v2026.(*types.Const).Val())
	table, _ := c.stringSliceLiteral(pM, "supportedProtocolVersions")
	inTable := func(s string) bool {
		for _, t := range table {
			if t == s {
				return true
			}
		}
		return false
	}
	isContainsSupp := func(f *Func, e ast.Expr, arg types.Object) bool {
		ce, ok := ast.Unparen(e).(*ast.CallExpr)
		if !ok || len(ce.Args) != 2 {
			return false
		}
		fn := f.Callee(ce)
		return fn != nil && fn.Name() == "Contains" && f.ObjOf(ce.Args[0]) == supp && (arg == nil || f.ObjOf(ce.Args[1]) == arg || sameExprObj(f, ce.Args[1], arg))
	}

	c.Rule("R-C07-1", "the negotiation helpers only ever return versions from the supported table (and the initialize path never 2026-07-28)", func() {
		c.Need(len(table) >= 5, "supportedProtocolVersions literal of constant strings")
		sorted := true
		for i := 1; i < len(table); i++ {
			if table[i-1] <= table[i] {
				sorted = false
			}
		}
		c.Check(sorted, "supportedProtocolVersions:descending", nil, nil, "the table is strictly descending (negotiateMutuallySupportedVersion returns the first match = the highest): %v", table)
		latest := c.Obj(pM, "latestProtocolVersion").(*types.Const)
		c.Check(constant.StringVal(latest.Val()) == table[0], "latestProtocolVersion:first", nil, nil, "latestProtocolVersion (%s) is the first table entry", constant.StringVal(latest.Val()))
		nv := c.Fn(pM, "", "negotiatedVersion")
		g := nv.Graph()
		param := nv.Params()[0]
		for i, r := range nv.Returns() {
			if len(r.Results) != 1 {
				continue
			}
			e := r.Results[0]
			if nv.ObjOf(e) == param {
				guards := g.GuardsAt(g.VertexOf(r))
				ok := hasAtom(guards, func(a Atom) bool { return a.Val && isContainsSupp(nv, a.E, param) }) && hasAtom(guards, func(a Atom) bool {
					x, y, op, ok := binaryCmp(a.E)
					return ok && op == token.LSS && a.Val && nv.ObjOf(x) == param && nv.ObjOf(y) == v2026
				})
				c.Check(ok, "negotiatedVersion:return#"+itoa(i), nv, r, "the client's version is echoed only if it is in the table and below 2026-07-28 (guards: %s)", atomsString(guards))
			} else if s, ok := nv.ConstString(e); ok {
				c.Check(inTable(s) && s < modern, "negotiatedVersion:return#"+itoa(i), nv, r, "the fallback %q is a legacy entry of the table", s)
			} else {
				c.Fail("negotiatedVersion:return#"+itoa(i), nv, r, "returns something other than its argument or a constant")
			}
		}
		nm := c.Fn(pM, "", "negotiateMutuallySupportedVersion")
		for i, r := range nm.Returns() {
			if len(r.Results) != 1 {
				continue
			}
			e := r.Results[0]
			if s, ok := nm.ConstString(e); ok && s == "" {
				c.Ok("negotiateMutuallySupportedVersion:return#"+itoa(i), nm, r, "no overlap → \"\"")
				continue
			}
			rs, _ := nm.Enclosing(r, func(n ast.Node) bool { _, ok := n.(*ast.RangeStmt); return ok }).(*ast.RangeStmt)
			ok := rs != nil && nm.ObjOf(rs.X) == supp && nm.ObjOf(e) != nil && nm.ObjOf(e) == nm.ObjOf(rs.Value)
			c.Check(ok, "negotiateMutuallySupportedVersion:return#"+itoa(i), nm, r, "the result is an element of supportedProtocolVersions (first match in table order)")
		}
	})

	c.Rule("R-C07-2", "every SDK transport that restricts versions refuses 2026-07-28 unless it is a stateless streamable transport; the server stores the filtered list before the session is returned", func() {
		iface := c.P.LookupType(pM, "ProtocolVersionSupporter")
		c.Need(iface != nil, "ProtocolVersionSupporter")
		n := 0
		for _, f := range c.P.FuncsIn(pM) {
			if f.Obj == nil || f.Obj.Name() != "SupportsProtocolVersion" || f.Recv() == nil {
				continue
			}
			n++
			c.touch(f)
			g := f.Graph()
			ver := f.Params()[1]
			statelessOK := namedOf(f.Recv().Type()) == c.P.LookupType(pM, "StreamableServerTransport")
			leaf := func(e ast.Expr) tri {
				if x, y, op, ok := binaryCmp(e); ok && f.ObjOf(x) == ver && f.ObjOf(y) == v2026 {
					switch op {
					case token.GEQ:
						return triTrue
					case token.LSS:
						return triFalse
					}
				}
				if s, ok := ast.Unparen(e).(*ast.SelectorExpr); ok && s.Sel.Name == "Stateless" {
					return triFalse
				}
				return triUnknown
			}
			seen := g.ReachUnder(leaf, nil)
			ok := true
			for _, r := range f.Returns() {
				if !seen[g.VertexOf(r)] || len(r.Results) != 1 {
					continue
				}
				if evalTri(r.Results[0], func(e ast.Expr) tri {
					if exprStr(e) == "false" {
						return triFalse
					}
					if exprStr(e) == "true" {
						return triTrue
					}
					return leaf(e)
				}) != triFalse {
					ok = false
				}
			}
			c.Check(ok, f.Name()+":refuses-modern", f, nil, "for version >= 2026-07-28 (and Stateless == false) every reachable return is definitely false%s", map[bool]string{true: "; only the Stateless flag can admit it", false: ""}[statelessOK])
			if !statelessOK {
				// no Stateless escape hatch on other transports
				has := false
				ast.Inspect(f.Body, func(n ast.Node) bool {
					if s, ok := n.(*ast.SelectorExpr); ok && s.Sel.Name == "Stateless" {
						has = true
					}
					return true
				})
				c.Check(!has, f.Name()+":no-escape", f, nil, "no configuration flag admits 2026-07-28 on this transport")
			}
		}
		c.Pin("SupportsProtocolVersion implementations", n, 2)
		sc := c.Fn(pM, "Server", "Connect")
		g := sc.Graph()
		fsv := c.FnObj(pM, "", "filterSupportedVersions")
		// where the transport-filtered list is kept: found by role (the field that receives the result of
		// filterSupportedVersions(t), directly or through a local), and it must be per-session state
		var sv *types.Var
		tparam := types.Object(sc.ParamOfNamed(pM, "Transport"))
		// the value may reach the session through locals, and through a memo kept in the server (a lookup keyed by
		// something derived from the transport); c07sources follows it back to the calls that produced it
		srcOf := func(e ast.Expr) []c07source { return c07sources(sc, fsv, tparam, e, 0) }
		fromFilter := func(e ast.Expr) bool {
			if e == nil {
				return false
			}
			srcs := srcOf(e)
			for _, s := range srcs {
				if s.kind == c07Unknown || (s.kind == c07Filter && !s.ofTransport) {
					return false
				}
			}
			return len(srcs) > 0
		}
		var memos []c07source
		for _, w := range Writes(sc.Body, false) {
			if sel, isSel := ast.Unparen(w.LHS).(*ast.SelectorExpr); isSel && fromFilter(w.RHS) {
				if fld, isF := sc.ObjOf(sel).(*types.Var); isF && fld.IsField() {
					sv = fld
					for _, s := range srcOf(w.RHS) {
						if s.kind == c07Memo {
							memos = append(memos, s)
						}
					}
					c.Check(isNamedType(sc.TypeOf(sel.X), modPath+"/"+pM, "ServerSession"), "Server.Connect:filtered-versions-are-per-session", sc, w.Stmt, "the list of versions the transport can serve is stored in the session created for that transport (it is written to %s): state shared by all sessions of a server would let one connection's transport decide what another session's discover advertises", sc.FieldPath(sel))
				}
			}
		}
		c.Must(sv != nil, "Server.Connect:versions-filtered-by-transport", sc, nil, "Server.Connect stores filterSupportedVersions(t) in the session: without it the session advertises and negotiates versions its transport cannot serve")
		okStore := false
		for _, w := range Writes(sc.Body, false) {
			if sc.IsField(w.LHS, sv) && w.RHS != nil {
				if fromFilter(w.RHS) {
					wv := g.VertexOf(w.Stmt)
					all := true
					for _, r := range sc.Returns() {
						if len(r.Results) == 2 && isNilIdent(r.Results[1]) && !g.Dominates(wv, g.VertexOf(r)) {
							all = false
						}
					}
					okStore = all && sc.heldLocal(w.Stmt)["ServerSession.mu"]
				}
			}
		}
		// the transport is asked while the session lock is held: the read goroutine is already running, and a
		// server/discover that arrives meanwhile must wait for the filtered list instead of finding nil (= every SDK version)
		if len(memos) == 0 {
			for _, call := range sc.CallsIn(sc.Body, fsv, false) {
				c.Check(sc.heldLocal(call)["ServerSession.mu"], "Server.Connect:filter-evaluated-under-session-lock", sc, call, "filterSupportedVersions(t) runs inside the critical section that stores its result")
			}
		} else {
			c07memoChecks(c, sc, fsv, tparam, memos, fromFilter)
		}
		c.Check(okStore, "Server.Connect:stores-filtered-versions", sc, nil, "supportedVersions = filterSupportedVersions(t) is stored under ss.mu before every successful return")
		fs := c.Fn(pM, "", "filterSupportedVersions")
		okF := false
		inspectNoLit(fs.Body, func(n ast.Node) {
			rs, ok := n.(*ast.RangeStmt)
			if !ok || fs.ObjOf(rs.X) != supp {
				return
			}
			for _, w := range Writes(rs.Body, false) {
				if ce, ok := ast.Unparen(w.RHS).(*ast.CallExpr); ok && w.RHS != nil && fs.BuiltinName(ce) == "append" && len(ce.Args) == 2 && fs.ObjOf(ce.Args[1]) == fs.ObjOf(rs.Value) {
					fg := fs.Graph()
					if hasAtom(fg.GuardsAt(fg.VertexOf(w.Stmt)), func(a Atom) bool {
						c2, ok := a.E.(*ast.CallExpr)
						return ok && a.Val && fs.Callee(c2) != nil && fs.Callee(c2).Name() == "SupportsProtocolVersion" && fs.ObjOf(c2.Args[0]) == fs.ObjOf(rs.Value)
					}) {
						okF = true
					}
				}
			}
		})
		c.Check(okF, "filterSupportedVersions:subset-by-transport", fs, nil, "only table entries the transport accepts are advertised")
		// discover hands out the session's filtered list
		disc := c.Fn(pM, "Server", "discover")
		okD := false
		inspectNoLit(disc.Body, func(n ast.Node) {
			if kv, ok := n.(*ast.KeyValueExpr); ok && exprStr(kv.Key) == "SupportedVersions" {
				v := disc.ObjOf(kv.Value)
				for _, w := range Writes(disc.Body, false) {
					if disc.ObjOf(w.LHS) == v && w.RHS != nil && disc.IsField(w.RHS, sv) {
						// … of the session the request arrived on
						if sel, isSel := ast.Unparen(w.RHS).(*ast.SelectorExpr); isSel {
							if nm, on := disc.SelectorOn(sel.X, disc.NonRecvParams()[len(disc.NonRecvParams())-1]); on && nm == "Session" {
								okD = true
							}
						}
					}
				}
			}
		})
		c.Check(okD, "discover:advertises-filtered-versions", disc, nil, "DiscoverResult.SupportedVersions is the session's transport-filtered list")
		// the Stateless flag that admits 2026-07-28 is a constant of the code path that builds the transport: true in the
		// stateless handler, false in the stateful one — never derived from request data such as the session id
		statelessF := c.Field(pM, "StreamableServerTransport", "Stateless")
		nLit := 0
		for _, f := range c.funcsWithLits(pM) {
			inspectNoLit(f.Body, func(n ast.Node) {
				kv, ok := n.(*ast.KeyValueExpr)
				if !ok || f.ObjOf(kv.Key) != types.Object(statelessF) {
					return
				}
				nLit++
				want := ""
				switch f.Root().Name() {
				case "(*StreamableHTTPHandler).serveStateless":
					want = "true"
				case "(*StreamableHTTPHandler).serveStatefulPOST":
					want = "false"
				}
				okVal := want != "" && exprStr(kv.Value) == want
				if !okVal && want != "" {
					// the handler's own option, on a path that is entered only with the option having that value
					if optF := c.P.LookupField(pM, "StreamableHTTPOptions", "Stateless"); optF != nil && f.IsField(kv.Value, optF) {
						okVal = c.entryGuardedBy(f.Root(), optF, want == "true", 0)
					}
				}
				c.Check(okVal, "Stateless-literal:"+f.Root().Name(), f, kv, "the transport built here has Stateless: %s as a constant (found %s)", want, exprStr(kv.Value))
			})
			for _, w := range f.FieldWrites(f.Body, statelessF, false) {
				c.Fail("Stateless-assigned:"+f.Name(), f, w, "the Stateless flag of a transport is assigned after construction")
			}
		}
		c.Pin("StreamableServerTransport literals with a Stateless key", nLit, 2)
		// … and the connection's own copy of the flag is that flag, nothing more
		connSt := c.Field(pM, "streamableServerConn", "stateless")
		nCopy := 0
		for _, f := range c.funcsWithLits(pM) {
			inspectNoLit(f.Body, func(n ast.Node) {
				if kv, ok := n.(*ast.KeyValueExpr); ok && f.ObjOf(kv.Key) == types.Object(connSt) {
					nCopy++
					c.Check(f.IsField(kv.Value, statelessF), "stateless-copy:"+f.Root().Name(), f, kv, "streamableServerConn.stateless is initialised from StreamableServerTransport.Stateless alone (found %s)", exprStr(kv.Value))
				}
			})
			for _, w := range f.FieldWrites(f.Body, connSt, false) {
				c.Fail("stateless-assigned:"+f.Name(), f, w, "streamableServerConn.stateless is assigned after construction")
			}
		}
		c.Pin("initialisations of streamableServerConn.stateless", nCopy, 1)
	})

	c.Rule("R-C07-6", "a failed server/discover probe leaves the connection usable for the initialize fallback: checkResponse only classifies a response (it never marks the connection failed itself), and the one caller that fails the connection exempts the discover request", func() {
		cr := c.Fn(pM, "streamableClientConn", "checkResponse")
		failObj := c.FnObj(pM, "streamableClientConn", "fail")
		c.Check(len(cr.CallsIn(cr.Body, failObj, true)) == 0, "checkResponse:no-side-effect", cr, nil, "checkResponse does not call c.fail: whether an HTTP error ends the session is the caller's decision (Write keeps the connection for a rejected server/discover)")
		wr := c.Fn(pM, "streamableClientConn", "Write")
		g := wr.Graph()
		disc := c.Obj(pM, "methodDiscover")
		crv := g.callVertices(cr.Obj)
		c.Need(len(crv) >= 1, "Write: checkResponse call")
		n := 0
		for _, fv := range g.callVertices(failObj) {
			if !g.ReachableFrom(crv[0])[fv] {
				continue
			}
			n++
			guards := g.GuardsAt(fv)
			notDiscover := hasAtom(guards, func(a Atom) bool {
				// on the false side of `requestMethod == methodDiscover && …`, or under `requestMethod != methodDiscover`
				x, y, op, ok := binaryCmp(a.E)
				if !ok {
					return false
				}
				isD := wr.ObjOf(y) == disc || wr.ObjOf(x) == disc
				return isD && ((op == token.EQL && !a.Val) || (op == token.NEQ && a.Val))
			})
			// the Go source writes it as if A && B {…} else if C {fail}: the else edge gives !(A && B), which does not split;
			// accept the compound negation when A is the discover test and B is the same !ErrRejected test that guards fail
			if !notDiscover {
				notDiscover = hasAtom(guards, func(a Atom) bool {
					b, isB := a.E.(*ast.BinaryExpr)
					if !isB || b.Op != token.LAND || a.Val {
						return false
					}
					x, y, op, ok := binaryCmp(b.X)
					return ok && op == token.EQL && (wr.ObjOf(y) == disc || wr.ObjOf(x) == disc)
				})
			}
			c.Check(notDiscover, "Write:fail-after-checkResponse-exempts-discover#"+itoa(n), wr, g.Node(fv), "c.fail after a bad response is reached only when the request was not server/discover (guards: %s)", atomsString(guards))
		}
		c.Pin("fail sites after checkResponse in Write", n, 1)
	})
	c.Rule("R-C07-9", "a 2026-07-28 exchange is never primed as a resumable stream: the priming event would precede the HTTP status the new protocol maps errors to, the client would try to resume, and the freshly negotiated session would be marked failed (the rule body of R-C08-9)", func() { ruleEventStoreBound(c) })
	c.Import("R-C07-7", "a server/discover POST that does not reach the server is a per-message rejection (the session survives and falls back to initialize)", "C13", "R-C13-5", func(k string) bool { return strings.HasPrefix(k, "Write:") })

	c.Rule("R-C07-3", "the client accepts a session only after verifying the negotiated version, closes the session on every failed handshake step, and falls back to a legacy table entry", func() {
		cc := c.Fn(pM, "Client", "Connect")
		g := cc.Graph()
		discObj := c.FnObj(pM, "Client", "discover")
		closeObj := c.FnObj(pM, "ClientSession", "Close")
		hs := c.FnObj(pM, "", "handleSend")
		hsv := g.callVertices(hs)
		c.Need(len(hsv) == 1, "Client.Connect: initialize handleSend")
		nOK := 0
		for i, r := range cc.Returns() {
			if len(r.Results) != 2 {
				continue
			}
			rv := g.VertexOf(r)
			if isNilIdent(r.Results[1]) {
				nOK++
				guards := g.GuardsAt(rv)
				viaDiscover := false
				for _, dv := range g.callVertices(discObj) {
					derr := cc.VarFromCall(discObj, 1)
					if g.Dominates(dv, rv) && derr != nil && hasAtom(guards, func(a Atom) bool { return AtomSaysNil(a, true, func(e ast.Expr) bool { return cc.ObjOf(e) == derr }) }) && !g.ReachableFrom(hsv[0])[rv] {
						viaDiscover = true
					}
				}
				viaInit := hasAtom(guards, func(a Atom) bool {
					ce, ok := a.E.(*ast.CallExpr)
					if !ok || !a.Val {
						return false
					}
					name, onRes := cc.SelectorOn(ce.Args[1], cc.VarFromCall(hs, 0))
					return isContainsSupp(cc, ce, nil) && onRes && name == "ProtocolVersion"
				}) && g.Dominates(hsv[0], rv)
				c.Check(viaDiscover || viaInit, "Connect:success-return#"+itoa(i), cc, r, "a session is returned only after discover succeeded or after the initialize result's version was found in supportedProtocolVersions (guards: %s)", atomsString(guards))
				continue
			}
			// error returns after the initialize request was sent must close the session first
			if g.ReachableFrom(hsv[0])[rv] {
				okc, p := g.DominatedBy(rv, func(v int) bool {
					n := g.Node(v)
					return n != nil && cc.ContainsCall(n, closeObj) && g.ReachableFrom(hsv[0])[v]
				})
				c.Check(okc, "Connect:error-return#"+itoa(i)+"-closes", cc, r, "a failed handshake step closes the session before returning the error %s", g.PathString(p))
			}
		}
		c.Pin("Connect success returns", nOK, 2)
		// fallback version: the variable that ends up as InitializeParams.ProtocolVersion
		var versionVar types.Object
		inspectNoLit(cc.Body, func(n ast.Node) {
			if kv, ok := n.(*ast.KeyValueExpr); ok && exprStr(kv.Key) == "ProtocolVersion" {
				if cl, ok := cc.ParentOf(kv).(*ast.CompositeLit); ok && isNamedType(cc.TypeOf(cl), modPath+"/"+pM, "InitializeParams") {
					versionVar = cc.ObjOf(kv.Value)
				}
			}
		})
		okFB := false
		for _, w := range Writes(cc.Body, false) {
			if cc.ObjOf(w.LHS) == versionVar && versionVar != nil && w.RHS != nil {
				if s, ok := cc.ConstString(w.RHS); ok && w.Tok == token.ASSIGN {
					okFB = inTable(s) && s < modern
					c.Check(okFB, "Connect:fallback-version", cc, w.Stmt, "the initialize fallback uses %q, a legacy table entry", s)
				}
			}
		}
		c.Check(okFB, "Connect:fallback-present", cc, nil, "after discover fails the client falls back to initialize with a legacy version")
		// the discover loop is bounded
		bounded := false
		inspectNoLit(cc.Body, func(n ast.Node) {
			if rs, ok := n.(*ast.RangeStmt); ok && len(cc.CallsIn(rs.Body, discObj, false)) > 0 {
				if v, ok := cc.ConstInt(rs.X); ok && v >= 1 && v <= 3 {
					bounded = true
				}
			}
		})
		c.Check(bounded, "Connect:discover-retries-bounded", cc, nil, "discover is retried a constant number of times (renegotiate once)")
		// the fallback is reached whenever the loop ends without success: every path from a failed discover to exit passes the initialize send or a return
		d := c.Fn(pM, "Client", "discover")
		dg := d.Graph()
		for i, r := range d.Returns() {
			if len(r.Results) != 2 || !isNilIdent(r.Results[1]) {
				continue
			}
			guards := dg.GuardsAt(dg.VertexOf(r))
			ok := hasAtom(guards, func(a Atom) bool {
				if a.Val {
					return false
				}
				b, isB := a.E.(*ast.BinaryExpr)
				if !isB || b.Op != token.LOR {
					return false
				}
				_, y, op, isCmp := binaryCmp(b.Y)
				return isCmp && op == token.LSS && d.ObjOf(y) == v2026
			})
			c.Check(ok, "discover:success-return#"+itoa(i), d, r, "discover succeeds only with a non-empty negotiated version >= 2026-07-28 (guards: %s)", atomsString(guards))
		}
	})

	c.Rule("R-C07-5", "the shared version table never escapes un-cloned and is never written: every hand-out is a copy", func() {
		readOnly := map[string]bool{"slices.Contains": true, "strings.Join": true, "slices.Clone": true, "slices.Index": true}
		n := 0
		for _, f := range c.lockEnv().all {
			inspectNoLit(f.Body, func(x ast.Node) {
				id, ok := x.(*ast.Ident)
				if !ok || f.Info().Uses[id] != supp {
					return
				}
				n++
				key := f.Name() + ":use#" + itoa(n)
				par := f.ParentOf(id)
				switch p := par.(type) {
				case *ast.CallExpr:
					if f.BuiltinName(p) == "len" {
						c.Ok(key, f, id, "len()")
						return
					}
					if fn := f.Callee(p); fn != nil && readOnly[fn.FullName()] {
						c.Ok(key, f, id, "read-only use: %s", fn.FullName())
						return
					}
				case *ast.RangeStmt:
					if p.X == ast.Expr(id) {
						c.Ok(key, f, id, "range")
						return
					}
				case *ast.IndexExpr:
					if _, isAssign := f.ParentOf(p).(*ast.AssignStmt); !isAssign {
						c.Ok(key, f, id, "element read")
						return
					}
				case *ast.AssignStmt:
					// parked in a local that is replaced by its own clone before anything else can see it: every later use of the
					// local is either a read-only use (the clone itself) or comes after `local = slices.Clone(local)`
					if c07clonedBeforeUse(f, p, id, readOnly) {
						c.Ok(key, f, id, "held in a local that is cloned before any hand-out")
						return
					}
				case *ast.KeyValueExpr:
					// a composite literal handed straight to json.Marshal
					if cl, ok := f.ParentOf(p).(*ast.CompositeLit); ok {
						if call, ok := f.ParentOf(cl).(*ast.CallExpr); ok {
							if fn := f.Callee(call); fn != nil && fn.Name() == "Marshal" {
								c.Ok(key, f, id, "encoded immediately by %s", fn.FullName())
								return
							}
						}
					}
				}
				c.Fail(key, f, id, "supportedProtocolVersions is handed out (returned, stored or passed to a mutating function) without slices.Clone: a caller trimming the list in place rewrites the process-wide table that every later negotiation reads")
			})
		}
		c.Pin("uses of supportedProtocolVersions", n, 10)
	})

	c.Rule("R-C07-4", "a stateful HTTP endpoint answers new-protocol requests (other than discover) with -32022 listing only legacy versions", func() {
		sp := c.Fn(pM, "streamableServerConn", "servePOST")
		g := sp.Graph()
		stateless := c.Field(pM, "streamableServerConn", "stateless")
		wj := c.FnObj(pM, "", "writeJSONRPCError")
		n := 0
		for _, call := range sp.CallsIn(sp.Body, wj, false) {
			if len(call.Args) != 4 || errorCodeOf(sp, call.Args[3]) != "-32022" {
				continue
			}
			n++
			v := g.VertexOf(call)
			guards := g.GuardsAt(v)
			okG := hasAtom(guards, func(a Atom) bool { return !a.Val && sp.IsField(a.E, stateless) }) && hasAtom(guards, func(a Atom) bool {
				x, y, op, ok := binaryCmp(a.E)
				return ok && op == token.NEQ && a.Val && x != nil && sp.ObjOf(y) == c.Obj(pM, "methodDiscover")
			})
			c.Check(okG, "servePOST:stateful-rejects-modern", sp, call, "-32022 is written under !stateless && method != discover (guards: %s)", atomsString(guards))
			okRet, _ := g.MustPass(v, sendVertices(sp, g, c.Field(pM, "streamableServerConn", "incoming")), func(int) bool { return false })
			c.Check(okRet, "servePOST:rejected-not-published", sp, call, "after the rejection no message of the body is published")
			// the advertised list is filtered to legacy versions
			okList := false
			for _, l := range sp.AllLits() {
				for _, r := range l.Returns() {
					if len(r.Results) == 1 {
						if _, y, op, ok := binaryCmp(r.Results[0]); ok && op == token.GEQ && l.ObjOf(y) == v2026 {
							if pc := litParentCall(l); pc != nil && sp.Callee(pc) != nil && sp.Callee(pc).Name() == "DeleteFunc" {
								okList = true
							}
						}
					}
				}
			}
			// the same filter written as a loop: a slice that starts empty and receives, in a range over the supported
			// versions, exactly the versions below 2026-07-28
			suppObj := c.Obj(pM, "supportedProtocolVersions")
			for _, f := range append([]*Func{sp}, sp.AllLits()...) {
				inspectNoLit(f.Body, func(n ast.Node) {
					rs, isR := n.(*ast.RangeStmt)
					if !isR || f.ObjOf(rs.X) != suppObj || rs.Value == nil {
						return
					}
					val := f.ObjOf(rs.Value)
					fg := f.Graph()
					for _, w := range Writes(rs.Body, false) {
						ap, isC := ast.Unparen(w.RHS).(*ast.CallExpr)
						if w.RHS == nil || !isC || f.BuiltinName(ap) != "append" || len(ap.Args) != 2 || ap.Ellipsis.IsValid() {
							continue
						}
						dst := f.ObjOf(w.LHS)
						if dst == nil || f.ObjOf(ap.Args[0]) != dst || f.ObjOf(ap.Args[1]) != val || val == nil {
							continue
						}
						// every other write of the destination makes it empty
						onlyFill := true
						for _, w2 := range Writes(f.Root().Body, true) {
							if f.ObjOf(w2.LHS) != dst || w2.Stmt == w.Stmt {
								continue
							}
							if empty, _ := f.emptySlice(w2.RHS); w2.RHS != nil && !empty {
								onlyFill = false
							}
						}
						if onlyFill && hasAtom(fg.GuardsAt(fg.VertexOf(w.Stmt)), func(a Atom) bool {
							x, y, op, ok := binaryCmp(a.E)
							return ok && op == token.LSS && a.Val && f.ObjOf(x) == val && f.ObjOf(y) == v2026
						}) {
							okList = true
						}
					}
				})
			}
			c.Check(okList, "servePOST:advertises-legacy-only", sp, call, "the advertised versions are supportedProtocolVersions minus everything >= 2026-07-28")
		}
		c.Pin("stateful -32022 site", n, 1)
	})
}

func sameExprObj(f *Func, e ast.Expr, obj types.Object) bool {
	return obj != nil && f.ObjOf(e) == obj
}

// sendVertices returns the vertices of sends on channel field fld in f's own graph.
func sendVertices(f *Func, g *Graph, fld *types.Var) []int {
	var out []int
	for _, s := range sendsOn(f, fld) {
		out = append(out, g.VertexOf(s))
	}
	return out
}

// ---- where the transport-filtered version list of a session comes from ---------------------------------------

const (
	c07Unknown = iota
	c07Filter  // filterSupportedVersions(x)
	c07Memo    // a lookup in state of the Server (shared by all its sessions)
)

type c07source struct {
	kind        int
	ofTransport bool          // c07Filter: x is the transport being connected
	call        *ast.CallExpr // the filter call, or the method call on the memo (nil for an index expression)
	key         ast.Expr      // c07Memo: the key of the lookup
	node        ast.Node
}

// c07transportAliases: the transport parameter and the per-clause variables of type switches on it.
func c07transportAliases(f *Func, tparam types.Object) map[types.Object]bool {
	out := map[types.Object]bool{tparam: true}
	ast.Inspect(f.Body, func(n ast.Node) bool {
		ts, ok := n.(*ast.TypeSwitchStmt)
		if !ok {
			return true
		}
		as, ok := ts.Assign.(*ast.AssignStmt)
		if !ok || len(as.Rhs) != 1 {
			return true
		}
		ta, ok := ast.Unparen(as.Rhs[0]).(*ast.TypeAssertExpr)
		if !ok || f.ObjOf(ta.X) != tparam {
			return true
		}
		for _, cl := range ts.Body.List {
			if o := f.Info().Implicits[cl]; o != nil {
				out[o] = true
			}
		}
		return true
	})
	return out
}

// c07serverState reports whether e is a field of the Server (s.f, possibly deeper): state every session shares.
func c07serverState(f *Func, e ast.Expr) bool {
	for {
		sel, ok := ast.Unparen(e).(*ast.SelectorExpr)
		if !ok {
			return false
		}
		if v, isV := f.ObjOf(sel).(*types.Var); isV && v.IsField() && isNamedType(f.TypeOf(sel.X), modPath+"/"+pM, "Server") {
			return true
		}
		e = sel.X
	}
}

// c07sources follows a value back through locals, type assertions and tuple results to the calls that produce it.
func c07sources(f *Func, fsv *types.Func, tparam types.Object, e ast.Expr, depth int) []c07source {
	if e == nil || depth > 6 {
		return []c07source{{kind: c07Unknown, node: e}}
	}
	switch x := ast.Unparen(e).(type) {
	case *ast.TypeAssertExpr:
		return c07sources(f, fsv, tparam, x.X, depth+1)
	case *ast.CallExpr:
		if f.IsCallTo(x, fsv) && len(x.Args) == 1 {
			return []c07source{{kind: c07Filter, ofTransport: c07transportAliases(f, tparam)[f.ObjOf(x.Args[0])], call: x, node: x}}
		}
		if lit, ok := ast.Unparen(x.Fun).(*ast.FuncLit); ok && len(x.Args) == 0 {
			// an immediately invoked literal (a helper that defers, expanded at its call): what it returns
			var out []c07source
			if lf := f.LitFor(lit); lf != nil {
				for _, r := range lf.Returns() {
					if len(r.Results) != 1 {
						return []c07source{{kind: c07Unknown, node: r}}
					}
					out = append(out, c07sources(f, fsv, tparam, r.Results[0], depth+1)...)
				}
			}
			if len(out) > 0 {
				return out
			}
			break
		}
		if sel, ok := ast.Unparen(x.Fun).(*ast.SelectorExpr); ok && len(x.Args) >= 1 && c07serverState(f, sel.X) {
			return []c07source{{kind: c07Memo, call: x, key: x.Args[0], node: x}}
		}
	case *ast.IndexExpr:
		if c07serverState(f, x.X) {
			return []c07source{{kind: c07Memo, key: x.Index, node: x}}
		}
	case *ast.Ident:
		obj := f.ObjOf(x)
		v, isV := obj.(*types.Var)
		if !isV || v.IsField() || obj == tparam {
			break
		}
		var out []c07source
		for _, w := range Writes(f.Body, true) {
			if f.ObjOf(w.LHS) != obj {
				continue
			}
			rhs := w.RHS
			if rhs == nil {
				// first result of a tuple-valued call or comma-ok form: v, ok := m.Load(k) / m[k]
				if as, ok := w.Stmt.(*ast.AssignStmt); ok && len(as.Rhs) == 1 && len(as.Lhs) >= 1 && as.Lhs[0] == w.LHS {
					rhs = as.Rhs[0]
				}
			}
			if rhs == nil {
				if _, isSpec := w.Stmt.(*ast.ValueSpec); isSpec {
					continue // var v []string
				}
				out = append(out, c07source{kind: c07Unknown, node: w.Stmt})
				continue
			}
			out = append(out, c07sources(f, fsv, tparam, rhs, depth+1)...)
		}
		if len(out) > 0 {
			return out
		}
	}
	return []c07source{{kind: c07Unknown, node: e}}
}

// c07memoChecks: the session's list is taken from a memo in the server. The memo is keyed; two transports that
// map to the same key get the same list, so the key has to determine everything a transport's
// SupportsProtocolVersion depends on: every receiver field such an implementation reads must be part of the key
// (or the transport type must not be memoised at all).
func c07memoChecks(c *Ctx, sc *Func, fsv *types.Func, tparam types.Object, memos []c07source, fromFilter func(ast.Expr) bool) {
	aliases := c07transportAliases(sc, tparam)
	// what is put into the memo is the filter result of the transport being connected
	for _, m := range memos {
		if m.call != nil && len(m.call.Args) == 2 {
			c.Check(fromFilter(m.call.Args[1]), "Server.Connect:memo-stores-filter-result", sc, m.call, "the value memoised for a key is filterSupportedVersions of the transport being connected")
		}
	}
	// ingredients of the keys: the key expressions, what is assigned to the key local, and to its fields
	var ingredients []ast.Expr
	var addKey func(e ast.Expr, depth int)
	addKey = func(e ast.Expr, depth int) {
		ingredients = append(ingredients, e)
		id, ok := ast.Unparen(e).(*ast.Ident)
		if !ok || depth > 3 {
			return
		}
		obj := sc.ObjOf(id)
		if obj == nil {
			return
		}
		for _, w := range Writes(sc.Body, true) {
			if w.RHS == nil {
				continue
			}
			if sc.ObjOf(w.LHS) == obj {
				addKey(w.RHS, depth+1)
			} else if sel, isSel := ast.Unparen(w.LHS).(*ast.SelectorExpr); isSel && sc.ObjOf(sel.X) == obj {
				addKey(w.RHS, depth+1)
			}
		}
	}
	for _, m := range memos {
		addKey(m.key, 0)
	}
	keyFields := map[types.Object]bool{}
	for _, e := range ingredients {
		ast.Inspect(e, func(n ast.Node) bool {
			if sel, ok := n.(*ast.SelectorExpr); ok {
				if v, isV := sc.ObjOf(sel).(*types.Var); isV && v.IsField() && aliases[sc.ObjOf(sel.X)] {
					keyFields[v] = true
				}
			}
			return true
		})
	}
	// which transport types reach the memo: named in a clause of a type switch on the transport that does not answer
	// by probing directly; without such a switch every type does
	var switches []*ast.TypeSwitchStmt
	ast.Inspect(sc.Body, func(n ast.Node) bool {
		if ts, ok := n.(*ast.TypeSwitchStmt); ok {
			var x ast.Expr
			switch a := ts.Assign.(type) {
			case *ast.AssignStmt:
				if len(a.Rhs) == 1 {
					x = a.Rhs[0]
				}
			case *ast.ExprStmt:
				x = a.X
			}
			if x != nil {
				if ta, ok := ast.Unparen(x).(*ast.TypeAssertExpr); ok && sc.ObjOf(ta.X) == tparam {
					switches = append(switches, ts)
				}
			}
		}
		return true
	})
	admitted := func(T *types.Named) tri {
		if len(switches) == 0 {
			return triTrue
		}
		res := triUnknown
		for _, ts := range switches {
			for _, st := range ts.Body.List {
				cl := st.(*ast.CaseClause)
				for _, te := range cl.List {
					if namedOf(sc.TypeOf(te)) != T {
						continue
					}
					direct := false
					for _, s := range cl.Body {
						if len(sc.CallsIn(s, fsv, false)) > 0 {
							direct = true
						}
					}
					if direct {
						return triFalse
					}
					res = triTrue
				}
			}
		}
		return res
	}
	for _, f := range c.P.FuncsIn(pM) {
		if f.Obj == nil || f.Obj.Name() != "SupportsProtocolVersion" || f.Recv() == nil {
			continue
		}
		T := namedOf(f.Recv().Type())
		recv := types.Object(f.Recv())
		var reads []*types.Var
		inspectNoLit(f.Body, func(n ast.Node) {
			if sel, ok := n.(*ast.SelectorExpr); ok && f.ObjOf(sel.X) == recv {
				if v, isV := f.ObjOf(sel).(*types.Var); isV && v.IsField() {
					reads = append(reads, v)
				}
			}
		})
		for _, fld := range reads {
			key := "Server.Connect:memo-key-covers:" + T.Obj().Name() + "." + fld.Name()
			detail := "the answer of (*" + T.Obj().Name() + ").SupportsProtocolVersion depends on the field " + fld.Name() + " of the instance; a list memoised in the server for this transport is shared by every transport with the same key, so the key must contain that field (otherwise the first connection decides what later ones with another setting advertise)"
			switch {
			case keyFields[fld]:
				c.Ok(key, sc, nil, "%s", detail)
			case admitted(T) == triFalse:
				c.Ok(key, sc, nil, "this transport type is probed directly, not memoised; %s", detail)
			case admitted(T) == triTrue:
				c.Fail(key, sc, memos[0].node, "%s", detail)
			default:
				c.Undecided(key, sc, memos[0].node, "cannot tell whether this transport type reaches the memo; %s", detail)
			}
		}
	}
	// C07-J's window (the transport is asked, or the memo read, before ss.mu is taken while the read loop already runs)
	// is a property of the direct design; with a memo the list is looked up, not computed, and the rule does not decide it
	c.Undecided("Server.Connect:filter-evaluated-under-session-lock", sc, memos[0].node, "the session's version list comes from a per-server memo consulted before ss.mu is taken; whether a server/discover dispatched in that window can still find the unset list is not decided for this design")
}

// c07clonedBeforeUse: as assigns the table (id, the whole right-hand side) to a local variable; every use of that
// local the assignment can reach is a read-only call argument or is dominated by a later `local = slices.Clone(…)`.
func c07clonedBeforeUse(f *Func, as *ast.AssignStmt, id *ast.Ident, readOnly map[string]bool) bool {
	if f.Lit != nil || len(as.Lhs) != 1 || len(as.Rhs) != 1 || ast.Unparen(as.Rhs[0]) != ast.Expr(id) {
		return false
	}
	lid, ok := ast.Unparen(as.Lhs[0]).(*ast.Ident)
	if !ok {
		return false
	}
	v, isV := f.ObjOf(lid).(*types.Var)
	if !isV || v.IsField() || v.Parent() == nil || v.Parent() == v.Pkg().Scope() {
		return false
	}
	// not captured by a literal
	captured := false
	for _, l := range f.AllLits() {
		ast.Inspect(l.Body, func(n ast.Node) bool {
			if x, ok := n.(*ast.Ident); ok && f.Info().Uses[x] == types.Object(v) {
				captured = true
			}
			return true
		})
	}
	if captured {
		return false
	}
	g := f.Graph()
	av := g.VertexOf(as)
	var clones []int
	for _, w := range Writes(f.Body, false) {
		if f.ObjOf(w.LHS) != types.Object(v) || w.RHS == nil || w.Stmt == ast.Node(as) {
			continue
		}
		if ce, ok := ast.Unparen(w.RHS).(*ast.CallExpr); ok {
			if fn := f.Callee(ce); fn != nil && fn.FullName() == "slices.Clone" && g.ReachableFrom(av)[g.VertexOf(w.Stmt)] && !g.ReachableFrom(g.VertexOf(w.Stmt))[av] {
				clones = append(clones, g.VertexOf(w.Stmt))
			}
		}
	}
	okAll := true
	inspectNoLit(f.Body, func(n ast.Node) {
		x, ok := n.(*ast.Ident)
		if !ok || f.Info().Uses[x] != types.Object(v) {
			return
		}
		uv := g.VertexOf(x)
		if uv == av || !g.ReachableFrom(av)[uv] {
			return
		}
		if call, ok := f.ParentOf(x).(*ast.CallExpr); ok {
			if fn := f.Callee(call); (fn != nil && readOnly[fn.FullName()]) || f.BuiltinName(call) == "len" {
				return
			}
		}
		if a2, ok := f.ParentOf(x).(*ast.AssignStmt); ok {
			for _, l := range a2.Lhs {
				if l == ast.Expr(x) {
					return // overwritten
				}
			}
		}
		for _, cv := range clones {
			if cv != uv && g.Dominates(cv, uv) {
				return
			}
		}
		okAll = false
	})
	return okAll && len(clones) > 0
}

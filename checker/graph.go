package main

import (
	"fmt"
	"go/ast"
	"go/token"
	"go/types"
	"sort"
	"strings"

	"golang.org/x/tools/go/cfg"
	"golang.org/x/tools/go/types/typeutil"
)

// Graph is the statement-level control-flow graph of one function body (go/cfg refined to one
// vertex per CFG node plus one "end" vertex per block). Function literals are opaque nodes here;
// each literal has its own Graph.
type Graph struct {
	F          *Func
	C          *cfg.CFG
	off        []int // block index -> first vertex
	N          int
	succ       [][]int
	pred       [][]int
	node       []ast.Node // nil for end vertices
	block      []*cfg.Block
	Entry      int
	Exits      []int // vertices of return statements (including the synthetic fall-off return)
	lockCls    []map[string]bool
	writeVerts map[types.Object][]int
	vmap       map[ast.Node]int
	// Dead-end vertices: end vertices of live blocks with no successors and no return (panic etc).
	NoRet []int
}

func (f *Func) noReturnCall(call *ast.CallExpr) bool {
	switch fn := ast.Unparen(call.Fun).(type) {
	case *ast.Ident:
		if fn.Name == "panic" {
			if _, ok := f.Info().Uses[fn].(*types.Builtin); ok {
				return true
			}
		}
	case *ast.SelectorExpr:
		if o, ok := f.Info().Uses[fn.Sel].(*types.Func); ok && o.Pkg() != nil {
			full := o.Pkg().Path() + "." + o.Name()
			switch full {
			case "os.Exit", "log.Fatal", "log.Fatalf", "log.Fatalln", "log.Panic", "log.Panicf", "runtime.Goexit":
				return true
			}
		}
	}
	return false
}

// Graph builds (once) the graph of f.
func (f *Func) Graph() *Graph {
	if f.g != nil {
		return f.g
	}
	c := cfg.New(f.Body, func(call *ast.CallExpr) bool { return !f.noReturnCall(call) })
	g := &Graph{F: f, C: c}
	g.off = make([]int, len(c.Blocks))
	n := 0
	for i, b := range c.Blocks {
		g.off[i] = n
		n += len(b.Nodes) + 1
	}
	g.N = n
	g.succ = make([][]int, n)
	g.pred = make([][]int, n)
	g.node = make([]ast.Node, n)
	g.block = make([]*cfg.Block, n)
	for i, b := range c.Blocks {
		for j := 0; j <= len(b.Nodes); j++ {
			v := g.off[i] + j
			g.block[v] = b
			if j < len(b.Nodes) {
				g.node[v] = b.Nodes[j]
				if _, isRet := b.Nodes[j].(*ast.ReturnStmt); isRet {
					if b.Live {
						g.Exits = append(g.Exits, v)
					}
					continue // no successor
				}
				g.succ[v] = []int{v + 1}
			} else {
				for _, s := range b.Succs {
					g.succ[v] = append(g.succ[v], g.off[s.Index])
				}
				if len(b.Succs) == 0 && b.Live {
					// end vertex after a return is unreachable (the return has no successor)
					if len(b.Nodes) == 0 || !isReturn(b.Nodes[len(b.Nodes)-1]) {
						g.NoRet = append(g.NoRet, v)
					}
				}
			}
		}
	}
	for v, ss := range g.succ {
		for _, s := range ss {
			g.pred[s] = append(g.pred[s], v)
		}
	}
	g.Entry = g.off[0]
	f.g = g
	return g
}

func isReturn(n ast.Node) bool { _, ok := n.(*ast.ReturnStmt); return ok }

// Node returns the CFG node at vertex v (nil for block-end vertices).
func (g *Graph) Node(v int) ast.Node { return g.node[v] }

// Vertices returns all live vertices carrying a node for which pred holds.
func (g *Graph) Vertices(pred func(ast.Node) bool) []int {
	var out []int
	for v := 0; v < g.N; v++ {
		if g.node[v] != nil && g.block[v].Live && pred(g.node[v]) {
			out = append(out, v)
		}
	}
	return out
}

// VertexOf returns the vertex of the innermost CFG node whose source range encloses n (-1 if none).
func (g *Graph) VertexOf(n ast.Node) int {
	// by identity first: positions are unreliable inside normalised comparisons (see normaliseComparisons)
	if g.vmap == nil {
		g.vmap = map[ast.Node]int{}
		size := make([]int, g.N)
		for v := 0; v < g.N; v++ {
			if g.node[v] != nil {
				ast.Inspect(g.node[v], func(m ast.Node) bool {
					if m != nil {
						size[v]++
					}
					return true
				})
			}
		}
		for v := 0; v < g.N; v++ {
			if g.node[v] == nil {
				continue
			}
			ast.Inspect(g.node[v], func(m ast.Node) bool {
				if m == nil {
					return true
				}
				if cur, ok := g.vmap[m]; !ok || size[v] < size[cur] {
					g.vmap[m] = v
				}
				return true
			})
		}
	}
	if v, ok := g.vmap[n]; ok {
		return v
	}
	best, bestLen := -1, token.Pos(0)
	for v := 0; v < g.N; v++ {
		x := g.node[v]
		if x == nil || !x.Pos().IsValid() {
			continue
		}
		if x.Pos() <= n.Pos() && n.End() <= x.End() {
			l := x.End() - x.Pos()
			if best < 0 || l < bestLen {
				best, bestLen = v, l
			}
		}
	}
	return best
}

// reach computes forward reachability from the given start vertices. A vertex for which blocked
// returns true is not entered (start vertices are entered unconditionally). blockedEdge(u,k)
// suppresses the k-th successor edge of u. parent records a BFS tree for witness paths.
func (g *Graph) reach(starts []int, blocked func(int) bool, blockedEdge func(u, k int) bool) (seen []bool, parent []int) {
	seen = make([]bool, g.N)
	parent = make([]int, g.N)
	for i := range parent {
		parent[i] = -1
	}
	q := append([]int(nil), starts...)
	for _, s := range starts {
		seen[s] = true
	}
	for len(q) > 0 {
		u := q[0]
		q = q[1:]
		for k, s := range g.succ[u] {
			if seen[s] || (blockedEdge != nil && blockedEdge(u, k)) {
				continue
			}
			if blocked != nil && blocked(s) {
				continue
			}
			seen[s] = true
			parent[s] = u
			q = append(q, s)
		}
	}
	return
}

// Reachable reports the set of vertices reachable from v (excluding v unless on a cycle).
func (g *Graph) ReachableFrom(v int) []bool {
	seen, _ := g.reach(g.succ[v], nil, nil)
	return seen
}

func (g *Graph) pathTo(parent []int, v int) []int {
	var p []int
	for ; v >= 0; v = parent[v] {
		p = append(p, v)
	}
	for i, j := 0, len(p)-1; i < j; i, j = i+1, j-1 {
		p[i], p[j] = p[j], p[i]
	}
	return p
}

// PathString renders a vertex path as the distinct source lines it visits.
func (g *Graph) PathString(p []int) string {
	var ls []string
	last := -1
	for _, v := range p {
		if g.node[v] == nil || !g.node[v].Pos().IsValid() {
			continue
		}
		l := g.F.Line(g.node[v])
		if l != last {
			ls = append(ls, fmt.Sprint(l))
			last = l
		}
	}
	return "L" + strings.Join(ls, "→")
}

// MustPass reports whether every path from `from` to any vertex in `to` passes through a vertex
// satisfying via (from itself is not tested; a `to` vertex satisfying via counts). If not, a
// witness path is returned.
func (g *Graph) MustPass(from int, to []int, via func(int) bool) (bool, []int) {
	var starts []int
	for _, s := range g.succ[from] {
		if !via(s) {
			starts = append(starts, s)
		}
	}
	seen, parent := g.reach(starts, via, nil)
	for _, t := range to {
		if seen[t] {
			return false, append([]int{from}, g.pathTo(parent, t)...)
		}
	}
	return true, nil
}

// Dominates reports whether every path from entry to b passes through a (a==b counts).
func (g *Graph) Dominates(a, b int) bool {
	if a < 0 || b < 0 {
		return false // a node that is not a vertex of this graph (a compound statement, a node of another function)
	}
	if a == b {
		return true
	}
	if a == g.Entry {
		return true
	}
	seen, _ := g.reach([]int{g.Entry}, func(v int) bool { return v == a }, nil)
	return !seen[b]
}

// DominatedBySome reports whether every path from entry to b passes through a vertex satisfying via.
func (g *Graph) DominatedBy(b int, via func(int) bool) (bool, []int) {
	if via(g.Entry) || via(b) {
		return true, nil
	}
	seen, parent := g.reach([]int{g.Entry}, via, nil)
	if seen[b] {
		return false, g.pathTo(parent, b)
	}
	return true, nil
}

// PostDominatedBy reports whether every path from a to any exit (return) passes through a vertex
// satisfying via. Paths that end in a no-return call (panic) are ignored.
func (g *Graph) PostDominatedBy(a int, via func(int) bool) (bool, []int) {
	return g.MustPass(a, g.Exits, via)
}

// Atom is a condition known to hold (Val) at some vertex.
type Atom struct {
	E   ast.Expr
	Val bool
}

func (a Atom) String() string {
	if a.Val {
		return types.ExprString(a.E)
	}
	return "!(" + types.ExprString(a.E) + ")"
}

func splitAtoms(e ast.Expr, val bool, out *[]Atom) {
	e = ast.Unparen(e)
	*out = append(*out, Atom{e, val})
	switch x := e.(type) {
	case *ast.UnaryExpr:
		if x.Op == token.NOT {
			splitAtoms(x.X, !val, out)
		}
	case *ast.BinaryExpr:
		if (x.Op == token.LAND && val) || (x.Op == token.LOR && !val) {
			splitAtoms(x.X, val, out)
			splitAtoms(x.Y, val, out)
		}
	}
}

// condBlocks lists end vertices of blocks that branch on a boolean condition node.
func (g *Graph) condVertices() []int {
	var out []int
	for i, b := range g.C.Blocks {
		if !b.Live || len(b.Succs) != 2 || len(b.Nodes) == 0 {
			continue
		}
		switch b.Succs[0].Kind {
		case cfg.KindIfThen, cfg.KindForBody:
			if _, ok := b.Nodes[len(b.Nodes)-1].(ast.Expr); ok {
				out = append(out, g.off[i]+len(b.Nodes))
			}
		case cfg.KindSwitchCaseBody:
			// a case of a tagless switch is a condition like any other (`switch { case a: … }` and `if a { … } else …` are
			// the same decision); the first successor is the case body, the second the next case
			if e, ok := b.Nodes[len(b.Nodes)-1].(ast.Expr); ok && g.taglessCase(b.Succs[0].Stmt, e) {
				out = append(out, g.off[i]+len(b.Nodes))
			}
		}
	}
	return out
}

// boolLocalDef: e is a local boolean that is defined exactly once, by `x := <expr>` in this function (not in a nested
// literal), with an expression free of calls other than len/cap; returns that expression and the vertex of the definition.
func (g *Graph) boolLocalDef(e ast.Expr) (ast.Expr, int) {
	id, ok := ast.Unparen(e).(*ast.Ident)
	if !ok {
		return nil, -1
	}
	obj, _ := g.F.ObjOf(id).(*types.Var)
	if obj == nil || obj.IsField() {
		return nil, -1
	}
	if b, isB := obj.Type().Underlying().(*types.Basic); !isB || b.Info()&types.IsBoolean == 0 {
		return nil, -1
	}
	var def ast.Expr
	var at ast.Node
	n := 0
	for _, w := range Writes(g.F.Body, true) {
		if g.F.ObjOf(w.LHS) != types.Object(obj) {
			continue
		}
		n++
		def, at = w.RHS, w.Stmt
	}
	if n != 1 || def == nil {
		return nil, -1
	}
	as, isAs := at.(*ast.AssignStmt)
	if !isAs || as.Tok != token.DEFINE {
		return nil, -1
	}
	dv := g.VertexOf(at)
	if dv < 0 {
		return nil, -1 // defined inside a literal
	}
	pure := true
	ast.Inspect(def, func(x ast.Node) bool {
		switch y := x.(type) {
		case *ast.CallExpr:
			if id, isID := y.Fun.(*ast.Ident); isID && (id.Name == "len" || id.Name == "cap") {
				return true
			}
			pure = false
		case *ast.FuncLit:
			pure = false
		}
		return pure
	})
	if !pure {
		return nil, -1
	}
	return def, dv
}

// boolCondDef: e is a local boolean that holds its zero value (`var x bool`, `x := false`) except for one assignment
// `x = E` made directly in the body of an `if C {` without else that stands in the block of the declaration; after that
// if statement x is C && E. Returns that conjunction and the vertex of C (-1 when e is used before the if statement ends).
func (g *Graph) boolCondDef(e ast.Expr) (ast.Expr, int) {
	id, ok := ast.Unparen(e).(*ast.Ident)
	if !ok {
		return nil, -1
	}
	f := g.F
	obj, _ := f.ObjOf(id).(*types.Var)
	if obj == nil || obj.IsField() {
		return nil, -1
	}
	if b, isB := obj.Type().Underlying().(*types.Basic); !isB || b.Info()&types.IsBoolean == 0 {
		return nil, -1
	}
	var decl, set ast.Node
	var rhs ast.Expr
	for _, w := range Writes(f.Body, true) {
		if f.ObjOf(w.LHS) != types.Object(obj) {
			continue
		}
		zero := w.RHS == nil
		if w.RHS != nil {
			if v, isC := f.ConstBool(w.RHS); isC && !v {
				zero = true
			}
		}
		switch {
		case w.Tok == token.DEFINE && zero && decl == nil:
			decl = w.Stmt
		case w.Tok == token.ASSIGN && w.RHS != nil && set == nil:
			set, rhs = w.Stmt, w.RHS
		default:
			return nil, -1
		}
	}
	if decl == nil || set == nil || f.addressTaken(obj) {
		return nil, -1
	}
	if vs, isVS := decl.(*ast.ValueSpec); isVS {
		if len(vs.Names) != 1 {
			return nil, -1
		}
		if gd, ok := f.ParentOf(vs).(*ast.GenDecl); ok {
			decl = f.ParentOf(gd) // the DeclStmt
		}
	}
	body, _ := f.ParentOf(set).(*ast.BlockStmt)
	if body == nil {
		return nil, -1
	}
	ifs, _ := f.ParentOf(body).(*ast.IfStmt)
	if ifs == nil || ifs.Body != body || ifs.Else != nil || ifs.Init != nil || f.ParentOf(ifs) != f.ParentOf(decl) {
		return nil, -1
	}
	if id.Pos() < ifs.End() || !pureCond(ifs.Cond) || !pureCond(rhs) {
		return nil, -1
	}
	// nothing E mentions may change between the assignment and the end of the body
	sv := g.VertexOf(set)
	cv := g.VertexOf(ifs.Cond)
	if sv < 0 || cv < 0 {
		return nil, -1
	}
	return &ast.BinaryExpr{X: &ast.ParenExpr{X: ifs.Cond}, Op: token.LAND, Y: &ast.ParenExpr{X: rhs}}, cv
}

// pureCond: an expression without calls (other than len/cap) and literals of functions.
func pureCond(e ast.Expr) bool {
	pure := true
	ast.Inspect(e, func(x ast.Node) bool {
		switch y := x.(type) {
		case *ast.CallExpr:
			if id, isID := y.Fun.(*ast.Ident); isID && (id.Name == "len" || id.Name == "cap") {
				return true
			}
			pure = false
		case *ast.FuncLit:
			pure = false
		}
		return pure
	})
	return pure
}

// boolLocalValue: what a boolean local stands for at the use e (boolLocalDef or boolCondDef), unless something the
// definition mentions may have been reassigned between the definition and the use at vertex ev.
func (g *Graph) boolLocalValue(e ast.Expr, ev int) ast.Expr {
	if def, dv := g.boolLocalDef(e); def != nil {
		if !g.staleBetween(def, dv+1, ev) {
			return def
		}
		return nil
	}
	if def, dv := g.boolCondDef(e); def != nil && !g.staleBetween(def, dv, ev) {
		return def
	}
	return nil
}

// taglessCase: e is one of the expressions of a case clause of a switch without tag.
func (g *Graph) taglessCase(st ast.Stmt, e ast.Expr) bool {
	cc, _ := st.(*ast.CaseClause)
	if cc == nil {
		return false
	}
	found := false
	for _, x := range cc.List {
		if x == e {
			found = true // `case a, b:` tests a, then b: each is a condition whose true edge enters the body
		}
	}
	if !found {
		return false
	}
	blk, ok := g.F.ParentOf(cc).(*ast.BlockStmt)
	if !ok {
		return false
	}
	sw, ok := g.F.ParentOf(blk).(*ast.SwitchStmt)
	return ok && sw.Tag == nil
}

// GuardsAt returns the branch conditions (decomposed into atoms, with polarity) whose outcome edge
// dominates v: every path from entry to v took that edge.
func (g *Graph) GuardsAt(v int) []Atom {
	var atoms []Atom
	for _, ev := range g.condVertices() {
		cond := g.node[ev-1].(ast.Expr)
		for k := 0; k < 2; k++ {
			seen, _ := g.reach([]int{g.Entry}, nil, func(u, kk int) bool { return u == ev && kk == k })
			if v != g.Entry && !seen[v] {
				var as []Atom
				splitAtoms(cond, k == 0, &as)
				// a condition held in a local (`ok := a && b` … `if ok {`) stands for its definition, as long as nothing the
				// definition mentions is reassigned in between
				for _, a := range as {
					if def := g.boolLocalValue(a.E, ev-1); def != nil {
						var more []Atom
						splitAtoms(def, a.Val, &more)
						as = append(as, more...)
					}
				}
				for _, a := range as {
					if !g.staleBetween(a.E, ev, v) {
						atoms = append(atoms, a)
					}
				}
			}
		}
	}
	return atoms
}

// EdgeGuards returns for a condition expression node the (then, else) first vertices.
func (g *Graph) BranchTargets(condVertex int) (t, f int) {
	ev := condVertex + 1
	return g.succ[ev][0], g.succ[ev][1]
}

// ---- lock sets ---------------------------------------------------------------------------

type lockOp struct {
	key     string // normalised receiver expression, e.g. "s.mu"
	acquire bool
	read    bool
}

// lockOpOf classifies a call expression as a sync.Mutex / sync.RWMutex operation.
func (f *Func) lockOpOf(call *ast.CallExpr) (lockOp, bool) {
	sel, ok := ast.Unparen(call.Fun).(*ast.SelectorExpr)
	if !ok {
		return lockOp{}, false
	}
	fn, _ := typeutil.Callee(f.Info(), call).(*types.Func)
	if fn == nil || fn.Pkg() == nil || fn.Pkg().Path() != "sync" {
		return lockOp{}, false
	}
	recv := fn.Type().(*types.Signature).Recv()
	if recv == nil {
		return lockOp{}, false
	}
	rt := recv.Type().String()
	if rt != "*sync.Mutex" && rt != "*sync.RWMutex" {
		return lockOp{}, false
	}
	key := types.ExprString(sel.X)
	switch fn.Name() {
	case "Lock":
		return lockOp{key, true, false}, true
	case "RLock":
		return lockOp{key, true, true}, true
	case "Unlock":
		return lockOp{key, false, false}, true
	case "RUnlock":
		return lockOp{key, false, true}, true
	}
	return lockOp{}, false
}

// LockSets computes, for every vertex, the set of mutexes that are held on every path from entry
// *before* the vertex's node executes (must-analysis; meet = intersection). Deferred unlocks do not
// release before exit. Read locks are recorded as key+"(R)".
func (g *Graph) LockSets() []map[string]bool {
	return g.LockSetsBy(func(_ *ast.CallExpr, op lockOp) string {
		if op.read {
			return op.key + "(R)"
		}
		return op.key
	})
}

// LockSetsBy is LockSets with a caller-chosen key per lock operation ("" = ignore the operation).
func (g *Graph) LockSetsBy(keyOf func(*ast.CallExpr, lockOp) string) []map[string]bool {
	in := make([]map[string]bool, g.N) // nil = top (unvisited)
	in[g.Entry] = map[string]bool{}
	work := []int{g.Entry}
	transfer := func(v int, s map[string]bool) map[string]bool {
		n := g.node[v]
		if n == nil {
			return s
		}
		out := s
		copied := false
		cp := func() {
			if !copied {
				out = map[string]bool{}
				for k := range s {
					out[k] = true
				}
				copied = true
			}
		}
		if _, isDefer := n.(*ast.DeferStmt); isDefer {
			return s
		}
		if _, isGo := n.(*ast.GoStmt); isGo {
			return s
		}
		inspectNoLit(n, func(x ast.Node) {
			call, ok := x.(*ast.CallExpr)
			if !ok {
				return
			}
			op, ok := g.F.lockOpOf(call)
			if !ok {
				return
			}
			k := keyOf(call, op)
			if k == "" {
				return
			}
			cp()
			if op.acquire {
				out[k] = true
			} else {
				delete(out, k)
			}
		})
		return out
	}
	for len(work) > 0 {
		v := work[len(work)-1]
		work = work[:len(work)-1]
		out := transfer(v, in[v])
		for _, s := range g.succ[v] {
			if in[s] == nil {
				c := map[string]bool{}
				for k := range out {
					c[k] = true
				}
				in[s] = c
				work = append(work, s)
				continue
			}
			changed := false
			for k := range in[s] {
				if !out[k] {
					delete(in[s], k)
					changed = true
				}
			}
			if changed {
				work = append(work, s)
			}
		}
	}
	return in
}

func lockSetString(m map[string]bool) string {
	var ks []string
	for k := range m {
		ks = append(ks, k)
	}
	sort.Strings(ks)
	return "{" + strings.Join(ks, ",") + "}"
}

// inspectNoLit visits the nodes of n without descending into function literals.
func inspectNoLit(n ast.Node, fn func(ast.Node)) {
	ast.Inspect(n, func(x ast.Node) bool {
		if x == nil {
			return false
		}
		if _, ok := x.(*ast.FuncLit); ok {
			return false
		}
		fn(x)
		return true
	})
}

// ---- three-valued path exploration ----------------------------------------------------------

type tri int

const (
	triUnknown tri = iota
	triTrue
	triFalse
)

func triNot(t tri) tri {
	switch t {
	case triTrue:
		return triFalse
	case triFalse:
		return triTrue
	}
	return triUnknown
}

// evalTri evaluates a boolean expression in Kleene logic; leaf decides the atoms.
func evalTri(e ast.Expr, leaf func(ast.Expr) tri) tri {
	e = ast.Unparen(e)
	switch x := e.(type) {
	case *ast.UnaryExpr:
		if x.Op == token.NOT {
			return triNot(evalTri(x.X, leaf))
		}
	case *ast.BinaryExpr:
		switch x.Op {
		case token.LAND:
			a, b := evalTri(x.X, leaf), evalTri(x.Y, leaf)
			if a == triFalse || b == triFalse {
				return triFalse
			}
			if a == triTrue && b == triTrue {
				return triTrue
			}
			return triUnknown
		case token.LOR:
			a, b := evalTri(x.X, leaf), evalTri(x.Y, leaf)
			if a == triTrue || b == triTrue {
				return triTrue
			}
			if a == triFalse && b == triFalse {
				return triFalse
			}
			return triUnknown
		}
		// a comparison the valuation does not know may be known in its complementary spelling: v >= k is !(v < k)
		var flip token.Token
		switch x.Op {
		case token.EQL:
			flip = token.NEQ
		case token.NEQ:
			flip = token.EQL
		case token.LSS:
			flip = token.GEQ
		case token.GEQ:
			flip = token.LSS
		case token.GTR:
			flip = token.LEQ
		case token.LEQ:
			flip = token.GTR
		}
		if flip != token.ILLEGAL {
			if t := leaf(e); t != triUnknown {
				return t
			}
			return triNot(leaf(&ast.BinaryExpr{X: x.X, OpPos: x.OpPos, Op: flip, Y: x.Y}))
		}
	}
	return leaf(e)
}

// ReachUnder computes the vertices reachable from entry when branch conditions are evaluated in
// three-valued logic under an abstract valuation (leaf): a branch whose condition is definitely
// false/true is pruned, unknown conditions follow both edges. Switch cases are presented to leaf as
// the synthetic comparison `tag == caseExpr`. This is a predicate-abstraction dataflow over the
// function's own CFG, not an execution.
func (g *Graph) ReachUnder(leaf0 func(ast.Expr) tri, blocked func(int) bool) []bool {
	pruned := map[[2]int]bool{}
	for i, b := range g.C.Blocks {
		if !b.Live || len(b.Succs) != 2 || len(b.Nodes) == 0 {
			continue
		}
		cond, ok := b.Nodes[len(b.Nodes)-1].(ast.Expr)
		if !ok {
			continue
		}
		ev := g.off[i] + len(b.Nodes)
		// a boolean local the valuation says nothing about stands for its definition
		depth := 0
		var leaf func(ast.Expr) tri
		leaf = func(e ast.Expr) tri {
			if t := leaf0(e); t != triUnknown {
				return t
			}
			if _, isID := ast.Unparen(e).(*ast.Ident); isID && depth < 4 {
				if def := g.boolLocalValue(e, ev-1); def != nil {
					depth++
					t := evalTri(def, leaf)
					depth--
					return t
				}
			}
			return triUnknown
		}
		var val tri
		switch b.Succs[0].Kind {
		case cfg.KindIfThen, cfg.KindForBody:
			val = evalTri(cond, leaf)
		case cfg.KindSwitchCaseBody:
			cc, _ := b.Succs[0].Stmt.(*ast.CaseClause)
			var sw *ast.SwitchStmt
			if cc != nil {
				if blk, ok := g.F.ParentOf(cc).(*ast.BlockStmt); ok {
					sw, _ = g.F.ParentOf(blk).(*ast.SwitchStmt)
				}
			}
			if sw == nil {
				continue // type switch etc.
			}
			if sw.Tag != nil {
				val = leaf(&ast.BinaryExpr{X: sw.Tag, Op: token.EQL, Y: cond})
			} else {
				val = evalTri(cond, leaf)
			}
		default:
			continue
		}
		switch val {
		case triTrue:
			pruned[[2]int{ev, 1}] = true
		case triFalse:
			pruned[[2]int{ev, 0}] = true
		}
	}
	seen, _ := g.reach([]int{g.Entry}, blocked, func(u, k int) bool { return pruned[[2]int{u, k}] })
	return seen
}

// staleBetween reports whether a local variable mentioned in cond is (re)assigned on some path from
// the branch at end-vertex ev to vertex v: the recorded outcome of cond then no longer describes the
// variable's value at v.
func (g *Graph) staleBetween(cond ast.Expr, ev, v int) bool {
	f := g.F
	vars := map[types.Object]bool{}
	ast.Inspect(cond, func(n ast.Node) bool {
		if id, ok := n.(*ast.Ident); ok {
			if o, ok := f.Info().Uses[id].(*types.Var); ok && !o.IsField() && o.Parent() != nil && o.Pkg() != nil && o.Parent() != o.Pkg().Scope() {
				vars[o] = true
			}
		}
		return true
	})
	if len(vars) == 0 {
		return false
	}
	if g.writeVerts == nil {
		g.writeVerts = map[types.Object][]int{}
		for _, w := range Writes(f.Body, false) {
			if id, ok := ast.Unparen(w.LHS).(*ast.Ident); ok {
				if o := f.ObjOf(id); o != nil {
					if wv := g.VertexOf(w.Stmt); wv >= 0 {
						g.writeVerts[o] = append(g.writeVerts[o], wv)
					}
				}
			}
		}
	}
	// paths that re-evaluate the condition refresh the guard, so the condition vertex is blocked
	cv := ev - 1
	notCond := func(u int) bool { return u == cv }
	var after []bool
	for o := range vars {
		for _, wv := range g.writeVerts[o] {
			if wv == cv {
				continue
			}
			if after == nil {
				var st []int
				for _, x := range g.succ[ev] {
					if x != cv {
						st = append(st, x)
					}
				}
				after, _ = g.reach(st, notCond, nil)
			}
			if !after[wv] || wv == v {
				continue
			}
			var st []int
			for _, x := range g.succ[wv] {
				if x != cv {
					st = append(st, x)
				}
			}
			from, _ := g.reach(st, notCond, nil)
			if from[v] {
				return true
			}
		}
	}
	return false
}

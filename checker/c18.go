package main

import (
	"go/ast"
	"go/token"
	"go/types"
	"sort"
	"strings"

	"golang.org/x/tools/go/cfg"
)

func init() { register("C18", rulesC18, nil) }

func rulesC18(c *Ctx) {
	fsT := c.P.LookupType(pM, "featureSet")
	can := c.FnObj(pM, "Server", "changeAndNotify")
	canClient := c.FnObj(pM, "", "changeAndNotify")
	pairs := map[string]string{"prompts": "notificationPromptListChanged", "tools": "notificationToolListChanged", "resources": "notificationResourceListChanged", "resourceTemplates": "notificationResourceListChanged", "roots": "notificationRootsListChanged"}

	c.Rule("R-C18-1", "every feature mutation goes through the change funnel with the notification name that matches the mutated set", func() {
		n := 0
		for _, f := range c.funcsWithLits(pM) {
			for _, call := range f.AllCalls(f.Body, false) {
				fn := f.Callee(call)
				if fn == nil || (fn.Name() != "add" && fn.Name() != "remove") {
					continue
				}
				r := fn.Type().(*types.Signature).Recv()
				if r == nil || namedOf(r.Type()) == nil || namedOf(r.Type()).Origin() != fsT.Origin() {
					continue
				}
				sel, _ := ast.Unparen(call.Fun).(*ast.SelectorExpr)
				recvSel, isSel := ast.Unparen(sel.X).(*ast.SelectorExpr)
				if !isSel {
					continue
				}
				set := recvSel.Sel.Name
				want := pairs[set]
				if want == "" {
					continue
				}
				n++
				key := "mutation:" + f.Root().Name() + ":" + set + "." + fn.Name()
				pc := litParentCall(f)
				ok := false
				if pc != nil {
					isFunnel := f.Parent.IsCallTo(pc, can) || f.Parent.IsCallTo(pc, canClient)
					nameArg := pc.Args[0]
					if f.Parent.IsCallTo(pc, canClient) {
						nameArg = pc.Args[1]
					}
					ok = isFunnel && f.Parent.ObjOf(nameArg) == c.Obj(pM, want)
				}
				c.Check(ok, key, f, call, "%s.%s() runs inside a closure passed to changeAndNotify(%s, …)", set, fn.Name(), want)
			}
		}
		c.Pin("feature mutations", n, 10)
	})

	c.Rule("R-C18-2", "debounce without loss: a change arms or re-arms the timer under the server lock; the firing callback clears the slot in the same critical section in which it snapshots the recipients; the fan-out itself runs unlocked", func() {
		f := c.Fn(pM, "Server", "changeAndNotify")
		g := f.Graph()
		pend := c.Field(pM, "Server", "pendingNotifications")
		af := c.Std("time", "", "AfterFunc")
		ns := c.FnObj(pM, "Server", "notifySessions")
		c.Need(len(f.NonRecvParams()) == 2, "changeAndNotify(notification, change)")
		nameParam, changeParam := f.NonRecvParams()[0], f.NonRecvParams()[1]
		arm, rearm := false, false
		for _, call := range f.CallsIn(f.Body, af, false) {
			l := f.LitArg(call, 1)
			if l == nil && len(call.Args) == 2 {
				// the callback held in a local that is written once
				if fl, isFL := ast.Unparen(f.valueOf(call.Args[1])).(*ast.FuncLit); isFL {
					l = f.Root().LitFor(fl)
				}
			}
			okCb := l != nil && len(l.CallsIn(l.Body, ns, false)) == 1 && l.ObjOf(l.CallsIn(l.Body, ns, false)[0].Args[0]) == types.Object(nameParam)
			as, _ := f.ParentOf(call).(*ast.AssignStmt)
			okSlot := false
			if as != nil {
				if m, k, ok := indexOf(as.Lhs[0]); ok && f.IsField(m, pend) && f.ObjOf(k) == types.Object(nameParam) {
					okSlot = true
				}
			}
			guards := g.GuardsAt(g.VertexOf(call))
			arm = okCb && okSlot && f.heldLocal(call)["Server.mu"] && hasAtom(guards, func(a Atom) bool { return AtomSaysNil(a, true, func(ast.Expr) bool { return true }) })
			d := c.Obj(pM, "notificationDelay")
			c.Check(f.ObjOf(call.Args[0]) == d, "changeAndNotify:delay", f, call, "the timer uses notificationDelay")
		}
		for _, call := range f.AllCalls(f.Body, false) {
			if fn := f.Callee(call); fn != nil && fn.Name() == "Reset" && fn.Pkg() != nil && fn.Pkg().Path() == "time" {
				guards := g.GuardsAt(g.VertexOf(call))
				rearm = f.heldLocal(call)["Server.mu"] && hasAtom(guards, func(a Atom) bool { return AtomSaysNil(a, false, func(ast.Expr) bool { return true }) })
			}
		}
		// arming and re-arming differ only in the nil test of the slot: a re-arm that depends on anything else (the
		// timer not having fired yet, say) leaves the last change of a burst without a timer in front of it
		// … except that a re-arm may ask Stop() whether the timer is still waiting (false: it has expired, its callback is
		// queued behind the lock held here, will clear the slot and snapshot after this change — nothing to arm).  That
		// reading of "false" is right only if no timer that was stopped for good stays in the slot: every Stop() whose
		// answer is dropped is followed on every path by taking the entry out of the slot (or by a Reset)
		isTimerCall := func(call *ast.CallExpr, name string) bool {
			fn := f.Callee(call)
			return fn != nil && fn.Name() == name && fn.Pkg() != nil && fn.Pkg().Path() == "time" && fn.Type().(*types.Signature).Recv() != nil
		}
		stopAsked := false
		guardSet := func(call *ast.CallExpr) map[string]bool {
			out := map[string]bool{}
			for _, a := range g.GuardsAt(g.VertexOf(call)) {
				if ce, isC := ast.Unparen(a.E).(*ast.CallExpr); isC && a.Val && isTimerCall(ce, "Stop") && isTimerCall(call, "Reset") {
					if rs, isSel := ast.Unparen(call.Fun).(*ast.SelectorExpr); isSel {
						if ss, isSel2 := ast.Unparen(ce.Fun).(*ast.SelectorExpr); isSel2 && f.ObjOf(rs.X) != nil && f.ObjOf(rs.X) == f.ObjOf(ss.X) {
							stopAsked = true
							continue
						}
					}
				}
				if _, _, isNil := NilTest(a.E); isNil {
					continue
				}
				if inner, neg := stripNot(a.E); neg {
					if _, _, isNil := NilTest(inner); isNil {
						continue
					}
				}
				out[exprStr(a.E)+"="+map[bool]string{true: "T", false: "F"}[a.Val]] = true
			}
			return out
		}
		var armSet, rearmSet map[string]bool
		for _, call := range f.CallsIn(f.Body, af, false) {
			armSet = guardSet(call)
		}
		for _, call := range f.AllCalls(f.Body, false) {
			if fn := f.Callee(call); fn != nil && fn.Name() == "Reset" && fn.Pkg() != nil && fn.Pkg().Path() == "time" {
				rearmSet = guardSet(call)
			}
		}
		if stopAsked {
			for _, call := range f.AllCalls(f.Body, false) {
				if _, dropped := f.ParentOf(call).(*ast.ExprStmt); !dropped || !isTimerCall(call, "Stop") {
					continue
				}
				okClr, path := g.PostDominatedBy(g.VertexOf(call), func(v int) bool {
					n := g.Node(v)
					if n == nil {
						return false
					}
					for _, c2 := range f.AllCalls(n, false) {
						if f.BuiltinName(c2) == "delete" && len(c2.Args) == 2 && f.IsField(c2.Args[0], pend) {
							return true
						}
						if isTimerCall(c2, "Reset") {
							return true
						}
					}
					for _, w := range Writes(n, false) {
						if m, _, ok := indexOf(w.LHS); ok && f.IsField(m, pend) && w.RHS != nil && isNilIdent(w.RHS) {
							return true
						}
					}
					return false
				})
				c.Check(okClr, "changeAndNotify:stopped-timer-leaves-the-slot", f, call, "re-arming asks Stop() and reads false as \"the callback is about to run and will see this change\", so a timer stopped for good is taken out of the slot on every path %s — left there, every later change of that kind finds Stop() == false and arms nothing, for the life of the server", g.PathString(path))
			}
		}
		same := armSet != nil && rearmSet != nil && len(armSet) == len(rearmSet)
		for k := range armSet {
			if !rearmSet[k] {
				same = false
			}
		}
		// the slot is a *time.Timer per notification name; a debouncer of another design (a struct with a sequence number, a
		// channel) is not something these three shape tests can judge
		slotIsTimer := false
		if m, isMap := pend.Type().Underlying().(*types.Map); isMap {
			if pt, isP := m.Elem().(*types.Pointer); isP {
				if n := namedOf(pt.Elem()); n != nil && n.Obj().Pkg() != nil && n.Obj().Pkg().Path() == "time" && n.Obj().Name() == "Timer" {
					slotIsTimer = true
				}
			}
		}
		if !slotIsTimer && !(same && arm && rearm) {
			c.Undecided("changeAndNotify:debouncer", f, nil, "pendingNotifications no longer holds *time.Timer values (%s): the arm / re-arm discipline of the new design is not decided here", pend.Type())
			panic(abortRule{})
		}
		c.Check(same, "changeAndNotify:rearm-unconditional", f, nil, "the pending timer is Reset under exactly the conditions under which an idle slot is armed (apart from the nil test): arm %v, re-arm %v", keysOf(armSet), keysOf(rearmSet))
		c.Check(arm, "changeAndNotify:arm-when-idle", f, nil, "with no timer pending, time.AfterFunc(notificationDelay, notifySessions(name)) is stored in the slot for that name, under s.mu")
		c.Check(rearm, "changeAndNotify:rearm-when-pending", f, nil, "with a timer pending it is Reset under s.mu (the last change of a burst always has a timer in front of it)")
		// arming is conditional exactly on change() && capability
		ss := c.FnObj(pM, "Server", "shouldSendListChangedNotification")
		okGate := false
		for _, call := range f.CallsIn(f.Body, af, false) {
			guards := g.GuardsAt(g.VertexOf(call))
			okGate = hasAtom(guards, func(a Atom) bool {
				ce, ok := a.E.(*ast.CallExpr)
				return ok && a.Val && f.ObjOf(ce.Fun) == types.Object(changeParam)
			}) && hasAtom(guards, func(a Atom) bool { ce, ok := a.E.(*ast.CallExpr); return ok && a.Val && f.IsCallTo(ce, ss) })
		}
		c.Check(okGate, "changeAndNotify:gated-by-change-and-capability", f, nil, "a notification is armed only if something changed and the capability allows it")
		// notifySessions
		nf := c.Fn(pM, "Server", "notifySessions")
		ng := nf.Graph()
		var clr ast.Node
		for _, w := range nf.FieldWrites(nf.Body, pend, false) {
			clr = w
		}
		c.Need(clr != nil, "notifySessions: pendingNotifications[n] = nil")
		c.Check(nf.heldLocal(clr)["Server.mu"], "notifySessions:slot-cleared-under-lock", nf, clr, "the pending slot is cleared under s.mu")
		sessF := c.Field(pM, "Server", "sessions")
		span := true
		var reads []ast.Node
		for _, s := range nf.FieldRefs(nf.Body, sessF, false) {
			reads = append(reads, s)
		}
		for _, name := range []string{"toolChangeSubscriptions", "promptChangeSubscriptions", "resourceChangeSubscriptions"} {
			for _, s := range nf.FieldRefs(nf.Body, c.Field(pM, "Server", name), false) {
				reads = append(reads, s)
			}
		}
		c.Pin("recipient snapshot reads", len(reads), 4)
		for _, r := range reads {
			if !nf.heldLocal(r)["Server.mu"] {
				span = false
			}
			// no unlock between the slot clearing and this read
			for _, call := range nf.AllCalls(nf.Body, false) {
				if op, ok := nf.lockOpOf(call); ok && !op.acquire {
					uv := ng.VertexOf(call)
					if ng.ReachableFrom(ng.VertexOf(clr))[uv] && ng.ReachableFrom(uv)[ng.VertexOf(r)] {
						span = false
					}
				}
			}
		}
		for _, r := range reads {
			if !ng.Dominates(ng.VertexOf(clr), ng.VertexOf(r)) {
				span = false
			}
		}
		c.Check(span, "notifySessions:clear-and-snapshot-atomic", nf, clr, "the slot is cleared and the recipients are snapshotted in one critical section: a change that lands after the timer fired either is seen by this snapshot's send or finds the slot empty and arms a new timer")
		le := c.lockEnv()
		for _, name := range []struct{ recv, fn string }{{"", "notifySessions"}, {"Server", "notifySubscribedSessions"}} {
			o := c.FnObj(pM, name.recv, name.fn)
			for _, call := range nf.CallsIn(nf.Body, o, false) {
				held := le.heldAt(nf, call)
				c.Check(!held["Server.mu"], "notifySessions:fan-out-unlocked:"+name.fn, nf, call, "the fan-out runs without s.mu (held: %s)", setString(held))
			}
		}
		// a timer that fired always announces: once the slot is cleared every path reaches both fan-outs (no "nothing new
		// since the last announcement" shortcut — the change that armed this timer may be exactly what it would skip)
		for _, name := range []struct{ recv, fn string }{{"", "notifySessions"}, {"Server", "notifySubscribedSessions"}} {
			o := c.FnObj(pM, name.recv, name.fn)
			vs := ng.callVertices(o)
			okAll, p := ng.MustPass(ng.VertexOf(clr), ng.Exits, func(v int) bool {
				for _, u := range vs {
					if u == v {
						return true
					}
				}
				return false
			})
			c.Check(okAll && len(vs) > 0, "notifySessions:fired-timer-always-announces:"+name.fn, nf, clr, "every path from clearing the slot to the end of notifySessions passes the fan-out %s", ng.PathString(p))
		}
	})

	c.Rule("R-C18-3", "only entitled sessions are notified: legacy sessions by protocol version, modern ones only through the subscription map of that notification; subscriptions are granted only for advertised capabilities; resource updates go to the subscribers of that URI", func() {
		nf := c.Fn(pM, "Server", "notifySessions")
		// legacy test
		okLegacy := false
		// the legacy recipient list is what the unconditional fan-out receives
		var legacyVar types.Object
		for _, call := range nf.CallsIn(nf.Body, c.FnObj(pM, "", "notifySessions"), false) {
			legacyVar = nf.ObjOf(call.Args[0])
		}
		c.Need(legacyVar != nil, "notifySessions: the legacy recipient list")
		for _, w := range Writes(nf.Body, false) {
			if ce, ok := ast.Unparen(w.RHS).(*ast.CallExpr); ok && w.RHS != nil && nf.BuiltinName(ce) == "append" && nf.ObjOf(w.LHS) == legacyVar {
				g := nf.Graph()
				okLegacy = hasAtom(g.GuardsAt(g.VertexOf(w.Stmt)), func(a Atom) bool {
					if !a.Val {
						return false
					}
					b, isB := a.E.(*ast.BinaryExpr)
					if !isB || b.Op != token.LOR {
						return false
					}
					_, y, op, ok := binaryCmp(b.Y)
					return ok && op == token.LSS && nf.ObjOf(y) == c.Obj(pM, "protocolVersion20260728")
				})
			}
		}
		c.Check(okLegacy, "notifySessions:legacy-by-version", nf, nil, "a session is treated as legacy only when uninitialised or negotiated below 2026-07-28")
		// switch: name ↔ map
		want := map[string]string{"notificationToolListChanged": "toolChangeSubscriptions", "notificationPromptListChanged": "promptChangeSubscriptions", "notificationResourceListChanged": "resourceChangeSubscriptions"}
		got := map[string]string{}
		inspectNoLit(nf.Body, func(n ast.Node) {
			cc, ok := n.(*ast.CaseClause)
			if !ok || len(caseValues(cc)) != 1 {
				return
			}
			id, _ := ast.Unparen(caseValues(cc)[0]).(*ast.Ident)
			if id == nil {
				return
			}
			for _, st := range cc.Body {
				if as, ok := st.(*ast.AssignStmt); ok && len(as.Rhs) == 1 {
					if ce, ok := ast.Unparen(as.Rhs[0]).(*ast.CallExpr); ok && nf.Callee(ce) != nil && nf.Callee(ce).FullName() == "maps.Clone" {
						if s, ok := ast.Unparen(ce.Args[0]).(*ast.SelectorExpr); ok {
							got[id.Name] = s.Sel.Name
						}
					}
				}
			}
		})
		// the same pairing with the selection and the copy in two steps: a local receives the kind's own map under
		// `n == <kind>` and that local is what maps.Clone copies
		if len(got) == 0 {
			ng := nf.Graph()
			for _, w := range Writes(nf.Body, false) {
				sel, isSel := ast.Unparen(w.RHS).(*ast.SelectorExpr)
				if w.RHS == nil || !isSel || !strings.HasSuffix(sel.Sel.Name, "ChangeSubscriptions") {
					continue
				}
				dst := nf.ObjOf(w.LHS)
				cloned := false
				for _, call := range nf.AllCalls(nf.Body, false) {
					if fn := nf.Callee(call); fn != nil && fn.FullName() == "maps.Clone" && len(call.Args) == 1 && nf.ObjOf(call.Args[0]) == dst && dst != nil {
						cloned = true
					}
				}
				if !cloned {
					continue
				}
				for _, a := range ng.GuardsAt(ng.VertexOf(w.Stmt)) {
					if x, y, op, ok := binaryCmp(a.E); ok && op == token.EQL && a.Val && x != nil {
						if id, isID := ast.Unparen(y).(*ast.Ident); isID {
							got[id.Name] = sel.Sel.Name
						}
					}
				}
			}
		}
		same := len(got) == len(want)
		for k, v := range want {
			if got[k] != v {
				same = false
			}
		}
		c.Check(same, "notifySessions:subscribers-match-notification", nf, nil, "each list-changed notification is fanned out to a clone of its own subscription map (%v)", got)
		// listen registration: same pairing on the server side
		sl := c.Fn(pM, "Server", "subscriptionsListen")
		sg := sl.Graph()
		reg := map[string]string{}
		for _, w := range Writes(sl.Body, false) {
			if m, _, ok := indexOf(w.LHS); ok {
				if s, ok := ast.Unparen(m).(*ast.SelectorExpr); ok && strings.HasSuffix(s.Sel.Name, "ChangeSubscriptions") {
					for _, a := range sg.GuardsAt(sg.VertexOf(w.Stmt)) {
						if fs, ok := a.E.(*ast.SelectorExpr); ok && a.Val && strings.HasSuffix(fs.Sel.Name, "ListChanged") {
							reg[fs.Sel.Name] = s.Sel.Name
						}
					}
					c.Check(sl.heldLocal(w.Stmt)["Server.mu"], "subscriptionsListen:register-under-lock:"+s.Sel.Name, sl, w.Stmt, "subscription registered under s.mu")
				}
			}
		}
		c.Check(reg["ToolsListChanged"] == "toolChangeSubscriptions" && reg["PromptsListChanged"] == "promptChangeSubscriptions" && reg["ResourcesListChanged"] == "resourceChangeSubscriptions", "subscriptionsListen:registers-matching-map", sl, nil, "an allowed X list-changed subscription is recorded in the X subscription map (%v)", reg)
		// allowedSubscriptions
		as := c.Fn(pM, "Server", "allowedSubscriptions")
		ag := as.Graph()
		n := 0
		wantP := as.NonRecvParams()[0]
		capsV := as.VarFromCall(c.FnObj(pM, "Server", "capabilities"), 0)
		var agreedV types.Object
		for _, r := range as.Returns() {
			if len(r.Results) == 1 {
				agreedV = as.ObjOf(r.Results[0])
			}
		}
		c.Need(capsV != nil && agreedV != nil, "allowedSubscriptions: capabilities and result variables")
		rootedAt := func(e ast.Expr, root types.Object, last string) bool {
			found := false
			ast.Inspect(e, func(n ast.Node) bool {
				if s, ok := n.(*ast.SelectorExpr); ok && s.Sel.Name == last {
					x := ast.Unparen(s.X)
					for {
						if in, ok := x.(*ast.SelectorExpr); ok {
							x = ast.Unparen(in.X)
							continue
						}
						break
					}
					if as.ObjOf(x) == root {
						found = true
					}
				}
				return true
			})
			return found
		}
		for _, w := range Writes(as.Body, false) {
			s, ok := ast.Unparen(w.LHS).(*ast.SelectorExpr)
			if !ok || as.ObjOf(s.X) != agreedV {
				continue
			}
			n++
			guards := ag.GuardsAt(ag.VertexOf(w.Stmt))
			field := s.Sel.Name
			wantsIt := hasAtom(guards, func(a Atom) bool {
				if !a.Val {
					return false
				}
				return rootedAt(a.E, wantP, field)
			})
			capOK := hasAtom(guards, func(a Atom) bool {
				if !a.Val {
					return false
				}
				if _, isSel := ast.Unparen(a.E).(*ast.SelectorExpr); !isSel {
					return false
				}
				return rootedAt(a.E, capsV, "ListChanged") || rootedAt(a.E, capsV, "Subscribe")
			})
			c.Check(wantsIt && capOK, "allowedSubscriptions:"+field, as, w.Stmt, "%s is granted only when requested and the corresponding server capability is advertised (guards: %s)", field, atomsString(guards))
		}
		c.Pin("granted subscription kinds", n, 4)
		// ResourceUpdated
		ru := c.Fn(pM, "Server", "ResourceUpdated")
		rs := c.Field(pM, "Server", "resourceSubscriptions")
		okU := false
		for _, w := range Writes(ru.Body, false) {
			if m, k, ok := indexOf(w.RHS); ok && w.RHS != nil && ru.IsField(m, rs) && func() bool {
				nm, on := ru.SelectorOn(k, ru.ParamOfNamed(pM, "ResourceUpdatedNotificationParams"))
				return on && nm == "URI"
			}() {
				subs := ru.ObjOf(w.LHS)
				inspectNoLit(ru.Body, func(n ast.Node) {
					if r, ok := n.(*ast.RangeStmt); ok && ru.ObjOf(r.X) == subs {
						okU = ru.heldLocal(r.X)["Server.mu"]
					}
				})
			}
		}
		if _, isMap := rs.Type().Underlying().(*types.Map); !isMap && !okU {
			c.Undecided("ResourceUpdated:only-subscribers-of-uri", ru, nil, "the subscription table is no longer a map on the Server (%s): who receives resources/updated is decided inside that type, which this rule does not look into", rs.Type())
		} else {
			c.Check(okU, "ResourceUpdated:only-subscribers-of-uri", ru, nil, "the recipients are exactly resourceSubscriptions[params.URI], read under s.mu")
		}
		nOther := 0
		for _, s := range ru.FieldRefs(ru.Body, c.Field(pM, "Server", "sessions"), false) {
			_ = s
			nOther++
		}
		c.Check(nOther == 0, "ResourceUpdated:no-broadcast", ru, nil, "ResourceUpdated never iterates all sessions")
	})

	c.Import("R-C18-9", "the client's list-changed subscription lives as long as the session, not as long as the context that was passed to Connect or Subscribe", "C04", "R-C04-9", func(k string) bool {
		return strings.HasPrefix(k, "listen-context-detached") || strings.HasPrefix(k, "subscriptions/listen openers")
	})

	c.Rule("R-C18-8", "a listen that ends takes down only its own subscriptions: the deferred cleanup of subscriptionsListen deletes a session's entry from a list-changed map only if that entry still carries this listen's request id (a session may have a list-changed listen and per-URI listens open at the same time)", func() {
		sl := c.Fn(pM, "Server", "subscriptionsListen")
		idVar := sl.VarFromCallWhere(func(ce *ast.CallExpr) bool {
			fn := sl.Callee(ce)
			return fn != nil && fn.Name() == "Value" && fn.Pkg() != nil && fn.Pkg().Path() == "context"
		}, 0)
		// the request id may be bound through a type assertion of ctx.Value(...)
		if idVar == nil {
			for _, w := range Writes(sl.Body, false) {
				if as, ok := w.Stmt.(*ast.AssignStmt); ok && len(as.Rhs) == 1 {
					if ta, ok := ast.Unparen(as.Rhs[0]).(*ast.TypeAssertExpr); ok {
						if ce, ok := ast.Unparen(ta.X).(*ast.CallExpr); ok && sl.Callee(ce) != nil && sl.Callee(ce).Name() == "Value" {
							idVar = sl.ObjOf(as.Lhs[0])
						}
					}
				}
			}
		}
		c.Need(idVar != nil, "subscriptionsListen: the listen's request id")
		n := 0
		for _, l := range sl.AllLits() {
			lg := l.Graph()
			for _, call := range l.AllCalls(l.Body, false) {
				if l.BuiltinName(call) != "delete" || len(call.Args) != 2 {
					continue
				}
				fld, isF := l.ObjOf(call.Args[0]).(*types.Var)
				if !isF || !fld.IsField() || !strings.HasSuffix(fld.Name(), "ChangeSubscriptions") {
					continue
				}
				n++
				guards := lg.GuardsAt(lg.VertexOf(call))
				own := hasAtom(guards, func(a Atom) bool {
					x, y, op, isCmp := cmpOn(a.E, func(e ast.Expr) bool { _, _, isIx := indexOf(e); return isIx })
					if !isCmp || op != token.EQL || !a.Val {
						return false
					}
					m, _, _ := indexOf(x)
					return l.ObjOf(m) == types.Object(fld) && l.ObjOf(y) == idVar
				})
				c.Check(own, "listen-cleanup-owns:"+fld.Name(), l, call, "delete(%s, session) happens only under %s[session] == <this listen's id> (guards: %s)", fld.Name(), fld.Name(), atomsString(guards))
			}
		}
		c.Pin("list-changed map deletions in the listen cleanup", n, 3)
	})

	c.Rule("R-C18-4", "subscriptions are acknowledged only once registered, and forgotten when the listen ends (disconnect cleanup: R-C05-5)", func() {
		sl := c.Fn(pM, "Server", "subscriptionsListen")
		g := sl.Graph()
		ack := c.FnObj(pM, "ServerSession", "notifySubscriptionAcked")
		av := g.callVertices(ack)
		c.Need(len(av) == 1, "subscriptionsListen: acknowledgement")
		sub := c.FnObj(pM, "Server", "subscribe")
		unsub := c.FnObj(pM, "Server", "unsubscribe")
		okOrder := true
		for _, v := range g.callVertices(sub) {
			if !(g.ReachableFrom(v)[av[0]] && !g.ReachableFrom(av[0])[v]) {
				okOrder = false
			}
		}
		for _, w := range Writes(sl.Body, false) {
			if m, _, ok := indexOf(w.LHS); ok {
				if s, ok := ast.Unparen(m).(*ast.SelectorExpr); ok && strings.HasSuffix(s.Sel.Name, "ChangeSubscriptions") {
					if !g.Dominates(g.VertexOf(w.Stmt), av[0]) && !g.ReachableFrom(g.VertexOf(w.Stmt))[av[0]] {
						okOrder = false
					}
				}
			}
		}
		// the per-URI loop as a whole precedes the ack
		inspectNoLit(sl.Body, func(n ast.Node) {
			if rs, ok := n.(*ast.RangeStmt); ok && len(sl.CallsIn(rs.Body, sub, false)) > 0 {
				if !g.Dominates(g.VertexOf(rs.X), av[0]) {
					okOrder = false
				}
			}
		})
		c.Check(okOrder && len(g.callVertices(sub)) >= 1, "subscriptionsListen:ack-after-registration", sl, g.Node(av[0]), "notifications/subscriptions/acknowledged is sent only after every granted subscription (list-changed maps and per-URI) is registered: an update right after the ack cannot be dropped")
		// every subscribe has a deferred unsubscribe for the same URI in the same iteration
		okUnsub := false
		inspectNoLit(sl.Body, func(n ast.Node) {
			rs, ok := n.(*ast.RangeStmt)
			if !ok || len(sl.CallsIn(rs.Body, sub, false)) != 1 {
				return
			}
			// wherever the defer statement sits in the iteration's body: it names the same URI and every
			// path from the subscribe call to the next iteration or to a successful return passes it
			subV := g.VertexOf(sl.CallsIn(rs.Body, sub, false)[0])
			var targets []int
			if rs.Value != nil {
				targets = append(targets, g.VertexOf(rs.Value))
			}
			for _, x := range g.Exits {
				if r, isR := g.Node(x).(*ast.ReturnStmt); isR && len(r.Results) == 2 && isNilIdent(r.Results[1]) {
					targets = append(targets, x)
				}
			}
			inspectNoLit(rs.Body, func(m ast.Node) {
				if d, ok := m.(*ast.DeferStmt); ok && sl.IsCallTo(d.Call, unsub) && sl.Mentions(d.Call, sl.ObjOf(rs.Value)) {
					dv := g.VertexOf(d)
					if pass, _ := g.MustPass(subV, targets, func(v int) bool { return v == dv }); pass && len(targets) >= 2 {
						okUnsub = true
					}
				}
			})
		})
		c.Check(okUnsub, "subscriptionsListen:deferred-unsubscribe", sl, nil, "each per-URI subscription made by a listen is undone by a deferred unsubscribe for the same URI")
		// unsubscribe removes the requesting session, and only it: the delete is keyed by req.Session and guarded by nothing
		// but the existence of the URI's entry (a shortcut for "last subscriber" that skips the delete drops somebody else's
		// subscription when the requester was not subscribed)
		uf := c.Fn(pM, "Server", "unsubscribe")
		ug := uf.Graph()
		rsF := c.Field(pM, "Server", "resourceSubscriptions")
		nDel := 0
		for _, call := range uf.AllCalls(uf.Body, false) {
			if uf.BuiltinName(call) != "delete" || len(call.Args) != 2 || uf.IsField(call.Args[0], rsF) {
				continue
			}
			nDel++
			okKey := strings.HasSuffix(uf.FieldPath(call.Args[1]), ".Session")
			nl, what := ug.semanticLeaves(ug.VertexOf(call))
			c.Check(okKey && nl == 1, "unsubscribe:removes-the-requester-unconditionally", uf, call, "delete(sessionsOfURI, req.Session) under the map-lookup ok alone (%d tests: %s)", nl, what)
		}
		c.Pin("unsubscribe per-session deletes", nDel, 1)
		okDel := false
		for _, v := range g.Vertices(func(n ast.Node) bool { _, ok := n.(*ast.DeferStmt); return ok }) {
			l := sl.LitOfDefer(g.Node(v).(*ast.DeferStmt))
			if l == nil {
				continue
			}
			dels := map[string]bool{}
			for _, call := range l.AllCalls(l.Body, false) {
				if l.BuiltinName(call) == "delete" {
					if s, ok := ast.Unparen(call.Args[0]).(*ast.SelectorExpr); ok && l.heldLocal(call)["Server.mu"] {
						dels[s.Sel.Name] = true
					}
				}
			}
			if dels["toolChangeSubscriptions"] && dels["promptChangeSubscriptions"] && dels["resourceChangeSubscriptions"] {
				okDel = true
			}
		}
		c.Check(okDel, "subscriptionsListen:deferred-forget", sl, nil, "when the listen ends its session is deleted from all three list-changed maps under s.mu")
	})

	caches := map[string][]string{
		"callToolChangedHandler":     {"toolsCache"},
		"callPromptChangedHandler":   {"promptsCache"},
		"callResourceChangedHandler": {"resourcesCache", "resourceTemplatesCache"},
		"callResourceUpdatedHandler": {"readResourceCache"},
	}
	fills := map[string]string{"ListTools": "toolsCache", "ListPrompts": "promptsCache", "ListResources": "resourcesCache", "ListResourceTemplates": "resourceTemplatesCache", "ReadResource": "readResourceCache"}

	c.Rule("R-C18-5", "a change notification invalidates exactly the caches its feature's list/read calls fill, before the user's callback runs", func() {
		for name, want := range caches {
			f := c.Fn(pM, "Client", name)
			g := f.Graph()
			got := map[string]int{}
			for v := 0; v < g.N; v++ {
				n := g.Node(v)
				if n == nil {
					continue
				}
				for _, call := range f.AllCalls(n, false) {
					fn := f.Callee(call)
					if fn == nil || !strings.HasPrefix(fn.Name(), "invalidate") {
						continue
					}
					if s, ok := ast.Unparen(call.Fun).(*ast.SelectorExpr); ok {
						if cs, ok := ast.Unparen(s.X).(*ast.SelectorExpr); ok {
							got[cs.Sel.Name] = v
						}
					}
					for ai := range call.Args {
						ai := ai
						c.Check(func() bool {
							s, ok := ast.Unparen(call.Args[ai]).(*ast.SelectorExpr)
							if !ok || s.Sel.Name != "URI" {
								return false
							}
							nm, on := f.SelectorOn(s.X, f.NonRecvParams()[len(f.NonRecvParams())-1])
							return on && nm == "Params"
						}(), name+":invalidates-notified-uri", f, call, "the URI invalidated is the one named by the notification")
					}
				}
			}
			okSet := len(got) == len(want)
			for _, w := range want {
				if _, ok := got[w]; !ok {
					okSet = false
				}
			}
			c.Check(okSet, name+":invalidates-matching-caches", f, nil, "invalidates %v (found %v)", want, keysOfInt(got))
			// before the user callback
			for v := 0; v < g.N; v++ {
				n := g.Node(v)
				if n == nil {
					continue
				}
				for _, call := range f.AllCalls(n, false) {
					if id, ok := ast.Unparen(call.Fun).(*ast.Ident); ok && id.Name == "h" {
						for _, iv := range got {
							c.Check(g.ReachableFrom(iv)[v] && !g.ReachableFrom(v)[iv], name+":invalidate-before-callback", f, call, "the cache is invalidated before the user's handler runs (a list issued from the handler must not hit the stale entry)")
						}
					}
				}
			}
		}
		// the handlers are the ones registered for the notifications
		infos := c.mapLiteralKeys(pM, "clientMethodInfos")
		reg := map[string]string{"notifications/tools/list_changed": "callToolChangedHandler", "notifications/prompts/list_changed": "callPromptChangedHandler", "notifications/resources/list_changed": "callResourceChangedHandler", "notifications/resources/updated": "callResourceUpdatedHandler"}
		for m, h := range reg {
			v, ok := infos[m]
			c.Check(ok && strings.Contains(exprStr(v), "newClientMethodInfo") && mentionsName(v, h), "clientMethodInfos:"+m, nil, nil, "%s is handled by %s", m, h)
		}
		// what each List*/Read fills
		for fn, cache := range fills {
			f := c.Fn(pM, "ClientSession", fn)
			ok := false
			for _, call := range f.AllCalls(f.Body, false) {
				if cal := f.Callee(call); cal != nil && strings.HasPrefix(cal.Name(), "put") {
					if s, ok2 := ast.Unparen(call.Fun).(*ast.SelectorExpr); ok2 {
						if cs, ok3 := ast.Unparen(s.X).(*ast.SelectorExpr); ok3 && cs.Sel.Name == cache {
							ok = true
						}
					}
				}
			}
			if !ok {
				// through a helper: the cache's address is handed to a function of the package behind which a put* method is
				// called on a *methodCache parameter
				for _, call := range f.AllCalls(f.Body, true) {
					h := c.P.FuncOf(f.Callee(call))
					if h == nil || h.Pkg != f.Pkg {
						continue
					}
					passes := false
					for _, a := range call.Args {
						if u, isU := ast.Unparen(a).(*ast.UnaryExpr); isU && u.Op == token.AND {
							if cs, isSel := ast.Unparen(u.X).(*ast.SelectorExpr); isSel && cs.Sel.Name == cache {
								passes = true
							}
						}
					}
					if !passes {
						continue
					}
					for _, k := range c.pkgClosure(h) {
						for _, pc := range k.AllCalls(k.Body, true) {
							cal := k.Callee(pc)
							s2, isSel := ast.Unparen(pc.Fun).(*ast.SelectorExpr)
							if cal == nil || !isSel || !strings.HasPrefix(cal.Name(), "put") {
								continue
							}
							if pv, isV := k.ObjOf(s2.X).(*types.Var); isV {
								for _, pp := range k.Root().Params() {
									if pp == pv {
										ok = true
									}
								}
							}
						}
					}
				}
			}
			c.Check(ok, fn+":fills-"+cache, f, nil, "%s fills %s (the cache its change notification invalidates)", fn, cache)
		}
	})

	c.Rule("R-C18-11", "one session's failure does not starve the others: the fan-out loop of notifySessions attempts every session of its snapshot — no return or break leaves it (the debouncer fires once per burst with no retry, so a session skipped here never hears of the change)", func() {
		ns := c.Fn(pM, "", "notifySessions")
		n := 0
		inspectNoLit(ns.Body, func(x ast.Node) {
			rs, ok := x.(*ast.RangeStmt)
			if !ok {
				return
			}
			if _, isSlice := ns.TypeOf(rs.X).Underlying().(*types.Slice); !isSlice {
				return
			}
			n++
			bad := ""
			ast.Inspect(rs.Body, func(y ast.Node) bool {
				switch z := y.(type) {
				case *ast.FuncLit:
					return false
				case *ast.ReturnStmt:
					bad = "return at " + ns.At(z)
				case *ast.BranchStmt:
					if z.Tok == token.BREAK || z.Tok == token.GOTO {
						bad = z.Tok.String() + " at " + ns.At(z)
					}
				case *ast.ForStmt, *ast.RangeStmt, *ast.SwitchStmt, *ast.SelectStmt, *ast.TypeSwitchStmt:
					// a break inside belongs to it; returns are still looked for
					ast.Inspect(z, func(w ast.Node) bool {
						if r, isR := w.(*ast.ReturnStmt); isR {
							bad = "return at " + ns.At(r)
						}
						_, isLit := w.(*ast.FuncLit)
						return !isLit
					})
					return false
				}
				return true
			})
			c.Check(bad == "", "notifySessions:every-session-attempted", ns, rs, "the loop over the sessions is left only at its end (%s)", bad)
		})
		c.Pin("session loops in notifySessions", n, 1)
	})

	c.Rule("R-C18-6", "a cache fill that follows an RPC is conditional on the cache's invalidation generation read before the RPC; every notification-driven invalidation moves the generation", func() {
		hs := c.FnObj(pM, "", "handleSend")
		c.Must(c.P.LookupFuncObj(pM, "methodCache", "putIfCurrent") != nil, "methodCache:generation-guard-exists", nil, nil, "the client cache has an invalidation generation (generation / putIfCurrent): without it a result fetched across an invalidation is cached")
		genObj := c.FnObj(pM, "methodCache", "generation")
		pic := c.FnObj(pM, "methodCache", "putIfCurrent")
		put := c.FnObj(pM, "methodCache", "put")
		n := 0
		for _, f := range c.funcsWithLits(pM) {
			g := f.Graph()
			hv := g.callVertices(hs)
			if len(hv) == 0 {
				continue
			}
			for _, call := range f.CallsIn(f.Body, put, false) {
				v := g.VertexOf(call)
				for _, h := range hv {
					if g.ReachableFrom(h)[v] {
						c.Fail("unguarded-fill:"+f.Name(), f, call, "put() after an RPC: a list_changed/updated notification handled while the request was in flight has already invalidated the cache, and this response (computed before the change) would be cached after the invalidation")
					}
				}
			}
			for _, call := range f.CallsIn(f.Body, pic, false) {
				n++
				v := g.VertexOf(call)
				cacheExpr := exprStr(ast.Unparen(call.Fun).(*ast.SelectorExpr).X)
				gv := f.ObjOf(call.Args[0])
				ok := false
				for _, w := range Writes(f.Body, false) {
					if f.ObjOf(w.LHS) != gv || w.RHS == nil {
						continue
					}
					ce, isC := ast.Unparen(w.RHS).(*ast.CallExpr)
					if !isC || !f.IsCallTo(ce, genObj) || exprStr(ast.Unparen(ce.Fun).(*ast.SelectorExpr).X) != cacheExpr {
						continue
					}
					wv := g.VertexOf(w.Stmt)
					for _, h := range hv {
						if g.ReachableFrom(wv)[h] && !g.ReachableFrom(h)[wv] && g.ReachableFrom(h)[v] {
							ok = true
						}
					}
				}
				// on the path that fills, the generation was read: same guard (usesNewProtocol) on both
				c.Check(ok, "guarded-fill:"+f.Name(), f, call, "putIfCurrent(gen, …) uses a generation read from the same cache (%s) before the request was sent", cacheExpr)
			}
		}
		c.Pin("guarded cache fills", n, 5)
		// the cache itself
		p := c.Fn(pM, "methodCache", "putIfCurrent")
		pg := p.Graph()
		genF := c.Field(pM, "methodCache", "gen")
		okCmp := false
		for v := 0; v < pg.N; v++ {
			if n := pg.Node(v); n != nil {
				for _, call := range p.AllCalls(n, false) {
					if fn := p.Callee(call); fn != nil && fn.Name() == "putLocked" {
						okCmp = p.heldLocal(call)["methodCache.mu"] && hasAtom(pg.GuardsAt(v), func(a Atom) bool {
							x, y, op, ok := binaryCmp(a.E)
							return ok && op == token.EQL && a.Val && ((p.IsField(x, genF) && p.ObjOf(y) == types.Object(p.NonRecvParams()[0])) || (p.IsField(y, genF) && p.ObjOf(x) == types.Object(p.NonRecvParams()[0])))
						})
					}
				}
			}
		}
		// expiry of one entry evicts that entry only: the whole cache is cleared by invalidate alone
		cvF0 := c.Field(pM, "methodCache", "cachedValues")
		nDrop := 0
		for _, f := range c.funcsWithLits(pM) {
			if f.Root().Recv() == nil {
				continue
			}
			if rn := namedOf(f.Root().Recv().Type()); rn == nil || rn.Origin().Obj().Name() != "methodCache" {
				continue
			}
			for _, call := range f.AllCalls(f.Body, false) {
				switch {
				case f.BuiltinName(call) == "clear" && len(call.Args) == 1 && f.IsField(call.Args[0], cvF0):
					nDrop++
					c.Check(f.Root().Obj.Name() == "invalidate", "methodCache:clear-only-in-invalidate:"+f.Name(), f, call, "the whole cache is dropped only by invalidate (a stale page found by get evicts that page, not its neighbours: other pages are what lookupTool reads the x-mcp-header annotations from)")
				case f.BuiltinName(call) == "delete" && len(call.Args) == 2 && f.IsField(call.Args[0], cvF0):
					nDrop++
					c.Check(c18OwnKey(f, call.Args[1]), "methodCache:delete-own-key:"+f.Name(), f, call, "a single-entry eviction removes the key the method was asked about")
				}
			}
		}
		c.Pin("evictions in methodCache", nDrop, 3)
		c.Check(okCmp, "putIfCurrent:stores-only-if-generation-unchanged", p, nil, "the store happens only under mc.gen == gen, with the cache lock held")
		// every invalidation method the notification handlers call bumps gen — on every call, and for every key it is asked about
		var invNames []string
		for hn := range caches {
			hf := c.P.FuncOf(c.P.LookupFuncObj(pM, "Client", hn))
			if hf == nil {
				continue
			}
			for _, call := range hf.AllCalls(hf.Body, true) {
				fn := hf.Callee(call)
				if fn == nil || fn.Type().(*types.Signature).Recv() == nil {
					continue
				}
				if rn := namedOf(fn.Type().(*types.Signature).Recv().Type()); rn == nil || rn.Origin().Obj().Name() != "methodCache" {
					continue
				}
				seen := false
				for _, nm := range invNames {
					seen = seen || nm == fn.Name()
				}
				if !seen {
					invNames = append(invNames, fn.Name())
				}
			}
		}
		sort.Strings(invNames)
		c.Need(len(invNames) > 0, "methodCache: the invalidation methods the notification handlers call")
		for _, name := range invNames {
			f := c.Fn(pM, "methodCache", name)
			fg := f.Graph()
			isBump := func(v int) bool {
				n := fg.Node(v)
				if n == nil {
					return false
				}
				for _, w := range f.FieldWrites(n, genF, false) {
					if id, ok := w.(*ast.IncDecStmt); ok && id.Tok == token.INC && f.heldLocal(w)["methodCache.mu"] {
						return true
					}
				}
				return false
			}
			c.Check(c18EveryAskPasses(f, isBump), name+":moves-generation", f, nil, "%s increments the generation under the cache lock on every path, once the cache is asked about anything (a per-key invalidation must also defeat an in-flight read of that key, which is not cached yet: no test of the key's presence stands before the increment)", name)
			// … and drops what is cached: clear(cachedValues) for the whole-cache form, delete(cachedValues, key) for a keyed one
			cvF := c.Field(pM, "methodCache", "cachedValues")
			isDrop := func(v int) bool {
				n := fg.Node(v)
				if n == nil {
					return false
				}
				for _, call := range f.AllCalls(n, false) {
					switch {
					case f.BuiltinName(call) == "clear" && len(call.Args) == 1 && f.IsField(call.Args[0], cvF):
						return f.heldLocal(call)["methodCache.mu"]
					case f.BuiltinName(call) == "delete" && len(call.Args) == 2 && f.IsField(call.Args[0], cvF) && c18OwnKey(f, call.Args[1]):
						return f.heldLocal(call)["methodCache.mu"]
					}
				}
				return false
			}
			c.Check(c18EveryAskPasses(f, isDrop), name+":drops-cached-values", f, nil, "%s removes the cached value(s) under the cache lock on every path: after the notification was handled the next list/read goes to the server", name)
		}
	})

	c.Rule("R-C18-7", "a removal that deleted something reports a change (the report is what arms the notification): the result of featureSet.remove is a monotone flag set to true next to every delete and never assigned anything else", func() {
		rm := c.Fn(pM, "featureSet", "remove")
		g := rm.Graph()
		featF := c.Field(pM, "featureSet", "features")
		// the variable every return hands back
		var flag types.Object
		for _, r := range rm.Returns() {
			if len(r.Results) == 1 {
				if o := rm.ObjOf(r.Results[0]); o != nil {
					c.Need(flag == nil || flag == o, "remove: one result variable")
					flag = o
				} else {
					c.Fail("remove:returns-the-flag", rm, r, "a return does not hand back the change flag")
				}
			}
		}
		c.Need(flag != nil, "remove: result variable")
		var trueWrites []int
		okWrites := true
		for _, w := range rm.writesToVar(rm.Body, flag, true) {
			as, isAs := w.(*ast.AssignStmt)
			if !isAs || len(as.Rhs) != 1 || len(as.Lhs) != 1 {
				okWrites = false
				c.Fail("remove:flag-write-not-constant", rm, w, "the change flag is assigned from something other than a constant: a later absent name can reset it after an earlier name was deleted, and no notification is armed")
				continue
			}
			switch exprStr(as.Rhs[0]) {
			case "true":
				trueWrites = append(trueWrites, g.VertexOf(w))
			case "false":
				if as.Tok != token.DEFINE {
					okWrites = false
					c.Fail("remove:flag-reset", rm, w, "the change flag is reset to false after its initialisation")
				}
			default:
				okWrites = false
				c.Fail("remove:flag-write-not-constant", rm, w, "the change flag is assigned %s", exprStr(as.Rhs[0]))
			}
		}
		if okWrites {
			c.Ok("remove:flag-is-monotone", rm, nil, "the change flag starts false and is only ever set to the constant true (%d sites)", len(trueWrites))
		}
		n := 0
		for _, call := range rm.AllCalls(rm.Body, false) {
			if rm.BuiltinName(call) != "delete" || !rm.IsField(call.Args[0], featF) {
				continue
			}
			n++
			dv := g.VertexOf(call)
			ok := false
			for _, tv := range trueWrites {
				if g.Dominates(tv, dv) {
					ok = true
				}
			}
			if !ok && len(trueWrites) > 0 {
				ok, _ = g.MustPass(dv, g.Exits, func(v int) bool {
					for _, tv := range trueWrites {
						if v == tv {
							return true
						}
					}
					return false
				})
			}
			// and the delete really removes something only when the key was present: otherwise "true" would be reported for a no-op
			c.Check(ok, "remove:delete-sets-flag#"+itoa(n), rm, call, "every delete from the feature map is accompanied by flag = true on the same path")
		}
		c.Pin("deletes in featureSet.remove", n, 1)
		// the callers hand the flag to changeAndNotify unchanged
		can := c.FnObj(pM, "Server", "changeAndNotify")
		canClient := c.FnObj(pM, "", "changeAndNotify") // the client's roots use a package-level generic twin
		m := 0
		for _, f := range c.funcsWithLits(pM) {
			for _, call := range f.CallsIn(f.Body, rm.Obj, false) {
				m++
				r, isRet := f.ParentOf(call).(*ast.ReturnStmt)
				inCb := false
				if f.Lit != nil {
					if pc, ok := f.Parent.ParentOf(f.Lit).(*ast.CallExpr); ok && (f.Parent.IsCallTo(pc, can) || f.Parent.IsCallTo(pc, canClient)) {
						inCb = true
					}
				}
				c.Check(isRet && len(r.Results) == 1 && inCb, "remove-caller:"+f.Name(), f, call, "the result of remove is returned as the change callback's verdict to changeAndNotify")
			}
		}
		c.Pin("callers of featureSet.remove", m, 5)
	})
}

func keysOfInt(m map[string]int) []string {
	var out []string
	for k := range m {
		out = append(out, k)
	}
	return out
}

func mentionsName(e ast.Expr, name string) bool {
	found := false
	ast.Inspect(e, func(n ast.Node) bool {
		if id, ok := n.(*ast.Ident); ok && id.Name == name {
			found = true
		}
		return true
	})
	return found
}

// c18OwnKey: e is a key the method was asked about — a string parameter, or the element variable of a range over a
// parameter that is a list of strings (the variadic form of the same request).
func c18OwnKey(f *Func, e ast.Expr) bool {
	o := f.ObjOf(e)
	if o == nil {
		return false
	}
	isStr := func(t types.Type) bool { b, ok := t.Underlying().(*types.Basic); return ok && b.Kind() == types.String }
	for _, p := range f.Root().NonRecvParams() {
		if types.Object(p) == o && isStr(p.Type()) {
			return true
		}
	}
	found := false
	inspectNoLit(f.Root().Body, func(n ast.Node) {
		rs, ok := n.(*ast.RangeStmt)
		if !ok || rs.Value == nil || f.ObjOf(rs.Value) != o {
			return
		}
		sl, isSl := f.TypeOf(rs.X).Underlying().(*types.Slice)
		if !isSl || !isStr(sl.Elem()) {
			return
		}
		for _, p := range f.Root().NonRecvParams() {
			if f.ObjOf(rs.X) == types.Object(p) {
				found = true
			}
		}
	})
	return found
}

// c18EveryAskPasses: every call of the method passes a vertex satisfying via — and when the method walks a list of keys
// it was handed, every key does: either every entry→return path passes via, or the only paths that do not are those
// that skip a range loop over a parameter which is known to be non-empty there (`len(p) == 0` was answered before), and
// inside that loop no iteration gets back to the loop head without passing via.
func c18EveryAskPasses(f *Func, via func(int) bool) bool {
	g := f.Graph()
	if ok, _ := g.MustPass(g.Entry, g.Exits, via); ok {
		return true
	}
	cut := map[int]bool{} // end vertices of range-loop heads whose "done" edge cannot be the first edge taken
	for i, b := range g.C.Blocks {
		if !b.Live || b.Kind != cfg.KindRangeLoop || len(b.Succs) != 2 {
			continue
		}
		rs, _ := b.Stmt.(*ast.RangeStmt)
		if rs == nil {
			continue
		}
		var param *types.Var
		for _, p := range f.Root().NonRecvParams() {
			if f.ObjOf(rs.X) == types.Object(p) {
				param = p
			}
		}
		if param == nil {
			continue
		}
		nonEmpty := hasAtom(g.GuardsAt(g.off[i]), func(a Atom) bool {
			x, y, op, ok := binaryCmp(a.E)
			if !ok {
				return false
			}
			ce, isC := ast.Unparen(x).(*ast.CallExpr)
			if !isC || f.BuiltinName(ce) != "len" || len(ce.Args) != 1 || f.ObjOf(ce.Args[0]) != types.Object(param) {
				return false
			}
			k, isK := f.ConstInt(y)
			if !isK {
				return false
			}
			switch {
			case op == token.EQL && k == 0:
				return !a.Val
			case (op == token.NEQ || op == token.GTR) && k == 0:
				return a.Val
			case op == token.GEQ && k == 1:
				return a.Val
			case op == token.LSS && k == 1:
				return !a.Val
			}
			return false
		})
		if !nonEmpty {
			continue
		}
		ev := g.off[i] + len(b.Nodes)
		// every iteration passes via: from the body, the head is not reached again without it
		body := g.succ[ev][0]
		if !via(body) {
			seen, _ := g.reach([]int{body}, via, nil)
			if seen[g.off[i]] {
				return false
			}
		}
		cut[ev] = true
	}
	if len(cut) == 0 {
		return false
	}
	if via(g.Entry) {
		return true
	}
	seen, _ := g.reach([]int{g.Entry}, via, func(u, k int) bool { return cut[u] && k == 1 })
	for _, x := range g.Exits {
		if seen[x] {
			return false
		}
	}
	return true
}

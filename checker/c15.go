package main

import (
	"go/ast"
	"go/constant"
	"go/token"
	"go/types"
	"sort"
	"strings"
)

func init() { register("C15", rulesC15, nil) }

const (
	pO = "oauthex"
	pA = "auth"
)

// callGuardedByNilErr: the call at vertex cv assigns an error variable; returns that variable.
func errVarOfCall(f *Func, n ast.Node) types.Object {
	for _, w := range Writes(n, false) {
		if t := f.TypeOf(w.LHS); t != nil && t.String() == "error" {
			return f.ObjOf(w.LHS)
		}
	}
	return nil
}

// successReturns lists returns whose last result is the literal nil.
func successReturns(f *Func) []*ast.ReturnStmt {
	var out []*ast.ReturnStmt
	for _, r := range f.Returns() {
		if len(r.Results) > 0 && isNilIdent(r.Results[len(r.Results)-1]) {
			out = append(out, r)
		}
	}
	return out
}

func rulesC15(c *Ctx) {
	c.Rule("R-C15-8", "the resource a protected-resource metadata document must name is derived from the URL the client asked for, never from where the challenge says the document lives: in protectedResourceMetadataURLs every candidate's expected resource is the requested resource URL or its origin", func() {
		f := c.Fn("auth", "", "protectedResourceMetadataURLs")
		ps := f.NonRecvParams()
		c.Need(len(ps) == 2, "protectedResourceMetadataURLs(metadataURL, resourceURL)")
		resP := types.Object(ps[1])
		// the parsed form of the requested URL
		var parsed types.Object
		for _, w := range Writes(f.Body, false) {
			if as, ok := w.Stmt.(*ast.AssignStmt); ok && len(as.Rhs) == 1 && len(as.Lhs) == 2 {
				if ce, ok := ast.Unparen(as.Rhs[0]).(*ast.CallExpr); ok && f.Callee(ce) != nil && f.Callee(ce).FullName() == "net/url.Parse" && len(ce.Args) == 1 && f.ObjOf(ce.Args[0]) == resP {
					parsed = f.ObjOf(as.Lhs[0])
				}
			}
		}
		n := 0
		ast.Inspect(f.Body, func(x ast.Node) bool {
			cl, ok := x.(*ast.CompositeLit)
			if !ok || namedOf(f.TypeOf(cl)) == nil || namedOf(f.TypeOf(cl)).Obj().Name() != "prmURL" {
				return true
			}
			for _, el := range cl.Elts {
				kv, ok := el.(*ast.KeyValueExpr)
				if !ok {
					continue
				}
				if k, ok := kv.Key.(*ast.Ident); !ok || k.Name != "Resource" {
					continue
				}
				n++
				v := ast.Unparen(kv.Value)
				okV := f.ObjOf(v) == resP
				if ce, isC := v.(*ast.CallExpr); isC && len(ce.Args) == 0 {
					if sel, isS := ast.Unparen(ce.Fun).(*ast.SelectorExpr); isS && sel.Sel.Name == "String" && parsed != nil && f.ObjOf(sel.X) == parsed {
						okV = true
					}
				}
				c.Check(okV, "prm-candidate:expected-resource#"+itoa(n), f, kv, "the expected resource is the requested URL (or the String of its parsed form), got %s", exprStr(kv.Value))
			}
			return true
		})
		c.Pin("prmURL candidates with an expected resource", n, 3)
	})

	c.Rule("R-C15-7", "what counts as loopback is exactly the name localhost and the loopback addresses: util.IsLoopback answers true only under host == \"localhost\" (equality, not a suffix or substring) or by netip.Addr.IsLoopback of the parsed host; every other return is false", func() {
		f := c.Fn("internal/util", "", "IsLoopback")
		g := f.Graph()
		n := 0
		for i, r := range f.Returns() {
			if len(r.Results) != 1 {
				continue
			}
			n++
			res := ast.Unparen(r.Results[0])
			if cv := f.ConstVal(res); cv != nil && cv.Kind() == constant.Bool {
				if !constant.BoolVal(cv) {
					c.Ok("IsLoopback:return#"+itoa(i), f, r, "answers false")
					continue
				}
				guards := g.GuardsAt(g.VertexOf(r))
				okEq := hasAtom(guards, func(a Atom) bool {
					_, y, op, isCmp := binaryCmp(a.E)
					sv, isS := f.ConstString(y)
					return isCmp && op == token.EQL && a.Val && isS && sv == "localhost"
				})
				nl, what := g.semanticLeaves(g.VertexOf(r))
				c.Check(okEq && nl <= 1, "IsLoopback:return#"+itoa(i), f, r, "true is answered under host == \"localhost\" and nothing else (tests: %s)", what)
				continue
			}
			ce, isCall := res.(*ast.CallExpr)
			okCall := false
			if isCall {
				if fn := f.Callee(ce); fn != nil && fn.Name() == "IsLoopback" && fn.Pkg() != nil && (fn.Pkg().Path() == "net/netip" || fn.Pkg().Path() == "net") {
					okCall = true
				}
			}
			c.Check(okCall, "IsLoopback:return#"+itoa(i), f, r, "the remaining answer is the standard library's IsLoopback of the parsed address")
		}
		c.Pin("IsLoopback returns", n, 3)
	})
	httpsOrLb := c.FnObj(pO, "", "checkHTTPSOrLoopback")
	scheme := c.FnObj(pO, "", "checkURLScheme")

	// validatedArg: some call of `check` on expression printed as arg dominates vertex v with its error tested.
	checkedBefore := func(f *Func, check *types.Func, arg func(ast.Expr) bool, v int) bool {
		g := f.Graph()
		for _, cv := range g.callVertices(check) {
			for _, call := range f.CallsIn(g.Node(cv), check, false) {
				if !arg(call.Args[0]) || !g.Dominates(cv, v) {
					continue
				}
				ev := errVarOfCall(f, g.Node(cv))
				if ev != nil && hasAtom(g.GuardsAt(v), func(a Atom) bool { return AtomSaysNil(a, true, func(e ast.Expr) bool { return f.ObjOf(e) == ev }) }) {
					return true
				}
			}
		}
		return false
	}

	c.Rule("R-C15-1", "metadata is fetched only from URLs that passed the https-or-loopback test", func() {
		getJSON := c.FnObj(pO, "", "getJSON")
		n := 0
		for _, rel := range []string{pO, pA, "auth/extauth"} {
			for _, f := range c.funcsWithLits(rel) {
				for _, call := range f.CallsIn(f.Body, getJSON, false) {
					n++
					g := f.Graph()
					urlObj := f.ObjOf(call.Args[2])
					ok := urlObj != nil && checkedBefore(f, httpsOrLb, func(e ast.Expr) bool { return f.ObjOf(e) == urlObj }, g.VertexOf(call))
					root := f.Root().Name()
					c.Check(ok && (root == "GetProtectedResourceMetadata" || root == "GetAuthServerMeta"), "getJSON:"+f.Name(), f, call, "the fetch of %s is dominated by a successful checkHTTPSOrLoopback of the same URL", exprStr(call.Args[2]))
				}
			}
		}
		c.Pin("getJSON call sites", n, 2)
	})

	c.Rule("R-C15-2", "fetched documents are trusted only if they match what was asked for and are safe: resource/issuer identity, PKCE, URL validation; validation failures are errors, never 'no metadata'", func() {
		prm := c.Fn(pO, "", "GetProtectedResourceMetadata")
		pg := prm.Graph()
		for i, r := range successReturns(prm) {
			rv := pg.VertexOf(r)
			guards := pg.GuardsAt(rv)
			okRes := hasAtom(guards, func(a Atom) bool {
				x, y, op, ok := cmpOn(a.E, func(e ast.Expr) bool { return prm.FieldPath(e) == "ProtectedResourceMetadata.Resource" })
				return ok && op == token.NEQ && !a.Val && prm.FieldPath(x) == "ProtectedResourceMetadata.Resource" && len(prm.NonRecvParams()) >= 3 && prm.ObjOf(y) == types.Object(prm.NonRecvParams()[2])
			})
			c.Check(okRes, "PRM:resource-matches#"+itoa(i), prm, r, "protected-resource metadata is returned only if its resource equals the requested resource URL (guards: %s)", atomsString(guards))
			// both URL checks in a loop over authorization_servers that dominates the return
			okLoop := false
			inspectNoLit(prm.Body, func(n ast.Node) {
				rs, ok := n.(*ast.RangeStmt)
				if !ok || prm.FieldPath(rs.X) != "ProtectedResourceMetadata.AuthorizationServers" || !pg.Dominates(pg.VertexOf(rs.X), rv) {
					return
				}
				has := map[*types.Func]bool{}
				for _, chk := range []*types.Func{scheme, httpsOrLb} {
					for _, call := range prm.CallsIn(rs.Body, chk, false) {
						if prm.ObjOf(call.Args[0]) != prm.ObjOf(rs.Value) {
							continue
						}
						// failing check returns an error
						if prm.failureReturnsError(call) {
							has[chk] = true
						}
					}
				}
				// a check under another name counts by what it decides: applied to the entry, it refuses a script-capable
				// scheme / a scheme other than https on a host that is not loopback (evaluated on the callee's own graph with
				// the constant arguments of this call)
				for _, call := range prm.AllCalls(rs.Body, false) {
					fn := prm.Callee(call)
					if fn == nil || fn == scheme || fn == httpsOrLb || fn.Pkg() == nil || fn.Pkg() != prm.Pkg.Types || len(call.Args) == 0 || prm.ObjOf(call.Args[0]) != prm.ObjOf(rs.Value) || rs.Value == nil {
						continue
					}
					cf := c.P.FuncOf(fn)
					if cf == nil || cf.Body == nil || !prm.failureReturnsError(call) {
						continue
					}
					bools := c15ConstBoolArgs(prm, cf, call)
					if c15RefusesAll(c, cf, 0, []string{"javascript", "data"}, bools) {
						has[scheme] = true
					}
					if c15RefusesAll(c, cf, 0, []string{"http", "ftp", ""}, bools) {
						has[httpsOrLb] = true
					}
				}
				okLoop = has[scheme] && has[httpsOrLb]
			})
			c.Check(okLoop, "PRM:authorization-servers-validated#"+itoa(i), prm, r, "every authorization_servers entry passes checkURLScheme and checkHTTPSOrLoopback before the document is returned")
		}
		// what the two checks decide (the rules above and R-C15-1/-3 rely on their names): for a non-empty URL that parses,
		// checkHTTPSOrLoopback accepts no scheme other than https on a host that is not loopback, and checkURLScheme accepts no
		// script-capable scheme - evaluated with concrete schemes on the function's graph, whatever the spelling of the test
		if hf := c.P.FuncOf(httpsOrLb); hf != nil && hf.Body != nil {
			c.touch(hf)
			for _, sch := range []string{"http", "ftp", ""} {
				acc, dec := c15Accepts(c, hf, 0, sch, nil, 0)
				key := "checkHTTPSOrLoopback:refuses-non-loopback[" + sch + "]"
				if !dec {
					c.Undecided(key, hf, nil, "the outcome for a %q URL on a host that is not loopback is computed in a way this rule does not evaluate", sch)
				} else {
					c.Check(!acc, key, hf, nil, "a URL with scheme %q on a host that is not loopback is never accepted (no `return nil` is reachable)", sch)
				}
			}
		}
		if sf := c.P.FuncOf(scheme); sf != nil && sf.Body != nil {
			c.touch(sf)
			for _, sch := range []string{"javascript", "data"} {
				acc, dec := c15Accepts(c, sf, 0, sch, nil, 0)
				key := "checkURLScheme:refuses[" + sch + "]"
				if !dec {
					c.Undecided(key, sf, nil, "the outcome for a %q URL is computed in a way this rule does not evaluate", sch)
				} else {
					c.Check(!acc, key, sf, nil, "a URL with the script-capable scheme %q is never accepted (no `return nil` is reachable)", sch)
				}
			}
		}
		asmF := c.Fn(pO, "", "GetAuthServerMeta")
		ag := asmF.Graph()
		var good []*ast.ReturnStmt
		for _, r := range successReturns(asmF) {
			if !isNilIdent(r.Results[0]) {
				good = append(good, r)
			}
		}
		c.Pin("GetAuthServerMeta document returns", len(good), 1)
		for i, r := range good {
			rv := ag.VertexOf(r)
			guards := ag.GuardsAt(rv)
			iss := hasAtom(guards, func(a Atom) bool {
				ce, ok := a.E.(*ast.CallExpr)
				return ok && a.Val && asmF.Callee(ce) != nil && asmF.Callee(ce).Name() == "IssuersEqual" && asmF.FieldPath(ce.Args[0]) == "AuthServerMeta.Issuer" && len(asmF.NonRecvParams()) >= 3 && asmF.ObjOf(ce.Args[1]) == types.Object(asmF.NonRecvParams()[2])
			})
			pkce := hasAtom(guards, func(a Atom) bool {
				x, y, op, ok := binaryCmp(a.E)
				z, isZ := asmF.ConstInt(y)
				return ok && op == token.EQL && !a.Val && strings.Contains(asmF.canonLen(x), "AuthServerMeta.CodeChallengeMethodsSupported") && isZ && z == 0
			})
			docVar := asmF.ObjOf(r.Results[0])
			urls := docVar != nil && checkedBefore(asmF, c.FnObj(pO, "", "validateAuthServerMetaURLs"), func(e ast.Expr) bool { return asmF.ObjOf(e) == docVar }, rv)
			c.Check(iss, "ASM:issuer-matches#"+itoa(i), asmF, r, "metadata is returned only if its issuer equals the issuer asked for (guards: %s)", atomsString(guards))
			c.Check(pkce, "ASM:pkce-required#"+itoa(i), asmF, r, "metadata is returned only if PKCE methods are advertised")
			c.Check(urls, "ASM:urls-validated#"+itoa(i), asmF, r, "metadata is returned only after validateAuthServerMetaURLs succeeded")
		}
		// (nil, nil) only for 4xx
		for i, r := range successReturns(asmF) {
			if !isNilIdent(r.Results[0]) {
				continue
			}
			guards := ag.GuardsAt(ag.VertexOf(r))
			// 400 <= code and code < 500 on the status code of the HTTP error, both known to hold here (constants are on the
			// right after normalisation; the two tests may be conjuncts of one condition or conditions of nested ifs)
			bounds := map[token.Token]int64{}
			for _, a := range guards {
				if !a.Val {
					continue
				}
				if x, y, op, ok := binaryCmp(a.E); ok && strings.HasSuffix(asmF.FieldPath(x), ".StatusCode") {
					if v, isC := asmF.ConstInt(y); isC {
						bounds[op] = v
					}
				}
			}
			ok4 := len(bounds) == 2 && bounds[token.GEQ] == 400 && bounds[token.LSS] == 500
			c.Check(ok4, "ASM:no-metadata-only-for-4xx#"+itoa(i), asmF, r, "'no metadata' (nil, nil) is reported only for a 4xx answer (guards: %s)", atomsString(guards))
		}
		// auth.GetAuthServerMetadata propagates errors
		gm := c.Fn(pA, "", "GetAuthServerMetadata")
		gg := gm.Graph()
		getM := c.FnObj(pO, "", "GetAuthServerMeta")
		cv := gg.callVertices(getM)
		c.Need(len(cv) == 1, "GetAuthServerMetadata: GetAuthServerMeta call")
		ev := errVarOfCall(gm, gg.Node(cv[0]))
		onlyErr, loopsBack, tested := true, false, false
		for _, cvx := range gg.condVertices() {
			cond := gg.Node(cvx - 1).(ast.Expr)
			x, twn, ok := NilTest(cond)
			if !ok || twn || gm.ObjOf(x) != ev || ev == nil {
				continue // must be exactly `err != nil`; a wider condition (err != nil || asm == nil) is not an error test
			}
			tested = true
			t, _ := gg.BranchTargets(cvx - 1)
			s3, _ := gg.reach([]int{t}, nil, nil)
			if s3[cv[0]] {
				loopsBack = true
			}
			for _, r := range gm.Returns() {
				if s3[gg.VertexOf(r)] || gg.VertexOf(r) == t {
					if len(r.Results) != 2 || gm.ObjOf(r.Results[1]) != ev {
						onlyErr = false
					}
				}
			}
		}
		onlyErr = onlyErr && tested
		// "matches" means equal: the issuer comparison helper compares the two strings exactly (a trailing slash aside); any
		// folding (case, Unicode) would accept metadata, or hand pre-registered credentials, for a different tenant path
		ie := c.Fn("internal/authutil", "", "IssuersEqual")
		okEq := false
		for _, r := range ie.Returns() {
			if len(r.Results) == 1 {
				if b, isB := ast.Unparen(r.Results[0]).(*ast.BinaryExpr); isB && b.Op == token.EQL {
					okEq = true
				}
			}
		}
		for _, call := range ie.AllCalls(ie.Body, false) {
			if fn := ie.Callee(call); fn != nil {
				switch fn.Name() {
				case "TrimSuffix", "TrimRight":
				default:
					okEq = false
				}
			}
		}
		c.Check(okEq && len(ie.Returns()) == 1, "IssuersEqual:exact", ie, nil, "issuer identifiers are compared with == after removing a trailing slash, and with nothing else (no EqualFold / ToLower / normalisation)")
		c.Check(onlyErr && !loopsBack, "GetAuthServerMetadata:validation-error-is-fatal", gm, gg.Node(cv[0]), "an error from GetAuthServerMeta (failed validation, 5xx) is returned to the caller; it is never treated like a missing document (which would silently switch to the predefined-endpoint fallback)")
	})

	c.Rule("R-C15-3", "the URL validation tables cover every URL field of the metadata structs, and every endpoint the client actually uses is in the https-or-loopback table", func() {
		checkTables := func(structName, validator string, extraLoopField string) {
			st := c.P.LookupType(pO, structName)
			c.Need(st != nil, "oauthex."+structName)
			vf := c.Fn(pO, "", validator)
			// which fields of the metadata struct does each check see? For every loop over a table of rows (a slice literal
			// of structs holding, among other columns, a field of the metadata struct) whose body calls the check, a row counts
			// when the call is reachable with the row's constant boolean columns substituted into the branch conditions — so
			// two tables, or one table with a "called" column, are the same thing
			vg := vf.Graph()
			stS := st.Underlying().(*types.Struct)
			isMetaField := func(e ast.Expr) (string, bool) {
				sel, ok := ast.Unparen(e).(*ast.SelectorExpr)
				if !ok {
					return "", false
				}
				fv, _ := vf.ObjOf(sel.Sel).(*types.Var)
				for i := 0; i < stS.NumFields(); i++ {
					if fv != nil && stS.Field(i) == fv {
						return fv.Name(), true
					}
				}
				return "", false
			}
			tableOf := func(rs *ast.RangeStmt) *ast.CompositeLit {
				if cl, ok := ast.Unparen(rs.X).(*ast.CompositeLit); ok {
					return cl
				}
				tv := vf.ObjOf(rs.X)
				if tv == nil {
					return nil
				}
				var best *ast.CompositeLit
				bestV := -1
				for _, w := range Writes(vf.Body, false) {
					if vf.ObjOf(w.LHS) != tv || w.RHS == nil {
						continue
					}
					cl, ok := ast.Unparen(w.RHS).(*ast.CompositeLit)
					if !ok {
						continue
					}
					wv := vg.VertexOf(w.Stmt)
					if vg.Dominates(wv, vg.VertexOf(rs.X)) && (bestV < 0 || vg.Dominates(bestV, wv)) {
						best, bestV = cl, wv
					}
				}
				return best
			}
			nTables := 0
			seenTables := map[*ast.CompositeLit]bool{}
			covered := func(chk *types.Func) map[string]bool {
				out := map[string]bool{}
				inspectNoLit(vf.Body, func(n ast.Node) {
					rs, ok := n.(*ast.RangeStmt)
					if !ok || rs.Value == nil {
						return
					}
					calls := vf.CallsIn(rs.Body, chk, false)
					// a check under another name, possibly steered by a column of the row (`check(u.value, u.fetched)`): it counts
					// for a row when, with the row's constants bound to its boolean parameters, it decides what chk decides
					var alt []*ast.CallExpr
					for _, call := range vf.AllCalls(rs.Body, false) {
						fn := vf.Callee(call)
						if fn == nil || fn == scheme || fn == httpsOrLb || fn.Pkg() != vf.Pkg.Types || len(call.Args) == 0 {
							continue
						}
						if cf := c.P.FuncOf(fn); cf != nil && cf.Body != nil && len(cf.NonRecvParams()) == len(call.Args) {
							alt = append(alt, call)
						}
					}
					if len(calls) == 0 && len(alt) == 0 {
						return
					}
					cl := tableOf(rs)
					if cl == nil {
						return
					}
					sl, isSlice := vf.TypeOf(cl).Underlying().(*types.Slice)
					if !isSlice {
						return
					}
					rowT, isStruct := sl.Elem().Underlying().(*types.Struct)
					if !isStruct {
						return
					}
					if !seenTables[cl] {
						seenTables[cl] = true
						nTables++
					}
					rowVar := vf.ObjOf(rs.Value)
					for _, el := range cl.Elts {
						row, ok := el.(*ast.CompositeLit)
						if !ok {
							continue
						}
						name := ""
						flags := map[string]bool{}
						for i, e := range row.Elts {
							col := ""
							val := e
							if kv, isKV := e.(*ast.KeyValueExpr); isKV {
								col, val = exprStr(kv.Key), kv.Value
							} else if i < rowT.NumFields() {
								col = rowT.Field(i).Name()
							}
							if nm, isF := isMetaField(val); isF {
								name = nm
							}
							if bv, isB := vf.ConstBool(val); isB {
								flags[col] = bv
							}
						}
						if name == "" {
							continue
						}
						// unset boolean columns are false
						for i := 0; i < rowT.NumFields(); i++ {
							if b, isB := rowT.Field(i).Type().Underlying().(*types.Basic); isB && b.Kind() == types.Bool {
								if _, set := flags[rowT.Field(i).Name()]; !set {
									flags[rowT.Field(i).Name()] = false
								}
							}
						}
						reach := vg.ReachUnder(func(e ast.Expr) tri {
							sel, ok := ast.Unparen(e).(*ast.SelectorExpr)
							if !ok || vf.ObjOf(sel.X) != rowVar {
								return triUnknown
							}
							if bv, has := flags[sel.Sel.Name]; has {
								if bv {
									return triTrue
								}
								return triFalse
							}
							return triUnknown
						}, nil)
						for _, call := range calls {
							if len(call.Args) == 1 {
								if as, isSel := ast.Unparen(call.Args[0]).(*ast.SelectorExpr); isSel && vf.ObjOf(as.X) == rowVar && reach[vg.VertexOf(call)] {
									out[name] = true
								}
							}
						}
						for _, call := range alt {
							as, isSel := ast.Unparen(call.Args[0]).(*ast.SelectorExpr)
							if !isSel || vf.ObjOf(as.X) != rowVar || !reach[vg.VertexOf(call)] || !vf.failureReturnsError(call) {
								continue
							}
							cf := c.P.FuncOf(vf.Callee(call))
							bools := c15ConstBoolArgs(vf, cf, call)
							for i, a := range call.Args {
								if sel, ok := ast.Unparen(a).(*ast.SelectorExpr); ok && vf.ObjOf(sel.X) == rowVar {
									if bv, has := flags[sel.Sel.Name]; has {
										bools[cf.NonRecvParams()[i]] = bv
									}
								}
							}
							schemes := []string{"javascript", "data"}
							if chk == httpsOrLb {
								schemes = []string{"http", "ftp", ""}
							}
							if c15RefusesAll(c, cf, 0, schemes, bools) {
								out[name] = true
							}
						}
					}
				})
				return out
			}
			sch := covered(scheme)
			c.Need(len(sch) >= 1, validator+": URL tables")
			var tables []map[string]bool
			tables = append(tables, sch)
			if https := covered(httpsOrLb); len(https) > 0 {
				tables = append(tables, https)
			}
			for _, fld := range structFields(st) {
				tag, _ := jsonTag(st.Underlying().(*types.Struct).Tag(fieldIndex(st, fld)), fld.Name())
				isURL := strings.HasSuffix(tag, "_endpoint") || strings.HasSuffix(tag, "_uri") || tag == "service_documentation"
				b, isBasic := fld.Type().Underlying().(*types.Basic)
				if !isURL || !isBasic || b.Kind() != types.String {
					continue
				}
				c.Check(sch[fld.Name()], validator+":scheme-table-covers-"+tag, vf, nil, "%s.%s (%s) is in the script-scheme validation table (struct comment: \"If you add a new URL field, you must also add it to that function\")", structName, fld.Name(), tag)
			}
			if extraLoopField != "" {
				okLoop := false
				inspectNoLit(vf.Body, func(n ast.Node) {
					if rs, ok := n.(*ast.RangeStmt); ok && strings.HasSuffix(vf.FieldPath(rs.X), "."+extraLoopField) && len(vf.CallsIn(rs.Body, scheme, false)) > 0 {
						okLoop = true
					}
				})
				c.Check(okLoop, validator+":covers-"+extraLoopField, vf, nil, "every %s entry is scheme-checked", extraLoopField)
			}
			if structName == "AuthServerMeta" {
				c.Check(len(tables) == 2, validator+":table-count", vf, nil, "both checks are applied to rows of a table: the script-scheme check and the https-or-loopback check (%d of 2 found, %d table literals)", len(tables), nTables)
			}
			if len(tables) >= 2 {
				https := tables[1]
				// every URL field of the struct read outside oauthex's validators must be https-checked
				used := map[string]string{}
				for _, rel := range []string{pA, "auth/extauth", pO} {
					if c.P.Pkg(rel) == nil {
						continue
					}
					for _, f := range c.funcsWithLits(rel) {
						if f.Root().Name() == validator {
							continue
						}
						for _, fld := range structFields(st) {
							tag, _ := jsonTag(st.Underlying().(*types.Struct).Tag(fieldIndex(st, fld)), fld.Name())
							if !(strings.HasSuffix(tag, "_endpoint") || strings.HasSuffix(tag, "_uri")) {
								continue
							}
							for _, sel := range f.FieldRefs(f.Body, fld, false) {
								// reads only (not the fallback literal that constructs the struct)
								if _, isKV := f.ParentOf(sel).(*ast.KeyValueExpr); isKV && f.ParentOf(sel).(*ast.KeyValueExpr).Key == ast.Expr(sel) {
									continue
								}
								used[fld.Name()] = f.At(sel)
							}
						}
					}
				}
				for name, at := range used {
					c.Check(https[name], validator+":https-table-covers-used-"+name, vf, nil, "%s.%s is consumed by the client (%s) and is in the https-or-loopback table: a consumed endpoint cannot escape validation", structName, name, at)
				}
				c.Pin(validator+": consumed endpoints", len(used), 3)
			}
		}
		checkTables("AuthServerMeta", "validateAuthServerMetaURLs", "")
		checkTables("ClientRegistrationMetadata", "validateClientRegistrationURLs", "RedirectURIs")
	})

	c.Rule("R-C15-4", "an authorization code is exchanged, and a token installed, only after the state and RFC 9207 issuer checks passed", func() {
		az := c.Fn(pA, "AuthorizationCodeHandler", "Authorize")
		g := az.Graph()
		exch := c.FnObj(pA, "AuthorizationCodeHandler", "exchangeAuthorizationCode")
		getCode := c.FnObj(pA, "AuthorizationCodeHandler", "getAuthorizationCode")
		vir := c.FnObj(pA, "", "validateIssuerResponse")
		ev := g.callVertices(exch)
		c.Need(len(ev) == 1, "Authorize: exchangeAuthorizationCode call")
		gv, vv := g.callVertices(getCode), g.callVertices(vir)
		c.Need(len(gv) == 1 && len(vv) == 1, "Authorize: getAuthorizationCode and validateIssuerResponse calls")
		guards := g.GuardsAt(ev[0])
		ge, ve := errVarOfCall(az, g.Node(gv[0])), errVarOfCall(az, g.Node(vv[0]))
		okG := g.Dominates(gv[0], ev[0]) && g.Dominates(vv[0], ev[0])
		okVE := ve != nil && hasAtom(guards, func(a Atom) bool { return AtomSaysNil(a, true, func(e ast.Expr) bool { return az.ObjOf(e) == ve }) })
		_ = ge
		c.Check(okG && okVE, "Authorize:exchange-after-checks", az, g.Node(ev[0]), "exchangeAuthorizationCode is dominated by getAuthorizationCode and by validateIssuerResponse returning nil (guards: %s)", atomsString(guards))
		// validateIssuerResponse gets the response's iss, the metadata's issuer and support flag
		vcall := az.CallsIn(g.Node(vv[0]), vir, false)[0]
		c.Check(strings.HasSuffix(az.FieldPath(vcall.Args[0]), ".Iss") && az.ObjOf(ast.Unparen(vcall.Args[0]).(*ast.SelectorExpr).X) == az.VarFromCall(getCode, 0) && az.FieldPath(vcall.Args[1]) == "AuthServerMeta.Issuer" && az.FieldPath(vcall.Args[2]) == "AuthServerMeta.AuthorizationResponseIssParameterSupported", "Authorize:issuer-check-arguments", az, vcall, "the issuer check compares the response's iss with the metadata issuer under the advertised support flag")
		// decision table of validateIssuerResponse
		vf := c.Fn(pA, "", "validateIssuerResponse")
		vg := vf.Graph()
		c.Need(len(vf.Params()) == 3, "validateIssuerResponse(iss, expectedIssuer, supported)")
		iss, exp, sup := vf.Params()[0], vf.Params()[1], vf.Params()[2]
		type sc struct {
			name              string
			sup, empty, equal tri
			accept            bool
		}
		for _, s := range []sc{
			{"advertised,missing", triTrue, triTrue, triUnknown, false},
			{"advertised,mismatch", triTrue, triFalse, triFalse, false},
			{"advertised,match", triTrue, triFalse, triTrue, true},
			{"not-advertised,present", triFalse, triFalse, triUnknown, false},
			{"not-advertised,absent", triFalse, triTrue, triUnknown, true},
		} {
			seen := vg.ReachUnder(func(e ast.Expr) tri {
				e = ast.Unparen(e)
				if vf.ObjOf(e) == types.Object(sup) {
					return s.sup
				}
				if x, y, op, ok := cmpOn(e, func(z ast.Expr) bool { return vf.ObjOf(z) == types.Object(iss) }); ok && vf.ObjOf(x) == types.Object(iss) {
					if str, isC := vf.ConstString(y); isC && str == "" {
						if op == token.EQL {
							return s.empty
						}
						return triNot(s.empty)
					}
					if vf.ObjOf(y) == types.Object(exp) {
						if op == token.EQL {
							return s.equal
						}
						return triNot(s.equal)
					}
				}
				return triUnknown
			}, nil)
			acc, rej := false, false
			for _, r := range vf.Returns() {
				if seen[vg.VertexOf(r)] {
					if isNilIdent(r.Results[0]) {
						acc = true
					} else {
						rej = true
					}
				}
			}
			c.paths++
			c.Check(acc == s.accept && rej == !s.accept, "validateIssuerResponse["+s.name+"]", vf, nil, "accepted=%v rejected=%v (expected accepted=%v)", acc, rej, s.accept)
		}
		// state check
		gc := c.Fn(pA, "AuthorizationCodeHandler", "getAuthorizationCode")
		gcg := gc.Graph()
		var stateVar types.Object
		for _, w := range Writes(gc.Body, false) {
			if ce, ok := ast.Unparen(w.RHS).(*ast.CallExpr); ok && w.RHS != nil && gc.Callee(ce) != nil && gc.Callee(ce).FullName() == "crypto/rand.Text" {
				stateVar = gc.ObjOf(w.LHS)
			}
		}
		c.Check(stateVar != nil && len(gc.writesToVar(gc.Body, stateVar, true)) == 1, "getAuthorizationCode:fresh-state", gc, nil, "the state is a fresh crypto/rand.Text() value generated for this attempt")
		for i, r := range successReturns(gc) {
			guards := gcg.GuardsAt(gcg.VertexOf(r))
			c.Check(hasAtom(guards, func(a Atom) bool {
				x, y, op, ok := cmpOn(a.E, func(e ast.Expr) bool { return strings.HasSuffix(gc.FieldPath(e), ".State") })
				return ok && op == token.NEQ && !a.Val && strings.HasSuffix(gc.FieldPath(x), ".State") && gc.ObjOf(y) == stateVar
			}), "getAuthorizationCode:state-verified#"+itoa(i), gc, r, "a code is handed on only if the returned state equals the generated one (guards: %s)", atomsString(guards))
		}
		// tokenSource writers
		ts := c.Field(pA, "AuthorizationCodeHandler", "tokenSource")
		n := 0
		for _, f := range c.funcsWithLits(pA) {
			for _, w := range f.FieldWrites(f.Body, ts, false) {
				n++
				root := f.Root().Name()
				switch root {
				case "(*AuthorizationCodeHandler).exchangeAuthorizationCode":
					fg := f.Graph()
					guards := fg.GuardsAt(fg.VertexOf(w))
					var exErr types.Object
					for v := 0; v < fg.N; v++ {
						if nd := fg.Node(v); nd != nil {
							for _, call := range f.AllCalls(nd, false) {
								if fn := f.Callee(call); fn != nil && fn.Name() == "Exchange" {
									exErr = errVarOfCall(f, nd)
								}
							}
						}
					}
					c.Check(exErr != nil && hasAtom(guards, func(a Atom) bool { return AtomSaysNil(a, true, func(e ast.Expr) bool { return f.ObjOf(e) == exErr }) }) && f.heldLocal(w)["AuthorizationCodeHandler.mu"], "tokenSource-writer:"+root, f, w, "a token source is installed only after cfg.Exchange succeeded, under h.mu")
				case "NewAuthorizationCodeHandler":
					c.Ok("tokenSource-writer:"+root, f, w, "constructor")
				default:
					c.Fail("tokenSource-writer:"+root, f, w, "unexpected writer of the token source: a token could be installed without the checks")
				}
			}
		}
		c.Pin("tokenSource writers", n, 1)
		// the predefined-endpoint fallback uses the same validated authorization server
		gam := c.FnObj(pA, "", "GetAuthServerMetadata")
		okFB := false
		for _, call := range az.CallsIn(az.Body, gam, false) {
			src := canonExpr(az, call.Args[1])
			// the fallback literal's endpoints are built from a local that equals the probed server URL
			inspectNoLit(az.Body, func(n ast.Node) {
				kv, ok := n.(*ast.KeyValueExpr)
				if !ok || exprStr(kv.Key) != "TokenEndpoint" {
					return
				}
				b, isB := ast.Unparen(kv.Value).(*ast.BinaryExpr)
				if !isB {
					return
				}
				base := az.ObjOf(b.X)
				for _, w := range Writes(az.Body, false) {
					if base != nil && az.ObjOf(w.LHS) == base && w.RHS != nil && canonExpr(az, w.RHS) == src {
						okFB = true
					}
				}
			})
		}
		c.Check(okFB, "Authorize:fallback-uses-validated-server", az, nil, "the 2025-03-26 fallback derives its endpoints from the same prm.AuthorizationServers[0] (validated https/loopback) that was probed for metadata")
		fbGuard := false
		inspectNoLit(az.Body, func(n ast.Node) {
			if kv, ok := n.(*ast.KeyValueExpr); ok && exprStr(kv.Key) == "TokenEndpoint" {
				fbGuard = hasAtom(g.GuardsAt(g.VertexOf(kv)), func(a Atom) bool {
					return AtomSaysNil(a, true, func(e ast.Expr) bool { return az.ObjOf(e) != nil && az.ObjOf(e) == az.VarFromCall(gam, 0) })
				})
			}
		})
		c.Check(fbGuard, "Authorize:fallback-only-without-metadata", az, nil, "the fallback is taken only when GetAuthServerMetadata returned (nil, nil)")
	})

	c.Rule("R-C15-9", "the client credentials used in a round are resolved against that round's authorization server: a resolved client the handler remembers between rounds is handed on only when the issuer it was resolved for equals the issuer of this round (otherwise it is handed to whatever issuer the next discovery names, before the issuer binding is looked at)", func() {
		h := c.P.LookupType("auth", "AuthorizationCodeHandler")
		rc := c.P.LookupType("auth", "resolvedClientConfig")
		c.Need(h != nil && rc != nil, "AuthorizationCodeHandler / resolvedClientConfig")
		n := 0
		for _, fld := range structFields(h) {
			n++
			holds, keyed := c15HoldsNamed(fld.Type(), rc, h)
			c.sites++
			if !holds {
				c.add(c.rule, "handler-field:"+fld.Name(), c.P.Rel(fld.Pos()), vOK, "holds no resolved client")
				continue
			}
			// the field remembers a resolved client: every place that takes the client out of it is examined under the
			// valuation "the remembered issuer differs from this round's issuer"
			nRead, bad := 0, ""
			for _, f := range c.funcsWithLits(pA) {
				if f.Body == nil || len(f.FieldRefs(f.Body, fld, false)) == 0 {
					continue
				}
				c.touch(f)
				reads := c15ClientReads(f, fld, rc)
				if len(reads) == 0 {
					continue
				}
				g := f.Graph()
				tainted := c15Tainted(f, fld)
				fromMemory := func(e ast.Expr) bool {
					hit := false
					ast.Inspect(e, func(x ast.Node) bool {
						if ex, ok := x.(ast.Expr); ok && !hit {
							if f.IsField(ex, fld) {
								hit = true
							} else if fv, isF := f.ObjOf(ex).(*types.Var); isF && fv.IsField() && c15IsHandlerStringField(h, fv) {
								hit = true // a remembered issuer kept next to the remembered client
							} else if id, isID := ex.(*ast.Ident); isID && tainted[f.ObjOf(id)] {
								hit = true
							}
						}
						return !hit
					})
					return hit
				}
				reach := g.ReachUnder(func(e ast.Expr) tri {
					e = ast.Unparen(e)
					if ce, ok := e.(*ast.CallExpr); ok {
						if fn := f.Callee(ce); fn != nil && fn.Name() == "IssuersEqual" && len(ce.Args) == 2 && (fromMemory(ce.Args[0]) || fromMemory(ce.Args[1])) {
							return triFalse
						}
						return triUnknown
					}
					if x, y, op, ok := binaryCmp(e); ok && op == token.EQL && f.ConstVal(x) == nil && f.ConstVal(y) == nil && (fromMemory(x) != fromMemory(y)) {
						bx, okx := f.TypeOf(x).Underlying().(*types.Basic)
						by, oky := f.TypeOf(y).Underlying().(*types.Basic)
						if okx && oky && bx.Kind() == types.String && by.Kind() == types.String && f.TypeOf(x) == f.TypeOf(y) && namedOf(f.TypeOf(x)) == nil {
							return triFalse
						}
					}
					return triUnknown
				}, nil)
				for _, r := range reads {
					nRead++
					if reach[g.VertexOf(r)] && bad == "" {
						bad = f.At(r) + " (" + exprStr(r) + " in " + f.Name() + ")"
					}
				}
			}
			key := "handler-field:" + fld.Name()
			switch {
			case nRead == 0:
				c.add(c.rule, key, c.P.Rel(fld.Pos()), vOK, "remembers a resolved client that nothing takes out again")
			case keyed:
				c.add(c.rule, key, c.P.Rel(fld.Pos()), vUndecided, "AuthorizationCodeHandler."+fld.Name()+" keeps resolved clients in a keyed collection; whether the key is the issuer of the round is not decided by this rule")
			case bad != "":
				c.add(c.rule, key, c.P.Rel(fld.Pos()), vViolation, "AuthorizationCodeHandler."+fld.Name()+" keeps a resolved client between authorization rounds, and it is taken out again at "+bad+" on a path on which the issuer it was resolved for differs from the issuer of this round")
			default:
				c.add(c.rule, key, c.P.Rel(fld.Pos()), vOK, "the remembered client is taken out only when the issuer it was resolved for equals the issuer of the round ("+itoa(nRead)+" reads)")
			}
		}
		c.Pin("fields of AuthorizationCodeHandler", n, 3)
	})

	c.Rule("R-C15-5", "credentials pre-registered for a named issuer are never used with another one; dynamic registration goes to the metadata's registration endpoint", func() {
		hr := c.Fn(pA, "AuthorizationCodeHandler", "handleRegistration")
		g := hr.Graph()
		n := 0
		for i, r := range successReturns(hr) {
			s := exprStr(r.Results[0])
			_ = s
			isPre := false
			ast.Inspect(r.Results[0], func(x ast.Node) bool {
				if id, ok := x.(*ast.Ident); ok && id.Name == "registrationTypePreregistered" {
					isPre = true
				}
				return true
			})
			if !isPre {
				continue
			}
			n++
			guards := g.GuardsAt(g.VertexOf(r))
			ok := hasAtom(guards, func(a Atom) bool {
				if a.Val {
					return false
				}
				b, isB := a.E.(*ast.BinaryExpr)
				if !isB || b.Op != token.LAND {
					return false
				}
				in, neg := stripNot(b.Y)
				ce, isC := in.(*ast.CallExpr)
				return neg && isC && hr.Callee(ce) != nil && hr.Callee(ce).Name() == "IssuersEqual" && strings.HasSuffix(hr.FieldPath(ce.Args[0]), ".Issuer") && hr.FieldPath(ce.Args[1]) == "AuthServerMeta.Issuer" && func() bool {
					x, y, op, isCmp := binaryCmp(b.X) // exactly one further conjunct: <configured issuer> != ""
					str, isC := hr.ConstString(y)
					return isCmp && op == token.NEQ && isC && str == "" && exprStr(x) == exprStr(ce.Args[0])
				}()
			})
			c.Check(ok, "handleRegistration:preregistered-issuer-bound#"+itoa(i), hr, r, "pre-registered credentials are returned only if no issuer is configured or it equals the metadata issuer (guards: %s)", atomsString(guards))
		}
		c.Pin("pre-registered returns", n, 1)
		rc := c.FnObj(pO, "", "RegisterClient")
		for _, call := range hr.CallsIn(hr.Body, rc, false) {
			c.Check(hr.FieldPath(call.Args[1]) == "AuthServerMeta.RegistrationEndpoint", "handleRegistration:dcr-endpoint", hr, call, "RegisterClient is sent to asm.RegistrationEndpoint (validated https/loopback by validateAuthServerMetaURLs or derived from the validated server URL)")
		}
	})

	c.Rule("R-C15-6", "no error of the discovery / registration / code-exchange flow is dropped: every call in the flow's functions whose callee returns an error binds it and, when it is non-nil, every path returns an error (exceptions are a closed table)", func() {
		// "<function>:<callee>" → reason (confirmed by reading)
		exempt := map[string]string{
			"(*AuthorizationCodeHandler).getProtectedResourceMetadata:GetProtectedResourceMetadata": "the well-known locations are probed in turn; a location that fails (or fails validation) is skipped and the next one is tried; what is returned in the end is either a document that passed GetProtectedResourceMetadata's checks or the explicit legacy fallback",
			"GetAuthServerMeta:getJSON": "a 4xx answer means 'no metadata at this location' and is reported as (nil, nil); R-C15-2 (ASM:no-metadata-only-for-4xx) pins exactly that; every other failure returns an error",
		}
		flow := map[string][]string{
			pA: {"Authorize", "handleRegistration", "getAuthorizationCode", "exchangeAuthorizationCode", "GetAuthServerMetadata", "getProtectedResourceMetadata", "protectedResourceMetadataFromChallenges", "validateIssuerResponse"},
			pO: {"GetProtectedResourceMetadata", "GetAuthServerMeta", "getJSON", "RegisterClient", "validateAuthServerMetaURLs", "validateClientRegistrationURLs", "getPRM", "checkURLScheme", "checkHTTPSOrLoopback"},
		}
		errT := types.Universe.Lookup("error").Type()
		n, nf := 0, 0
		for rel, names := range flow {
			for _, f := range c.funcsWithLits(rel) {
				root := f.Root()
				in := false
				for _, nm := range names {
					if root.Obj != nil && root.Obj.Name() == nm {
						in = true
					}
				}
				if !in || f.Lit != nil {
					continue
				}
				nf++
				c.touch(f)
				for _, call := range f.AllCalls(f.Body, false) {
					fn := f.Callee(call)
					if fn == nil {
						continue
					}
					sig, ok := fn.Type().(*types.Signature)
					if !ok || sig.Results().Len() == 0 || !types.Identical(sig.Results().At(sig.Results().Len()-1).Type(), errT) {
						continue
					}
					switch f.ParentOf(call).(type) {
					case *ast.DeferStmt, *ast.GoStmt:
						continue
					}
					key := root.Name() + ":" + fn.Name()
					if why, ok := exempt[key]; ok {
						c.Ok("error-handled:"+key, f, call, "exempt: %s", why)
						continue
					}
					n++
					// returned directly?
					if r, isRet := f.ParentOf(call).(*ast.ReturnStmt); isRet && len(r.Results) == 1 {
						c.Ok("error-handled:"+key+"#"+itoa(n), f, call, "the call's results are returned as they are")
						continue
					}
					// error constructors are values, not steps
					if fn.Pkg() != nil && (fn.Pkg().Path() == "fmt" || fn.Pkg().Path() == "errors") {
						n--
						continue
					}
					c.Check(f.failureReturnsError(call), "error-handled:"+key+"#"+itoa(n), f, call, "a failure of %s is bound to a variable, tested, and every path behind the failure returns an error (a dropped error lets the flow continue with unvalidated or missing metadata)", fn.Name())
				}
			}
		}
		c.Pin("flow functions examined", nf, 8)
		c.Pin("fallible calls in the flow", n, 25)
	})
}

func fieldIndex(n *types.Named, f *types.Var) int {
	st := n.Underlying().(*types.Struct)
	for i := 0; i < st.NumFields(); i++ {
		if st.Field(i) == f {
			return i
		}
	}
	return 0
}

// canonLen renders len(x.F) as "len(Type.F)".
func (f *Func) canonLen(e ast.Expr) string {
	if ce, ok := ast.Unparen(e).(*ast.CallExpr); ok && f.BuiltinName(ce) == "len" && len(ce.Args) == 1 {
		return "len(" + f.FieldPath(ce.Args[0]) + ")"
	}
	return f.FieldPath(e)
}

// isTableVar: e denotes a local variable holding a slice of anonymous {name, value} structs.
func isTableVar(f *Func, e ast.Expr) bool {
	v, ok := f.ObjOf(e).(*types.Var)
	if !ok || v.IsField() {
		return false
	}
	sl, ok := v.Type().Underlying().(*types.Slice)
	if !ok {
		return false
	}
	st, ok := sl.Elem().Underlying().(*types.Struct)
	return ok && st.NumFields() == 2
}

// ruleErrorDiscipline: in the named functions (Func.Name() of the declared function; literals inside are included when
// lits is set) every call whose callee returns an error binds it, tests it, and every path behind the failure returns an
// error. exempt maps "<function>:<callee>" to the reason the call is excused (confirmed by reading).
func ruleErrorDiscipline(c *Ctx, id, doc string, flow map[string][]string, exempt map[string]string, lits bool, minF, minN int) {
	c.Rule(id, doc, func() {
		errT := types.Universe.Lookup("error").Type()
		n, nf := 0, 0
		var rels []string
		for rel := range flow {
			rels = append(rels, rel)
		}
		sort.Strings(rels)
		for _, rel := range rels {
			for _, f := range c.funcsWithLits(rel) {
				root := f.Root()
				in := false
				for _, nm := range flow[rel] {
					if root.Name() == nm {
						in = true
					}
				}
				if !in || (f.Lit != nil && !lits) || f.Body == nil {
					continue
				}
				// only literals that themselves return an error can "return the error"
				if f.Lit != nil {
					res := f.Type.Results
					if res == nil || len(res.List) == 0 || !types.Identical(f.TypeOf(res.List[len(res.List)-1].Type), errT) {
						continue
					}
				}
				nf++
				c.touch(f)
				perCallee := map[string]int{}
				for _, call := range f.AllCalls(f.Body, false) {
					fn := f.Callee(call)
					if fn == nil {
						// an immediately invoked literal that returns an error is a step like any other
						if _, isLit := ast.Unparen(call.Fun).(*ast.FuncLit); isLit {
							if sg, isSig := f.TypeOf(call.Fun).(*types.Signature); isSig && sg.Results().Len() > 0 && types.Identical(sg.Results().At(sg.Results().Len()-1).Type(), errT) {
								n++
								perCallee[root.Name()+":func"]++
								k := "error-handled:" + root.Name() + ":func-literal#" + itoa(perCallee[root.Name()+":func"])
								c.Check(f.boundErrorIsReturned(call) || f.failureReturnsError(call), k, f, call, "a failure of the inline step is bound, tested, and every path behind it returns an error")
							}
						}
						continue
					}
					sig, ok := fn.Type().(*types.Signature)
					if !ok || sig.Results().Len() == 0 || !types.Identical(sig.Results().At(sig.Results().Len()-1).Type(), errT) {
						continue
					}
					switch f.ParentOf(call).(type) {
					case *ast.DeferStmt, *ast.GoStmt:
						continue
					case *ast.ExprStmt:
						// releasing a resource on the way out is not a step whose failure changes the outcome
						if fn.Name() == "Close" {
							continue
						}
					case *ast.AssignStmt:
						// `_ = x.Close()`: the same, with the discard spelled out
						as := f.ParentOf(call).(*ast.AssignStmt)
						blank := fn.Name() == "Close"
						for _, l := range as.Lhs {
							if id, isId := l.(*ast.Ident); !isId || id.Name != "_" {
								blank = false
							}
						}
						if blank {
							continue
						}
					}
					if fn.Pkg() != nil && (fn.Pkg().Path() == "fmt" || fn.Pkg().Path() == "errors") {
						continue
					}
					// ctx.Err() asks a question; it is not a step that can fail
					if fn.Name() == "Err" && fn.Pkg() != nil && fn.Pkg().Path() == "context" {
						continue
					}
					key := root.Name() + ":" + fn.Name()
					if why, ok := exempt[key]; ok {
						c.Ok("error-handled:"+key, f, call, "exempt: %s", why)
						continue
					}
					n++
					perCallee[key]++
					k := "error-handled:" + key + "#" + itoa(perCallee[key])
					if r, isRet := f.ParentOf(call).(*ast.ReturnStmt); isRet && len(r.Results) == 1 {
						c.Ok(k, f, call, "the call's results are returned as they are")
						continue
					}
					if f.boundErrorIsReturned(call) {
						c.Ok(k, f, call, "the error is bound and is what every following return hands back")
						continue
					}
					c.Check(f.failureReturnsError(call), k, f, call, "a failure of %s is bound to a variable, tested, and every path behind the failure returns an error", fn.Name())
				}
			}
		}
		c.Pin("functions examined", nf, minF)
		c.Pin("fallible calls", n, minN)
	})
}

// c15HoldsNamed: values of type t contain (through pointers, slices, maps and struct fields of the handler's own package) a
// value of the named type want; keyed says a map or slice lies on the way.
func c15HoldsNamed(t types.Type, want, owner *types.Named) (holds, keyed bool) {
	seen := map[types.Type]bool{}
	var walk func(t types.Type, d int, k bool)
	walk = func(t types.Type, d int, k bool) {
		if d > 6 || seen[t] {
			return
		}
		seen[t] = true
		switch x := t.(type) {
		case *types.Named:
			if x.Obj() == want.Obj() {
				holds = true
				keyed = keyed || k
				return
			}
			if x.Obj().Pkg() == owner.Obj().Pkg() && x.Obj() != owner.Obj() {
				if st, ok := x.Underlying().(*types.Struct); ok {
					for i := 0; i < st.NumFields(); i++ {
						walk(st.Field(i).Type(), d+1, k)
					}
				}
			}
		case *types.Pointer:
			walk(x.Elem(), d+1, k)
		case *types.Slice:
			walk(x.Elem(), d+1, true)
		case *types.Map:
			walk(x.Key(), d+1, true)
			walk(x.Elem(), d+1, true)
		case *types.Struct:
			for i := 0; i < x.NumFields(); i++ {
				walk(x.Field(i).Type(), d+1, k)
			}
		}
	}
	walk(t, 0, false)
	return
}

// c15Tainted: the locals of f that (flow-insensitively) receive a value read out of field fld.
func c15Tainted(f *Func, fld *types.Var) map[types.Object]bool {
	out := map[types.Object]bool{}
	from := func(e ast.Expr) bool {
		for {
			switch x := ast.Unparen(e).(type) {
			case *ast.SelectorExpr:
				if f.IsField(x, fld) {
					return true
				}
				e = x.X
			case *ast.StarExpr:
				e = x.X
			case *ast.IndexExpr:
				e = x.X
			case *ast.UnaryExpr:
				e = x.X
			case *ast.Ident:
				return out[f.ObjOf(x)]
			default:
				return false
			}
		}
	}
	for changed, it := true, 0; changed && it < 8; it++ {
		changed = false
		for _, w := range Writes(f.Body, false) {
			if w.RHS == nil {
				continue
			}
			v, ok := f.ObjOf(w.LHS).(*types.Var)
			if _, isID := ast.Unparen(w.LHS).(*ast.Ident); !ok || !isID || v.IsField() || out[v] {
				continue
			}
			if from(w.RHS) {
				out[v] = true
				changed = true
			}
		}
	}
	return out
}

// c15ClientReads: the expressions of f that take a value of the named type want (or a pointer to it) out of field fld, directly
// or through locals copied from it, and use it as a value (not merely as the base of a further field selection, and not as the
// target of an assignment).
func c15ClientReads(f *Func, fld *types.Var, want *types.Named) []ast.Expr {
	tainted := c15Tainted(f, fld)
	isWant := func(t types.Type) bool {
		if p, ok := t.(*types.Pointer); ok {
			t = p.Elem()
		}
		nm, ok := t.(*types.Named)
		return ok && nm.Obj() == want.Obj()
	}
	lhs := map[ast.Expr]bool{}
	for _, w := range Writes(f.Body, false) {
		lhs[w.LHS] = true
	}
	var out []ast.Expr
	inspectNoLit(f.Body, func(n ast.Node) {
		e, ok := n.(ast.Expr)
		if !ok || lhs[e] {
			return
		}
		switch e.(type) {
		case *ast.SelectorExpr, *ast.IndexExpr, *ast.StarExpr:
		default:
			return
		}
		t := f.TypeOf(e)
		if t == nil || !isWant(t) {
			return
		}
		if sel, isSel := e.(*ast.SelectorExpr); isSel {
			if _, isField := f.ObjOf(sel).(*types.Var); !isField {
				return
			}
		}
		// rooted in the field or in a local copied from it
		root := e
		rooted := false
		for !rooted {
			switch x := ast.Unparen(root).(type) {
			case *ast.SelectorExpr:
				if f.IsField(x, fld) {
					rooted = true
				}
				root = x.X
			case *ast.StarExpr:
				root = x.X
			case *ast.IndexExpr:
				root = x.X
			case *ast.Ident:
				if !tainted[f.ObjOf(x)] {
					return
				}
				rooted = true
			default:
				return
			}
		}
		switch p := f.ParentOf(e).(type) {
		case *ast.SelectorExpr:
			if p.X == e {
				return
			}
		case *ast.StarExpr, *ast.ParenExpr:
			return
		}
		out = append(out, e)
	})
	return out
}

func c15IsHandlerStringField(h *types.Named, fv *types.Var) bool {
	b, ok := fv.Type().Underlying().(*types.Basic)
	if !ok || b.Kind() != types.String {
		return false
	}
	for _, x := range structFields(h) {
		if x == fv {
			return true
		}
	}
	return false
}

// c15ConstBoolArgs binds the boolean parameters of callee cf to the constant arguments of call.
func c15ConstBoolArgs(f, cf *Func, call *ast.CallExpr) map[types.Object]bool {
	out := map[types.Object]bool{}
	ps := cf.NonRecvParams()
	for i, a := range call.Args {
		if i < len(ps) {
			if bv, ok := f.ConstBool(a); ok {
				out[ps[i]] = bv
			}
		}
	}
	return out
}

func c15RefusesAll(c *Ctx, cf *Func, pi int, schemes []string, bools map[types.Object]bool) bool {
	for _, s := range schemes {
		if acc, dec := c15Accepts(c, cf, pi, s, bools, 0); acc || !dec {
			return false
		}
	}
	return true
}

// c15Accepts evaluates a URL check (a function whose parameter pi is the URL text and whose last result is an error) for a
// URL that is not empty, parses, has the scheme sch and a host that is not loopback: accepts says a `return nil` is reachable
// under that valuation; decided is false when a reachable return hands back something the evaluation cannot judge.
func c15Accepts(c *Ctx, f *Func, pi int, sch string, bools map[types.Object]bool, depth int) (accepts, decided bool) {
	ps := f.NonRecvParams()
	if pi >= len(ps) || f.Body == nil || depth > 2 {
		return false, false
	}
	g := f.Graph()
	// the URL text and its copies
	urlVars := map[types.Object]bool{ps[pi]: true}
	isScheme := func(e ast.Expr) bool { return false }
	schemeVars := map[types.Object]bool{}
	isScheme = func(e ast.Expr) bool {
		switch x := ast.Unparen(e).(type) {
		case *ast.SelectorExpr:
			if fv, ok := f.ObjOf(x).(*types.Var); ok && fv.IsField() && fv.Name() == "Scheme" && fv.Pkg() != nil && fv.Pkg().Path() == "net/url" {
				return true
			}
		case *ast.Ident:
			return schemeVars[f.ObjOf(x)]
		case *ast.CallExpr:
			if fn := f.Callee(x); fn != nil && fn.Pkg() != nil && fn.Pkg().Path() == "strings" && (fn.Name() == "ToLower" || fn.Name() == "TrimSpace") && len(x.Args) == 1 {
				return isScheme(x.Args[0])
			}
		}
		return false
	}
	for it := 0; it < 4; it++ {
		for _, w := range Writes(f.Body, false) {
			if w.RHS == nil {
				continue
			}
			if _, isID := ast.Unparen(w.LHS).(*ast.Ident); !isID {
				continue
			}
			if o := f.ObjOf(w.RHS); o != nil && urlVars[o] {
				urlVars[f.ObjOf(w.LHS)] = true
			}
			if isScheme(w.RHS) {
				schemeVars[f.ObjOf(w.LHS)] = true
			}
		}
	}
	errT := types.Universe.Lookup("error").Type()
	reach := g.ReachUnder(func(e ast.Expr) tri {
		e = ast.Unparen(e)
		if bv, ok := f.ConstBool(e); ok {
			if bv {
				return triTrue
			}
			return triFalse
		}
		if id, ok := e.(*ast.Ident); ok {
			if bv, has := bools[f.ObjOf(id)]; has {
				if bv {
					return triTrue
				}
				return triFalse
			}
			return triUnknown
		}
		if ce, ok := e.(*ast.CallExpr); ok {
			if fn := f.Callee(ce); fn != nil && fn.Name() == "IsLoopback" {
				return triFalse
			}
			return triUnknown
		}
		x, y, op, ok := binaryCmp(e)
		if !ok || op != token.EQL {
			return triUnknown
		}
		if _, isC := f.ConstString(x); isC || isNilIdent(x) {
			x, y = y, x
		}
		if isNilIdent(y) {
			if t := f.TypeOf(x); t != nil && types.Identical(t, errT) {
				return triTrue // the URL parses
			}
			return triUnknown
		}
		cs, isC := f.ConstString(y)
		if !isC {
			return triUnknown
		}
		if o := f.ObjOf(x); o != nil && urlVars[o] {
			if cs == "" {
				return triFalse
			}
			return triUnknown
		}
		if isScheme(x) {
			if cs == sch {
				return triTrue
			}
			return triFalse
		}
		return triUnknown
	}, nil)
	decided = true
	for _, r := range f.Returns() {
		if !reach[g.VertexOf(r)] || len(r.Results) == 0 {
			continue
		}
		last := ast.Unparen(r.Results[len(r.Results)-1])
		if isNilIdent(last) {
			accepts = true
			continue
		}
		if ce, ok := last.(*ast.CallExpr); ok {
			fn := f.Callee(ce)
			if fn != nil && fn.Pkg() != nil && (fn.Pkg().Path() == "fmt" || fn.Pkg().Path() == "errors") {
				continue // an error value
			}
			if cf := c.P.FuncOf(fn); fn != nil && cf != nil && cf.Body != nil && fn.Pkg() == f.Pkg.Types {
				// the decision is delegated: follow it with the constant arguments of the call
				api := -1
				for i, a := range ce.Args {
					if o := f.ObjOf(a); o != nil && urlVars[o] {
						api = i
					}
				}
				if api >= 0 {
					a2, d2 := c15Accepts(c, cf, api, sch, c15ConstBoolArgs(f, cf, ce), depth+1)
					accepts = accepts || a2
					decided = decided && d2
					continue
				}
			}
			decided = false
			continue
		}
		if _, isID := last.(*ast.Ident); isID {
			// a bound error handed on: it is non-nil on the paths that test it; elsewhere the evaluation does not know
			guards := g.GuardsAt(g.VertexOf(r))
			o := f.ObjOf(last)
			if hasAtom(guards, func(a Atom) bool { return AtomSaysNil(a, false, func(e ast.Expr) bool { return f.ObjOf(e) == o }) }) {
				continue
			}
			decided = false
			continue
		}
		decided = false
	}
	return accepts, decided
}

package main

import (
	"go/ast"
	"go/token"
	"go/types"
	"strings"
)

func init() { register("C20", rulesC20, nil) }

const lkStore = "MemoryEventStore.mu"

// linearForm reduces an integer expression built from +, -, parentheses, integer constants and
// opaque terms (identifiers, selectors, calls) to coefficient form: term -> coefficient, plus a
// constant. ok is false for anything else.
func linearForm(f *Func, e ast.Expr) (map[string]int64, int64, bool) {
	e = ast.Unparen(e)
	if v, ok := f.ConstInt(e); ok {
		return map[string]int64{}, v, true
	}
	switch x := e.(type) {
	case *ast.BinaryExpr:
		if x.Op != token.ADD && x.Op != token.SUB {
			return nil, 0, false
		}
		a, ca, ok1 := linearForm(f, x.X)
		b, cb, ok2 := linearForm(f, x.Y)
		if !ok1 || !ok2 {
			return nil, 0, false
		}
		sign := int64(1)
		if x.Op == token.SUB {
			sign = -1
		}
		for k, v := range b {
			a[k] += sign * v
		}
		return a, ca + sign*cb, true
	case *ast.Ident, *ast.SelectorExpr, *ast.CallExpr:
		// terms are keyed independently of variable names: parameters by type, fields by owner type
		if id, ok := x.(*ast.Ident); ok {
			if v, ok := f.ObjOf(id).(*types.Var); ok {
				for _, p := range f.Root().Params() {
					if p == v {
						return map[string]int64{"param(" + v.Type().String() + ")": 1}, 0, true
					}
				}
			}
		}
		return map[string]int64{f.FieldPath(x): 1}, 0, true
	}
	return nil, 0, false
}

func rulesC20(c *Ctx) {
	st := c.P.LookupType(pM, "MemoryEventStore")
	dlT := c.P.LookupType(pM, "dataList")
	c.Need(st != nil && dlT != nil, "MemoryEventStore / dataList")
	// (first, because it needs nothing but the two types: it still answers when the table was restructured)
	c.Rule("R-C20-8", "a stream's list is found through the two-level table keyed by session id and stream id, and through nothing else: the store keeps no other reference to a list (a remembered 'last stream' survives SessionClosed, or is hit by another session's stream of the same id — every session's standalone stream has the id \"\")", func() {
		mes := c.P.LookupType(pM, "MemoryEventStore")
		dlT := c.P.LookupType(pM, "dataList")
		c.Need(mes != nil && dlT != nil, "MemoryEventStore / dataList")
		// minMaps: does t reach a dataList (through pointers, slices, maps and the structs of this package), and through how
		// many string-keyed maps at least
		var minMaps func(t types.Type, d int) (bool, int)
		minMaps = func(t types.Type, d int) (bool, int) {
			if d > 8 {
				return false, 0
			}
			switch x := t.(type) {
			case *types.Named:
				if x.Obj() == dlT.Obj() {
					return true, 0
				}
				if st, ok := x.Underlying().(*types.Struct); ok && x.Obj().Pkg() == dlT.Obj().Pkg() {
					reach, best := false, 0
					for i := 0; i < st.NumFields(); i++ {
						if r, k := minMaps(st.Field(i).Type(), d+1); r && (!reach || k < best) {
							reach, best = true, k
						}
					}
					return reach, best
				}
			case *types.Pointer:
				return minMaps(x.Elem(), d+1)
			case *types.Slice:
				return minMaps(x.Elem(), d+1)
			case *types.Array:
				return minMaps(x.Elem(), d+1)
			case *types.Map:
				r, k := minMaps(x.Elem(), d+1)
				if b, isB := x.Key().Underlying().(*types.Basic); r && isB && b.Kind() == types.String {
					return true, k + 1
				}
				// a composite key of n strings ([2]string, struct{session, stream string}) is n levels
				if r {
					nStr := 0
					switch kt := x.Key().Underlying().(type) {
					case *types.Array:
						if b, isB := kt.Elem().Underlying().(*types.Basic); isB && b.Kind() == types.String {
							nStr = int(kt.Len())
						}
					case *types.Struct:
						for i := 0; i < kt.NumFields(); i++ {
							if b, isB := kt.Field(i).Type().Underlying().(*types.Basic); isB && b.Kind() == types.String {
								nStr++
							}
						}
					}
					if nStr > 0 {
						return true, k + nStr
					}
					return true, k + 100 // keyed by something else entirely: not a table this rule can judge; treated as deep enough
				}
				return r, k
			case *types.Alias:
				return minMaps(types.Unalias(x), d)
			}
			return false, 0
		}
		n := 0
		for _, fld := range structFields(mes) {
			reach, k := minMaps(fld.Type(), 0)
			if !reach {
				continue
			}
			n++
			c.sites++
			// a second reference (a cache of the last lookup) is tolerable only if closing a session drops it
			droppedOnClose := false
			_, isMapField := fld.Type().Underlying().(*types.Map)
			if scf := c.P.FuncOf(c.P.LookupFuncObj(pM, "MemoryEventStore", "SessionClosed")); scf != nil && k < 2 && !isMapField {
				for _, f := range c.pkgClosure(scf) {
					for _, w := range Writes(f.Body, true) {
						if len(f.FieldRefs(w.LHS, fld, true)) > 0 {
							droppedOnClose = true
						}
					}
					for _, call := range f.AllCalls(f.Body, true) {
						if bn := f.BuiltinName(call); (bn == "delete" || bn == "clear") && len(call.Args) > 0 && len(f.FieldRefs(call.Args[0], fld, true)) > 0 {
							droppedOnClose = true
						}
					}
				}
			}
			// ... and if it answers only for the very session and stream it was filled for: every use of it outside
			// SessionClosed sits behind comparisons that mention both the session id and the stream id the caller asked for
			keyedByBoth := true
			if droppedOnClose {
				for _, f := range c.funcsWithLits(pM) {
					r := f.Root()
					if r.Recv() == nil || namedOf(r.Recv().Type()) != mes || r.Obj == nil || r.Obj.Name() == "SessionClosed" {
						continue
					}
					var strParams []*types.Var
					for _, p := range r.NonRecvParams() {
						if b, isB := p.Type().Underlying().(*types.Basic); isB && b.Kind() == types.String {
							strParams = append(strParams, p)
						}
					}
					fg := f.Graph()
					for _, sel := range f.FieldRefs(f.Body, fld, false) {
						// writes (re-filling the cache) are not uses
						isWrite := false
						for _, w := range Writes(f.Body, false) {
							if encloses(w.LHS, sel) {
								isWrite = true
							}
						}
						// the tests themselves are not uses either
						if isWrite || fg.isCondition(sel) {
							continue
						}
						if len(strParams) < 2 {
							keyedByBoth = false
							continue
						}
						gs := fg.GuardsAt(fg.VertexOf(sel))
						for _, p := range strParams[:2] {
							if !hasAtom(gs, func(a Atom) bool { return a.Val && f.Mentions(a.E, p) }) {
								keyedByBoth = false
							}
						}
					}
				}
			}
			if k >= 2 {
				c.add(c.rule, "list-reference:"+fld.Name(), c.P.Rel(fld.Pos()), vOK, "the session → stream → list table")
			} else if droppedOnClose && keyedByBoth {
				c.add(c.rule, "list-reference:"+fld.Name(), c.P.Rel(fld.Pos()), vOK, "a second reference to a list that SessionClosed resets")
			} else {
				c.add(c.rule, "list-reference:"+fld.Name(), c.P.Rel(fld.Pos()), vViolation, "MemoryEventStore."+fld.Name()+" holds a list outside the session → stream table: it is not removed by SessionClosed and is not keyed by the session")
			}
		}
		c.Pin("list-bearing fields of MemoryEventStore", n, 1)
	})

	storeF, nBytes, maxBytes := c.Field(pM, "MemoryEventStore", "store"), c.Field(pM, "MemoryEventStore", "nBytes"), c.Field(pM, "MemoryEventStore", "maxBytes")
	sizeF, firstF, dataF := c.Field(pM, "dataList", "size"), c.Field(pM, "dataList", "first"), c.Field(pM, "dataList", "data")
	appendData := c.FnObj(pM, "dataList", "appendData")
	removeFirst := c.FnObj(pM, "dataList", "removeFirst")
	purge := c.FnObj(pM, "MemoryEventStore", "purge")
	isDLMethod := func(f *Func) bool {
		r := f.Root()
		return r.Recv() != nil && namedOf(r.Recv().Type()) == dlT
	}

	c.Rule("R-C20-1", "all store state, including every per-stream list reached through it, is accessed with the store mutex held", func() {
		n := c.guardedFields("store-state", []*types.Var{storeF, nBytes, maxBytes}, lkStore, func(f *Func, sel *ast.SelectorExpr) string {
			if f.Name() == "NewMemoryEventStore" {
				return "constructor"
			}
			return ""
		})
		c.Pin("store field accesses", n, 15)
		m := c.guardedFields("list-state", []*types.Var{sizeF, firstF, dataF}, lkStore, func(f *Func, sel *ast.SelectorExpr) string {
			if isDLMethod(f) {
				// dataList methods are requires-lock helpers: every caller must hold the store lock
				le := c.lockEnv()
				if le.entryLocks(f.Root())[lkStore] {
					return ""
				}
				return ""
			}
			return ""
		})
		c.Pin("list field accesses", m, 10)
	})

	c.Rule("R-C20-2", "byte accounting is paired: what a list gains or loses, the store total gains or loses; list fields have exactly two writers", func() {
		nApp, nRem := 0, 0
		for _, f := range c.funcsWithLits(pM) {
			g := f.Graph()
			for _, call := range f.CallsIn(f.Body, appendData, false) {
				nApp++
				v := g.VertexOf(call)
				d := call.Args[0]
				isAdd := func(u int) bool {
					as, ok := g.Node(u).(*ast.AssignStmt)
					if !ok || as.Tok != token.ADD_ASSIGN || !f.IsField(as.Lhs[0], nBytes) {
						return false
					}
					lc, ok := ast.Unparen(f.valueOf(as.Rhs[0])).(*ast.CallExpr) // (n := len(d) … nBytes += n is the same)
					return ok && f.BuiltinName(lc) == "len" && sameExpr(lc.Args[0], d)
				}
				okp, _ := g.PostDominatedBy(v, isAdd)
				if !okp {
					// the same pair in the other order (both under the store lock, nothing can leave in between): the addition
					// sits on every path to the append, and nothing but the append follows it
					for u := 0; u < g.N; u++ {
						if isAdd(u) && g.Dominates(u, v) {
							if all, _ := g.MustPass(u, g.Exits, func(x int) bool { return x == v }); all {
								okp = true
							}
						}
					}
				}
				c.Check(okp, "appendData-paired:"+f.Name(), f, call, "every appendData(d) is followed on all paths by nBytes += len(d)")
			}
			for _, call := range f.CallsIn(f.Body, removeFirst, false) {
				nRem++
				c.Check(c20RemovalSubtracted(f, g, call, nBytes), "removeFirst-paired:"+f.Name(), f, call, "the size returned by removeFirst() is subtracted from nBytes before the next removal or return (directly, or through a tally that starts at zero, gains every removed size and is subtracted before it is filled again)")
				// an aggregate counter between the store total and the lists (what SessionClosed takes off the total for a
				// whole session) loses the same bytes, or closing the session later subtracts evicted bytes a second time
				for _, agg := range c20Aggregates(c, storeF, nBytes) {
					c.Check(c20RemovalSubtracted(f, g, call, agg), "removeFirst-paired-aggregate:"+agg.Name()+":"+f.Name(), f, call, "the size returned by removeFirst() is also subtracted from the per-session counter %s that SessionClosed subtracts from nBytes", agg.Name())
				}
			}
			for _, call := range f.CallsIn(f.Body, appendData, false) {
				for _, agg := range c20Aggregates(c, storeF, nBytes) {
					v := g.VertexOf(call)
					d := call.Args[0]
					isAdd := func(u int) bool {
						as, ok := g.Node(u).(*ast.AssignStmt)
						if !ok || as.Tok != token.ADD_ASSIGN || !f.IsField(as.Lhs[0], agg) {
							return false
						}
						lc, ok := ast.Unparen(f.valueOf(as.Rhs[0])).(*ast.CallExpr)
						return ok && f.BuiltinName(lc) == "len" && sameExpr(lc.Args[0], d)
					}
					okp, _ := g.PostDominatedBy(v, isAdd)
					if !okp {
						for u := 0; u < g.N; u++ {
							if isAdd(u) && g.Dominates(u, v) {
								okp = true
							}
						}
					}
					c.Check(okp, "appendData-paired-aggregate:"+agg.Name()+":"+f.Name(), f, call, "every appendData(d) is accompanied by %s += len(d) for the per-session counter that SessionClosed subtracts from nBytes", agg.Name())
				}
			}
			for _, fld := range []*types.Var{sizeF, firstF, dataF} {
				for _, w := range f.FieldWrites(f.Body, fld, false) {
					root := f.Root().Name()
					c.Check(root == "(*dataList).appendData" || root == "(*dataList).removeFirst", "dataList-writer:"+f.Name()+":"+fld.Name(), f, w, "dataList.%s is written only by appendData/removeFirst", fld.Name())
				}
			}
		}
		c.Pin("appendData sites", nApp, 1)
		c.Pin("removeFirst sites", nRem, 1)
		// a stream's list is never reset as a whole: `*dl = dataList{}` zeroes first together with data, and the indices of
		// everything appended before are handed out again (After answers old indices with silence instead of ErrEventsPurged)
		dlT := c.P.LookupType(pM, "dataList")
		for _, f := range c.funcsWithLits(pM) {
			if f.Body == nil {
				continue
			}
			for _, w := range Writes(f.Body, false) {
				if st, isStar := ast.Unparen(w.LHS).(*ast.StarExpr); isStar && namedOf(f.TypeOf(st)) == dlT && dlT != nil {
					c.Fail("dataList-reset:"+f.Name(), f, w.Stmt, "a dataList is overwritten as a whole")
				}
			}
		}
		ad := c.Fn(pM, "dataList", "appendData")
		d := ad.Params()[1]
		okA, okS := false, false
		for _, w := range Writes(ad.Body, false) {
			if ad.IsField(w.LHS, dataF) && w.RHS != nil {
				if ce, ok := ast.Unparen(w.RHS).(*ast.CallExpr); ok && ad.BuiltinName(ce) == "append" && len(ce.Args) == 2 && ad.IsField(ce.Args[0], dataF) && ad.ObjOf(ce.Args[1]) == types.Object(d) {
					okA = true
				}
			}
			if as, ok := w.Stmt.(*ast.AssignStmt); ok && as.Tok == token.ADD_ASSIGN && ad.IsField(w.LHS, sizeF) {
				if lc, ok := ast.Unparen(as.Rhs[0]).(*ast.CallExpr); ok && ad.BuiltinName(lc) == "len" && ad.ObjOf(lc.Args[0]) == types.Object(d) {
					okS = true
				}
			}
		}
		c.Check(okA && okS && len(ad.FieldWrites(ad.Body, sizeF, false)) == 1, "appendData:shape", ad, nil, "appendData appends d at the tail and adds len(d) to size, once")
		rf := c.Fn(pM, "dataList", "removeFirst")
		rg := rf.Graph()
		var rv types.Object
		for _, w := range Writes(rf.Body, false) {
			if w.RHS != nil {
				if lc, ok := ast.Unparen(w.RHS).(*ast.CallExpr); ok && rf.BuiltinName(lc) == "len" {
					if ix, ok := ast.Unparen(lc.Args[0]).(*ast.IndexExpr); ok && rf.IsField(ix.X, dataF) {
						if k, isC := rf.ConstInt(ix.Index); isC && k == 0 {
							rv = rf.ObjOf(w.LHS)
						}
					}
				}
			}
		}
		okSize, okFirst, okData, okRet := false, false, false, false
		for _, w := range Writes(rf.Body, false) {
			switch s := w.Stmt.(type) {
			case *ast.AssignStmt:
				if s.Tok == token.SUB_ASSIGN && rf.IsField(w.LHS, sizeF) && rf.ObjOf(s.Rhs[0]) == rv && rv != nil {
					okSize = true
				}
				if rf.IsField(w.LHS, dataF) && w.RHS != nil {
					if sl, ok := ast.Unparen(w.RHS).(*ast.SliceExpr); ok && rf.IsField(sl.X, dataF) && sl.High == nil {
						if k, isC := rf.ConstInt(sl.Low); isC && k == 1 {
							okData = true
						}
					}
				}
			case *ast.IncDecStmt:
				if s.Tok == token.INC && rf.IsField(w.LHS, firstF) {
					okFirst = true
				}
			}
		}
		for _, r := range rf.Returns() {
			if len(r.Results) == 1 && rf.ObjOf(r.Results[0]) == rv && rv != nil {
				okRet = true
			}
		}
		// element accesses of data (the length read, the optional nil-ing of the slot) come before the reslice: after
		// data = data[1:] index 0 is the oldest *retained* item
		okOrder := true
		var resliceV = -1
		for _, w := range Writes(rf.Body, false) {
			if rf.IsField(w.LHS, dataF) && w.RHS != nil {
				if _, isSl := ast.Unparen(w.RHS).(*ast.SliceExpr); isSl {
					resliceV = rg.VertexOf(w.Stmt)
				}
			}
		}
		if resliceV >= 0 {
			after := rg.ReachableFrom(resliceV)
			ast.Inspect(rf.Body, func(n ast.Node) bool {
				if ix, ok := n.(*ast.IndexExpr); ok && rf.IsField(ix.X, dataF) {
					if v := rg.VertexOf(ix); v >= 0 && v != resliceV && after[v] {
						okOrder = false
					}
				}
				return true
			})
		}
		c.Check(okOrder && resliceV >= 0, "removeFirst:slot-accessed-before-reslice", rf, nil, "data[0] is read (and cleared) only before data = data[1:]")
		c.Check(okSize, "removeFirst:size-shrinks", rf, nil, "removeFirst subtracts the removed item's length from the list's size (SessionClosed later subtracts size from the store total: bytes already evicted must not be subtracted again)")
		c.Check(okFirst && okData, "removeFirst:oldest-first", rf, nil, "removeFirst drops data[0] (data = data[1:]) and advances first by one")
		c.Check(okRet, "removeFirst:returns-removed-size", rf, nil, "removeFirst returns len(data[0]) of the removed item")
		c.Check(len(rf.FieldWrites(rf.Body, sizeF, false)) == 1 && len(rf.FieldWrites(rf.Body, firstF, false)) == 1, "removeFirst:single-update", rf, nil, "size and first are updated exactly once")
		// SessionClosed
		sc := c.Fn(pM, "MemoryEventStore", "SessionClosed")
		sg := sc.Graph()
		okSub := false
		var delV = -1
		for _, call := range sc.AllCalls(sc.Body, false) {
			if sc.BuiltinName(call) == "delete" && sc.IsField(call.Args[0], storeF) {
				delV = sg.VertexOf(call)
			}
		}
		inspectNoLit(sc.Body, func(n ast.Node) {
			rs, ok := n.(*ast.RangeStmt)
			if !ok {
				return
			}
			// (the session's table may first be taken into a local: streams, ok := s.store[id])
			src := rs.X
			if id, isID := ast.Unparen(src).(*ast.Ident); isID {
				for _, w := range Writes(sc.Body, false) {
					if sc.ObjOf(w.LHS) == sc.ObjOf(id) && w.Stmt != ast.Node(rs) {
						if as, ok := w.Stmt.(*ast.AssignStmt); ok && len(as.Rhs) == 1 {
							src = as.Rhs[0]
						}
					}
				}
			}
			if m, k, isIx := indexOf(src); isIx && sc.IsField(m, storeF) && len(sc.NonRecvParams()) == 2 && sc.ObjOf(k) == types.Object(sc.NonRecvParams()[1]) {
				for _, w := range Writes(rs.Body, false) {
					as, ok := w.Stmt.(*ast.AssignStmt)
					if !ok || len(as.Rhs) != 1 {
						continue
					}
					s, isSel := ast.Unparen(as.Rhs[0]).(*ast.SelectorExpr)
					if !isSel || !sc.IsField(s, sizeF) || sc.ObjOf(s.X) != sc.ObjOf(rs.Value) {
						continue
					}
					if as.Tok == token.SUB_ASSIGN && sc.IsField(w.LHS, nBytes) {
						okSub = delV >= 0 && sg.Dominates(sg.VertexOf(rs.X), delV)
					}
					// the same through a tally: total starts at 0, gains every list's size in this loop and nothing else, and is
					// what nBytes loses afterwards
					if tally := sc.ObjOf(w.LHS); as.Tok == token.ADD_ASSIGN && tally != nil {
						onlyHere := true
						for _, w2 := range Writes(sc.Body, true) {
							if sc.ObjOf(w2.LHS) != tally || w2.Stmt == w.Stmt {
								continue
							}
							if w2.RHS == nil && w2.Tok == token.DEFINE {
								continue // var total int
							}
							if z, isZ := sc.ConstInt(w2.RHS); w2.RHS == nil || !isZ || z != 0 || (w2.Tok != token.DEFINE && w2.Tok != token.ASSIGN) || sc.insideLoop(w2.Stmt) {
								onlyHere = false
							}
						}
						for _, w3 := range Writes(sc.Body, false) {
							if as3, ok := w3.Stmt.(*ast.AssignStmt); ok && as3.Tok == token.SUB_ASSIGN && sc.IsField(w3.LHS, nBytes) && len(as3.Rhs) == 1 && sc.ObjOf(as3.Rhs[0]) == tally && onlyHere {
								sv := sg.VertexOf(as3)
								okSub = delV >= 0 && sg.ReachableFrom(sg.VertexOf(rs.X))[sv] && (sg.Dominates(sv, delV) || sg.Dominates(sg.VertexOf(rs.X), delV))
							}
						}
					}
				}
			}
		})
		if !okSub && delV >= 0 {
			// the session's bytes are kept in a counter of their own (maintained next to every append and removal: the
			// …-aggregate obligations above): closing subtracts that counter, read from the session's entry in the table
			for _, agg := range c20Aggregates(c, storeF, nBytes) {
				for _, w := range Writes(sc.Body, false) {
					as, ok := w.Stmt.(*ast.AssignStmt)
					if !ok || as.Tok != token.SUB_ASSIGN || !sc.IsField(w.LHS, nBytes) || len(as.Rhs) != 1 || !sc.IsField(as.Rhs[0], agg) {
						continue
					}
					sv := sg.VertexOf(as)
					if sg.Dominates(sv, delV) || sg.Dominates(delV, sv) {
						okSub = true
					}
				}
			}
		}
		c.Check(okSub, "SessionClosed:releases-all-bytes", sc, nil, "closing a session subtracts the size of every list of that session from nBytes, then deletes the session")
		// ... on every path: a session that retains no byte (everything evicted, or only opened) is forgotten like any other
		if delV >= 0 {
			okAll, p := sg.MustPassIncl(sg.Entry, sg.Exits, func(v int) bool { return v == delV })
			if !okAll {
				// `if sd, ok := s.store[id]; ok { …; delete(s.store, id) }`: with the session present (the comma-ok of a lookup
				// in the table is true) every way out passes the delete
				present := func(e ast.Expr) tri {
					o := sc.ObjOf(e)
					if o == nil {
						return triUnknown
					}
					for _, w := range Writes(sc.Body, false) {
						as, isAs := w.Stmt.(*ast.AssignStmt)
						if !isAs || len(as.Lhs) != 2 || len(as.Rhs) != 1 || sc.ObjOf(as.Lhs[1]) != o {
							continue
						}
						if m, _, isIx := indexOf(as.Rhs[0]); isIx && sc.IsField(m, storeF) {
							return triTrue
						}
					}
					return triUnknown
				}
				avoid := sg.ReachUnder(present, func(v int) bool { return v == delV })
				okAll = true
				for _, x := range sg.Exits {
					if avoid[x] && x != delV {
						okAll = false
					}
				}
			}
			c.Check(okAll, "SessionClosed:always-forgets-the-session", sc, sg.Node(delV), "every path through SessionClosed deletes the session's entry (an early return for \"nothing to free\" keeps its streams and ids alive) %s", sg.PathString(p))
		}
	})

	c.Rule("R-C20-3", "After returns exactly the retained suffix after the index, or the purge error; never a partial answer; payloads are copied under the lock and yielded outside it", func() {
		af := c.Fn(pM, "MemoryEventStore", "After")
		var cp *Func
		for _, l := range af.AllLits() {
			for _, call := range l.AllCalls(l.Body, false) {
				if _, ok := l.lockOpOf(call); ok {
					cp = l
				}
			}
		}
		c.Need(cp != nil, "After: locked copy literal")
		c.touch(cp)
		g := cp.Graph()
		ePurged := c.Obj(pM, "ErrEventsPurged")
		// Each obligation below is first read off the shape of the code; when the shape is another one, the three-way
		// decision is *evaluated* (c20EvalAfter): for concrete (index, first, len(data)) the conditions of the copy function
		// are decided and the return that is reached must be of the class the property demands. Only when neither answers
		// and the list has been given another representation (After reads list fields besides first/data/size) is the
		// answer "undecided".
		var ev c20AfterEval
		altRep := false
		inspectNoLit(cp.Body, func(n ast.Node) {
			if sel, ok := n.(*ast.SelectorExpr); ok {
				if fld, isV := cp.ObjOf(sel).(*types.Var); isV && fld.IsField() && fld != sizeF && fld != firstF && fld != dataF {
					for _, df := range structFields(dlT) {
						if df == fld {
							altRep = true
						}
					}
				}
			}
		})
		judge := func(shapeOK bool, e tri, key string, n ast.Node, detail string, a ...any) {
			switch {
			case shapeOK || e == triTrue:
				c.Ok(key, cp, n, detail, a...)
			case e == triFalse:
				c.Fail(key, cp, n, detail+" — evaluated: "+ev.witness, a...)
			case altRep:
				c.Undecided(key, cp, n, "the list has another representation than (first, data): "+detail, a...)
			default:
				c.Fail(key, cp, n, detail, a...)
			}
		}
		var startChecks []func()
		var start types.Object
		var startRHS ast.Expr
		for _, w := range Writes(cp.Body, false) {
			// the offset variable is the local computed from the list's first retained index
			if id, ok := w.LHS.(*ast.Ident); ok && w.RHS != nil && len(cp.FieldRefs(w.RHS, firstF, false)) > 0 {
				start = cp.ObjOf(id)
				lf, k, ok := linearForm(cp, w.RHS)
				okLF := ok && k == 1 && len(lf) == 2 && lf["param(int)"] == 1 && lf["dataList.first"] == -1
				w := w
				startRHS = w.RHS
				startChecks = append(startChecks, func() {
					judge(okLF, ev.all(), "After:start-offset", w.Stmt, "the slice offset is index + 1 - first (linear normal form of %s)", exprStr(w.RHS))
				})
			}
		}
		c.Need(start != nil, "After: start offset")
		ev = c20EvalAfter(cp, g, ePurged, dataF, start)
		for _, fn := range startChecks {
			fn()
		}
		c20OriginKept(c, cp, dlT, dataF, start, startRHS)
		var purgedRet *ast.ReturnStmt
		// an answer is what an error-free return hands out and where that was decided: the return itself, or — when the
		// result travels through a local (`ds = …; …; return ds, nil`, the shape an expanded helper leaves) — each assignment
		// of that local that reaches the return
		type answer struct {
			val ast.Expr
			at  ast.Node
		}
		var answers []answer
		for _, r := range cp.Returns() {
			if len(r.Results) != 2 {
				continue
			}
			guards := g.GuardsAt(g.VertexOf(r))
			if !isNilIdent(r.Results[1]) && cp.WrapsObj(r.Results[1], ePurged) {
				if hasAtom(guards, func(a Atom) bool {
					x, y, op, ok := binaryCmp(a.E)
					z, isZ := cp.ConstInt(y)
					return ok && op == token.LSS && a.Val && cp.ObjOf(x) == start && isZ && z == 0
				}) {
					purgedRet = r
				}
			}
			if !isNilIdent(r.Results[1]) {
				continue
			}
			viaLocal := false
			if lv, isV := cp.ObjOf(r.Results[0]).(*types.Var); isV && !lv.IsField() && !isNilIdent(r.Results[0]) && func() bool {
				// only for a result variable in the sense of an expanded helper: declared without a value, then given
				// alternative values by plain assignments that do not read it (a slice built up by append is one value)
				declared := false
				for _, w := range Writes(cp.Body, false) {
					if cp.ObjOf(w.LHS) != types.Object(lv) {
						continue
					}
					if _, isVS := w.Stmt.(*ast.ValueSpec); isVS && w.RHS == nil {
						declared = true
						continue
					}
					if w.Tok != token.ASSIGN {
						return false
					}
					if as, isAs := w.Stmt.(*ast.AssignStmt); isAs {
						for _, rhs := range as.Rhs {
							if cp.Mentions(rhs, lv) {
								return false
							}
						}
					}
				}
				return declared
			}() {
				rv := g.VertexOf(r)
				for _, w := range Writes(cp.Body, false) {
					if cp.ObjOf(w.LHS) != types.Object(lv) {
						continue
					}
					if _, isVS := w.Stmt.(*ast.ValueSpec); isVS && w.RHS == nil {
						continue
					}
					val := w.RHS
					if val == nil {
						if as, isAs := w.Stmt.(*ast.AssignStmt); isAs && len(as.Lhs) == len(as.Rhs) {
							for i, l := range as.Lhs {
								if l == w.LHS {
									val = as.Rhs[i]
								}
							}
						}
					}
					wv := g.VertexOf(w.Stmt)
					if val == nil || !(g.ReachableFrom(wv)[rv] || wv == rv) {
						continue
					}
					viaLocal = true
					answers = append(answers, answer{val, w.Stmt})
				}
			}
			if !viaLocal {
				answers = append(answers, answer{r.Results[0], r})
			}
		}
		var emptyAns, dataAns *answer
		for i := range answers {
			an := &answers[i]
			guards := g.GuardsAt(g.VertexOf(an.at))
			if isNilIdent(an.val) {
				// start >= len(data), in any spelling: len(data) - (index + 1 - first) <= 0
				if cp.hasLinAtom(guards, token.LEQ, -1, map[string]int64{"len(dataList.data)": 1, "param(int)": -1, "dataList.first": 1}) {
					emptyAns = an
				}
			} else {
				dataAns = an
			}
		}
		judge(purgedRet != nil, ev.purge, "After:purged-detected", nil, "start < 0 (some requested event was evicted) returns an error wrapping ErrEventsPurged")
		// ... and nothing is answered before that test: an "empty list, nothing to replay" shortcut in front of it turns
		// a purge into silence (the consumer resumes with a gap and ids that no longer match the store)
		for i, an := range answers {
			gs := g.GuardsAt(g.VertexOf(an.at))
			judge(hasAtom(gs, func(a Atom) bool {
				x, y, op, ok := binaryCmp(a.E)
				z, isZ := cp.ConstInt(y)
				return ok && op == token.LSS && !a.Val && cp.ObjOf(x) == start && isZ && z == 0
			}), ev.purge, "After:purge-test-before-any-answer#"+itoa(i), an.at, "every error-free answer of After lies behind the start < 0 test (guards: %s)", atomsString(gs))
		}
		judge(emptyAns != nil, ev.empty, "After:nothing-new", nil, "start >= len(data) returns no data")
		okClone := false
		var dataRet ast.Node
		if dataAns != nil {
			dataRet = dataAns.at
			okClone = freshSuffixCopy(cp, dataAns.val, dataF, start)
			gd := g.GuardsAt(g.VertexOf(dataRet))
			// 0 <= start: -(index + 1 - first) <= 0;  start < len(data): (index + 1 - first) - len(data) + 1 <= 0
			judge(cp.hasLinAtom(gd, token.LEQ, -1, map[string]int64{"param(int)": -1, "dataList.first": 1}) &&
				cp.hasLinAtom(gd, token.LEQ, 2, map[string]int64{"param(int)": 1, "dataList.first": -1, "len(dataList.data)": -1}),
				ev.all(), "After:suffix-bounds-checked", dataRet, "the suffix is taken only for 0 <= start < len(data)")
		}
		judge(okClone, ev.data, "After:copy-under-lock", dataRet, "the suffix data[start:] is copied (slices.Clone, append to an empty slice, or an element-by-element copy into a new slice) while the lock is held (eviction nils elements of the live backing array, so an aliasing view would later yield emptied payloads without a purge error)")
		c.Check(cp.heldLocal(dataRet)[lkStore], "After:copy-lock-held", cp, dataRet, "the copy happens with the store mutex held")
		// the iterator: error first and alone; data yielded outside the lock
		var it *Func
		for _, l := range af.Lits() {
			if _, ok := af.ParentOf(l.Lit).(*ast.ReturnStmt); ok {
				it = l
			}
		}
		c.Need(it != nil, "After: iterator literal")
		ig := it.Graph()
		yield := it.Params()[0]
		okErrFirst, okOutside := false, true
		for v := 0; v < ig.N; v++ {
			n := ig.Node(v)
			if n == nil {
				continue
			}
			for _, call := range it.AllCalls(n, false) {
				if it.ObjOf(call.Fun) != types.Object(yield) {
					continue
				}
				if len(it.heldLocal(call)) > 0 {
					okOutside = false
				}
				if !isNilIdent(call.Args[1]) {
					// after yielding the error the iterator returns without yielding data
					seen, _ := ig.reach(ig.succ[v], nil, nil)
					more := false
					for u := 0; u < ig.N; u++ {
						if seen[u] && ig.Node(u) != nil {
							for _, c2 := range it.AllCalls(ig.Node(u), false) {
								if it.ObjOf(c2.Fun) == types.Object(yield) {
									more = true
								}
							}
						}
					}
					okErrFirst = !more && isNilIdent(call.Args[0])
				}
			}
		}
		c.Check(okErrFirst, "After:error-alone", it, nil, "an error is yielded alone (no partial data before or after it)")
		c.Check(okOutside, "After:yield-outside-lock", it, nil, "consumers are called without the store mutex held")
	})

	c.Rule("R-C20-4", "eviction: oldest first, through removeFirst only, before each append and after each limit change, while the total exceeds the limit", func() {
		ap := c.Fn(pM, "MemoryEventStore", "Append")
		g := ap.Graph()
		pv, av := g.callVertices(purge), g.callVertices(appendData)
		c.Check(len(pv) == 1 && len(av) == 1 && g.Dominates(pv[0], av[0]), "Append:purge-before-append", ap, nil, "Append purges before storing, so the newest item always survives (overshoot bounded by the most recent item)")
		sm := c.Fn(pM, "MemoryEventStore", "SetMaxBytes")
		sg := sm.Graph()
		spv := sg.callVertices(purge)
		okAll := len(spv) == 1
		if okAll {
			okAll, _ = sg.MustPass(sg.Entry, sg.Exits, func(v int) bool { return v == spv[0] })
		}
		c.Check(okAll, "SetMaxBytes:purges", sm, nil, "changing the limit purges immediately on every (non-panicking) path")
		pf := c.Fn(pM, "MemoryEventStore", "purge")
		okLoop := false
		inspectNoLit(pf.Body, func(n ast.Node) {
			fs, ok := n.(*ast.ForStmt)
			if !ok || fs.Cond == nil {
				return
			}
			x, y, op, isCmp := cmpOn(fs.Cond, func(e ast.Expr) bool { return pf.IsField(e, nBytes) })
			if isCmp && op == token.GTR && pf.IsField(x, nBytes) && pf.IsField(y, maxBytes) {
				okLoop = len(pf.CallsIn(fs.Body, removeFirst, false)) == 1
			}
		})
		c.Check(okLoop, "purge:while-over-limit", pf, nil, "purge removes items while nBytes > maxBytes")
		// removal only through removeFirst: no other writer of data (R-C20-2) and removeFirst guarded by size > 0
		pg := pf.Graph()
		for _, v := range pg.callVertices(removeFirst) {
			guards := pg.GuardsAt(v)
			c.Check(hasAtom(guards, func(a Atom) bool {
				x, y, op, ok := binaryCmp(a.E)
				z, isZ := pf.ConstInt(y)
				return ok && op == token.GTR && a.Val && pf.IsField(x, sizeF) && isZ && z == 0
			}), "purge:only-nonempty-lists", pf, pg.Node(v), "removeFirst is called only on lists that still hold bytes (guards: %s)", atomsString(guards))
		}
	})

	c.Import("R-C20-6", "closing a session releases its data end to end: the client's Close reaches the server's SessionClosed through the DELETE it sends", "C11", "R-C11-8", nil)
	c.Import("R-C20-7", "a purge is reported to the consumer: when the server refuses a resumption (events purged) the client's stream goroutine fails the connection instead of ending silently", "C09", "R-C09-3", func(k string) bool { return strings.HasPrefix(k, "handleSSE") })

	c.Rule("R-C20-5", "a stream's list, and a session's table of lists, are created only when missing: every store into these maps is guarded by the failed comma-ok lookup of the same map (re-opening a known stream must not replace its list: the events would vanish while the byte total keeps counting them)", func() {
		isListMap := func(t types.Type) bool {
			m, ok := t.Underlying().(*types.Map)
			if !ok {
				return false
			}
			el := m.Elem()
			if pt, ok := el.(*types.Pointer); ok && namedOf(pt.Elem()) == dlT {
				return true
			}
			if m2, ok := el.Underlying().(*types.Map); ok {
				if pt, ok := m2.Elem().(*types.Pointer); ok && namedOf(pt.Elem()) == dlT {
					return true
				}
			}
			return false
		}
		n := 0
		for _, f := range c.funcsWithLits(pM) {
			r := f.Root()
			if r.Recv() == nil || namedOf(r.Recv().Type()) != st {
				continue
			}
			g := f.Graph()
			for _, w := range Writes(f.Body, false) {
				m, k, isIx := indexOf(w.LHS)
				if !isIx || !isListMap(f.TypeOf(m)) {
					continue
				}
				n++
				// the comma-ok of a lookup m[k] in the same function
				var okVar types.Object
				for _, w2 := range Writes(f.Body, false) {
					as, isAs := w2.Stmt.(*ast.AssignStmt)
					if !isAs || len(as.Lhs) != 2 || len(as.Rhs) != 1 {
						continue
					}
					m2, k2, isIx2 := indexOf(as.Rhs[0])
					if isIx2 && sameExpr(m2, m) && sameExpr(k2, k) && g.Dominates(g.VertexOf(w2.Stmt), g.VertexOf(w.Stmt)) {
						okVar = f.ObjOf(as.Lhs[1])
					}
				}
				guards := g.GuardsAt(g.VertexOf(w.Stmt))
				c.Check(okVar != nil && hasAtom(guards, func(a Atom) bool { return !a.Val && f.ObjOf(a.E) == okVar }), "create-only-when-missing:"+f.Name()+"#"+itoa(n), f, w.Stmt, "the store into %s is on the branch where the lookup of the same key failed (guards: %s)", exprStr(m), atomsString(guards))
			}
		}
		c.Pin("stores into the session/stream maps", n, 2)
	})
}

// freshSuffixCopy: e is a copy of data[start:] that shares no backing array with data: slices.Clone(data[start:]),
// append of data[start:]... to an empty slice, or a local built from nothing by appending data[i] for i = start … len(data)-1
// (for-loop or range over data[start:]) or by copy into make([]T, len(data)-start).
func freshSuffixCopy(f *Func, e ast.Expr, dataF *types.Var, start types.Object) bool {
	suffix := func(x ast.Expr) bool {
		sl, ok := ast.Unparen(x).(*ast.SliceExpr)
		if !ok || !f.IsField(sl.X, dataF) || sl.Low == nil || sl.High != nil || sl.Max != nil {
			return false
		}
		if start != nil && f.ObjOf(sl.Low) == start {
			return true
		}
		// the offset written out (or held in another local): index + 1 - first
		t, k, okL := c20Lin(f, sl.Low, 0)
		return okL && k == 1 && len(t) == 2 && t["param(int)"] == 1 && t["dataList.first"] == -1
	}
	empty := func(x ast.Expr) bool {
		x = ast.Unparen(x)
		if isNilIdent(x) {
			return true
		}
		switch y := x.(type) {
		case *ast.CompositeLit:
			return len(y.Elts) == 0
		case *ast.CallExpr:
			if len(y.Args) == 1 && isNilIdent(y.Args[0]) {
				return true // []T(nil)
			}
			if f.BuiltinName(y) == "make" && len(y.Args) >= 2 {
				z, ok := f.ConstInt(y.Args[1])
				return ok && z == 0
			}
		}
		return false
	}
	e = ast.Unparen(e)
	if ce, ok := e.(*ast.CallExpr); ok {
		if fn := f.Callee(ce); fn != nil && fn.FullName() == "slices.Clone" && len(ce.Args) == 1 {
			return suffix(ce.Args[0])
		}
		if f.BuiltinName(ce) == "append" && len(ce.Args) == 2 && ce.Ellipsis.IsValid() {
			return empty(ce.Args[0]) && suffix(ce.Args[1])
		}
		return false
	}
	id, ok := e.(*ast.Ident)
	if !ok {
		return false
	}
	loc, _ := f.ObjOf(id).(*types.Var)
	if loc == nil || loc.IsField() || f.Root().addressTaken(loc) {
		return false
	}
	inits, fills := 0, 0
	sized := false
	for _, w := range Writes(f.Root().Body, true) {
		if f.ObjOf(w.LHS) != types.Object(loc) {
			continue
		}
		if w.Tok == token.DEFINE {
			inits++
			switch {
			case w.RHS == nil || empty(w.RHS):
			default:
				// make([]T, len(data)-start)
				mk, isC := ast.Unparen(w.RHS).(*ast.CallExpr)
				if !isC || f.BuiltinName(mk) != "make" || len(mk.Args) != 2 {
					return false
				}
				t, k, ok := f.linExpand(mk.Args[1], 0)
				if !ok || k != -1 || len(t) != 3 || t["len(dataList.data)"] != 1 || t["param(int)"] != -1 || t["dataList.first"] != 1 {
					return false
				}
				sized = true
			}
			continue
		}
		// ds = append(ds, data[i]) in `for i := start; i < len(data); i++`, or ds = append(ds, d) in `for _, d := range data[start:]`
		ap, isC := ast.Unparen(w.RHS).(*ast.CallExpr)
		if w.RHS == nil || !isC || f.BuiltinName(ap) != "append" || len(ap.Args) != 2 || ap.Ellipsis.IsValid() || f.ObjOf(ap.Args[0]) != types.Object(loc) {
			return false
		}
		blk, _ := f.ParentOf(w.Stmt).(*ast.BlockStmt)
		if blk == nil || len(blk.List) != 1 {
			return false
		}
		switch loop := f.ParentOf(blk).(type) {
		case *ast.ForStmt:
			init, isA := loop.Init.(*ast.AssignStmt)
			post, isP := loop.Post.(*ast.IncDecStmt)
			if !isA || !isP || init.Tok != token.DEFINE || len(init.Lhs) != 1 || len(init.Rhs) != 1 || post.Tok != token.INC || f.ObjOf(init.Rhs[0]) != start {
				return false
			}
			iv := f.ObjOf(init.Lhs[0])
			x, y, op, ok := binaryCmp(loop.Cond)
			lc, isL := ast.Unparen(y).(*ast.CallExpr)
			if iv == nil || f.ObjOf(post.X) != iv || !ok || op != token.LSS || f.ObjOf(x) != iv || !isL || f.BuiltinName(lc) != "len" || !f.IsField(lc.Args[0], dataF) {
				return false
			}
			m, k, isIx := indexOf(ap.Args[1])
			if !isIx || !f.IsField(m, dataF) || f.ObjOf(k) != iv {
				return false
			}
		case *ast.RangeStmt:
			if !suffix(loop.X) || loop.Value == nil || f.ObjOf(loop.Value) == nil || f.ObjOf(ap.Args[1]) != f.ObjOf(loop.Value) {
				return false
			}
		default:
			return false
		}
		fills++
	}
	if sized {
		// copy(ds, data[start:]) and nothing else
		n := 0
		for _, call := range f.AllCalls(f.Root().Body, true) {
			if f.BuiltinName(call) == "copy" && len(call.Args) == 2 && f.ObjOf(call.Args[0]) == types.Object(loc) {
				if !suffix(call.Args[1]) {
					return false
				}
				n++
			}
		}
		return inits == 1 && fills == 0 && n == 1
	}
	return inits == 1 && fills == 1
}

// c20Aggregates: the integer fields, outside the store and the lists themselves, whose value SessionClosed subtracts from
// the store total for the session it is given (`nBytes -= s.store[id].A`, the entry possibly taken into a local first):
// per-session byte counters that stand for the sum of the sizes of the session's lists.
func c20Aggregates(c *Ctx, storeF, nBytes *types.Var) []*types.Var {
	sc := c.P.FuncOf(c.P.LookupFuncObj(pM, "MemoryEventStore", "SessionClosed"))
	if sc == nil || sc.Body == nil || len(sc.NonRecvParams()) != 2 {
		return nil
	}
	id := sc.NonRecvParams()[1]
	var out []*types.Var
	for _, w := range Writes(sc.Body, false) {
		as, ok := w.Stmt.(*ast.AssignStmt)
		if !ok || as.Tok != token.SUB_ASSIGN || !sc.IsField(w.LHS, nBytes) || len(as.Rhs) != 1 {
			continue
		}
		sel, isSel := ast.Unparen(as.Rhs[0]).(*ast.SelectorExpr)
		if !isSel {
			continue
		}
		fld, isV := sc.ObjOf(sel).(*types.Var)
		if !isV || !fld.IsField() {
			continue
		}
		if b, isB := fld.Type().Underlying().(*types.Basic); !isB || b.Info()&types.IsInteger == 0 {
			continue
		}
		// the owner is the session's entry: s.store[id], or a local defined from it
		owner := ast.Unparen(sel.X)
		if oid, isID := owner.(*ast.Ident); isID {
			for _, w2 := range Writes(sc.Body, false) {
				if sc.ObjOf(w2.LHS) != sc.ObjOf(oid) {
					continue
				}
				if w2.RHS != nil {
					owner = ast.Unparen(w2.RHS)
				} else if as2, ok := w2.Stmt.(*ast.AssignStmt); ok && len(as2.Rhs) == 1 && len(as2.Lhs) == 2 && as2.Lhs[0] == w2.LHS {
					owner = ast.Unparen(as2.Rhs[0])
				}
			}
		}
		m, k, isIx := indexOf(owner)
		if !isIx || !sc.IsField(m, storeF) || sc.ObjOf(k) != types.Object(id) {
			continue
		}
		dup := false
		for _, o := range out {
			dup = dup || o == fld
		}
		if !dup {
			out = append(out, fld)
		}
	}
	return out
}

// c20RemovalSubtracted: the size handed back by the removeFirst call is subtracted from the counter fld: in the same
// statement (fld -= dl.removeFirst()), from the local that received it before the next removal or return, or through a
// tally (t += dl.removeFirst()) — a local that is zero when the accumulation starts, is subtracted from fld (itself or an
// unmodified copy of it) on every way from the removal to a return, and is zeroed again before more is added to it.
func c20RemovalSubtracted(f *Func, g *Graph, call *ast.CallExpr, fld *types.Var) bool {
	v := g.VertexOf(call)
	as, ok := g.Node(v).(*ast.AssignStmt)
	if !ok || len(as.Lhs) != 1 || len(as.Rhs) != 1 || ast.Unparen(as.Rhs[0]) != ast.Expr(call) {
		return false
	}
	if as.Tok == token.SUB_ASSIGN && f.IsField(as.Lhs[0], fld) {
		return true
	}
	r, isV := f.ObjOf(as.Lhs[0]).(*types.Var)
	if !isV || r.IsField() || f.Root().addressTaken(r) {
		return false
	}
	subOf := func(u int, o types.Object) bool {
		s, ok := g.Node(u).(*ast.AssignStmt)
		return ok && s.Tok == token.SUB_ASSIGN && len(s.Lhs) == 1 && len(s.Rhs) == 1 && f.IsField(s.Lhs[0], fld) && f.ObjOf(s.Rhs[0]) == o && o != nil
	}
	switch as.Tok {
	case token.DEFINE, token.ASSIGN:
		okp, _ := g.MustPass(v, append(append([]int{}, g.Exits...), v), func(u int) bool { return subOf(u, r) })
		return okp
	case token.ADD_ASSIGN:
	default:
		return false
	}
	// the tally: zeroed by its declaration (or `= 0`), otherwise only added to by removals
	zero := map[int]bool{}
	for _, w := range Writes(f.Body, false) {
		if f.ObjOf(w.LHS) != types.Object(r) {
			continue
		}
		if w.Stmt == ast.Node(as) {
			continue
		}
		if _, isVS := w.Stmt.(*ast.ValueSpec); isVS && w.RHS == nil {
			zero[g.VertexOf(w.Stmt)] = true
			continue
		}
		if z, isZ := f.ConstInt(w.RHS); w.RHS != nil && isZ && z == 0 && (w.Tok == token.DEFINE || w.Tok == token.ASSIGN) {
			zero[g.VertexOf(w.Stmt)] = true
			continue
		}
		// another removal accumulated into the same tally is fine; anything else is not a tally
		if s2, ok := w.Stmt.(*ast.AssignStmt); ok && s2.Tok == token.ADD_ASSIGN && len(s2.Rhs) == 1 {
			if c2, isC := ast.Unparen(s2.Rhs[0]).(*ast.CallExpr); isC && f.Callee(c2) == f.Callee(call) {
				continue
			}
		}
		return false
	}
	if len(zero) == 0 {
		return false
	}
	zeroDominates := false
	for z := range zero {
		zeroDominates = zeroDominates || g.Dominates(z, v)
	}
	if !zeroDominates {
		return false
	}
	// carriers: the tally and locals that receive it once, unmodified
	type carrier struct {
		o    types.Object
		copy int // vertex of the copying assignment, -1 for the tally itself
	}
	cs := []carrier{{r, -1}}
	for _, w := range Writes(f.Body, false) {
		if w.RHS == nil || f.ObjOf(w.RHS) != types.Object(r) || (w.Tok != token.DEFINE && w.Tok != token.ASSIGN) {
			continue
		}
		lv, isL := f.ObjOf(w.LHS).(*types.Var)
		if !isL || lv.IsField() || f.Root().addressTaken(lv) {
			continue
		}
		n := 0
		for _, w2 := range Writes(f.Body, false) {
			if f.ObjOf(w2.LHS) == types.Object(lv) {
				if _, isVS := w2.Stmt.(*ast.ValueSpec); isVS && w2.RHS == nil {
					continue
				}
				n++
			}
		}
		if n == 1 {
			cs = append(cs, carrier{lv, g.VertexOf(w.Stmt)})
		}
	}
	for _, cr := range cs {
		okp, _ := g.MustPass(v, g.Exits, func(u int) bool { return subOf(u, cr.o) })
		if !okp {
			continue
		}
		good := true
		for u := 0; u < g.N; u++ {
			if !subOf(u, cr.o) {
				continue
			}
			// the copy is taken after the last removal: every way from the removal to the subtraction passes it, and
			// none leads from the copy back to the removal without passing a zeroing
			if cr.copy >= 0 {
				if all, _ := g.MustPass(v, []int{u}, func(x int) bool { return x == cr.copy }); !all {
					good = false
				}
				if seen, _ := g.reach(g.succ[cr.copy], func(x int) bool { return zero[x] }, nil); seen[v] {
					good = false
				}
			}
			// nothing is added to the tally again after it was subtracted, unless it was zeroed in between
			if seen, _ := g.reach(g.succ[u], func(x int) bool { return zero[x] }, nil); seen[v] {
				good = false
			}
		}
		if good {
			return true
		}
	}
	return false
}

// c20Lin reduces an integer expression to coefficient form over the terms param(T), Owner.field and len(Owner.field): a
// local with a single definition stands for it, and the length of a slice of a slice (x[a:][b:]) is len(x) - a - b.
func c20Lin(f *Func, e ast.Expr, depth int) (map[string]int64, int64, bool) {
	e = ast.Unparen(e)
	if v, ok := f.ConstInt(e); ok {
		return map[string]int64{}, v, true
	}
	if depth > 6 {
		return nil, 0, false
	}
	switch x := e.(type) {
	case *ast.BinaryExpr:
		if x.Op != token.ADD && x.Op != token.SUB {
			return nil, 0, false
		}
		a, ca, ok1 := c20Lin(f, x.X, depth+1)
		b, cb, ok2 := c20Lin(f, x.Y, depth+1)
		if !ok1 || !ok2 {
			return nil, 0, false
		}
		sign := int64(1)
		if x.Op == token.SUB {
			sign = -1
		}
		for k, v := range b {
			a[k] += sign * v
		}
		for k, v := range a {
			if v == 0 {
				delete(a, k)
			}
		}
		return a, ca + sign*cb, true
	case *ast.Ident:
		v, ok := f.ObjOf(x).(*types.Var)
		if !ok {
			return nil, 0, false
		}
		for _, p := range f.Root().Params() {
			if p == v {
				return map[string]int64{"param(" + v.Type().String() + ")": 1}, 0, true
			}
		}
		if def := f.valueOf(x); def != ast.Expr(x) && pureCond(def) {
			return c20Lin(f, def, depth+1)
		}
		return nil, 0, false
	case *ast.SelectorExpr:
		if fld, ok := f.ObjOf(x).(*types.Var); ok && fld.IsField() {
			return map[string]int64{f.FieldPath(x): 1}, 0, true
		}
		return nil, 0, false
	case *ast.CallExpr:
		if f.BuiltinName(x) != "len" || len(x.Args) != 1 {
			return nil, 0, false
		}
		out := map[string]int64{}
		var k int64
		cur := ast.Unparen(x.Args[0])
		for i := 0; i < 6; i++ {
			switch y := cur.(type) {
			case *ast.Ident:
				nx := ast.Unparen(f.valueOf(y))
				if nx == cur {
					return nil, 0, false
				}
				cur = nx
				continue
			case *ast.SliceExpr:
				if y.High != nil || y.Max != nil {
					return nil, 0, false
				}
				if y.Low != nil {
					t, c0, ok := c20Lin(f, y.Low, depth+1)
					if !ok {
						return nil, 0, false
					}
					for kk, v := range t {
						out[kk] -= v
					}
					k -= c0
				}
				cur = ast.Unparen(y.X)
				continue
			case *ast.SelectorExpr:
				if fld, ok := f.ObjOf(y).(*types.Var); ok && fld.IsField() {
					out["len("+f.FieldPath(y)+")"]++
					return out, k, true
				}
			}
			return nil, 0, false
		}
	}
	return nil, 0, false
}

// c20AfterEval: what evaluating After's locked copy function says about each of the three answers (triTrue: for every
// valuation of the grid exactly the demanded class of return is reached; triFalse: for some valuation, with every
// condition on the way decided, another class is reached; triUnknown: some condition could not be decided).
type c20AfterEval struct {
	purge, empty, data tri
	witness            string
}

func (e c20AfterEval) all() tri {
	if e.purge == triFalse || e.empty == triFalse || e.data == triFalse {
		return triFalse
	}
	if e.purge == triTrue && e.empty == triTrue && e.data == triTrue {
		return triTrue
	}
	return triUnknown
}

// c20EvalAfter evaluates the copy function for concrete (index, first, len(data)). With s = index + 1 - first the property
// demands: s < 0 → an error wrapping ErrEventsPurged and nothing else; 0 <= s < len(data) → a fresh copy of data[s:];
// s >= len(data) → no data and no error. Lookups in the tables are taken to succeed.
func c20EvalAfter(cp *Func, g *Graph, ePurged types.Object, dataF *types.Var, start types.Object) c20AfterEval {
	const (
		oPurge = iota + 1
		oEmpty
		oData
		oOther
	)
	names := map[int]string{oPurge: "the purge error", oEmpty: "no data", oData: "a copy of the suffix", oOther: "something else"}
	var val map[string]int64
	isLocal := func(e ast.Expr) (*ast.Ident, bool) {
		id, ok := ast.Unparen(e).(*ast.Ident)
		if !ok || isNilIdent(id) {
			return nil, false
		}
		v, isV := cp.ObjOf(id).(*types.Var)
		return id, isV && !v.IsField() && v.Pkg() != nil && v.Parent() != v.Pkg().Scope()
	}
	// nilness of an error-valued expression where it stands: triTrue = nil
	var isNil func(e ast.Expr, depth int) tri
	isNil = func(e ast.Expr, depth int) tri {
		e = ast.Unparen(e)
		if isNilIdent(e) {
			return triTrue
		}
		if depth > 4 {
			return triUnknown
		}
		if id, ok := isLocal(e); ok {
			if def := cp.reachingDef(g, id); def != nil {
				return isNil(def, depth+1)
			}
			return triUnknown
		}
		switch x := e.(type) {
		case *ast.Ident:
			if v, ok := cp.ObjOf(x).(*types.Var); ok && v.Pkg() != nil && v.Parent() == v.Pkg().Scope() && types.Identical(v.Type(), types.Universe.Lookup("error").Type()) {
				return triFalse // a sentinel
			}
		case *ast.CallExpr:
			if fn := cp.Callee(x); fn != nil && fn.Pkg() != nil && ((fn.Pkg().Path() == "fmt" && fn.Name() == "Errorf") || (fn.Pkg().Path() == "errors" && fn.Name() == "New")) {
				return triFalse
			}
		}
		return triUnknown
	}
	commaOK := func(id *ast.Ident) bool {
		o := cp.ObjOf(id)
		n := 0
		for _, w := range Writes(cp.Body, false) {
			if cp.ObjOf(w.LHS) != o {
				continue
			}
			as, isAs := w.Stmt.(*ast.AssignStmt)
			if !isAs || len(as.Lhs) != 2 || len(as.Rhs) != 1 || as.Lhs[1] != w.LHS {
				return false
			}
			m, _, isIx := indexOf(as.Rhs[0])
			if !isIx {
				return false
			}
			if _, isMap := cp.TypeOf(m).Underlying().(*types.Map); !isMap {
				return false
			}
			n++
		}
		return n > 0
	}
	leaf := func(e ast.Expr) tri {
		e = ast.Unparen(e)
		if id, ok := e.(*ast.Ident); ok {
			if o := cp.ObjOf(id); o != nil && commaOK(id) {
				return triTrue
			}
			return triUnknown
		}
		if x, trueWhenNil, ok := NilTest(e); ok {
			n := isNil(x, 0)
			if n == triUnknown {
				return triUnknown
			}
			if (n == triTrue) == trueWhenNil {
				return triTrue
			}
			return triFalse
		}
		x, y, op, ok := binaryCmp(e)
		if !ok {
			return triUnknown
		}
		tx, kx, ok1 := c20Lin(cp, x, 0)
		ty, ky, ok2 := c20Lin(cp, y, 0)
		if !ok1 || !ok2 {
			return triUnknown
		}
		d := kx - ky
		for t, cf := range tx {
			v, known := val[t]
			if !known {
				return triUnknown
			}
			d += cf * v
		}
		for t, cf := range ty {
			v, known := val[t]
			if !known {
				return triUnknown
			}
			d -= cf * v
		}
		var r bool
		switch op {
		case token.EQL:
			r = d == 0
		case token.NEQ:
			r = d != 0
		case token.LSS:
			r = d < 0
		case token.LEQ:
			r = d <= 0
		case token.GTR:
			r = d > 0
		case token.GEQ:
			r = d >= 0
		}
		if r {
			return triTrue
		}
		return triFalse
	}
	var wrapsPurge func(e ast.Expr, depth int) bool
	wrapsPurge = func(e ast.Expr, depth int) bool {
		e = ast.Unparen(e)
		if depth > 4 {
			return false
		}
		if cp.WrapsObj(e, ePurged) {
			return true
		}
		if id, ok := isLocal(e); ok {
			if def := cp.reachingDef(g, id); def != nil {
				return wrapsPurge(def, depth+1)
			}
			return false
		}
		if call, ok := e.(*ast.CallExpr); ok {
			for _, w := range cp.ErrorfWraps(call) {
				if wrapsPurge(w, depth+1) {
					return true
				}
			}
		}
		return false
	}
	var classify func(e ast.Expr, at int, reach []bool, depth int) int
	classify = func(e ast.Expr, at int, reach []bool, depth int) int {
		e = ast.Unparen(e)
		if empty, _ := cp.emptySlice(e); empty {
			return oEmpty
		}
		if freshSuffixCopy(cp, e, dataF, start) {
			return oData
		}
		id, ok := isLocal(e)
		if !ok || depth > 4 {
			return oOther
		}
		// the value-giving assignments of the local that are reached under this valuation and lead to the use; the one
		// none of the others can follow is the value
		type cand struct {
			v   int
			rhs ast.Expr
		}
		var cands []cand
		for _, w := range Writes(cp.Body, false) {
			if cp.ObjOf(w.LHS) != cp.ObjOf(id) {
				continue
			}
			wv := g.VertexOf(w.Stmt)
			if wv < 0 || !reach[wv] || !(wv == at || g.ReachableFrom(wv)[at]) {
				continue
			}
			if w.RHS == nil {
				if _, isVS := w.Stmt.(*ast.ValueSpec); isVS {
					cands = append(cands, cand{wv, ast.NewIdent("nil")})
					continue
				}
				return oOther
			}
			cands = append(cands, cand{wv, w.RHS})
		}
		var last *cand
		for i := range cands {
			followed := false
			for j := range cands {
				if i != j && g.ReachableFrom(cands[i].v)[cands[j].v] {
					followed = true
				}
			}
			if !followed {
				if last != nil {
					return oOther
				}
				last = &cands[i]
			}
		}
		if last == nil {
			return oOther
		}
		if id2, isID := last.rhs.(*ast.Ident); isID && id2.Name == "nil" && id2.Obj == nil && cp.ObjOf(id2) == nil {
			return oEmpty // declared without a value
		}
		return classify(last.rhs, last.v, reach, depth+1)
	}
	res := c20AfterEval{purge: triTrue, empty: triTrue, data: triTrue}
	set := func(p *tri, t tri) {
		if *p == triFalse || t == triTrue {
			return
		}
		if t == triFalse || *p == triTrue {
			*p = t
		}
	}
	for _, F := range []int64{0, 3} {
		for _, N := range []int64{0, 1, 3} {
			for I := int64(-1); I <= F+N+1; I++ {
				val = map[string]int64{"param(int)": I, "dataList.first": F, "len(dataList.data)": N}
				s := I + 1 - F
				want, slot := oData, &res.data
				switch {
				case s < 0:
					want, slot = oPurge, &res.purge
				case s >= N:
					want, slot = oEmpty, &res.empty
				}
				reach := g.ReachUnder(leaf, nil)
				decided := true
				for i, b := range g.C.Blocks {
					if !b.Live || len(b.Succs) != 2 || len(b.Nodes) == 0 {
						continue
					}
					cond, isE := b.Nodes[len(b.Nodes)-1].(ast.Expr)
					if !isE || !reach[g.off[i]+len(b.Nodes)-1] {
						continue
					}
					if evalTri(cond, leaf) == triUnknown {
						decided = false
					}
				}
				got := map[int]bool{}
				for _, r := range cp.Returns() {
					rv := g.VertexOf(r)
					if rv < 0 || !reach[rv] {
						continue
					}
					if len(r.Results) != 2 {
						got[oOther] = true
						continue
					}
					switch isNil(r.Results[1], 0) {
					case triTrue:
						got[classify(r.Results[0], rv, reach, 0)] = true
					case triFalse:
						if wrapsPurge(r.Results[1], 0) {
							got[oPurge] = true
						} else {
							got[oOther] = true
						}
					default:
						got[oOther] = true
						decided = false
					}
				}
				okHere := len(got) > 0
				var gotS []string
				for o := oPurge; o <= oOther; o++ {
					if !got[o] {
						continue
					}
					gotS = append(gotS, names[o])
					if o != want && !(o == oData && want == oEmpty && s == N) {
						okHere = false
					}
				}
				switch {
				case okHere && decided:
				case okHere || !decided:
					// reached the right class among undecided branches, or the wrong one only because a branch is unknown
					if !okHere || !decided {
						set(slot, triUnknown)
					}
				default:
					set(slot, triFalse)
					if res.witness == "" {
						res.witness = "for index=" + itoa(int(I)) + ", first=" + itoa(int(F)) + ", len(data)=" + itoa(int(N)) + " After answers " + strings.Join(gotS, " or ") + " where the property demands " + names[want]
					}
				}
			}
		}
	}
	return res
}

// c20Sym: a linear form over the values the list's fields had when the function was entered.
type c20Sym struct {
	t  map[string]int64
	k  int64
	ok bool
}

func (a c20Sym) add(b c20Sym, sign int64) c20Sym {
	if !a.ok || !b.ok {
		return c20Sym{}
	}
	out := c20Sym{t: map[string]int64{}, k: a.k + sign*b.k, ok: true}
	for k, v := range a.t {
		out.t[k] = v
	}
	for k, v := range b.t {
		out.t[k] += sign * v
	}
	for k, v := range out.t {
		if v == 0 {
			delete(out.t, k)
		}
	}
	return out
}

func (a c20Sym) same(b c20Sym) bool {
	if a.k != b.k || len(a.t) != len(b.t) {
		return false
	}
	for k, v := range a.t {
		if b.t[k] != v {
			return false
		}
	}
	return true
}

// c20OriginKept: After turns a stream index into a position in data by subtracting an origin made of list fields
// (start = index + 1 - O, taken in the view data[L:]): it relies on data[k] holding the item with index (O - L) + k. Every
// function that rewrites those fields or moves the items of data must keep that true: on each path through it, O - L grows
// by exactly the number of leading slots of data that were dropped (reslicing data[a:], or copying data[a:] to the front).
// The assignments along each path are executed symbolically over the entry values of the fields; paths with a step that
// cannot be modelled make no claim.
func c20OriginKept(c *Ctx, cp *Func, dlT *types.Named, dataF *types.Var, start types.Object, startRHS ast.Expr) {
	if startRHS == nil || start == nil {
		return
	}
	t, k, ok := c20Lin(cp, startRHS, 0)
	if !ok || t["param(int)"] != 1 {
		return
	}
	_ = k
	prefix := dlT.Obj().Name() + "."
	base := c20Sym{t: map[string]int64{}, ok: true}
	for term, cf := range t {
		if term == "param(int)" {
			continue
		}
		if !strings.HasPrefix(term, prefix) {
			return
		}
		base.t[term] = -cf
	}
	// the view the offset is taken in
	found := false
	inspectNoLit(cp.Body, func(n ast.Node) {
		sl, isSl := n.(*ast.SliceExpr)
		if !isSl || found || sl.Low == nil || cp.ObjOf(sl.Low) != start {
			return
		}
		x := ast.Unparen(sl.X)
		if id, isID := x.(*ast.Ident); isID {
			x = ast.Unparen(cp.valueOf(id))
		}
		if cp.IsField(x, dataF) {
			found = true
			return
		}
		if in, isIn := x.(*ast.SliceExpr); isIn && cp.IsField(in.X, dataF) && in.High == nil && in.Max == nil {
			if in.Low == nil {
				found = true
				return
			}
			if lt, _, okL := c20Lin(cp, in.Low, 0); okL {
				for term, cf := range lt {
					if !strings.HasPrefix(term, prefix) {
						return
					}
					base.t[term] -= cf
					if base.t[term] == 0 {
						delete(base.t, term)
					}
				}
				found = true
			}
		}
	})
	if !found || len(base.t) == 0 {
		return
	}
	isListField := func(f *Func, e ast.Expr) (string, *types.Var, bool) {
		sel, isSel := ast.Unparen(e).(*ast.SelectorExpr)
		if !isSel {
			return "", nil, false
		}
		fld, isV := f.ObjOf(sel).(*types.Var)
		if !isV || !fld.IsField() {
			return "", nil, false
		}
		for _, df := range structFields(dlT) {
			if df == fld {
				return f.FieldPath(sel), fld, true
			}
		}
		return "", nil, false
	}
	for _, f := range c.funcsWithLits(pM) {
		if f.Body == nil {
			continue
		}
		touches := false
		for _, w := range Writes(f.Body, false) {
			if path, fld, isL := isListField(f, w.LHS); isL && (fld == dataF || base.t[path] != 0) {
				touches = true
			}
		}
		if !touches {
			continue
		}
		g := f.Graph()
		type state struct {
			fields map[string]c20Sym
			locals map[types.Object]c20Sym
			shift  c20Sym
		}
		clone := func(s state) state {
			n := state{fields: map[string]c20Sym{}, locals: map[types.Object]c20Sym{}, shift: s.shift}
			for k, v := range s.fields {
				n.fields[k] = v
			}
			for k, v := range s.locals {
				n.locals[k] = v
			}
			return n
		}
		var eval func(s *state, e ast.Expr) c20Sym
		eval = func(s *state, e ast.Expr) c20Sym {
			e = ast.Unparen(e)
			if v, isC := f.ConstInt(e); isC {
				return c20Sym{t: map[string]int64{}, k: v, ok: true}
			}
			switch x := e.(type) {
			case *ast.BinaryExpr:
				switch x.Op {
				case token.ADD:
					return eval(s, x.X).add(eval(s, x.Y), 1)
				case token.SUB:
					return eval(s, x.X).add(eval(s, x.Y), -1)
				}
			case *ast.Ident:
				if o := f.ObjOf(x); o != nil {
					if v, has := s.locals[o]; has {
						return v
					}
				}
			case *ast.SelectorExpr:
				if path, _, isL := isListField(f, x); isL {
					if v, has := s.fields[path]; has {
						return v
					}
					return c20Sym{t: map[string]int64{path: 1}, ok: true}
				}
			}
			return c20Sym{}
		}
		// the number of leading slots of data the slice expression e leaves out
		lowOf := func(s *state, e ast.Expr) c20Sym {
			e = ast.Unparen(e)
			if id, isID := e.(*ast.Ident); isID {
				e = ast.Unparen(f.valueOf(id))
			}
			if f.IsField(e, dataF) {
				return c20Sym{t: map[string]int64{}, ok: true}
			}
			if sl, isSl := e.(*ast.SliceExpr); isSl && f.IsField(sl.X, dataF) {
				if sl.Low == nil {
					return c20Sym{t: map[string]int64{}, ok: true}
				}
				return eval(s, sl.Low)
			}
			return c20Sym{}
		}
		step := func(s *state, n ast.Node) {
			if n == nil {
				return
			}
			for _, call := range f.AllCalls(n, false) {
				if f.BuiltinName(call) == "copy" && len(call.Args) == 2 && f.IsField(call.Args[0], dataF) {
					s.shift = s.shift.add(lowOf(s, call.Args[1]), 1)
				}
			}
			switch st := n.(type) {
			case *ast.IncDecStmt:
				d := int64(1)
				if st.Tok == token.DEC {
					d = -1
				}
				one := c20Sym{t: map[string]int64{}, k: d, ok: true}
				if path, fld, isL := isListField(f, st.X); isL && fld != dataF {
					s.fields[path] = eval(s, st.X).add(one, 1)
				} else if o := f.ObjOf(st.X); o != nil {
					if v, has := s.locals[o]; has {
						s.locals[o] = v.add(one, 1)
					}
				}
			case *ast.AssignStmt:
				// right sides first (a tuple assignment reads all of them before it writes)
				vals := make([]c20Sym, len(st.Lhs))
				if len(st.Lhs) == len(st.Rhs) {
					for i := range st.Lhs {
						vals[i] = eval(s, st.Rhs[i])
					}
				}
				for i, l := range st.Lhs {
					var rhs ast.Expr
					if len(st.Lhs) == len(st.Rhs) {
						rhs = st.Rhs[i]
					}
					nv := vals[i]
					switch st.Tok {
					case token.ADD_ASSIGN:
						nv = eval(s, l).add(vals[i], 1)
					case token.SUB_ASSIGN:
						nv = eval(s, l).add(vals[i], -1)
					case token.ASSIGN, token.DEFINE:
					default:
						nv = c20Sym{}
					}
					if path, fld, isL := isListField(f, l); isL {
						if fld != dataF {
							s.fields[path] = nv
							continue
						}
						// data = data[a:b] | append(data, …) | append(data[:0], data[a:]...)
						switch r := ast.Unparen(rhs).(type) {
						case *ast.SliceExpr:
							s.shift = s.shift.add(lowOf(s, &ast.SliceExpr{X: r.X, Low: r.Low}), 1)
						case *ast.CallExpr:
							if rhs != nil && f.BuiltinName(r) == "append" && len(r.Args) >= 1 && f.IsField(r.Args[0], dataF) {
								break
							}
							if rhs != nil && f.BuiltinName(r) == "append" && len(r.Args) == 2 && r.Ellipsis.IsValid() {
								if b, isB := ast.Unparen(r.Args[0]).(*ast.SliceExpr); isB && f.IsField(b.X, dataF) && b.Low == nil && b.High != nil {
									if z, isZ := f.ConstInt(b.High); isZ && z == 0 {
										s.shift = s.shift.add(lowOf(s, r.Args[1]), 1)
										break
									}
								}
							}
							s.shift = c20Sym{}
						default:
							s.shift = c20Sym{}
						}
						continue
					}
					if id, isID := ast.Unparen(l).(*ast.Ident); isID {
						if o := f.ObjOf(id); o != nil {
							s.locals[o] = nv
						}
					}
				}
			}
		}
		nPaths, bad, decidedPaths := 0, "", 0
		var walk func(v int, s state, onPath map[int]bool)
		walk = func(v int, s state, onPath map[int]bool) {
			if nPaths > 256 || onPath[v] {
				return
			}
			step(&s, g.Node(v))
			isExit := false
			for _, x := range g.Exits {
				if x == v {
					isExit = true
				}
			}
			if isExit {
				nPaths++
				now := c20Sym{t: map[string]int64{}, ok: true}
				for term, cf := range base.t {
					cur, has := s.fields[term]
					if !has {
						cur = c20Sym{t: map[string]int64{term: 1}, ok: true}
					}
					for i := int64(0); i < cf; i++ {
						now = now.add(cur, 1)
					}
					for i := int64(0); i > cf; i-- {
						now = now.add(cur, -1)
					}
				}
				want := base.add(s.shift, 1)
				if now.ok && want.ok {
					decidedPaths++
					if !now.same(want) && bad == "" {
						bad = "on some path"
						if g.Node(v) != nil {
							bad = "on a path to " + c.P.Rel(g.Node(v).Pos())
						}
					}
				}
				return
			}
			onPath[v] = true
			for i, u := range g.succ[v] {
				if i == len(g.succ[v])-1 {
					walk(u, s, onPath)
				} else {
					walk(u, clone(s), onPath)
				}
			}
			delete(onPath, v)
		}
		walk(g.Entry, state{fields: map[string]c20Sym{}, locals: map[types.Object]c20Sym{}, shift: c20Sym{t: map[string]int64{}, ok: true}}, map[int]bool{})
		if decidedPaths == 0 {
			continue
		}
		c.Check(bad == "", "After:index-origin-kept:"+f.Name(), f, nil, "the index origin After subtracts (%s) advances by exactly the number of leading slots of data that are dropped %s", exprStr(startRHS), bad)
	}
}

package main

import (
	"encoding/json"
	"fmt"
	"go/ast"
	"go/token"
	"go/types"
	"os"
	"sort"
	"strings"
)

// Systematic mutation of the functions the rules analyse. This is a tool for finding blind spots of the
// checker (tools/mutcampaign.py drives it); it is not part of any check.
//
//	mcpcheck -mutgen -repo <dir>   prints a JSON list of textual edits, one per mutant, restricted to the
//	                               declared functions that at least one rule of any property touched.
//
// Operators (each yields a tree that usually still type-checks):
//
//	del-stmt      delete a statement that has an effect but defines nothing (call, =, op=, ++/--, defer, go, send)
//	neg-cond      if c        → if !(c)
//	drop-left     a && b / a || b in an if condition → b
//	drop-right    a && b / a || b in an if condition → a
//	del-return    delete an `if … { return … }` guard whole (no else)
//	cmp-boundary  < ↔ <=, > ↔ >=
//	swap-stmt     exchange two adjacent statements that both have an effect (call, =, ++, send, defer, go)
//	undefer       defer f(x) → f(x);  defer-it: f(x) → defer f(x)
//	arg-swap      exchange two adjacent call arguments of identical type
//	add-conjunct  if c → if (c) && !recv.flag   (flag: a boolean field of the receiver that c does not mention)
//	const-sibling a package-level constant → the next constant of the same type whose name shares a long prefix
type mutSite struct {
	ID    int    `json:"id"`
	Op    string `json:"op"`
	File  string `json:"file"` // relative to the repository root
	Func  string `json:"func"`
	Line  int    `json:"line"`
	Start int    `json:"start"` // byte offsets in the file
	End   int    `json:"end"`
	New   string `json:"new"`
	Old   string `json:"old"`
}

func mutgen(repo, root string) int {
	normaliseCmp = false
	p, err := Load(repo, true)
	if err != nil {
		fmt.Fprintln(os.Stderr, err)
		return 1
	}
	// union of the functions touched by the rules of all properties
	touched := map[*Func]bool{}
	ids := []string{}
	for id := range registry {
		ids = append(ids, id)
	}
	sort.Strings(ids)
	for _, id := range ids {
		c := newCtx(p, id, "quick")
		guarded(c, id, func() { registry[id].rules(c) })
		for f := range c.funcs {
			if f != nil {
				touched[f.Root()] = true
			}
		}
	}
	out := mutSites(p, touched, repo)
	enc := json.NewEncoder(os.Stdout)
	enc.SetIndent("", " ")
	if err := enc.Encode(out); err != nil {
		return 1
	}
	fmt.Fprintf(os.Stderr, "mutgen: %d mutation sites\n", len(out))
	return 0
}

// mutSites enumerates the textual mutants of the given declared functions.
func mutSites(p *Prog, touched map[*Func]bool, repo string) []mutSite {
	var roots []*Func
	for f := range touched {
		if f != nil && f.Decl != nil {
			roots = append(roots, f)
		}
	}
	sort.Slice(roots, func(i, j int) bool { return roots[i].Body.Pos() < roots[j].Body.Pos() })
	srcs := map[string][]byte{}
	src := func(file string) []byte {
		if b, ok := srcs[file]; ok {
			return b
		}
		b, _ := os.ReadFile(file)
		srcs[file] = b
		return b
	}
	var out []mutSite
	add := func(f *Func, op string, from, to token.Pos, repl string) {
		a, b := p.Fset.Position(from), p.Fset.Position(to)
		if a.Filename != b.Filename || strings.HasSuffix(a.Filename, "_test.go") {
			return
		}
		data := src(a.Filename)
		if a.Offset < 0 || b.Offset > len(data) || a.Offset >= b.Offset {
			return
		}
		rel := strings.TrimPrefix(a.Filename, repo+"/")
		out = append(out, mutSite{ID: len(out), Op: op, File: rel, Func: f.Name(), Line: a.Line, Start: a.Offset, End: b.Offset, New: repl, Old: string(data[a.Offset:b.Offset])})
	}
	text := func(n ast.Node) string {
		a, b := p.Fset.Position(n.Pos()), p.Fset.Position(n.End())
		if a.Offset >= b.Offset {
			return "true" // a normalised (mirrored) comparison: no usable source range
		}
		return string(src(a.Filename)[a.Offset:b.Offset])
	}
	isLogging := func(f *Func, s ast.Stmt) bool {
		es, ok := s.(*ast.ExprStmt)
		if !ok {
			return false
		}
		ce, ok := es.X.(*ast.CallExpr)
		if !ok {
			return false
		}
		if fn := f.Callee(ce); fn != nil && fn.Pkg() != nil {
			pp := fn.Pkg().Path()
			return pp == "log/slog" || pp == "log"
		}
		return false
	}
	for _, f := range roots {
		ast.Inspect(f.Body, func(n ast.Node) bool {
			switch x := n.(type) {
			case *ast.BlockStmt:
				for i := 0; i+1 < len(x.List); i++ {
					a, b := x.List[i], x.List[i+1]
					if effectful(a) && effectful(b) && !isLogging(f, a) && !isLogging(f, b) {
						add(f, "swap-stmt", a.Pos(), b.End(), text(b)+"\n"+text(a))
					}
				}
				for _, s := range x.List {
					if isLogging(f, s) {
						continue
					}
					switch st := s.(type) {
					case *ast.ExprStmt:
						if _, isCall := st.X.(*ast.CallExpr); isCall {
							add(f, "del-stmt", s.Pos(), s.End(), "")
						} else if u, isU := st.X.(*ast.UnaryExpr); isU && u.Op == token.ARROW {
							add(f, "del-stmt", s.Pos(), s.End(), "")
						}
					case *ast.AssignStmt:
						if st.Tok != token.DEFINE {
							add(f, "del-stmt", s.Pos(), s.End(), "")
						}
					case *ast.IncDecStmt, *ast.DeferStmt, *ast.GoStmt, *ast.SendStmt:
						add(f, "del-stmt", s.Pos(), s.End(), "")
					case *ast.IfStmt:
						if st.Else == nil && st.Init == nil && len(st.Body.List) > 0 {
							if _, isRet := st.Body.List[len(st.Body.List)-1].(*ast.ReturnStmt); isRet {
								add(f, "del-return", s.Pos(), s.End(), "")
							}
						}
					}
				}
			case *ast.CaseClause:
				for _, s := range x.Body {
					if es, ok := s.(*ast.ExprStmt); ok && !isLogging(f, s) {
						if _, isCall := es.X.(*ast.CallExpr); isCall {
							add(f, "del-stmt", s.Pos(), s.End(), "")
						}
					}
					if as, ok := s.(*ast.AssignStmt); ok && as.Tok != token.DEFINE {
						add(f, "del-stmt", s.Pos(), s.End(), "")
					}
				}
			case *ast.CommClause:
				for _, s := range x.Body {
					if es, ok := s.(*ast.ExprStmt); ok && !isLogging(f, s) {
						if _, isCall := es.X.(*ast.CallExpr); isCall {
							add(f, "del-stmt", s.Pos(), s.End(), "")
						}
					}
					if as, ok := s.(*ast.AssignStmt); ok && as.Tok != token.DEFINE {
						add(f, "del-stmt", s.Pos(), s.End(), "")
					}
				}
			case *ast.DeferStmt:
				// defer f(x) → f(x): the clean-up runs now instead of at return
				add(f, "undefer", x.Pos(), x.Call.Pos(), "")
			case *ast.ExprStmt:
				// f(x) → defer f(x): the effect is postponed to the return (only for calls without results used)
				if ce, isCall := x.X.(*ast.CallExpr); isCall && !isLogging(f, x) {
					if _, isLit := ast.Unparen(ce.Fun).(*ast.FuncLit); !isLit && f.BuiltinName(ce) == "" {
						add(f, "defer-it", x.Pos(), x.End(), "defer "+text(x))
					}
				}
			case *ast.CallExpr:
				// exchange two adjacent arguments of identical type
				for i := 0; i+1 < len(x.Args); i++ {
					ta, tb := f.TypeOf(x.Args[i]), f.TypeOf(x.Args[i+1])
					if ta != nil && tb != nil && types.Identical(ta, tb) && text(x.Args[i]) != text(x.Args[i+1]) {
						if _, isB := ta.Underlying().(*types.Basic); isB && f.ConstVal(x.Args[i]) != nil && f.ConstVal(x.Args[i+1]) != nil {
							continue // two literals: usually a format string and its text
						}
						add(f, "arg-swap", x.Args[i].Pos(), x.Args[i+1].End(), text(x.Args[i+1])+", "+text(x.Args[i]))
					}
				}
			case *ast.Ident:
				// a package-level constant replaced by its neighbour in a family of like-named constants
				if cst, isC := f.Info().Uses[x].(*types.Const); isC && cst.Pkg() != nil && cst.Parent() == cst.Pkg().Scope() {
					if sib := constSibling(cst); sib != "" {
						add(f, "const-sibling", x.Pos(), x.End(), sib)
					}
				}
			case *ast.BinaryExpr:
				// boundary slips on ordered comparisons
				var repl string
				switch x.Op {
				case token.LSS:
					repl = "<="
				case token.LEQ:
					repl = "<"
				case token.GTR:
					repl = ">="
				case token.GEQ:
					repl = ">"
				}
				if repl != "" && x.OpPos.IsValid() && x.X.End() <= x.OpPos {
					add(f, "cmp-boundary", x.OpPos, x.OpPos+token.Pos(len(x.Op.String())), repl)
				}
			case *ast.IfStmt:
				add(f, "neg-cond", x.Cond.Pos(), x.Cond.End(), "!("+text(x.Cond)+")")
				// narrow the gate by one plausible conjunct: a boolean field of the receiver the condition does not mention
				if extra := extraBool(f, x.Cond); extra != "" {
					add(f, "add-conjunct", x.Cond.Pos(), x.Cond.End(), "("+text(x.Cond)+") && !"+extra)
				}
				var walk func(e ast.Expr)
				walk = func(e ast.Expr) {
					e2 := ast.Unparen(e)
					if b, ok := e2.(*ast.BinaryExpr); ok && (b.Op == token.LAND || b.Op == token.LOR) {
						add(f, "drop-left", b.Pos(), b.End(), text(b.Y))
						add(f, "drop-right", b.Pos(), b.End(), text(b.X))
						walk(b.X)
						walk(b.Y)
					}
				}
				walk(x.Cond)
			}
			return true
		})
	}
	for i := range out {
		out[i].ID = i
	}
	return out
}

// effectful: a statement that does something and defines nothing (so that exchanging two of them still compiles).
func effectful(s ast.Stmt) bool {
	switch st := s.(type) {
	case *ast.ExprStmt:
		_, isCall := st.X.(*ast.CallExpr)
		return isCall
	case *ast.AssignStmt:
		return st.Tok != token.DEFINE
	case *ast.IncDecStmt, *ast.SendStmt, *ast.DeferStmt, *ast.GoStmt:
		return true
	}
	return false
}

// constSibling returns the name of another package-level constant of the same package and type whose name shares a
// prefix of at least 8 characters with cst (the next one in name order, cyclically); "" if there is none.
func constSibling(cst *types.Const) string {
	scope := cst.Pkg().Scope()
	var fam []string
	for _, n := range scope.Names() {
		o, ok := scope.Lookup(n).(*types.Const)
		if !ok || !types.Identical(o.Type(), cst.Type()) {
			continue
		}
		k := 0
		for k < len(n) && k < len(cst.Name()) && n[k] == cst.Name()[k] {
			k++
		}
		if k >= 8 {
			fam = append(fam, n)
		}
	}
	sort.Strings(fam)
	if len(fam) < 2 {
		return ""
	}
	for i, n := range fam {
		if n == cst.Name() {
			return fam[(i+1)%len(fam)]
		}
	}
	return ""
}

// extraBool returns "recv.field" for the first (by name) boolean field of f's receiver struct that cond does not
// mention; "" if there is no receiver or no such field.
func extraBool(f *Func, cond ast.Expr) string {
	root := f.Root()
	rv := root.Recv()
	if rv == nil || rv.Name() == "" || rv.Name() == "_" {
		return ""
	}
	n := namedOf(rv.Type())
	if n == nil {
		return ""
	}
	st, ok := n.Underlying().(*types.Struct)
	if !ok {
		return ""
	}
	var names []string
	for i := 0; i < st.NumFields(); i++ {
		fl := st.Field(i)
		if b, isB := fl.Type().Underlying().(*types.Basic); isB && b.Kind() == types.Bool && !f.Mentions(cond, fl) {
			names = append(names, fl.Name())
		}
	}
	sort.Strings(names)
	if len(names) == 0 {
		return ""
	}
	return rv.Name() + "." + names[0]
}

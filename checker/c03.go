package main

import (
	"go/ast"
	"go/token"
	"go/types"
	"strings"
)

func init() { register("C03", rulesC03, deepC03) }

func isRecvFrom(f *Func, e ast.Expr, match func(ast.Expr) bool) bool {
	u, ok := ast.Unparen(e).(*ast.UnaryExpr)
	return ok && u.Op == token.ARROW && match(u.X)
}

func rulesC03(c *Ctx) {
	queue := c.Field(pJ, "inFlightState", "handlerQueue")
	running := c.Field(pJ, "inFlightState", "handlerRunning")
	haObj := c.FnObj(pJ, "Connection", "handleAsync")

	c.Rule("R-C03-1", "the handler queue is FIFO: appended at the tail only when a request is accepted, consumed from the head only by the dispatcher", func() {
		nApp, nPop := 0, 0
		for _, f := range c.funcsWithLits(pJ) {
			// headTaken: some assignment of this function reads handlerQueue[0]
			headTaken := func() *ast.AssignStmt {
				for _, w := range Writes(f.Body, false) {
					if w.RHS == nil {
						continue
					}
					if m, k, ok := indexOf(w.RHS); ok && f.IsField(m, queue) {
						if z, ok := f.ConstInt(k); ok && z == 0 {
							as, _ := w.Stmt.(*ast.AssignStmt)
							return as
						}
					}
				}
				return nil
			}
			for _, w := range Writes(f.Body, false) {
				if m, k, isIx := indexOf(w.LHS); isIx && f.IsField(m, queue) {
					// an element is overwritten: only the head slot, with nil, after its value was taken (so that the backing
					// array does not keep the request alive); anything else reorders or replaces queued requests
					z, isZ := f.ConstInt(k)
					ht := headTaken()
					g := f.Graph()
					c.Check(isZ && z == 0 && w.RHS != nil && isNilIdent(w.RHS) && ht != nil && g.Dominates(g.VertexOf(ht), g.VertexOf(w.Stmt)), f.Name()+":handlerQueue[i]=", f, w.Stmt, "an element of the queue is overwritten only to clear the head slot after its request was taken")
					continue
				}
				if !f.IsField(w.LHS, queue) {
					continue
				}
				root := f.Root()
				key := f.Name() + ":handlerQueue="
				if empty, _ := f.emptySlice(w.RHS); w.RHS != nil && empty {
					// the drained queue is reset: only where it is known to be empty
					g := f.Graph()
					okE := hasAtom(g.GuardsAt(g.VertexOf(w.Stmt)), func(a Atom) bool {
						x, y, op, ok := binaryCmp(a.E)
						if !ok {
							return false
						}
						ce, isCe := ast.Unparen(x).(*ast.CallExpr)
						z, isZ := f.ConstInt(y)
						return isCe && f.BuiltinName(ce) == "len" && len(ce.Args) == 1 && f.IsField(ce.Args[0], queue) && isZ && z == 0 && ((op == token.EQL && a.Val) || (op == token.GTR && !a.Val) || (op == token.NEQ && !a.Val))
					})
					c.Check(okE, key+"reset", f, w.Stmt, "the queue is replaced by an empty one only where len(handlerQueue) == 0 is known (nothing queued is dropped)")
					continue
				}
				if w.RHS == nil {
					// tuple assignment: req, s.handlerQueue = s.handlerQueue[0], s.handlerQueue[1:]
					c.Fail(key+"?", f, w.Stmt, "unrecognised write of handlerQueue")
					continue
				}
				switch r := ast.Unparen(w.RHS).(type) {
				case *ast.CallExpr:
					ok := f.BuiltinName(r) == "append" && len(r.Args) == 2 && f.IsField(r.Args[0], queue) && !r.Ellipsis.IsValid()
					nApp++
					c.Check(ok && root.Obj != nil && root.Obj.Name() == "acceptRequest", key+"append", f, w.Stmt, "enqueue is append(handlerQueue, req) at the tail, in acceptRequest")
				case *ast.SliceExpr:
					lo, isInt := int64(-1), false
					if r.Low != nil {
						lo, isInt = f.ConstInt(r.Low)
					}
					okPop := f.IsField(r.X, queue) && isInt && lo == 1 && r.High == nil
					// the element taken in the same statement is index 0
					// (in the same statement, or in an assignment that every path to the pop has passed)
					head := false
					if ht := headTaken(); ht != nil {
						g := f.Graph()
						head = ht == w.Stmt || g.Dominates(g.VertexOf(ht), g.VertexOf(w.Stmt))
					}
					nPop++
					c.Check(okPop && head && root.Obj == haObj, key+"pop-head", f, w.Stmt, "dequeue takes handlerQueue[0] and keeps handlerQueue[1:], in handleAsync")
				default:
					c.Fail(key+"?", f, w.Stmt, "unrecognised write of handlerQueue (%s)", exprStr(w.RHS))
				}
			}
		}
		if qT := c03QueueStruct(queue); qT != nil {
			c03RingRebase(c, qT)
			// the same two roles when the backlog is a type of its own: a method of it that takes a request is the enqueue, one
			// that hands a request out is the dequeue
			for _, f := range c.funcsWithLits(pJ) {
				for _, call := range f.AllCalls(f.Body, false) {
					sel, ok := ast.Unparen(call.Fun).(*ast.SelectorExpr)
					if !ok || !f.IsField(sel.X, queue) {
						continue
					}
					fn := f.Callee(call)
					if fn == nil {
						continue
					}
					sig := fn.Type().(*types.Signature)
					root := f.Root()
					switch {
					case sig.Params().Len() == 1 && sig.Results().Len() == 0:
						nApp++
						c.Check(root.Obj != nil && root.Obj.Name() == "acceptRequest", f.Name()+":handlerQueue."+fn.Name(), f, call, "a request is handed to the queue only in acceptRequest")
					case sig.Params().Len() == 0 && sig.Results().Len() >= 1 && namedOf(c03Deref(sig.Results().At(0).Type())) != nil:
						nPop++
						c.Check(root.Obj == haObj, f.Name()+":handlerQueue."+fn.Name(), f, call, "a request is taken from the queue only by the dispatcher, in handleAsync")
					}
				}
			}
		}
		c.Pin("enqueue", nApp, 1)
		c.Pin("dequeue", nPop, 1)
	})

	c.Rule("R-C03-2", "there is at most one dispatcher goroutine: started only when none is running (flag set in the same locked closure), flag cleared only by the dispatcher when the queue is empty", func() {
		nGo := 0
		for _, f := range c.funcsWithLits(pJ) {
			for _, gs := range f.goStmts() {
				if !f.IsCallTo(gs.Call, haObj) {
					continue
				}
				nGo++
				g := f.Graph()
				gv := g.VertexOf(gs)
				guards := g.GuardsAt(gv)
				okG := hasAtom(guards, func(a Atom) bool { return !a.Val && f.IsField(a.E, running) })
				c.Check(okG && c.inFlightContext(f) == "updateInFlight closure", "go-handleAsync:"+f.Name(), f, gs, "dispatcher started under !handlerRunning inside a locked closure (guards: %s)", atomsString(guards))
				setDom := false
				for _, w := range Writes(f.Body, false) {
					if f.IsField(w.LHS, running) && w.RHS != nil && exprStr(w.RHS) == "true" && g.Dominates(g.VertexOf(w.Stmt), gv) {
						setDom = true
					}
				}
				c.Check(setDom, "go-handleAsync:flag-set:"+f.Name(), f, gs, "handlerRunning = true precedes the go statement in the same closure")
			}
		}
		c.Pin("go handleAsync", nGo, 1)
		nClr := 0
		for _, f := range c.funcsWithLits(pJ) {
			for _, w := range Writes(f.Body, false) {
				if f.IsField(w.LHS, running) && w.RHS != nil && exprStr(w.RHS) == "false" {
					nClr++
					g := f.Graph()
					guards := g.GuardsAt(g.VertexOf(w.Stmt))
					okE := hasAtom(guards, func(a Atom) bool {
						x, y, op, ok := binaryCmp(a.E)
						if !ok {
							return false
						}
						ce, isCe := ast.Unparen(x).(*ast.CallExpr)
						z, isZ := f.ConstInt(y)
						if !isCe || f.BuiltinName(ce) != "len" || !f.IsField(ce.Args[0], queue) || !isZ || z != 0 {
							return false
						}
						return (op == token.GTR && !a.Val) || (op == token.EQL && a.Val)
					})
					if !okE && c03QueueStruct(queue) != nil {
						// the queue is a type of its own: "empty" is what its dequeue method reports by returning nil
						okE = hasAtom(guards, func(a Atom) bool { return c03EmptyViaDequeue(c, f, g, a, queue) })
						if !okE && f.Root().Obj == haObj && c.inFlightContext(f) != "" && hasAtom(guards, func(a Atom) bool { return c03MentionsQueue(f, a.E, queue) }) {
							c.Undecided("handlerRunning=false:"+f.Name(), f, w.Stmt, "the backlog is kept in a type of its own and the flag is cleared under a test on it (guards: %s) that this rule cannot read as \"the queue is empty\"", atomsString(guards))
							continue
						}
					}
					c.Check(okE && f.Root().Obj == haObj && c.inFlightContext(f) != "", "handlerRunning=false:"+f.Name(), f, w.Stmt,
						"the flag is cleared only by the dispatcher, under the lock, when the queue is empty (guards: %s)", atomsString(guards))
				}
			}
		}
		c.MustPin("handlerRunning=false", nClr, 1, "the dispatcher flag is never cleared: after the first burst no dispatcher is started again and queued requests are never handled")
	})

	c.Rule("R-C03-3", "the dispatcher waits, unconditionally, for the running handler to return or release itself before it dequeues the next request", func() {
		ha := c.Fn(pJ, "Connection", "handleAsync")
		g := ha.Graph()
		chF := c.Field(pJ, "releaser", "ch")
		relObj := c.FnObj(pJ, "releaser", "release")
		handle := c.P.StdFunc(modPath+"/"+pJ, "Handler", "Handle")
		gos := ha.goStmts()
		c.Need(len(gos) == 1, "handleAsync: one go statement")
		gv := g.VertexOf(gos[0])
		var deq *uifSite
		for _, s := range c.uifSites(ha) {
			s := s
			if s.In == ha && (len(s.Lit.FieldWrites(s.Lit.Body, queue, false)) > 0 || c03CallsQueueMethod(s.Lit, queue)) {
				deq = &s
			}
		}
		c.Need(deq != nil, "handleAsync: dequeue closure")
		dv := g.VertexOf(deq.Call)
		// the releaser variable created in this iteration
		var relVar types.Object
		for _, w := range Writes(ha.Body, false) {
			if w.RHS != nil && namedOf(ha.TypeOf(w.RHS)) == c.P.LookupType(pJ, "releaser") {
				relVar = ha.ObjOf(w.LHS)
			}
		}
		c.Need(relVar != nil, "handleAsync: releaser variable")
		isWait := func(v int) bool {
			es, ok := g.Node(v).(*ast.ExprStmt)
			if !ok {
				return false
			}
			if cc, inSelect := ha.ParentOf(es).(*ast.CommClause); inSelect && cc.Comm == ast.Stmt(es) {
				return false
			}
			return isRecvFrom(ha, es.X, func(e ast.Expr) bool {
				s, ok := ast.Unparen(e).(*ast.SelectorExpr)
				return ok && ha.IsField(s, chF) && ha.ObjOf(s.X) == relVar
			})
		}
		okw, p := g.MustPass(gv, append([]int{dv}, g.Exits...), isWait)
		c.paths++
		if okw {
			c.Ok("handleAsync:wait-for-release", ha, gos[0], "after starting a handler every path back to the dequeue passes the bare receive <-releaser.ch (no alternative wake-up)")
		} else {
			c.Fail("handleAsync:wait-for-release", ha, gos[0], "the dispatcher can dequeue the next request while the previous handler is still running and has not called Async (%s): a notification's handler no longer finishes before later messages start", g.PathString(p))
		}
		lit := ha.LitArgOfGo(gos[0])
		c.Need(lit != nil, "handleAsync: handler goroutine literal")
		c.touch(lit)
		lg := lit.Graph()
		hv := lg.callVertices(handle)
		c.Need(len(hv) == 1, "handler goroutine: Handle call")
		// deferred soft release precedes Handle
		okd := false
		for _, v := range lg.Vertices(func(n ast.Node) bool { _, ok := n.(*ast.DeferStmt); return ok }) {
			ds := lg.Node(v).(*ast.DeferStmt)
			if lit.IsCallTo(ds.Call, relObj) && len(ds.Call.Args) == 1 && exprStr(ds.Call.Args[0]) == "true" && lg.Dominates(v, hv[0]) {
				if s, ok := ast.Unparen(ds.Call.Fun).(*ast.SelectorExpr); ok && lit.ObjOf(s.X) == relVar {
					okd = true
				}
			}
		}
		c.Check(okd, "handler-goroutine:deferred-soft-release", lit, nil, "the handler goroutine defers releaser.release(true) before calling Handle, so the dispatcher is released when a synchronous handler returns (and not earlier)")
		// the context handed to Handle carries this releaser under asyncKey
		asyncKey := c.Obj(pJ, "asyncKey")
		wv := c.Std("context", "", "WithValue")
		okctx := false
		for _, call := range ha.CallsIn(ha.Body, wv, false) {
			if len(call.Args) == 3 && ha.ObjOf(call.Args[1]) == asyncKey && ha.ObjOf(call.Args[2]) == relVar {
				okctx = true
			}
		}
		c.Check(okctx, "handleAsync:releaser-in-context", ha, nil, "the handler's context carries this iteration's releaser under asyncKey")
		// release closes the channel exactly when not yet released
		rel := c.Fn(pJ, "releaser", "release")
		rg := rel.Graph()
		relF := c.Field(pJ, "releaser", "released")
		nClose := 0
		for _, call := range rel.AllCalls(rel.Body, false) {
			if rel.BuiltinName(call) == "close" {
				nClose++
				guards := rg.GuardsAt(rg.VertexOf(call))
				c.Check(hasAtom(guards, func(a Atom) bool { return !a.Val && rel.IsField(a.E, relF) }), "release:close-once", rel, call, "close(ch) only when not yet released (guards: %s)", atomsString(guards))
				c.Check(rel.IsField(call.Args[0], c.Field(pJ, "releaser", "ch")) && rel.heldLocal(call)["releaser.mu"], "release:closes-its-channel-under-lock", rel, call, "what is closed is r.ch, with r.mu held")
			}
		}
		c.Pin("close calls in release", nClose, 1)
		// … and the first release always does close it: on the not-yet-released edge every path passes close(ch) and
		// released = true (otherwise the dispatcher that waits on ch is never woken)
		okFirst := false
		for _, notYet := range rg.edgesWhere(func(a Atom) bool { return !a.Val && rel.IsField(a.E, relF) }) {
			closes := func(v int) bool {
				for _, call := range rel.AllCalls(rg.Node(v), false) {
					if rel.BuiltinName(call) == "close" {
						return true
					}
				}
				return false
			}
			marks := func(v int) bool {
				for _, w := range Writes(rg.Node(v), false) {
					if rel.IsField(w.LHS, relF) && w.RHS != nil && exprStr(w.RHS) == "true" {
						return true
					}
				}
				return false
			}
			okFirst = rg.allPathsPass(notYet, closes) && rg.allPathsPass(notYet, marks)
		}
		c.Check(okFirst, "release:first-release-closes", rel, nil, "when not yet released, release always closes the channel and records released = true")
	})

	c.Rule("R-C03-4", "requests enter the queue in read order: one reader goroutine calls acceptRequest synchronously", func() {
		arObj := c.FnObj(pJ, "Connection", "acceptRequest")
		riObj := c.FnObj(pJ, "Connection", "readIncoming")
		n := 0
		for _, f := range c.funcsWithLits(pJ) {
			for _, call := range f.CallsIn(f.Body, arObj, false) {
				n++
				_, inGo := f.ParentOf(call).(*ast.GoStmt)
				_, inDefer := f.ParentOf(call).(*ast.DeferStmt)
				c.Check(f.Obj == riObj && !inGo && !inDefer, "acceptRequest-call:"+f.Name(), f, call, "acceptRequest is called synchronously from the read loop (not in a goroutine), so enqueue order is read order")
			}
		}
		c.Pin("acceptRequest call sites", n, 1)
		m := 0
		for _, f := range c.funcsWithLits(pJ) {
			for _, gs := range f.goStmts() {
				if f.IsCallTo(gs.Call, riObj) {
					m++
					root := f.Root()
					// (from start, or from NewConnection when start is written out there: either way once per connection, since
					// neither is called again for the same connection)
					okRoot := root.Obj != nil && (root.Obj.Name() == "start" || root.Obj.Name() == "NewConnection")
					c.Check(okRoot && c.inFlightContext(f) != "", "go-readIncoming:"+f.Name(), f, gs, "the reader goroutine is started once, from start, under the state lock")
				}
			}
		}
		c.Pin("go readIncoming", m, 1)
		startObj := c.FnObj(pJ, "Connection", "start")
		k := 0
		for _, f := range c.funcsWithLits(pJ) {
			for _, call := range f.CallsIn(f.Body, startObj, false) {
				k++
				c.Check(f.Obj != nil && f.Obj.Name() == "NewConnection", "start-call:"+f.Name(), f, call, "start is called once per connection, from NewConnection")
			}
		}
		c.Pin("start call sites", k, 1)
	})

	c.Rule("R-C03-5", "only calls (and on the server never initialize) declare themselves asynchronous; notifications and initialize keep the dispatcher until they return", func() {
		async := c.FnObj(pJ, "", "Async")
		isCall := c.FnObj(pJ, "Request", "IsCall")
		mInit := c.Obj(pM, "methodInitialize")
		methodF := c.Field(pJ, "Request", "Method")
		n := 0
		for _, rel := range sdkPkgs {
			if c.P.Pkg(rel) == nil {
				continue
			}
			for _, f := range c.funcsWithLits(rel) {
				for _, call := range f.CallsIn(f.Body, async, false) {
					n++
					g := f.Graph()
					guards := g.GuardsAt(g.VertexOf(call))
					reqParam := f.Root().ParamOfNamed(pJ, "Request")
					hasCall := hasAtom(guards, func(a Atom) bool {
						ce, ok := a.E.(*ast.CallExpr)
						if !ok || !a.Val || !f.IsCallTo(ce, isCall) {
							return false
						}
						s, ok := ast.Unparen(ce.Fun).(*ast.SelectorExpr)
						return ok && reqParam != nil && f.ObjOf(s.X) == reqParam
					})
					notInit := hasAtom(guards, func(a Atom) bool {
						x, y, op, ok := binaryCmp(a.E)
						if !ok {
							return false
						}
						if !(f.IsField(x, methodF) && f.ObjOf(y) == mInit) {
							return false
						}
						return (op == token.NEQ && a.Val) || (op == token.EQL && !a.Val)
					})
					switch {
					case rel == pM && f.Obj != nil && f.Name() == "(*ServerSession).handle":
						c.Check(hasCall && notInit, "Async:ServerSession.handle", f, call, "server: Async only under req.IsCall() && req.Method != initialize (guards: %s); otherwise messages pipelined behind initialize/notifications overtake them", atomsString(guards))
					case rel == pM && f.Obj != nil && f.Name() == "(*ClientSession).handle":
						c.Check(hasCall, "Async:ClientSession.handle", f, call, "client: Async only under req.IsCall() (guards: %s)", atomsString(guards))
					default:
						c.Fail("Async:"+f.Name(), f, call, "unexpected caller of jsonrpc2.Async (only the two session receive paths may release the dispatcher)")
					}
				}
			}
		}
		c.Pin("Async call sites", n, 2)
		// release(false) only in Async
		relObj := c.FnObj(pJ, "releaser", "release")
		for _, f := range c.funcsWithLits(pJ) {
			for _, call := range f.CallsIn(f.Body, relObj, false) {
				hard := len(call.Args) == 1 && exprStr(call.Args[0]) == "false"
				soft := len(call.Args) == 1 && exprStr(call.Args[0]) == "true"
				switch {
				case hard:
					c.Check(f.Obj == async, "release(false):"+f.Name(), f, call, "the hard release is only reachable through Async")
				case soft:
					_, isDefer := f.ParentOf(call).(*ast.DeferStmt)
					c.Check(isDefer && f.Root().Obj != nil && f.Root().Obj.Name() == "handleAsync", "release(true):"+f.Name(), f, call, "the soft release is the deferred one in the handler goroutine")
				default:
					c.Undecided("release(?):"+f.Name(), f, call, "release called with a non-constant argument")
				}
			}
		}
	})

	c.Rule("R-C03-6", "the HTTP transports acknowledge (202) a body without calls only after every message of it is queued for the session", func() {
		sp := c.Fn(pM, "streamableServerConn", "servePOST")
		g := sp.Graph()
		inF := c.Field(pM, "streamableServerConn", "incoming")
		doneF := c.Field(pM, "streamableServerConn", "done")
		wh := c.P.StdFunc("net/http", "ResponseWriter", "WriteHeader")
		c.Need(wh != nil, "http.ResponseWriter.WriteHeader")
		accepted := func(f *Func, call *ast.CallExpr) bool {
			if !f.IsCallTo(call, wh) || len(call.Args) != 1 {
				return false
			}
			v, ok := f.ConstInt(call.Args[0])
			return ok && v == 202
		}
		n := 0
		for _, call := range sp.AllCalls(sp.Body, false) {
			if !accepted(sp, call) {
				continue
			}
			n++
			av := g.VertexOf(call)
			// dominated by a range loop whose body sends each element on c.incoming in a select with a done arm that returns
			ok := false
			for _, s := range sendsOn(sp, inF) {
				rs, _ := sp.Enclosing(s, func(n ast.Node) bool { _, ok := n.(*ast.RangeStmt); return ok }).(*ast.RangeStmt)
				if rs == nil || !g.Dominates(g.VertexOf(rs.X), av) || g.ReachableFrom(av)[g.VertexOf(s)] {
					continue
				}
				// the 202 is not inside the loop
				if encloses(rs, call) {
					continue
				}
				// every iteration sends: the only ways out of the select are the send arm or a returning done arm
				sel, _ := sp.Enclosing(s, func(n ast.Node) bool { _, ok := n.(*ast.SelectStmt); return ok }).(*ast.SelectStmt)
				if sel == nil {
					ok = true // bare send
					continue
				}
				good := true
				for _, cl := range sel.Body.List {
					cc := cl.(*ast.CommClause)
					if cc.Comm == ast.Stmt(s) {
						continue
					}
					// other arms must be receives on the done channel and must not reach the 202
					es, isE := cc.Comm.(*ast.ExprStmt)
					if !isE || !isRecvFrom(sp, es.X, func(e ast.Expr) bool { return sp.IsField(e, doneF) }) {
						good = false
						continue
					}
					for _, st := range cc.Body {
						if v := g.VertexOf(st); v >= 0 && (v == av || g.ReachableFrom(v)[av]) {
							good = false
						}
					}
					if len(cc.Body) == 0 {
						good = false
					}
				}
				if good {
					ok = true
				}
			}
			c.Check(ok, "servePOST:202-after-enqueue", sp, call, "202 Accepted is written only after the loop that queued every message has completed (the session-closing arm answers 404 and returns instead)")
		}
		c.Pin("servePOST 202 sites", n, 1)
		sh := c.Fn(pM, "SSEServerTransport", "ServeHTTP")
		inS := c.Field(pM, "SSEServerTransport", "incoming")
		m := 0
		for _, call := range sh.AllCalls(sh.Body, false) {
			if !accepted(sh, call) {
				continue
			}
			m++
			cc, _ := sh.Enclosing(call, func(n ast.Node) bool { _, ok := n.(*ast.CommClause); return ok }).(*ast.CommClause)
			ok := false
			if cc != nil {
				if s, isSend := cc.Comm.(*ast.SendStmt); isSend && sh.IsField(s.Chan, inS) {
					ok = true
				}
			}
			c.Check(ok, "sse.ServeHTTP:202-after-enqueue", sh, call, "202 is written in the select arm whose communication is the send on incoming")
		}
		c.Pin("SSE 202 sites", m, 1)
	})

	c.Rule("R-C03-9", "the streamable client sends each message on the goroutine that wrote it and tells the writer when the server refused it: Write returns nil only after checkResponse accepted the POST, and no goroutine started by Write sends the message (a notification re-sent in the background arrives after the call that was written after it)", func() {
		wr := c.Fn(pM, "streamableClientConn", "Write")
		g := wr.Graph()
		crv := g.callVertices(c.FnObj(pM, "streamableClientConn", "checkResponse"))
		c.Need(len(crv) >= 1, "streamableClientConn.Write: call of checkResponse")
		n := 0
		for i, r := range wr.Returns() {
			if len(r.Results) != 1 || !isNilIdent(r.Results[0]) {
				continue
			}
			n++
			ok := false
			for _, v := range crv {
				if g.Dominates(v, g.VertexOf(r)) {
					ok = true
				}
			}
			c.Check(ok, "Write:success-only-after-checkResponse#"+itoa(i), wr, r, "a nil return of Write lies behind checkResponse: a POST the server answered with an error status is reported to the writer, not swallowed or retried behind its back")
		}
		c.Pin("nil returns of the streamable client's Write", n, 1)
		do := c.Std("net/http", "Client", "Do")
		m := 0
		for _, gs := range wr.goStmts() {
			m++
			lit := wr.LitArgOfGo(gs)
			if lit == nil {
				c.Ok("Write:goroutine-does-not-send#"+itoa(m), wr, gs, "a named method (response reader)")
				continue
			}
			sends := len(lit.CallsIn(lit.Body, do, true)) > 0
			for _, call := range lit.AllCalls(lit.Body, true) {
				if id, isID := ast.Unparen(call.Fun).(*ast.Ident); isID {
					if v, isV := lit.ObjOf(id).(*types.Var); isV && !v.IsField() {
						if _, isSig := v.Type().Underlying().(*types.Signature); isSig && wr.Defines(wr.Body, v) {
							sends = true // a closure of Write (the request sender) called from the goroutine
						}
					}
				}
			}
			c.Check(!sends, "Write:goroutine-does-not-send#"+itoa(m), wr, gs, "no goroutine started by Write issues the message's HTTP request")
		}
		c.Pin("goroutines started by the streamable client's Write", m, 2)
	})

	c.Rule("R-C03-11", "a notifying method has sent its notification when it returns: handleNotify runs on the caller's goroutine, or on goroutines the caller joins (sync.WaitGroup / errgroup Wait on every path to the return) — a fan-out that is not joined, or joined by counting len() of a channel, lets the caller's next message overtake the notification", func() {
		hn := c.FnObj(pM, "", "handleNotify")
		nSites, nGo := 0, 0
		for _, f := range c.funcsWithLits(pM) {
			if f.Lit != nil {
				continue // literals are visited through their declared function
			}
			lits := f.AllLits()
			notifying := map[*Func]bool{}
			if len(f.CallsIn(f.Body, hn, false)) > 0 {
				nSites++
			}
			for _, l := range lits {
				if len(l.CallsIn(l.Body, hn, false)) > 0 {
					notifying[l] = true
					nSites++
				}
			}
			// literals that call a local variable bound to a notifying literal (two rounds: a wrapper of a wrapper)
			for round := 0; round < 2; round++ {
				vars := map[types.Object]bool{}
				for l := range notifying {
					if as, ok := l.Parent.ParentOf(l.Lit).(*ast.AssignStmt); ok && len(as.Lhs) == 1 {
						if o := l.Parent.ObjOf(as.Lhs[0]); o != nil {
							vars[o] = true
						}
					}
				}
				for _, l := range lits {
					for _, call := range l.AllCalls(l.Body, false) {
						if o := l.ObjOf(call.Fun); o != nil && vars[o] {
							notifying[l] = true
						}
					}
				}
			}
			for _, holder := range append([]*Func{f}, lits...) {
				hg := holder.Graph()
				for _, gs := range holder.goStmts() {
					started := holder.LitArgOfGo(gs)
					isNotifier := started != nil && notifying[started]
					if started == nil {
						// go notify(s) / go handleNotify(...)
						if o := holder.ObjOf(gs.Call.Fun); o != nil {
							if o == types.Object(hn) {
								isNotifier = true
							}
							for l := range notifying {
								if as, ok := l.Parent.ParentOf(l.Lit).(*ast.AssignStmt); ok && len(as.Lhs) == 1 && l.Parent.ObjOf(as.Lhs[0]) == o {
									isNotifier = true
								}
							}
						}
					}
					if !isNotifier {
						continue
					}
					nGo++
					c.touch(holder)
					joined, _ := hg.MustPass(hg.VertexOf(gs), hg.Exits, func(v int) bool {
						for _, call := range holder.AllCalls(hg.Node(v), false) {
							if fn := holder.Callee(call); fn != nil && fn.Name() == "Wait" && fn.Pkg() != nil && (fn.Pkg().Path() == "sync" || strings.HasSuffix(fn.Pkg().Path(), "/errgroup")) {
								return true
							}
						}
						return false
					})
					if !joined {
						// the semaphore join: every goroutine holds a slot of a buffered channel until it is done (deferred
						// receive), and before returning the function takes all cap(ch) slots itself
						joined, _ = hg.MustPass(hg.VertexOf(gs), hg.Exits, func(v int) bool {
							rs, isR := hg.Node(v).(ast.Expr)
							_ = rs
							found := false
							inspectNoLit(holder.Body, func(x ast.Node) {
								loop, isLoop := x.(*ast.RangeStmt)
								if !isLoop || hg.VertexOf(loop.X) != v {
									return
								}
								ce, isC := ast.Unparen(loop.X).(*ast.CallExpr)
								if !isC || holder.BuiltinName(ce) != "cap" || len(ce.Args) != 1 || !isLocalSemaphore(holder, ce.Args[0]) {
									return
								}
								for _, st := range loop.Body.List {
									if snd, isS := st.(*ast.SendStmt); isS && holder.ObjOf(snd.Chan) == holder.ObjOf(ce.Args[0]) {
										found = true
									}
								}
							})
							return found || isR && false
						})
					}
					if !joined {
						// joined by counting tokens on a channel the goroutines send to: whether as many are received as were
						// started is a matter of values, not of shape
						counted := false
						var tokCh types.Object
						var sentTo []types.Object
						// (the goroutine may call a local closure that does the sending)
						for _, l := range holder.Root().AllLits() {
							ast.Inspect(l.Body, func(x ast.Node) bool {
								if snd, isS := x.(*ast.SendStmt); isS {
									if o := l.ObjOf(snd.Chan); o != nil {
										sentTo = append(sentTo, o)
									}
								}
								return true
							})
						}
						inspectNoLit(holder.Body, func(x ast.Node) {
							if u, isU := x.(*ast.UnaryExpr); isU && u.Op == token.ARROW {
								for _, o := range sentTo {
									if holder.ObjOf(u.X) == o && hg.ReachableFrom(hg.VertexOf(gs))[hg.VertexOf(u)] {
										counted = true
										if tokCh == nil {
											tokCh = o
										}
									}
								}
							}
						})
						if counted && tokCh != nil {
							// the count can be decided when producers and the join are straight-line statements (or one range
							// loop) of the function: tokens produced and tokens awaited as linear forms in the length of one slice
							if prod, cons, okc := c03TokenCount(holder, hg, gs, tokCh); okc {
								if prod.a == cons.a && prod.b == cons.b {
									c.Ok("notify-on-the-callers-goroutine:"+holder.Name(), holder, gs, "the goroutines that send the notifications are joined by tokens on a channel: %s tokens are produced and %s awaited before the function returns", prod.String(), cons.String())
									continue
								}
								if prod.a == cons.a && cons.b < prod.b {
									c.Fail("notify-on-the-callers-goroutine:"+holder.Name(), holder, gs, "the notifying function awaits %s completion tokens but %s are produced (every producer, also one run on the caller's own goroutine, deposits one): it can return while a goroutine that sends a notification is still running, and the caller's next message overtakes that notification", cons.String(), prod.String())
									continue
								}
							}
						}
						if counted {
							c.Undecided("notify-on-the-callers-goroutine:"+holder.Name(), holder, gs, "the goroutines that send the notifications are joined by receiving tokens from a channel they send to: that as many tokens are awaited as goroutines were started is not decided here")
							continue
						}
					}
					c.Check(joined, "notify-on-the-callers-goroutine:"+holder.Name(), holder, gs, "a goroutine that sends a notification is joined (WaitGroup/errgroup Wait) on every path before the notifying function returns")
				}
			}
		}
		c.Pin("handleNotify call sites in mcp", nSites, 3)
		if nGo == 0 {
			c.Ok("notify-on-the-callers-goroutine", nil, nil, "no goroutine is started to send a notification (%d handleNotify sites, all synchronous)", nSites)
		}
	})

	c.Import("R-C03-10", "nothing is answered ahead of the queue: the preempter (which runs on the read goroutine, before the request is queued) never produces a result, it only observes cancellations", "C04", "R-C04-2", func(k string) bool { return strings.HasPrefix(k, "Preempt:return") })
	c.Import("R-C03-8", "a resumed stream does not hand the client older messages after newer ones: on resume the stream's index is re-based to the position actually replayed (live ids continue from there)", "C08", "R-C08-2", func(k string) bool { return strings.HasPrefix(k, "lastIdx") || strings.HasPrefix(k, "acquireStream") })

	c.Rule("R-C03-7", "the messages of one JSON-RPC batch reach the reader in wire order: decoded by appending in slice order, queued as the tail msgs[1:], consumed from the head, published to the session channel in slice order", func() {
		isSlice := func(f *Func, e ast.Expr) bool {
			_, ok := f.TypeOf(e).Underlying().(*types.Slice)
			return ok
		}
		// readBatch
		rb := c.Fn(pM, "", "readBatch")
		msgsRes := rb.NamedResult(0)
		c.Need(msgsRes != nil, "readBatch: named result msgs")
		n := 0
		for _, w := range rb.writesToVar(rb.Body, msgsRes, true) {
			if as, isAs := w.(*ast.AssignStmt); isAs && len(as.Lhs) == 1 && len(as.Rhs) == 1 {
				if empty, _ := rb.emptySlice(as.Rhs[0]); empty && !rb.insideLoop(as) {
					continue // msgs = make([]Message, 0, n): an empty slice to append to
				}
			}
			n++
			ok := false
			if as, isAs := w.(*ast.AssignStmt); isAs && len(as.Rhs) == 1 {
				if ce, isC := ast.Unparen(as.Rhs[0]).(*ast.CallExpr); isC && rb.BuiltinName(ce) == "append" && len(ce.Args) == 2 && !ce.Ellipsis.IsValid() && rb.ObjOf(ce.Args[0]) == msgsRes {
					if rs, isR := rb.Enclosing(w, func(n ast.Node) bool { _, ok := n.(*ast.RangeStmt); return ok }).(*ast.RangeStmt); isR && isSlice(rb, rs.X) {
						ok = true
					}
				}
			}
			c.Check(ok, "readBatch:append-in-order#"+itoa(n), rb, w, "decoded messages are appended at the tail while ranging over the raw array (a slice: index order)")
		}
		c.Pin("readBatch appends", n, 1)
		// ioConn.Read
		rd := c.Fn(pM, "ioConn", "Read")
		rg := rd.Graph()
		queue := c.Field(pM, "ioConn", "queue")
		batchVar := rd.VarFromCall(rb.Obj, 0)
		c.Need(batchVar != nil, "ioConn.Read: the slice returned by readBatch")
		isSrc := func(e ast.Expr) bool { return rd.IsField(e, queue) || rd.ObjOf(e) == batchVar }
		headOf := func(e ast.Expr) bool {
			m, k, ok := indexOf(e)
			if !ok || !isSrc(m) {
				return false
			}
			z, isZ := rd.ConstInt(k)
			return isZ && z == 0
		}
		nq := 0
		var qWrites []Write
		for _, w := range Writes(rd.Body, true) {
			if rd.IsField(w.LHS, queue) {
				qWrites = append(qWrites, w)
			}
		}
		for _, w := range qWrites {
			nq++
			ok := false
			if w.RHS != nil {
				if sl, isSl := ast.Unparen(w.RHS).(*ast.SliceExpr); isSl && isSrc(sl.X) && sl.High == nil && sl.Max == nil && sl.Low != nil {
					z, isZ := rd.ConstInt(sl.Low)
					ok = isZ && z == 1
				}
			}
			c.Check(ok, "ioConn.Read:queue-keeps-tail#"+itoa(nq), rd, w.Stmt, "the queue is only ever set to X[1:] of itself or of the freshly decoded batch (the head is what this Read returns)")
		}
		c.Pin("ioConn.queue writes", nq, 2)
		nr := 0
		for _, r := range rd.Returns() {
			if len(r.Results) != 2 || isNilIdent(r.Results[0]) {
				continue
			}
			nr++
			e := r.Results[0]
			ok := headOf(e)
			if !ok {
				// a local bound to X[0] on the way to this return
				if o := rd.ObjOf(e); o != nil {
					ws := rd.writesToVar(rd.Body, o, false)
					if len(ws) == 1 {
						if as, isAs := ws[0].(*ast.AssignStmt); isAs && len(as.Rhs) == 1 && headOf(as.Rhs[0]) && rg.Dominates(rg.VertexOf(ws[0]), rg.VertexOf(r)) {
							// and the queue was not advanced before the head was taken
							ok = true
							for _, qw := range qWrites {
								qv := rg.VertexOf(qw.Stmt)
								if qv != rg.VertexOf(ws[0]) && rg.ReachableFrom(qv)[rg.VertexOf(ws[0])] {
									ok = false
								}
							}
						}
					}
				}
			}
			c.Check(ok, "ioConn.Read:returns-head#"+itoa(nr), rd, r, "a message handed to the reader is element 0 of the queue or of the decoded batch")
		}
		c.Pin("ioConn.Read message returns", nr, 2)
		// the rest of a freshly decoded batch is queued on every path that hands out its head (a return that bypasses the
		// assignment drops messages 2…n of that batch: calls answered by them never complete)
		for i, r := range rd.Returns() {
			if len(r.Results) != 2 || isNilIdent(r.Results[0]) {
				continue
			}
			m, _, isIx := indexOf(r.Results[0])
			if !isIx || rd.ObjOf(m) != batchVar {
				continue
			}
			okq := false
			for _, qw := range qWrites {
				if sl, isSl := ast.Unparen(qw.RHS).(*ast.SliceExpr); qw.RHS != nil && isSl && rd.ObjOf(sl.X) == batchVar && rg.Dominates(rg.VertexOf(qw.Stmt), rg.VertexOf(r)) {
					okq = true
				}
			}
			if !okq {
				// a payload that is not a batch is one message: there is no rest (readBatch's second result is false)
				if rbf := c.P.LookupFuncObj(pM, "", "readBatch"); rbf != nil {
					if bv := rd.VarFromCall(rbf, 1); bv != nil && hasAtom(rg.GuardsAt(rg.VertexOf(r)), func(a Atom) bool { return !a.Val && rd.ObjOf(a.E) == bv }) {
						okq = true
					}
				}
			}
			c.Check(okq, "ioConn.Read:rest-queued-before-head-returned#"+itoa(i), rd, r, "t.queue = msgs[1:] dominates this return of msgs[0]")
		}
		// the queue is drained before new input is read
		inF := c.Field(pM, "ioConn", "incoming")
		okDrain := false
		for _, cv := range rg.condVertices() {
			x, y, op, isCmp := binaryCmp(rg.Node(cv - 1).(ast.Expr))
			if !isCmp || (op != token.GTR && op != token.NEQ) {
				continue
			}
			// len(queue), or a local whose only definition is len(queue)
			if o := rd.ObjOf(x); o != nil {
				if ws := rd.writesToVar(rd.Body, o, false); len(ws) == 1 {
					if as, isAs := ws[0].(*ast.AssignStmt); isAs && len(as.Rhs) == 1 {
						x = as.Rhs[0]
					}
				}
			}
			lc, isCall := ast.Unparen(x).(*ast.CallExpr)
			z, isZ := rd.ConstInt(y)
			if !isCall || rd.BuiltinName(lc) != "len" || !rd.IsField(lc.Args[0], queue) || !isZ || z != 0 {
				continue
			}
			okDrain = true
			inspectNoLit(rd.Body, func(n ast.Node) {
				if u, isU := n.(*ast.UnaryExpr); isU && u.Op == token.ARROW && rd.IsField(u.X, inF) {
					if !rg.Dominates(cv-1, rg.VertexOf(u)) {
						okDrain = false
					}
				}
			})
		}
		c.Check(okDrain, "ioConn.Read:queue-before-input", rd, nil, "the receive from the input channel is dominated by the len(queue) > 0 test: the rest of a batch is handed out before anything newer")
		// servePOST publishes in slice order
		sp := c.Fn(pM, "streamableServerConn", "servePOST")
		inS := c.Field(pM, "streamableServerConn", "incoming")
		bodyMsgs := sp.VarFromCall(rb.Obj, 0)
		c.Need(bodyMsgs != nil, "servePOST: the slice returned by readBatch")
		ns := 0
		for _, snd := range sendsOn(sp, inS) {
			ns++
			rs, _ := sp.Enclosing(snd, func(n ast.Node) bool { _, ok := n.(*ast.RangeStmt); return ok }).(*ast.RangeStmt)
			ok := rs != nil && sp.ObjOf(rs.X) == bodyMsgs && isSlice(sp, rs.X) && rs.Value != nil && sp.ObjOf(snd.Value) == sp.ObjOf(rs.Value)
			// the slice is not reordered between decoding and publishing
			for _, w := range sp.writesToVar(sp.Body, bodyMsgs, true) {
				if as, isAs := w.(*ast.AssignStmt); !isAs || as.Tok != token.DEFINE {
					ok = false
				}
			}
			c.Check(ok, "servePOST:publish-in-order#"+itoa(ns), sp, snd, "each message of the body is sent to the session channel while ranging over the decoded slice itself")
		}
		c.Pin("servePOST sends on incoming", ns, 2)
	})
}

func deepC03(c *Ctx) {
	c.Rule("R-C03-5t", "whole program (VTA): nothing but jsonrpc2.Async and the handler goroutine reaches (*releaser).release; Async is called only from the mcp session receive paths", func() {
		relObj := c.FnObj(pJ, "releaser", "release")
		for _, cl := range c.P.CallersOf(relObj) {
			ok := cl.PkgPath == modPath+"/"+pJ
			c.Check(ok, "vta-caller:release:"+cl.Name, nil, nil, "caller %s (%s)", cl.Name, cl.Pos)
		}
		async := c.FnObj(pJ, "", "Async")
		n := 0
		for _, cl := range c.P.CallersOf(async) {
			n++
			ok := cl.Name == "(*"+modPath+"/mcp.ServerSession).handle" || cl.Name == "(*"+modPath+"/mcp.ClientSession).handle"
			c.Check(ok, "vta-caller:Async:"+cl.Name, nil, nil, "caller %s (%s)", cl.Name, cl.Pos)
		}
		c.Pin("VTA callers of Async", n, 2)
	})
}

// c03lin is the linear form a*len(base)+b.
type c03lin struct {
	base types.Object
	a, b int
}

func (l c03lin) String() string {
	if l.a == 0 || l.base == nil {
		return itoa(l.b)
	}
	s := "len(" + l.base.Name() + ")"
	if l.a != 1 {
		s = itoa(l.a) + "*" + s
	}
	if l.b > 0 {
		s += "+" + itoa(l.b)
	} else if l.b < 0 {
		s += "-" + itoa(-l.b)
	}
	return s
}

func (l c03lin) plus(m c03lin) (c03lin, bool) {
	if l.base != nil && m.base != nil && l.base != m.base {
		return l, false
	}
	if l.base == nil {
		l.base = m.base
	}
	l.a += m.a
	l.b += m.b
	return l, true
}

// c03LenForm: the number of iterations of `range e` (e a slice or an integer) as a linear form in the length of one slice
// that the function does not reassign.
func c03LenForm(f *Func, e ast.Expr, depth int) (c03lin, bool) {
	e = ast.Unparen(e)
	if depth > 6 {
		return c03lin{}, false
	}
	if k, ok := f.ConstInt(e); ok {
		return c03lin{b: int(k)}, true
	}
	single := func(id *ast.Ident) (ast.Expr, bool, bool) { // definition, never written, ok
		o := f.ObjOf(id)
		if o == nil {
			return nil, false, false
		}
		ws := f.Root().writesToVar(f.Root().Body, o, true)
		if len(ws) == 0 {
			return nil, true, true
		}
		if len(ws) == 1 {
			if as, isAs := ws[0].(*ast.AssignStmt); isAs && len(as.Lhs) == 1 && len(as.Rhs) == 1 && as.Tok == token.DEFINE {
				return as.Rhs[0], false, true
			}
		}
		return nil, false, false
	}
	t := f.TypeOf(e)
	if t == nil {
		return c03lin{}, false
	}
	if b, isB := t.Underlying().(*types.Basic); isB && b.Info()&types.IsInteger != 0 {
		switch x := e.(type) {
		case *ast.CallExpr:
			if f.BuiltinName(x) == "len" && len(x.Args) == 1 {
				return c03LenForm(f, x.Args[0], depth+1)
			}
		case *ast.BinaryExpr:
			if k, ok := f.ConstInt(x.Y); ok && (x.Op == token.ADD || x.Op == token.SUB) {
				l, okl := c03LenForm(f, x.X, depth+1)
				if x.Op == token.SUB {
					k = -k
				}
				l.b += int(k)
				return l, okl
			}
		case *ast.Ident:
			if def, _, ok := single(x); ok && def != nil {
				return c03LenForm(f, def, depth+1)
			}
		}
		return c03lin{}, false
	}
	if _, isSl := t.Underlying().(*types.Slice); !isSl {
		return c03lin{}, false
	}
	switch x := e.(type) {
	case *ast.Ident:
		def, never, ok := single(x)
		if !ok {
			return c03lin{}, false
		}
		if never {
			return c03lin{base: f.ObjOf(x), a: 1}, true
		}
		return c03LenForm(f, def, depth+1)
	case *ast.SliceExpr:
		if x.High != nil || x.Max != nil {
			return c03lin{}, false
		}
		l, ok := c03LenForm(f, x.X, depth+1)
		if x.Low != nil {
			k, isK := f.ConstInt(x.Low)
			if !isK {
				return c03lin{}, false
			}
			l.b -= int(k)
		}
		return l, ok
	}
	return c03lin{}, false
}

// c03TokenCount counts, for the function f that starts notifying goroutines and joins them over channel ch, the tokens
// that are sent on ch and the tokens that are received before f returns.  It answers ok only when every send, every
// receive and every invocation of a function value that sends is accounted for: sends are unconditional top-level
// statements of a literal (or of a literal it defers/starts on the spot), producers and receives are top-level statements
// of f or of one range loop at the top level of f, and no return lies between the go statement and a receive site.
func c03TokenCount(f *Func, g *Graph, gs *ast.GoStmt, ch types.Object) (prod, cons c03lin, ok bool) {
	if f.Lit != nil {
		return
	}
	lits := f.AllLits()
	litOf := func(e ast.Expr) *Func {
		fl, isFL := ast.Unparen(e).(*ast.FuncLit)
		if !isFL {
			return nil
		}
		for _, l := range lits {
			if l.Lit == fl {
				return l
			}
		}
		return nil
	}
	// literals bound once to a local
	bound := map[types.Object]*Func{}
	for _, l := range lits {
		if as, isAs := l.Parent.ParentOf(l.Lit).(*ast.AssignStmt); isAs && len(as.Lhs) == 1 && len(as.Rhs) == 1 {
			if o := l.Parent.ObjOf(as.Lhs[0]); o != nil && len(f.writesToVar(f.Body, o, true)) == 1 {
				bound[o] = l
			}
		}
	}
	unitOf := func(owner *Func, call *ast.CallExpr) *Func {
		if l := litOf(call.Fun); l != nil {
			return l
		}
		if o := owner.ObjOf(call.Fun); o != nil {
			return bound[o]
		}
		return nil
	}
	accounted := map[ast.Node]bool{}
	memo := map[*Func]int{}
	var tokensOf func(l *Func, depth int) int
	tokensOf = func(l *Func, depth int) int {
		if v, seen := memo[l]; seen {
			return v
		}
		if depth > 4 {
			return -1
		}
		n := 0
		for _, st := range l.Body.List {
			var call *ast.CallExpr
			switch x := st.(type) {
			case *ast.SendStmt:
				if l.ObjOf(x.Chan) == ch {
					n++
					accounted[x] = true
				}
			case *ast.DeferStmt:
				call = x.Call
			case *ast.GoStmt:
				call = x.Call
			case *ast.ExprStmt:
				call, _ = ast.Unparen(x.X).(*ast.CallExpr)
			}
			if call != nil {
				if u := unitOf(l, call); u != nil && u != l {
					t := tokensOf(u, depth+1)
					if t < 0 {
						memo[l] = -1
						return -1
					}
					if t > 0 {
						accounted[call] = true
						n += t
					}
				}
			}
		}
		memo[l] = n
		return n
	}
	var recvSites []int
	good := true
	site := func(st ast.Stmt, mult c03lin) {
		var call *ast.CallExpr
		var recv ast.Expr
		switch x := st.(type) {
		case *ast.GoStmt:
			call = x.Call
		case *ast.ExprStmt:
			call, _ = ast.Unparen(x.X).(*ast.CallExpr)
			recv = x.X
		case *ast.AssignStmt:
			if len(x.Rhs) == 1 {
				recv = x.Rhs[0]
			}
		}
		if call != nil {
			if u := unitOf(f, call); u != nil {
				t := tokensOf(u, 0)
				if t < 0 {
					good = false
				} else if t > 0 {
					accounted[call] = true
					var okp bool
					if prod, okp = prod.plus(c03lin{base: mult.base, a: mult.a * t, b: mult.b * t}); !okp {
						good = false
					}
				}
			}
		}
		if recv != nil {
			if u, isU := ast.Unparen(recv).(*ast.UnaryExpr); isU && u.Op == token.ARROW && f.ObjOf(u.X) == ch {
				accounted[u] = true
				var okp bool
				if cons, okp = cons.plus(mult); !okp {
					good = false
				}
			}
		}
	}
	for _, st := range f.Body.List {
		if rs, isR := st.(*ast.RangeStmt); isR {
			mult, okm := c03LenForm(f, rs.X, 0)
			if !okm {
				continue // whatever it touches stays unaccounted
			}
			before := cons
			for _, inner := range rs.Body.List {
				site(inner, mult)
			}
			if cons != before {
				recvSites = append(recvSites, g.VertexOf(rs.X))
			}
			continue
		}
		before := cons
		site(st, c03lin{b: 1})
		if cons != before {
			recvSites = append(recvSites, g.VertexOf(st))
		}
	}
	// everything that touches the channel or a producing function value is accounted for
	ast.Inspect(f.Body, func(n ast.Node) bool {
		switch x := n.(type) {
		case *ast.SendStmt:
			if id := c03identOf(x.Chan); id != nil && f.Info().Uses[id] == ch && !accounted[x] {
				good = false
			}
		case *ast.UnaryExpr:
			if id := c03identOf(x.X); x.Op == token.ARROW && id != nil && f.Info().Uses[id] == ch && !accounted[x] {
				good = false
			}
		case *ast.CallExpr:
			if id := c03identOf(x.Fun); id != nil {
				if o := f.Info().Uses[id]; o != nil && bound[o] != nil && !accounted[x] {
					if t, seen := memo[bound[o]]; !seen || t != 0 {
						if !seen && !c03Touches(f, bound[o], ch) {
							break
						}
						good = false
					}
				}
			}
			if l := litOf(x.Fun); l != nil && !accounted[x] {
				if t, seen := memo[l]; (!seen || t != 0) && c03Touches(f, l, ch) {
					good = false
				}
			}
		}
		return true
	})
	// a literal that touches the channel and is neither bound to a local nor invoked on the spot escapes the count
	for _, l := range lits {
		if !c03Touches(f, l, ch) {
			continue
		}
		isBound := false
		for _, b := range bound {
			if b == l {
				isBound = true
			}
		}
		_, invoked := l.Parent.ParentOf(l.Lit).(*ast.CallExpr)
		if !isBound && !invoked {
			good = false
		}
	}
	// a producing function value that is passed on or stored is not counted
	for o, l := range bound {
		if !c03Touches(f, l, ch) {
			continue
		}
		ast.Inspect(f.Body, func(n ast.Node) bool {
			if ce, isCall := n.(*ast.CallExpr); isCall {
				for _, a := range ce.Args {
					if id := c03identOf(a); id != nil && f.Info().Uses[id] == o {
						good = false
					}
				}
			}
			if as, isAs := n.(*ast.AssignStmt); isAs {
				for _, r := range as.Rhs {
					if id := c03identOf(r); id != nil && f.Info().Uses[id] == o {
						good = false
					}
				}
			}
			return true
		})
	}
	if len(recvSites) == 0 {
		good = false
	}
	gv := g.VertexOf(gs)
	for _, rv := range recvSites {
		rv := rv
		if rv < 0 {
			good = false
			continue
		}
		if okp, _ := g.MustPass(gv, g.Exits, func(v int) bool { return v == rv }); !okp {
			good = false
		}
	}
	return prod, cons, good
}

func c03identOf(e ast.Expr) *ast.Ident {
	id, _ := ast.Unparen(e).(*ast.Ident)
	return id
}

// c03Touches: literal l (nested literals included) mentions the object o.
func c03Touches(f *Func, l *Func, o types.Object) bool {
	found := false
	ast.Inspect(l.Body, func(m ast.Node) bool {
		if id, isID := m.(*ast.Ident); isID && f.Info().Uses[id] == o {
			found = true
		}
		return true
	})
	return found
}

// c03QueueStruct: the named struct type of the backlog when it is no longer a slice (nil otherwise).
func c03QueueStruct(queue *types.Var) *types.Named {
	t := queue.Type()
	if p, isP := t.Underlying().(*types.Pointer); isP {
		t = p.Elem()
	}
	n := namedOf(t)
	if n == nil {
		return nil
	}
	if _, isS := n.Underlying().(*types.Struct); !isS {
		return nil
	}
	return n
}

func c03CallsQueueMethod(f *Func, queue *types.Var) bool {
	for _, call := range f.AllCalls(f.Body, false) {
		if sel, ok := ast.Unparen(call.Fun).(*ast.SelectorExpr); ok && f.IsField(sel.X, queue) {
			return true
		}
	}
	return false
}

// c03MentionsQueue: e reads the queue field, or a local that some assignment of f computes from it.
func c03MentionsQueue(f *Func, e ast.Expr, queue *types.Var) bool {
	found := false
	var visit func(n ast.Node, depth int)
	visit = func(n ast.Node, depth int) {
		ast.Inspect(n, func(x ast.Node) bool {
			switch y := x.(type) {
			case *ast.SelectorExpr:
				if f.IsField(y, queue) {
					found = true
				}
			case *ast.Ident:
				if o := f.ObjOf(y); o != nil && depth < 2 {
					for _, w := range Writes(f.Body, false) {
						if w.RHS != nil && f.ObjOf(w.LHS) == o {
							if _, isID := ast.Unparen(w.LHS).(*ast.Ident); isID {
								visit(w.RHS, depth+1)
							}
						}
					}
				}
			}
			return true
		})
	}
	visit(e, 0)
	return found
}

// c03EmptyViaDequeue: the atom says X == nil where X is, at that point, the result of a method of the queue's own type
// called on the queue field, and that method returns nil only under a test that says the queue holds nothing (its
// element count — a field the method decrements and another method of the type increments — or the length of its
// buffer compared with zero).
func c03EmptyViaDequeue(c *Ctx, f *Func, g *Graph, a Atom, queue *types.Var) bool {
	return AtomSaysNil(a, true, func(e ast.Expr) bool {
		id, isID := ast.Unparen(e).(*ast.Ident)
		if !isID {
			return false
		}
		def := f.reachingDef(g, id)
		if def == nil {
			return false
		}
		call, isCall := ast.Unparen(def).(*ast.CallExpr)
		if !isCall {
			return false
		}
		sel, isSel := ast.Unparen(call.Fun).(*ast.SelectorExpr)
		if !isSel || !f.IsField(sel.X, queue) {
			return false
		}
		fn := f.Callee(call)
		if fn == nil {
			return false
		}
		m := f.Prog.FuncOf(fn)
		if m == nil || m.Recv() == nil {
			return false
		}
		return c03NilOnlyWhenEmpty(c, m)
	})
}

func c03MethodsOf(c *Ctx, t *types.Named) []*Func {
	var out []*Func
	for _, f := range c.P.FuncsIn(pJ) {
		if f.Lit != nil || f.Recv() == nil {
			continue
		}
		rt := f.Recv().Type()
		if p, isP := rt.Underlying().(*types.Pointer); isP {
			rt = p.Elem()
		}
		if namedOf(rt) == t {
			out = append(out, f)
		}
	}
	return out
}

func c03NilOnlyWhenEmpty(c *Ctx, m *Func) bool {
	recv := m.Recv()
	rt := recv.Type()
	if p, isP := rt.Underlying().(*types.Pointer); isP {
		rt = p.Elem()
	}
	qT := namedOf(rt)
	if qT == nil {
		return false
	}
	g := m.Graph()
	onRecv := func(e ast.Expr) *types.Var {
		sel, ok := ast.Unparen(e).(*ast.SelectorExpr)
		if !ok || m.ObjOf(sel.X) != types.Object(recv) {
			return nil
		}
		fld, _ := m.ObjOf(sel).(*types.Var)
		if fld == nil || !fld.IsField() {
			return nil
		}
		return fld
	}
	stepped := func(fn *Func, fld *types.Var, tok token.Token) bool {
		for _, w := range Writes(fn.Body, false) {
			if inc, isInc := w.Stmt.(*ast.IncDecStmt); isInc && inc.Tok == tok {
				if sel, ok := ast.Unparen(inc.X).(*ast.SelectorExpr); ok && fn.ObjOf(sel) == types.Object(fld) && fn.ObjOf(sel.X) == types.Object(fn.Recv()) {
					return true
				}
			}
		}
		return false
	}
	isCount := func(fld *types.Var) bool {
		if b, isB := fld.Type().Underlying().(*types.Basic); !isB || b.Info()&types.IsInteger == 0 {
			return false
		}
		if !stepped(m, fld, token.DEC) {
			return false
		}
		for _, o := range c03MethodsOf(c, qT) {
			if o != m && stepped(o, fld, token.INC) {
				return true
			}
		}
		return false
	}
	saysEmpty := func(a Atom) bool {
		x, y, op, ok := binaryCmp(a.E)
		if !ok {
			return false
		}
		z, isZ := m.ConstInt(y)
		if !isZ || z != 0 {
			return false
		}
		if !((op == token.EQL && a.Val) || (op == token.LEQ && a.Val) || (op == token.GTR && !a.Val) || (op == token.NEQ && !a.Val)) {
			return false
		}
		if ce, isCe := ast.Unparen(x).(*ast.CallExpr); isCe && m.BuiltinName(ce) == "len" && len(ce.Args) == 1 {
			fld := onRecv(ce.Args[0])
			if fld == nil {
				return false
			}
			_, isSl := fld.Type().Underlying().(*types.Slice)
			return isSl
		}
		if fld := onRecv(x); fld != nil {
			return isCount(fld)
		}
		return false
	}
	nNil := 0
	for _, r := range m.Returns() {
		if len(r.Results) != 1 || !isNilIdent(r.Results[0]) {
			continue
		}
		nNil++
		if !hasAtom(g.GuardsAt(g.VertexOf(r)), saysEmpty) {
			return false
		}
	}
	return nNil > 0
}

// c03RingRebase: when the backlog is a type of its own with a buffer and a head index (the index its dequeue reads
// `buf[head]` from), a method that moves the elements into a fresh buffer and resets head to 0 must put the element at
// head first: the copy that fills the new buffer from its start reads buf[head:].  Reading from physical index 0
// (buf[:head], buf[:], buf) puts the elements that had wrapped around — the newest — in front of older ones whenever
// head != 0: requests are then dispatched out of arrival order.
func c03RingRebase(c *Ctx, qT *types.Named) {
	st := qT.Underlying().(*types.Struct)
	isFieldOf := func(v *types.Var) bool {
		for i := 0; i < st.NumFields(); i++ {
			if st.Field(i) == v {
				return true
			}
		}
		return false
	}
	methods := c03MethodsOf(c, qT)
	fieldSel := func(f *Func, e ast.Expr) *types.Var {
		sel, ok := ast.Unparen(e).(*ast.SelectorExpr)
		if !ok {
			return nil
		}
		v, _ := f.ObjOf(sel).(*types.Var)
		if v == nil || !v.IsField() || !isFieldOf(v) {
			return nil
		}
		return v
	}
	// buf and head: some method reads buf[head]
	var bufF, headF *types.Var
	ambiguous := false
	for _, m := range methods {
		ast.Inspect(m.Body, func(n ast.Node) bool {
			ix, ok := n.(*ast.IndexExpr)
			if !ok {
				return true
			}
			b, h := fieldSel(m, ix.X), fieldSel(m, ix.Index)
			if b == nil || h == nil {
				return true
			}
			if _, isSl := b.Type().Underlying().(*types.Slice); !isSl {
				return true
			}
			if (bufF != nil && bufF != b) || (headF != nil && headF != h) {
				ambiguous = true
			}
			bufF, headF = b, h
			return true
		})
	}
	if bufF == nil || headF == nil || ambiguous {
		return
	}
	for _, m := range methods {
		c.touch(m)
		g := m.Graph()
		resets := false
		var fresh []types.Object
		for _, w := range Writes(m.Body, false) {
			if w.RHS == nil {
				continue
			}
			if fieldSel(m, w.LHS) == headF {
				if z, isZ := m.ConstInt(w.RHS); isZ && z == 0 {
					resets = true
				}
			}
			if fieldSel(m, w.LHS) == bufF {
				if id, isID := ast.Unparen(w.RHS).(*ast.Ident); isID && m.ObjOf(id) != nil {
					fresh = append(fresh, m.ObjOf(id))
				}
			}
		}
		if !resets || len(fresh) == 0 {
			continue
		}
		for _, call := range m.AllCalls(m.Body, false) {
			if m.BuiltinName(call) != "copy" || len(call.Args) != 2 {
				continue
			}
			// destination: the fresh buffer from its start
			dst := ast.Unparen(call.Args[0])
			if sl, isSl := dst.(*ast.SliceExpr); isSl {
				if sl.Low != nil {
					if z, isZ := m.ConstInt(sl.Low); !isZ || z != 0 {
						continue
					}
				}
				dst = ast.Unparen(sl.X)
			}
			isFresh := false
			for _, o := range fresh {
				if m.ObjOf(dst) == o {
					isFresh = true
				}
			}
			if !isFresh {
				continue
			}
			key := "queue-type:rebase-puts-head-first:" + m.Name()
			src := ast.Unparen(call.Args[1])
			headIsZero := hasAtom(g.GuardsAt(g.VertexOf(call)), func(a Atom) bool {
				x, y, op, ok := binaryCmp(a.E)
				if !ok || fieldSel(m, x) != headF {
					return false
				}
				z, isZ := m.ConstInt(y)
				return isZ && z == 0 && ((op == token.EQL && a.Val) || (op == token.NEQ && !a.Val))
			})
			switch x := src.(type) {
			case *ast.SliceExpr:
				if fieldSel(m, x.X) != bufF {
					c.Undecided(key, m, call, "the new buffer is filled from %s, which this rule does not relate to the queue's buffer", exprStr(src))
					continue
				}
				switch {
				case x.Low != nil && fieldSel(m, x.Low) == headF:
					c.Ok(key, m, call, "the new buffer starts with buf[head:], the oldest request first")
				case x.Low == nil || func() bool { z, isZ := m.ConstInt(x.Low); return isZ && z == 0 }():
					c.Check(headIsZero, key, m, call, "head is reset to 0 but the new buffer is filled from physical index 0 of the old one (%s): when the ring had wrapped (head != 0) the requests that wrapped around, the newest, come out before older ones — dispatch is no longer in arrival order", exprStr(src))
				default:
					c.Undecided(key, m, call, "the new buffer is filled from %s: whether that is the oldest request is not decided here", exprStr(src))
				}
			default:
				if fieldSel(m, src) == bufF {
					c.Check(headIsZero, key, m, call, "head is reset to 0 but the old buffer is copied as it lies (%s): when the ring had wrapped (head != 0) the newest requests come out before older ones", exprStr(src))
				} else {
					c.Undecided(key, m, call, "the new buffer is filled from %s, which this rule does not relate to the queue's buffer", exprStr(src))
				}
			}
		}
	}
}

func c03Deref(t types.Type) types.Type {
	if p, ok := t.Underlying().(*types.Pointer); ok {
		return p.Elem()
	}
	return t
}

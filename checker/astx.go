package main

import (
	"go/ast"
	"go/constant"
	"go/token"
	"go/types"

	"golang.org/x/tools/go/types/typeutil"
)

// Callee resolves the static callee of a call (function, method, or interface method), origin of
// generic instances. nil for calls of function values.
func (f *Func) Callee(call *ast.CallExpr) *types.Func {
	fn, _ := typeutil.Callee(f.Info(), call).(*types.Func)
	if fn != nil {
		return fn.Origin()
	}
	return nil
}

// IsCallTo reports whether call's callee is fn.
func (f *Func) IsCallTo(call *ast.CallExpr, fn *types.Func) bool {
	return fn != nil && f.Callee(call) == fn.Origin()
}

// CallsIn returns the calls to fn syntactically inside n, not descending into function literals
// unless deep is set. Source order.
func (f *Func) CallsIn(n ast.Node, fn *types.Func, deep bool) []*ast.CallExpr {
	var out []*ast.CallExpr
	visit := func(x ast.Node) {
		if c, ok := x.(*ast.CallExpr); ok && f.IsCallTo(c, fn) {
			out = append(out, c)
		}
	}
	if deep {
		ast.Inspect(n, func(x ast.Node) bool {
			if x != nil {
				visit(x)
			}
			return true
		})
	} else {
		inspectNoLit(n, visit)
	}
	return out
}

// AllCalls returns every call expression in n (not inside literals unless deep).
func (f *Func) AllCalls(n ast.Node, deep bool) []*ast.CallExpr {
	var out []*ast.CallExpr
	visit := func(x ast.Node) {
		if c, ok := x.(*ast.CallExpr); ok {
			out = append(out, c)
		}
	}
	if deep {
		ast.Inspect(n, func(x ast.Node) bool {
			if x != nil {
				visit(x)
			}
			return true
		})
	} else {
		inspectNoLit(n, visit)
	}
	return out
}

// ContainsCall reports whether n (outside literals) contains a call to fn.
func (f *Func) ContainsCall(n ast.Node, fn *types.Func) bool {
	return len(f.CallsIn(n, fn, false)) > 0
}

// ObjOf resolves an identifier or selector expression to the object it denotes (variable, field,
// function, constant), or nil.
func (f *Func) ObjOf(e ast.Expr) types.Object {
	switch x := ast.Unparen(e).(type) {
	case *ast.Ident:
		if o := f.Info().Uses[x]; o != nil {
			return o
		}
		return f.Info().Defs[x]
	case *ast.SelectorExpr:
		if s, ok := f.Info().Selections[x]; ok {
			return s.Obj()
		}
		return f.Info().Uses[x.Sel]
	}
	return nil
}

// IsField reports whether e is a selector denoting the struct field fld.
func (f *Func) IsField(e ast.Expr, fld *types.Var) bool {
	if fld == nil {
		return false
	}
	s, ok := ast.Unparen(e).(*ast.SelectorExpr)
	if !ok {
		return false
	}
	o := f.ObjOf(s)
	if v, ok := o.(*types.Var); ok {
		return v.Origin() == fld.Origin()
	}
	return false
}

// IsVar reports whether e is an identifier denoting v.
func (f *Func) IsVar(e ast.Expr, v types.Object) bool {
	id, ok := ast.Unparen(e).(*ast.Ident)
	return ok && v != nil && f.ObjOf(id) == v
}

// Mentions reports whether obj is referenced anywhere in n (including inside literals).
func (f *Func) Mentions(n ast.Node, obj types.Object) bool {
	found := false
	ast.Inspect(n, func(x ast.Node) bool {
		if found || x == nil {
			return false
		}
		switch y := x.(type) {
		case *ast.Ident:
			if o := f.Info().Uses[y]; o != nil && sameObj(o, obj) {
				found = true
			}
		}
		return true
	})
	return found
}

func sameObj(a, b types.Object) bool {
	if a == b {
		return true
	}
	av, ok1 := a.(*types.Var)
	bv, ok2 := b.(*types.Var)
	if ok1 && ok2 {
		return av.Origin() == bv.Origin()
	}
	af, ok1 := a.(*types.Func)
	bf, ok2 := b.(*types.Func)
	if ok1 && ok2 {
		return af.Origin() == bf.Origin()
	}
	return false
}

// FieldRefs returns the selector expressions in n that denote field fld (deep: also inside literals).
func (f *Func) FieldRefs(n ast.Node, fld *types.Var, deep bool) []*ast.SelectorExpr {
	var out []*ast.SelectorExpr
	visit := func(x ast.Node) {
		if s, ok := x.(*ast.SelectorExpr); ok && f.IsField(s, fld) {
			out = append(out, s)
		}
	}
	if deep {
		ast.Inspect(n, func(x ast.Node) bool {
			if x != nil {
				visit(x)
			}
			return true
		})
	} else {
		inspectNoLit(n, visit)
	}
	return out
}

// ConstVal returns the constant value of e, if any.
func (f *Func) ConstVal(e ast.Expr) constant.Value {
	if tv, ok := f.Info().Types[e]; ok {
		return tv.Value
	}
	return nil
}

// ConstString returns the string constant value of e ("" , false if not a string constant).
func (f *Func) ConstString(e ast.Expr) (string, bool) {
	v := f.ConstVal(e)
	if v == nil || v.Kind() != constant.String {
		return "", false
	}
	return constant.StringVal(v), true
}

// ConstInt returns the integer constant value of e.
func (f *Func) ConstInt(e ast.Expr) (int64, bool) {
	v := f.ConstVal(e)
	if v == nil || v.Kind() != constant.Int {
		return 0, false
	}
	i, ok := constant.Int64Val(v)
	return i, ok
}

func isNilIdent(e ast.Expr) bool {
	id, ok := ast.Unparen(e).(*ast.Ident)
	return ok && id.Name == "nil"
}

// NilTest decomposes `x == nil` / `x != nil` (either operand order): returns x and whether the
// expression is true when x is nil.
func NilTest(e ast.Expr) (x ast.Expr, trueWhenNil bool, ok bool) {
	b, isB := ast.Unparen(e).(*ast.BinaryExpr)
	if !isB || (b.Op != token.EQL && b.Op != token.NEQ) {
		return nil, false, false
	}
	switch {
	case isNilIdent(b.Y):
		return b.X, b.Op == token.EQL, true
	case isNilIdent(b.X):
		return b.Y, b.Op == token.EQL, true
	}
	return nil, false, false
}

// AtomSaysNil reports whether atom a establishes "match(x) is nil" (wantNil) or non-nil.
func AtomSaysNil(a Atom, wantNil bool, match func(ast.Expr) bool) bool {
	x, twn, ok := NilTest(a.E)
	if !ok || !match(x) {
		return false
	}
	isNil := twn == a.Val
	return isNil == wantNil
}

// Assigns lists assignment-like writes inside n: for each LHS expression the statement that writes it.
type Write struct {
	LHS  ast.Expr
	RHS  ast.Expr // nil when not 1:1 (tuple call, range, inc/dec)
	Stmt ast.Node
	Tok  token.Token
}

// Writes collects writes in n: assignments, define, inc/dec, range key/value (deep: include literals).
func Writes(n ast.Node, deep bool) []Write {
	var out []Write
	visit := func(x ast.Node) {
		switch s := x.(type) {
		case *ast.AssignStmt:
			for i, l := range s.Lhs {
				var r ast.Expr
				if len(s.Rhs) == len(s.Lhs) {
					r = s.Rhs[i]
				}
				out = append(out, Write{l, r, s, s.Tok})
			}
		case *ast.IncDecStmt:
			out = append(out, Write{s.X, nil, s, s.Tok})
		case *ast.RangeStmt:
			if s.Key != nil {
				out = append(out, Write{s.Key, nil, s, s.Tok})
			}
			if s.Value != nil {
				out = append(out, Write{s.Value, nil, s, s.Tok})
			}
		case *ast.ValueSpec:
			for i, nm := range s.Names {
				var r ast.Expr
				if len(s.Values) == len(s.Names) {
					r = s.Values[i]
				}
				out = append(out, Write{nm, r, s, token.DEFINE})
			}
		}
	}
	if deep {
		ast.Inspect(n, func(x ast.Node) bool {
			if x != nil {
				visit(x)
			}
			return true
		})
	} else {
		inspectNoLit(n, visit)
	}
	return out
}

// builtinCall returns the name of the builtin called (delete, append, clear, close, len, ...) or "".
func (f *Func) BuiltinName(call *ast.CallExpr) string {
	id, ok := ast.Unparen(call.Fun).(*ast.Ident)
	if !ok {
		return ""
	}
	if b, ok := f.Info().Uses[id].(*types.Builtin); ok {
		return b.Name()
	}
	return ""
}

// FieldWrites returns every node in n that mutates field fld: assignment/inc-dec to the field or to
// an element of it, delete(x.fld, ..), clear(x.fld), x.fld = append(x.fld, ..). deep: include literals.
func (f *Func) FieldWrites(n ast.Node, fld *types.Var, deep bool) []ast.Node {
	var out []ast.Node
	base := func(e ast.Expr) ast.Expr { // strip index/star
		for {
			switch x := ast.Unparen(e).(type) {
			case *ast.IndexExpr:
				e = x.X
			case *ast.StarExpr:
				e = x.X
			default:
				return ast.Unparen(e)
			}
		}
	}
	for _, w := range Writes(n, deep) {
		if f.IsField(base(w.LHS), fld) {
			out = append(out, w.Stmt)
		}
	}
	for _, c := range f.AllCalls(n, deep) {
		switch f.BuiltinName(c) {
		case "delete", "clear":
			if len(c.Args) > 0 && f.IsField(base(c.Args[0]), fld) {
				out = append(out, c)
			}
		}
	}
	return dedupNodes(out)
}

func dedupNodes(ns []ast.Node) []ast.Node {
	seen := map[ast.Node]bool{}
	var out []ast.Node
	for _, n := range ns {
		if !seen[n] {
			seen[n] = true
			out = append(out, n)
		}
	}
	return out
}

// UnaryNot strips a leading ! and reports it.
func stripNot(e ast.Expr) (ast.Expr, bool) {
	e = ast.Unparen(e)
	if u, ok := e.(*ast.UnaryExpr); ok && u.Op == token.NOT {
		return ast.Unparen(u.X), true
	}
	return e, false
}

// exprStr is types.ExprString.
func exprStr(e ast.Expr) string {
	if e == nil {
		return "<nil>"
	}
	return types.ExprString(e)
}

// LitArgOf returns the literal *Func passed as argument i (or any argument if i<0) of call.
func (f *Func) LitArg(call *ast.CallExpr, i int) *Func {
	for j, a := range call.Args {
		if i >= 0 && j != i {
			continue
		}
		if l, ok := ast.Unparen(a).(*ast.FuncLit); ok {
			return f.Root().LitFor(l)
		}
	}
	return nil
}

// namedOf returns the named type behind t (through pointers), or nil.
func namedOf(t types.Type) *types.Named {
	for {
		switch x := t.(type) {
		case *types.Pointer:
			t = x.Elem()
		case *types.Named:
			return x
		case *types.Alias:
			t = types.Unalias(x)
		default:
			return nil
		}
	}
}

// TypeOf returns the type of an expression.
func (f *Func) TypeOf(e ast.Expr) types.Type { return f.Info().TypeOf(e) }

// Defines reports whether obj is defined (:= / var) inside n.
func (f *Func) Defines(n ast.Node, obj types.Object) bool {
	found := false
	ast.Inspect(n, func(x ast.Node) bool {
		if id, ok := x.(*ast.Ident); ok && obj != nil && f.Info().Defs[id] == obj {
			found = true
		}
		return !found
	})
	return found
}

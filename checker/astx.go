package main

import (
	"go/ast"
	"go/constant"
	"go/token"
	"go/types"

	"golang.org/x/tools/go/types/typeutil"
)

// Callee resolves the static callee of a call (function, method, or interface method), origin of
// generic instances. nil for calls of function values.
func (f *Func) Callee(call *ast.CallExpr) *types.Func {
	fn, _ := typeutil.Callee(f.Info(), call).(*types.Func)
	if fn != nil {
		return fn.Origin()
	}
	return nil
}

// IsCallTo reports whether call's callee is fn.
func (f *Func) IsCallTo(call *ast.CallExpr, fn *types.Func) bool {
	return fn != nil && f.Callee(call) == fn.Origin()
}

// CallsIn returns the calls to fn syntactically inside n, not descending into function literals
// unless deep is set. Source order.
func (f *Func) CallsIn(n ast.Node, fn *types.Func, deep bool) []*ast.CallExpr {
	var out []*ast.CallExpr
	visit := func(x ast.Node) {
		if c, ok := x.(*ast.CallExpr); ok && f.IsCallTo(c, fn) {
			out = append(out, c)
		}
	}
	if deep {
		ast.Inspect(n, func(x ast.Node) bool {
			if x != nil {
				visit(x)
			}
			return true
		})
	} else {
		inspectNoLit(n, visit)
	}
	return out
}

// AllCalls returns every call expression in n (not inside literals unless deep).
func (f *Func) AllCalls(n ast.Node, deep bool) []*ast.CallExpr {
	var out []*ast.CallExpr
	visit := func(x ast.Node) {
		if c, ok := x.(*ast.CallExpr); ok {
			out = append(out, c)
		}
	}
	if deep {
		ast.Inspect(n, func(x ast.Node) bool {
			if x != nil {
				visit(x)
			}
			return true
		})
	} else {
		inspectNoLit(n, visit)
	}
	return out
}

// ContainsCall reports whether n (outside literals) contains a call to fn.
func (f *Func) ContainsCall(n ast.Node, fn *types.Func) bool {
	return len(f.CallsIn(n, fn, false)) > 0
}

// ObjOf resolves an identifier or selector expression to the object it denotes (variable, field,
// function, constant), or nil.
func (f *Func) ObjOf(e ast.Expr) types.Object {
	switch x := ast.Unparen(e).(type) {
	case *ast.Ident:
		if o := f.Info().Uses[x]; o != nil {
			return o
		}
		return f.Info().Defs[x]
	case *ast.SelectorExpr:
		if s, ok := f.Info().Selections[x]; ok {
			return s.Obj()
		}
		return f.Info().Uses[x.Sel]
	}
	return nil
}

// IsField reports whether e is a selector denoting the struct field fld.
func (f *Func) IsField(e ast.Expr, fld *types.Var) bool {
	if fld == nil {
		return false
	}
	s, ok := ast.Unparen(e).(*ast.SelectorExpr)
	if !ok {
		return false
	}
	o := f.ObjOf(s)
	if v, ok := o.(*types.Var); ok {
		return v.Origin() == fld.Origin()
	}
	return false
}

// IsVar reports whether e is an identifier denoting v.
func (f *Func) IsVar(e ast.Expr, v types.Object) bool {
	id, ok := ast.Unparen(e).(*ast.Ident)
	return ok && v != nil && f.ObjOf(id) == v
}

// Mentions reports whether obj is referenced anywhere in n (including inside literals).
func (f *Func) Mentions(n ast.Node, obj types.Object) bool {
	found := false
	ast.Inspect(n, func(x ast.Node) bool {
		if found || x == nil {
			return false
		}
		switch y := x.(type) {
		case *ast.Ident:
			if o := f.Info().Uses[y]; o != nil && sameObj(o, obj) {
				found = true
			}
		}
		return true
	})
	return found
}

func sameObj(a, b types.Object) bool {
	if a == b {
		return true
	}
	av, ok1 := a.(*types.Var)
	bv, ok2 := b.(*types.Var)
	if ok1 && ok2 {
		return av.Origin() == bv.Origin()
	}
	af, ok1 := a.(*types.Func)
	bf, ok2 := b.(*types.Func)
	if ok1 && ok2 {
		return af.Origin() == bf.Origin()
	}
	return false
}

// FieldRefs returns the selector expressions in n that denote field fld (deep: also inside literals).
func (f *Func) FieldRefs(n ast.Node, fld *types.Var, deep bool) []*ast.SelectorExpr {
	var out []*ast.SelectorExpr
	visit := func(x ast.Node) {
		if s, ok := x.(*ast.SelectorExpr); ok && f.IsField(s, fld) {
			out = append(out, s)
		}
	}
	if deep {
		ast.Inspect(n, func(x ast.Node) bool {
			if x != nil {
				visit(x)
			}
			return true
		})
	} else {
		inspectNoLit(n, visit)
	}
	return out
}

// ConstVal returns the constant value of e, if any.
func (f *Func) ConstVal(e ast.Expr) constant.Value {
	if tv, ok := f.Info().Types[e]; ok {
		return tv.Value
	}
	return nil
}

// ConstString returns the string constant value of e ("" , false if not a string constant).
func (f *Func) ConstString(e ast.Expr) (string, bool) {
	v := f.ConstVal(e)
	if v == nil || v.Kind() != constant.String {
		return "", false
	}
	return constant.StringVal(v), true
}

// ConstInt returns the integer constant value of e.
func (f *Func) ConstInt(e ast.Expr) (int64, bool) {
	v := f.ConstVal(e)
	if v == nil || v.Kind() != constant.Int {
		return 0, false
	}
	i, ok := constant.Int64Val(v)
	return i, ok
}

func isNilIdent(e ast.Expr) bool {
	id, ok := ast.Unparen(e).(*ast.Ident)
	return ok && id.Name == "nil"
}

// NilTest decomposes `x == nil` / `x != nil` (either operand order): returns x and whether the
// expression is true when x is nil.
func NilTest(e ast.Expr) (x ast.Expr, trueWhenNil bool, ok bool) {
	b, isB := ast.Unparen(e).(*ast.BinaryExpr)
	if !isB || (b.Op != token.EQL && b.Op != token.NEQ) {
		return nil, false, false
	}
	switch {
	case isNilIdent(b.Y):
		return b.X, b.Op == token.EQL, true
	case isNilIdent(b.X):
		return b.Y, b.Op == token.EQL, true
	}
	return nil, false, false
}

// AtomSaysNil reports whether atom a establishes "match(x) is nil" (wantNil) or non-nil.
func AtomSaysNil(a Atom, wantNil bool, match func(ast.Expr) bool) bool {
	x, twn, ok := NilTest(a.E)
	if !ok || !match(x) {
		return false
	}
	isNil := twn == a.Val
	return isNil == wantNil
}

// Assigns lists assignment-like writes inside n: for each LHS expression the statement that writes it.
type Write struct {
	LHS  ast.Expr
	RHS  ast.Expr // nil when not 1:1 (tuple call, range, inc/dec)
	Stmt ast.Node
	Tok  token.Token
}

// Writes collects writes in n: assignments, define, inc/dec, range key/value (deep: include literals).
func Writes(n ast.Node, deep bool) []Write {
	var out []Write
	visit := func(x ast.Node) {
		switch s := x.(type) {
		case *ast.AssignStmt:
			for i, l := range s.Lhs {
				var r ast.Expr
				if len(s.Rhs) == len(s.Lhs) {
					r = s.Rhs[i]
				}
				out = append(out, Write{l, r, s, s.Tok})
			}
		case *ast.IncDecStmt:
			out = append(out, Write{s.X, nil, s, s.Tok})
		case *ast.RangeStmt:
			if s.Key != nil {
				out = append(out, Write{s.Key, nil, s, s.Tok})
			}
			if s.Value != nil {
				out = append(out, Write{s.Value, nil, s, s.Tok})
			}
		case *ast.ValueSpec:
			for i, nm := range s.Names {
				var r ast.Expr
				if len(s.Values) == len(s.Names) {
					r = s.Values[i]
				}
				out = append(out, Write{nm, r, s, token.DEFINE})
			}
		}
	}
	if deep {
		ast.Inspect(n, func(x ast.Node) bool {
			if x != nil {
				visit(x)
			}
			return true
		})
	} else {
		inspectNoLit(n, visit)
	}
	return out
}

// builtinCall returns the name of the builtin called (delete, append, clear, close, len, ...) or "".
func (f *Func) BuiltinName(call *ast.CallExpr) string {
	id, ok := ast.Unparen(call.Fun).(*ast.Ident)
	if !ok {
		return ""
	}
	if b, ok := f.Info().Uses[id].(*types.Builtin); ok {
		return b.Name()
	}
	return ""
}

// FieldWrites returns every node in n that mutates field fld: assignment/inc-dec to the field or to
// an element of it, delete(x.fld, ..), clear(x.fld), x.fld = append(x.fld, ..). deep: include literals.
func (f *Func) FieldWrites(n ast.Node, fld *types.Var, deep bool) []ast.Node {
	var out []ast.Node
	base := func(e ast.Expr) ast.Expr { // strip index/star
		for {
			switch x := ast.Unparen(e).(type) {
			case *ast.IndexExpr:
				e = x.X
			case *ast.StarExpr:
				e = x.X
			default:
				return ast.Unparen(e)
			}
		}
	}
	for _, w := range Writes(n, deep) {
		if f.IsField(base(w.LHS), fld) {
			out = append(out, w.Stmt)
		}
	}
	for _, c := range f.AllCalls(n, deep) {
		switch f.BuiltinName(c) {
		case "delete", "clear":
			if len(c.Args) > 0 && f.IsField(base(c.Args[0]), fld) {
				out = append(out, c)
			}
		}
	}
	return dedupNodes(out)
}

func dedupNodes(ns []ast.Node) []ast.Node {
	seen := map[ast.Node]bool{}
	var out []ast.Node
	for _, n := range ns {
		if !seen[n] {
			seen[n] = true
			out = append(out, n)
		}
	}
	return out
}

// UnaryNot strips a leading ! and reports it.
func stripNot(e ast.Expr) (ast.Expr, bool) {
	e = ast.Unparen(e)
	if u, ok := e.(*ast.UnaryExpr); ok && u.Op == token.NOT {
		return ast.Unparen(u.X), true
	}
	return e, false
}

// exprStr is types.ExprString.
func exprStr(e ast.Expr) string {
	if e == nil {
		return "<nil>"
	}
	return types.ExprString(e)
}

// LitArgOf returns the literal *Func passed as argument i (or any argument if i<0) of call.
func (f *Func) LitArg(call *ast.CallExpr, i int) *Func {
	for j, a := range call.Args {
		if i >= 0 && j != i {
			continue
		}
		if l, ok := ast.Unparen(a).(*ast.FuncLit); ok {
			return f.Root().LitFor(l)
		}
	}
	return nil
}

// namedOf returns the named type behind t (through pointers), or nil.
func namedOf(t types.Type) *types.Named {
	for {
		switch x := t.(type) {
		case *types.Pointer:
			t = x.Elem()
		case *types.Named:
			return x
		case *types.Alias:
			t = types.Unalias(x)
		default:
			return nil
		}
	}
}

// TypeOf returns the type of an expression.
func (f *Func) TypeOf(e ast.Expr) types.Type { return f.Info().TypeOf(e) }

// Defines reports whether obj is defined (:= / var) inside n.
func (f *Func) Defines(n ast.Node, obj types.Object) bool {
	found := false
	ast.Inspect(n, func(x ast.Node) bool {
		if id, ok := x.(*ast.Ident); ok && obj != nil && f.Info().Defs[id] == obj {
			found = true
		}
		return !found
	})
	return found
}

// ---- name-independent lookups (rules must survive renaming of locals and parameters) -------------

// isContextType reports whether t is context.Context.
func isContextType(t types.Type) bool {
	n := namedOf(t)
	return n != nil && n.Obj().Pkg() != nil && n.Obj().Pkg().Path() == "context" && n.Obj().Name() == "Context"
}

// isNamedType reports whether t (through pointers) is the named type pkgPath.name.
func isNamedType(t types.Type, pkgPath, name string) bool {
	n := namedOf(t)
	return n != nil && n.Obj().Pkg() != nil && n.Obj().Pkg().Path() == pkgPath && n.Obj().Name() == name
}

// ParamWhere returns the first parameter (receiver included) whose type satisfies pred.
func (f *Func) ParamWhere(pred func(types.Type) bool) *types.Var {
	for _, p := range f.Params() {
		if pred(p.Type()) {
			return p
		}
	}
	return nil
}

// CtxParam returns the context.Context parameter of f (or of an enclosing function).
func (f *Func) CtxParam() *types.Var {
	for p := f; p != nil; p = p.Parent {
		if v := p.ParamWhere(isContextType); v != nil {
			return v
		}
	}
	return nil
}

// ParamOfNamed returns the parameter of named type (pointer or not) rel.name, rel being an SDK-relative package path.
func (f *Func) ParamOfNamed(rel, name string) *types.Var {
	return f.ParamWhere(func(t types.Type) bool { return isNamedType(t, modPath+"/"+rel, name) })
}

// NonRecvParams returns the parameters without the receiver.
func (f *Func) NonRecvParams() []*types.Var {
	ps := f.Params()
	if f.Recv() != nil && len(ps) > 0 {
		return ps[1:]
	}
	return ps
}

// VarFromCallWhere returns the object bound to result #i of the first call in f's own body satisfying pred
// (`a, b := call(...)`, `a, b = call(...)`, also in if/switch initialisers); nil if none.
func (f *Func) VarFromCallWhere(pred func(*ast.CallExpr) bool, i int) types.Object {
	var out types.Object
	inspectNoLit(f.Body, func(n ast.Node) {
		if out != nil {
			return
		}
		var lhs []ast.Expr
		var rhs []ast.Expr
		switch s := n.(type) {
		case *ast.AssignStmt:
			lhs, rhs = s.Lhs, s.Rhs
		case *ast.ValueSpec:
			for _, nm := range s.Names {
				lhs = append(lhs, nm)
			}
			rhs = s.Values
		default:
			return
		}
		if len(rhs) != 1 || i >= len(lhs) {
			return
		}
		if ce, ok := ast.Unparen(rhs[0]).(*ast.CallExpr); ok && pred(ce) {
			out = f.ObjOf(lhs[i])
		}
	})
	return out
}

// VarFromCall: result #i of a call to callee.
func (f *Func) VarFromCall(callee *types.Func, i int) types.Object {
	return f.VarFromCallWhere(func(ce *ast.CallExpr) bool { return f.IsCallTo(ce, callee) }, i)
}

// VarFromCallNamed: result #i of a call to a function or method with the given (unqualified) name.
func (f *Func) VarFromCallNamed(name string, i int) types.Object {
	return f.VarFromCallWhere(func(ce *ast.CallExpr) bool { fn := f.Callee(ce); return fn != nil && fn.Name() == name }, i)
}

// NamedResult returns the object of the i-th named result of f (nil if unnamed).
func (f *Func) NamedResult(i int) types.Object {
	if f.Type.Results == nil {
		return nil
	}
	k := 0
	for _, fld := range f.Type.Results.List {
		for _, nm := range fld.Names {
			if k == i {
				return f.Info().Defs[nm]
			}
			k++
		}
		if len(fld.Names) == 0 {
			k++
		}
	}
	return nil
}

// IsObjExpr reports whether e is an identifier (possibly parenthesised) denoting obj.
func (f *Func) IsObjExpr(e ast.Expr, obj types.Object) bool {
	return obj != nil && e != nil && f.ObjOf(e) == obj
}

// SelectorOn decomposes x.Sel where x denotes obj; returns the selected name.
func (f *Func) SelectorOn(e ast.Expr, obj types.Object) (string, bool) {
	s, ok := ast.Unparen(e).(*ast.SelectorExpr)
	if !ok || obj == nil || f.ObjOf(s.X) != obj {
		return "", false
	}
	return s.Sel.Name, true
}

// FieldPath renders a selector chain with its root replaced by the root's type, e.g. c.opts.Logger →
// "Client.opts.Logger"; used to describe expressions independently of variable names.
func (f *Func) FieldPath(e ast.Expr) string {
	e = ast.Unparen(e)
	switch x := e.(type) {
	case *ast.SelectorExpr:
		if fld, ok := f.ObjOf(x).(*types.Var); ok && fld.IsField() {
			if inner, ok := ast.Unparen(x.X).(*ast.SelectorExpr); ok {
				return f.FieldPath(inner) + "." + x.Sel.Name
			}
			if n := namedOf(f.TypeOf(x.X)); n != nil {
				return n.Obj().Name() + "." + x.Sel.Name
			}
			return "?." + x.Sel.Name
		}
		return exprStr(e)
	case *ast.CallExpr:
		if fn := f.Callee(x); fn != nil {
			if fn.Pkg() != nil && fn.Pkg().Path() == "context" && fn.Name() == "Done" {
				return "context.Done()"
			}
			if r := fn.Type().(*types.Signature).Recv(); r != nil && namedOf(r.Type()) != nil {
				return namedOf(r.Type()).Obj().Name() + "." + fn.Name() + "()"
			}
			return fn.Name() + "()"
		}
	case *ast.Ident:
		if v, ok := f.ObjOf(x).(*types.Var); ok {
			return "local(" + types.TypeString(v.Type(), func(p *types.Package) string { return p.Name() }) + ")"
		}
	}
	return exprStr(e)
}

// encloses reports whether inner is a node of outer's subtree (by identity; source positions are
// not used because normalised comparisons have mirrored operand positions).
func encloses(outer, inner ast.Node) bool {
	found := false
	ast.Inspect(outer, func(m ast.Node) bool {
		if m == inner {
			found = true
		}
		return !found
	})
	return found
}

// ConstBool: the value of a boolean constant expression.
func (f *Func) ConstBool(e ast.Expr) (bool, bool) {
	v := f.ConstVal(e)
	if v == nil || v.Kind() != constant.Bool {
		return false, false
	}
	return constant.BoolVal(v), true
}

// addressTaken: &obj occurs somewhere in the function (literals included).
func (f *Func) addressTaken(obj types.Object) bool {
	found := false
	ast.Inspect(f.Body, func(n ast.Node) bool {
		if u, ok := n.(*ast.UnaryExpr); ok && u.Op == token.AND {
			if id, ok := ast.Unparen(u.X).(*ast.Ident); ok && f.ObjOf(id) == obj {
				found = true
			}
		}
		return !found
	})
	return found
}

// valueOf: what a local variable stands for where it is read: a local that is written exactly once (a declaration without
// value aside) and whose address is never taken is its defining expression; anything else is returned as it stands.
func (f *Func) valueOf(e ast.Expr) ast.Expr {
	id, ok := ast.Unparen(e).(*ast.Ident)
	if !ok {
		return e
	}
	v, ok := f.ObjOf(id).(*types.Var)
	if !ok || v.IsField() || v.Pkg() == nil || v.Parent() == v.Pkg().Scope() || f.Root().addressTaken(v) {
		return e
	}
	var def ast.Expr
	n := 0
	for _, w := range Writes(f.Root().Body, true) {
		if f.ObjOf(w.LHS) != types.Object(v) {
			continue
		}
		if w.RHS == nil && w.Tok == token.DEFINE {
			if _, isVS := w.Stmt.(*ast.ValueSpec); isVS {
				continue
			}
		}
		n++
		def = w.RHS
	}
	if n == 1 && def != nil {
		return def
	}
	return e
}

// emptySlice: e evaluates to a slice without elements. nonNil: it is also not nil (an empty literal or make(T, 0[, cap])),
// which is what encodes as [] rather than null.
func (f *Func) emptySlice(e ast.Expr) (empty, nonNil bool) {
	if e == nil {
		return false, false
	}
	e = ast.Unparen(e)
	if isNilIdent(e) {
		return true, false
	}
	switch y := e.(type) {
	case *ast.CompositeLit:
		if _, isSl := f.TypeOf(y).Underlying().(*types.Slice); isSl && len(y.Elts) == 0 {
			return true, true
		}
	case *ast.CallExpr:
		if f.BuiltinName(y) == "make" && len(y.Args) >= 2 {
			if _, isSl := f.TypeOf(y).Underlying().(*types.Slice); isSl {
				if z, ok := f.ConstInt(y.Args[1]); ok && z == 0 {
					return true, true
				}
			}
		}
		if len(y.Args) == 1 && isNilIdent(y.Args[0]) {
			if tv, ok := f.Info().Types[y.Fun]; ok && tv.IsType() {
				return true, false // []T(nil)
			}
		}
	}
	return false, false
}

// insideLoop: n stands in the body of a for or range statement of this function.
func (f *Func) insideLoop(n ast.Node) bool {
	return f.Enclosing(n, func(x ast.Node) bool {
		switch x.(type) {
		case *ast.ForStmt, *ast.RangeStmt:
			return true
		}
		return false
	}) != nil
}

// isTypeSwitchVar: obj is the variable a type switch binds in one of its clauses (`switch v := x.(type) { case T: … v … }`).
func (f *Func) isTypeSwitchVar(obj types.Object) bool {
	found := false
	ast.Inspect(f.Body, func(n ast.Node) bool {
		if cc, ok := n.(*ast.CaseClause); ok {
			if o := f.Info().Implicits[cc]; o != nil && o == obj {
				found = true
			}
		}
		return !found
	})
	return found
}
